(* C03 - theorems over arbitrary OPERATION sequences (forward with any flags and inputs, clear, train/eval) and
   corollaries of the refractory-window theorem (minimum inter-spike interval), plus a whole-history theorem
   for the leaky integrators with a fixed threshold (LIF, GLIF1): a drive whose steady state is below the
   threshold never produces a spike. *)
From Coq Require Import List ZArith Bool Reals Lra Lia.
From Flocq Require Import Core.Raux.
From Inferno Require Import Base.Num Base.NumR Gen.NeuronDynamics Gen.NeuronAdaptation C03.Neuron C03.NeuronSpec
  C03.ThresholdProofs C03.IntegrationProofs C03.NeuronProofs.
Import ListNotations.
Open Scope R_scope.

Section Runs.
Variables (c : cls) (p : params RN).
Hypothesis Hok : ctor_ok RN c p = true.
Let dt := step_time RN p.
Let Rt := refrac_t RN p.

Local Notation bounded := (bounded p).

Lemma all_cells_and P Q cs : all_cells P cs -> all_cells Q cs -> all_cells (fun ce => P ce /\ Q ce) cs.
Proof.
  unfold all_cells. rewrite !Forall_forall. intros HP HQ col Hin. specialize (HP col Hin). specialize (HQ col Hin).
  rewrite Forall_forall in *. intros ce Hce. split; auto.
Qed.
Lemma all_cells_impl (P Q : cell RN -> Prop) cs : (forall ce, P ce -> Q ce) -> all_cells P cs -> all_cells Q cs.
Proof.
  unfold all_cells. intros H. rewrite !Forall_forall. intros HP col Hin. specialize (HP col Hin).
  rewrite Forall_forall in *. intros ce Hce. auto.
Qed.

Lemma Forall_map2_l' {A B C} (f : A -> B -> C) (P : A -> Prop) (Q : C -> Prop) l l' :
  (forall a b, P a -> Q (f a b)) -> Forall P l -> Forall Q (map2 f l l').
Proof. apply Forall_map2_l. Qed.

Lemma step_bounded s o : op_bounded p o -> bounded (cols RN s) -> bounded (cols RN (snd (step RN c p s o))).
Proof.
  intros Hop Hb. destruct o as [a lock xs|keep|m|a|d|v|r|v r a]; cbn [step].
  - destruct (forward RN c p (eff_adapt a (training RN s)) lock (cols RN s) xs) as [sp cs'] eqn:E. cbn [snd cols].
    replace cs' with (snd (forward RN c p (eff_adapt a (training RN s)) lock (cols RN s) xs)) by (rewrite E; reflexivity).
    apply all_cells_and.
    + apply population_refrac_nonneg. exact Hok.
    + apply population_refrac_le; [exact Hok|]. eapply all_cells_impl; [|exact Hb]. cbn. intros ce H; apply H.
  - cbn [snd cols]. unfold bounded, clear, all_cells. rewrite Forall_map. apply Forall_forall. intros col _. cbn [cells].
    rewrite Forall_map. apply Forall_forall. intros ce _. cbn [snd]. pose proof (HRt c p Hok). rn_simpl. lra.
  - exact Hb.
  - cbn [snd cols]. unfold bounded, set_adapt, all_cells in *. eapply Forall_map2_l; [|exact Hb]. intros col arow H. exact H.
  - cbn [snd cols]. unfold bounded, add_adapt, all_cells in *. eapply Forall_map2_l; [|exact Hb]. intros col drow H. exact H.
  - cbn [snd cols]. unfold bounded, set_voltage, all_cells in *. eapply Forall_map2_l; [|exact Hb]. intros col vrow H. cbn [cells].
    eapply Forall_map2_l; [|exact H]. intros ce x Hce. exact Hce.
  - cbn [snd cols]. cbn [op_bounded] in Hop. unfold bounded, set_refrac, all_cells, rows_bounded in *.
    eapply Forall_map2_r; [|exact Hop]. intros col rrow H. cbn [cells].
    eapply Forall_map2_r; [|exact H]. intros ce x Hx. exact Hx.
  - cbn [snd cols]. cbn [op_bounded] in Hop. unfold bounded, load_state, all_cells, rows_bounded in *.
    clear Hb. generalize (cols RN s). intros cs. revert cs v a.
    induction Hop as [|rrow r Hr Hop IH]; intros [|col cs] [|vrow v] [|arow a]; cbn [map4]; try constructor.
    + cbn [cells]. eapply Forall_map2_r; [|exact Hr]. intros x y Hy. exact Hy.
    + apply IH.
Qed.

Lemma init_bounded n b : bounded (cols RN (init RN c p n b)).
Proof.
  unfold bounded, init, all_cells. cbn [cols]. apply Forall_forall. intros col Hin. apply repeat_spec in Hin. subst col.
  cbn [cells]. apply Forall_forall. intros ce Hin. apply repeat_spec in Hin. subst ce. cbn [snd].
  pose proof (HRt c p Hok). rn_simpl. lra.
Qed.

(* REMAINING REFRACTORY TIME over any operation sequence (forward with any flags/inputs, clear, train) started
   from a constructed neuron: always within [0, refrac_t] *)
Theorem run_refrac_bounds :
  forall ops s, Forall (op_bounded p) ops -> bounded (cols RN s) ->
    Forall (fun r => bounded (cols RN (snd r))) (run RN c p s ops).
Proof.
  induction ops as [|o tl IH]; intros s Hops Hb; cbn [run]; constructor; inversion Hops; subst.
  - apply step_bounded; assumption.
  - apply IH; [assumption|]. apply step_bounded; assumption.
Qed.

Theorem run_from_init_refrac_bounds :
  forall n b ops, Forall (op_bounded p) ops ->
    Forall (fun r => bounded (cols RN (snd r))) (run RN c p (init RN c p n b) ops).
Proof. intros. apply run_refrac_bounds; [assumption|apply init_bounded]. Qed.

(* SPIKE ATTRIBUTE over any operation sequence: with refrac_t > 0, after every forward call of every operation
   sequence started from a constructed neuron, the `spike` attribute equals the tensor that call returned *)
Theorem run_spike_attr :
  0 < Rt -> forall ops s, Forall (op_bounded p) ops -> bounded (cols RN s) ->
    Forall (fun r => match fst r with
                     | Some returned => spike_attr RN p (cols RN (snd r)) = returned
                     | None => True
                     end) (run RN c p s ops).
Proof.
  intros HR. induction ops as [|o tl IH]; intros s Hops Hb; cbn [run]; constructor; inversion Hops; subst.
  - destruct o as [a lock xs|keep|m|a|d|v|r|v r a]; cbn [step]; try exact I.
    destruct (forward RN c p (eff_adapt a (training RN s)) lock (cols RN s) xs) as [sp cs'] eqn:E. cbn [fst snd cols].
    pose proof (population_spike_attr_eq_output c p Hok HR (eff_adapt a (training RN s)) lock (cols RN s) xs) as H.
    cbn zeta in H. rewrite E in H. cbn [fst snd] in H. apply H.
    eapply all_cells_impl; [|exact Hb]. cbn. intros ce Hc; apply Hc.
  - apply IH; [assumption|]. apply step_bounded; assumption.
Qed.

Theorem run_from_init_spike_attr :
  0 < Rt -> forall n b ops, Forall (op_bounded p) ops ->
    Forall (fun r => match fst r with
                     | Some returned => spike_attr RN p (cols RN (snd r)) = returned
                     | None => True
                     end) (run RN c p (init RN c p n b) ops).
Proof. intros. apply run_spike_attr; [assumption|assumption|apply init_bounded]. Qed.

(* a list of forward operations runs exactly like fwd_run (link between the operation model and the theorems of
   NeuronProofs, which are stated over fwd_run) *)
Theorem run_forward_ops :
  forall (evs : list (option bool * bool * list (list R))) s,
    map (fun r => (fst r, cols RN (snd r)))
        (run RN c p s (map (fun e => @OpForward RN (fst (fst e)) (snd (fst e)) (snd e)) evs))
    = map (fun r : pres => (Some (fst r), snd r))
        (fwd_run c p (cols RN s) (map (fun e => (eff_adapt (fst (fst e)) (training RN s), snd (fst e), snd e)) evs)).
Proof.
  induction evs as [|[[a lock] xs] tl IH]; intros s; [reflexivity|].
  cbn [map run step fwd_run fst snd].
  destruct (forward RN c p (eff_adapt a (training RN s)) lock (cols RN s) xs) as [sp cs'] eqn:E.
  cbn [fst snd cols map]. f_equal. specialize (IH (mkState (training RN s) cs')). cbn [training cols] in IH. exact IH.
Qed.

(* MINIMUM INTER-SPIKE INTERVAL: two spikes of the same cell are at least max(1, ceil(refrac_t/dt)) steps apart *)
Theorem cell_min_interspike_interval :
  forall ce evs t1 t2 o1 o2, (t1 < t2)%nat ->
    nth_error (cell_run c p ce evs) t1 = Some o1 -> o_spike RN o1 = true ->
    nth_error (cell_run c p ce evs) t2 = Some o2 -> o_spike RN o2 = true ->
    (t1 + window p <= t2)%nat.
Proof.
  intros ce evs t1 t2 o1 o2 Hlt H1 S1 H2 S2.
  destruct (le_lt_dec (t1 + window p) t2) as [|Hc]; [assumption|exfalso].
  replace t2 with (t1 + (t2 - t1))%nat in H2 by lia.
  destruct (cell_refractory_window c p Hok ce evs t1 o1 H1 S1 (t2 - t1)%nat o2 ltac:(lia) H2) as [Hs _].
  congruence.
Qed.

Theorem population_min_interspike_interval :
  forall cs evs i b, cell_at cs i b <> None -> shaped evs i b ->
  forall t1 t2 r1 r2 v1 q1 v2 q2, (t1 < t2)%nat ->
    nth_error (fwd_run c p cs evs) t1 = Some r1 -> obs_at r1 i b = Some (true, v1, q1) ->
    nth_error (fwd_run c p cs evs) t2 = Some r2 -> obs_at r2 i b = Some (true, v2, q2) ->
    (t1 + window p <= t2)%nat.
Proof.
  intros cs evs i b Hce Hsh t1 t2 r1 r2 v1 q1 v2 q2 Hlt H1 O1 H2 O2.
  destruct (le_lt_dec (t1 + window p) t2) as [|Hc]; [assumption|exfalso].
  replace t2 with (t1 + (t2 - t1))%nat in H2 by lia.
  destruct (population_refractory_window c p Hok cs evs i b Hce Hsh t1 (t2 - t1)%nat r1 r2 v1 q1 _ ltac:(lia) H1 O1 H2 O2) as [Hs _].
  discriminate Hs.
Qed.
End Runs.

(* ------------------------------------------------------------------ leaky integrators with a fixed threshold *)
Lemma ctor_ok_lif c p : (c = LIF \/ c = GLIF1) -> ctor_ok RN c p = true ->
  0 < step_time RN p /\ 0 < time_constant RN p /\ rest_v RN p < thresh_v RN p /\ reset_v RN p < thresh_v RN p.
Proof.
  intros Hc H. unfold ctor_ok, ctor_common in H.
  assert (H' : (gtb RN (step_time RN p) (zero RN) && geb RN (refrac_t RN p) (zero RN) && gtb RN (time_constant RN p) (zero RN)
               && neb RN (resistance RN p) (zero RN)) && (ltb RN (rest_v RN p) (thresh_v RN p) && ltb RN (reset_v RN p) (thresh_v RN p)) = true)
    by (destruct Hc; subst c; exact H).
  clear H. repeat (apply andb_prop in H'; destruct H' as [H' ?]).
  apply andb_prop in H. destruct H as [H H3].
  revert H' H H0 H1 H2 H3. rn_unfold. intros.
  repeat match goal with
  | H : Rltb' ?a ?b = true |- _ => destruct (Rltb'_spec a b); [clear H|discriminate]
  end. repeat split; assumption.
Qed.

(* For LIF / GLIF1, any history in which the threshold is the configured one and every input current has its steady
   state rest + R I below the threshold: starting below the threshold the neuron NEVER spikes and its voltage stays
   below the threshold (with or without refrac_lock, whatever the refractory state). *)
Theorem lif_subthreshold_never_spikes :
  forall c p, (c = LIF \/ c = GLIF1) -> ctor_ok RN c p = true ->
  forall evs ce, fst ce < thresh_v RN p ->
    Forall (fun e : cev => snd (fst e) = thresh_v RN p /\ rest_v RN p + resistance RN p * snd e < thresh_v RN p) evs ->
    Forall (fun o => o_spike RN o = false /\ o_v RN o < thresh_v RN p) (cell_run c p ce evs).
Proof.
  intros c p Hc Hok. destruct (ctor_ok_lif c p Hc Hok) as (Hdt & Htau & Hrest & Hreset).
  assert (Hint : forall v x, cls_integ RN c p v x
                 = voltage_integration_linear RN x v (step_time RN p) (time_constant RN p) (rest_v RN p) (resistance RN p))
    by (intros; destruct Hc; subst c; reflexivity).
  induction evs as [|[[lock th] x] tl IH]; intros [v r] Hv HF; cbn [cell_run]; [constructor|].
  inversion HF as [|? ? [Hth Hx] HF']; subst. cbn [fst snd] in *. subst th.
  assert (Hstep : o_spike RN (cls_cell RN c p lock (thresh_v RN p) x (v, r)) = false /\
                  o_v RN (cls_cell RN c p lock (thresh_v RN p) x (v, r)) < thresh_v RN p).
  { rewrite cls_cell_spec. unfold thr_spec, o_spike, o_v.
    pose proof (integration_linear_subthreshold x v _ _ _ _ _ Hdt Htau Hv Hx) as Hsub.
    assert (H0 : rest_v RN p + resistance RN p * 0 < thresh_v RN p) by lra.
    pose proof (integration_linear_subthreshold 0 v _ _ _ _ _ Hdt Htau Hv H0) as Hsub0.
    rewrite !Hint.
    destruct (Rle_dec (r - step_time RN p) 0).
    - destruct (Rle_dec _ _) as [Hle|Hn]; cbn [fst snd]; [lra|]. split; [reflexivity|exact Hsub].
    - cbn [fst snd]. split; [reflexivity|]. destruct lock; cbn [lockv]; [exact Hv|exact Hsub0]. }
  constructor; [exact Hstep|]. apply IH; [|exact HF']. unfold o_cell; cbn [fst]. apply Hstep.
Qed.

(* ------------------------------------------------------------------ adaptation bookkeeping, clear *)
(* without `adapt` (or for a class without adaptation) forward leaves the adaptation state untouched *)
Theorem forward_keeps_adaptation :
  forall c p adapt lock cs xs, (adapt = false \/ has_adaptation c = false) ->
    Forall2 (fun col' col => ad RN col' = ad RN col) (snd (forward RN c p adapt lock cs xs))
            (firstn (length (snd (forward RN c p adapt lock cs xs))) cs).
Proof.
  intros c p adapt lock cs xs H. unfold forward. cbn [snd]. rewrite map_length.
  revert xs. induction cs as [|col cs IH]; intros [|row xs]; cbn [map2 map length firstn]; try constructor.
  - unfold col_forward. cbn [snd ad]. destruct H as [-> | H]; [reflexivity|].
    destruct adapt; [|reflexivity]. destruct c; try discriminate; reflexivity.
  - apply IH.
Qed.

(* clear(): every cell back to (rest_v, 0); adaptations zeroed unless kept *)
Theorem clear_spec :
  forall c p keep cs,
    all_cells (fun ce => ce = (rest_v RN p, 0)) (clear RN c p keep cs) /\
    (has_adaptation c = true -> keep = false ->
       Forall (fun col => Forall (fun a => a = 0) (ad RN col)) (clear RN c p keep cs)) /\
    (keep = true -> map (ad RN) (clear RN c p keep cs) = map (ad RN) cs) /\
    map (fun col => length (cells RN col)) (clear RN c p keep cs) = map (fun col => length (cells RN col)) cs.
Proof.
  intros c p keep cs. unfold clear, all_cells. repeat split.
  - rewrite Forall_map. apply Forall_forall. intros col _. cbn [cells]. rewrite Forall_map.
    apply Forall_forall. intros ce _. reflexivity.
  - intros Ha Hk. rewrite Ha, Hk. cbn [andb negb]. rewrite Forall_map. apply Forall_forall. intros col _. cbn [ad].
    rewrite Forall_map. apply Forall_forall. intros a _. reflexivity.
  - intros ->. rewrite map_map. cbn [ad negb]. rewrite andb_false_r. reflexivity.
  - rewrite map_map. cbn [cells]. apply map_ext. intros col. apply map_length.
Qed.

(* ------------------------------------------------------------------ leaky integrators under a constant drive *)
(* For the four classes with the linear integrator, a cell that is out of its refractory period and receives a
   constant input x under a constant threshold th follows the ANALYTIC solution of the leaky integrator
       u(k) = (v0 - rest - R x) exp(-k dt / tau) + rest + R x
   step by step for as long as u stays below th, without spiking; and it spikes (reset, refrac = refrac_t) at the
   first step k at which u(k) >= th.  So the first-spike time of the model is the analytic threshold-crossing time
   rounded up to the grid. *)
Lemma linear_cls_integ c p v x : linear_cls c ->
  cls_integ RN c p v x
  = voltage_integration_linear RN x v (step_time RN p) (time_constant RN p) (rest_v RN p) (resistance RN p).
Proof. intros [-> | [-> | [-> | ->]]]; reflexivity. Qed.

Lemma lin_u_step p v0 x k :
  voltage_integration_linear RN x (lin_u p v0 x k) (step_time RN p) (time_constant RN p) (rest_v RN p) (resistance RN p)
  = lin_u p v0 x (S k).
Proof.
  unfold lin_u. rewrite integration_linear_formula, S_INR.
  replace (- ((INR k + 1) * step_time RN p) / time_constant RN p)
    with (- (INR k * step_time RN p) / time_constant RN p + - step_time RN p / time_constant RN p) by (unfold Rdiv; ring).
  rewrite exp_plus. rn_simpl. ring.
Qed.

Lemma lin_u_0 p v0 x : lin_u p v0 x 0 = v0.
Proof.
  unfold lin_u. cbn [INR]. replace (- (0 * step_time RN p) / time_constant RN p) with 0 by (unfold Rdiv; ring).
  rewrite exp_0. rn_simpl. ring.
Qed.

Lemma last_cons_default {A} (l : list A) (a d : A) : last (a :: l) d = last l a.
Proof.
  revert a d. induction l as [|b l IH]; intros a d; [reflexivity|].
  change (last (a :: b :: l) d) with (last (b :: l) d). rewrite (IH b d), (IH b a). reflexivity.
Qed.

Theorem linear_constant_drive_run :
  forall c p, linear_cls c -> forall (lock : bool) (th x : R) (n : nat) (v0 r0 : R) (k0 : nat),
    r0 - step_time RN p <= 0 -> 0 < step_time RN p ->
    (forall k, (1 <= k <= n)%nat -> lin_u p v0 x (k0 + k) < th) ->
    cell_run c p (lin_u p v0 x k0, r0) (repeat (lock, th, x) n)
    = map (fun k => (false, lin_u p v0 x (k0 + k), 0)) (seq 1 n).
Proof.
  intros c p Hc lock th x n. induction n as [|n IH]; intros v0 r0 k0 Hr Hdt Hsub; [reflexivity|].
  cbn [repeat cell_run]. rewrite cls_cell_spec. unfold thr_spec.
  destruct (Rle_dec (r0 - step_time RN p) 0) as [_|Hn]; [|contradiction].
  rewrite linear_cls_integ by exact Hc. rewrite lin_u_step.
  assert (H1 : lin_u p v0 x (S k0) < th) by (replace (S k0) with (k0 + 1)%nat by lia; apply Hsub; lia).
  destruct (Rle_dec th (lin_u p v0 x (S k0))) as [Hle|_]; [lra|].
  change (seq 1 (S n)) with (1%nat :: seq 2 n). cbn [map]. replace (k0 + 1)%nat with (S k0) by lia. f_equal.
  unfold o_cell, o_v, o_r. cbn [fst snd].
  transitivity (map (fun k => (false, lin_u p v0 x (S k0 + k), 0)) (seq 1 n)).
  - apply (IH v0 0 (S k0)); [lra | exact Hdt |].
    intros k Hk. replace (S k0 + k)%nat with (k0 + S k)%nat by lia. apply Hsub. lia.
  - rewrite <- (seq_shift n 1), map_map. apply map_ext. intros k. f_equal. f_equal. f_equal. lia.
Qed.

(* ... and the (n+1)-th step spikes when the analytic solution has reached the threshold *)
Theorem linear_first_spike :
  forall c p, linear_cls c -> forall (lock : bool) (th x : R) (n : nat) (v0 r0 : R),
    r0 - step_time RN p <= 0 -> 0 < step_time RN p ->
    (forall k, (1 <= k <= n)%nat -> lin_u p v0 x k < th) -> th <= lin_u p v0 x (S n) ->
    cell_run c p (v0, r0) (repeat (lock, th, x) (S n))
    = map (fun k => (false, lin_u p v0 x k, 0)) (seq 1 n)
      ++ [(true, reset_of c p (lin_u p v0 x (S n)), refrac_t RN p)].
Proof.
  intros c p Hc lock th x n v0 r0 Hr Hdt Hsub Hcross.
  replace (S n) with (n + 1)%nat at 1 by lia. rewrite repeat_app.
  assert (Happ : forall evs1 evs2 ce, cell_run c p ce (evs1 ++ evs2)
            = cell_run c p ce evs1 ++ cell_run c p (last (map (o_cell RN) (cell_run c p ce evs1)) ce) evs2).
  { induction evs1 as [|[[l t] y] tl IH]; intros evs2 ce; [reflexivity|].
    cbn [app cell_run map]. f_equal. rewrite IH. f_equal. f_equal.
    symmetry. apply last_cons_default. }
  rewrite Happ.
  assert (Hrun : cell_run c p (v0, r0) (repeat (lock, th, x) n) = map (fun k => (false, lin_u p v0 x k, 0)) (seq 1 n)).
  { pose proof (linear_constant_drive_run c p Hc lock th x n v0 r0 0 Hr Hdt) as H. rewrite lin_u_0 in H.
    apply H. intros k Hk. cbn [Nat.add]. apply Hsub. exact Hk. }
  rewrite Hrun. f_equal.
  (* the state after n silent steps *)
  assert (Hlast : exists rn, rn - step_time RN p <= 0 /\
            last (map (o_cell RN) (map (fun k => (false, lin_u p v0 x k, 0)) (seq 1 n))) (v0, r0) = (lin_u p v0 x n, rn)).
  { destruct n as [|n].
    - exists r0. split; [exact Hr|]. cbn [seq map last]. rewrite lin_u_0. reflexivity.
    - exists 0. split; [lra|]. rewrite seq_S, !map_app. cbn [map]. rewrite last_last. reflexivity. }
  destruct Hlast as (rn & Hrn & ->).
  cbn [repeat cell_run]. rewrite cls_cell_spec. unfold thr_spec.
  destruct (Rle_dec (rn - step_time RN p) 0) as [_|Hn]; [|contradiction].
  rewrite linear_cls_integ by exact Hc. rewrite lin_u_step.
  destruct (Rle_dec th (lin_u p v0 x (S n))) as [_|Hn]; [reflexivity|contradiction].
Qed.
