(* C03 - the tie of the hand-written class model (C03/Neuron.v) to the definitions GENERATED from the class sources
   (Gen/NeuronApply.v from neuron_adaptation.py: apply_adaptive_currents / apply_adaptive_thresholds;
    Gen/NeuronClasses.v from neurons/linear.py, nonlinear.py, mixins.py: _integrate_v, forward, clear, spike of the
    eight classes, re-translated on every run).  Every piece of the model that mirrors a translated method is proved
   EQUAL to the generated definition, for EVERY numeric instance N (so also for the binary64 instance that is run
   against the implementation): which kernel a class calls, with which arguments in which order, how refrac_lock is
   passed, that the adaptation update reads the voltage / refrac left by the thresholding step, the guard
   `adapt or (adapt is None and self.training)`, what clear() leaves and what `spike` compares.  An edit of the source
   that changes a generated definition breaks these obligations.  Correspondence of attribute names: thresh_eq_v is
   the model's thresh_v, tc_membrane its time_constant, GLIF2's rc_adaptation is stored in tc_adaptation.
   Still hand-written (tied by the correspondence only): the lifting to batch / neuron / adaptation axes (map2 over
   the batch, map3/map4 over K) and the batch mean inside the adaptation setters.  No axioms. *)
From Coq Require Import List ZArith Bool.
From Inferno Require Import Base.Num Gen.NeuronApply C03.Neuron.
Import ListNotations.


(* one file per class (GenTie<Class>.v), so that an edit of one class's methods breaks that class's obligations only *)

Lemma eta3 {A B C} (k : A * B * C) : k = (let '(s, v, r) := k in (s, v, r)).
Proof. destruct k as [[? ?] ?]; reflexivity. Qed.

Lemma map2_ext {A B C} (f g : A -> B -> C) l l' : (forall a b, f a b = g a b) -> map2 f l l' = map2 g l l'.
Proof. intros H. revert l'. induction l as [|a l IH]; intros [|b l']; cbn [map2]; try reflexivity. rewrite H, IH. reflexivity. Qed.

(* ------------------------------------------------------------------ apply_adaptive_* *)
Arguments NeuronApply.apply_adaptive_currents N current adaptations : assert.
Arguments NeuronApply.apply_adaptive_thresholds N threshold adaptations : assert.
Theorem tie_apply_adaptive_currents : forall N current adaptations,
  Neuron.apply_adaptive_currents N current adaptations = NeuronApply.apply_adaptive_currents N current adaptations.
Proof. reflexivity. Qed.
Theorem tie_apply_adaptive_thresholds : forall N threshold adaptations,
  Neuron.apply_adaptive_thresholds N threshold adaptations = NeuronApply.apply_adaptive_thresholds N threshold adaptations.
Proof. reflexivity. Qed.
