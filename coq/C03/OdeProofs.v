(* C03 - the linear integration kernel is the exact solution of the leaky-integrator differential equation
   tau dV/ds = -(V - V_rest) + R I  with V(0) = v (uses Coquelicot's auto_derive; stated with the standard
   library's derivable_pt_lim). *)
From Coq Require Import Reals Lra.
From Coquelicot Require Import Coquelicot.
From Inferno Require Import Base.Num Base.NumR Gen.NeuronDynamics C03.Neuron C03.NeuronSpec C03.IntegrationProofs.
Open Scope R_scope.
Local Notation exp := Rtrigo_def.exp.

Theorem integration_linear_solves_ode :
  forall I v tau rest Rm : R, tau <> 0 ->
    let u := fun s : R => voltage_integration_linear RN I v s tau rest Rm in
    u 0 = v /\ forall s, derivable_pt_lim u s ((- (u s - rest) + Rm * I) / tau).
Proof.
  intros I v tau rest Rm Ht u. split.
  - apply integration_linear_zero_step.
  - intros s. apply is_derive_Reals. subst u.
    apply (is_derive_ext (fun s => (v - rest - Rm * I) * exp (- s / tau) + rest + Rm * I)).
    { intros t. symmetry. apply integration_linear_formula. }
    rewrite integration_linear_formula.
    auto_derive; [exact Logic.I|]. rn_simpl. unfold Rdiv. generalize (exp (- s * / tau)). intros e.
    field. exact Ht.
Qed.
