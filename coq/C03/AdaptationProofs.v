(* C03 - proofs about the GENERATED adaptation kernels: frozen during the absolute refractory period, documented
   update equations outside of it. *)
From Coq Require Import List ZArith Bool Reals Lra Lia.
From Flocq Require Import Core.Raux.
From Inferno Require Import Base.Num Base.NumR Gen.NeuronDynamics Gen.NeuronAdaptation C03.Neuron C03.NeuronSpec C03.NumFacts.
Import ListNotations.
Open Scope R_scope.
Local Notation exp := Rtrigo_def.exp.

(* ------------------------------------------------------------------ Part E: adaptation kernels *)
Local Notation acl := (adaptive_currents_linear RN).
Local Notation atv := (adaptive_thresholds_linear_voltage RN).
Local Notation ats := (adaptive_thresholds_linear_spike RN).

(* during the absolute refractory period (remaining time > 0) the adaptation dynamics are frozen: only the
   post-spike jump is applied *)
Theorem adaptation_frozen_in_refractory :
  forall (a v : R) (s : bool) (dt rest tc vc inc r : R), 0 < r ->
    acl a v s dt rest tc vc inc (Some r) = a + inc * ind s /\
    ats a s dt tc inc (Some r) = a + inc * ind s /\
    (forall ar rr : R, atv a v dt rest ar rr None (Some s) (Some r) = a) /\
    (forall ar rr m : R, atv a v dt rest ar rr (Some m) (Some s) (Some r) = if s then Rmax a m else a).
Proof.
  intros. unfold adaptive_currents_linear, adaptive_thresholds_linear_spike,
    adaptive_thresholds_linear_voltage, ind. repeat split; intros; rewrite ?tmax_RN; rn_unfold;
    destruct (Rltb'_spec 0 r); try lra; destruct s; cbn [negb]; reflexivity.
Qed.

(* outside the refractory period (or without locking) they follow the documented update equations *)
Theorem adaptation_active :
  forall (a v : R) (s : bool) (dt rest tc vc inc : R) (ro : option R), (match ro with Some r => r <= 0 | None => True end) ->
    acl a v s dt rest tc vc inc ro = a + dt / tc * (vc * (v - rest) - a) + inc * ind s /\
    ats a s dt tc inc ro = a * exp (- dt / tc) + inc * ind s /\
    (forall ar rr : R, atv a v dt rest ar rr None (Some s) ro = a + dt * (ar * (v - rest) - rr * a)).
Proof.
  intros. unfold adaptive_currents_linear, adaptive_thresholds_linear_spike,
    adaptive_thresholds_linear_voltage, ind. repeat split; intros; destruct ro as [r|]; rn_unfold;
    try (destruct (Rltb'_spec 0 r); [lra|]); destruct s; reflexivity.
Qed.

(* ---- closed form of the spike-driven threshold adaptation (ALIF / GLIF2, no refractory freezing) ----
   Independent spec: every past spike contributes its increment, decayed by exp(-dt/tau) per step since. *)
Theorem threshold_adaptation_closed_form :
  forall (dt tc inc : R) (ss : list bool) (a : R),
    let lam := exp (- dt / tc) in
    ats_run a ss dt tc inc = a * lam ^ (length ss) + event_sum lam inc ss.
Proof.
  intros dt tc inc ss. induction ss as [|s tl IH]; intros a lam.
  - cbn. ring.
  - cbn [ats_run length event_sum]. rewrite IH.
    destruct (adaptation_active a 0 s dt 0 tc 0 inc None Logic.I) as (_ & E & _). 
    match goal with |- ?x * _ + _ = _ => replace x with (a * exp (- dt / tc) + inc * ind s) by (symmetry; exact E) end.
    subst lam. rn_simpl. cbn [Rpow_def.pow]. generalize (exp (- dt / tc) ^ length tl). intros y. ring.
Qed.

(* ---- the adaptation update of a whole column (all batch samples of one neuron, reduced by the batch mean) ---- *)
Lemma tsum_affine {X} (f : X -> R) (a k : R) (l : list X) :
  tsum RN (map (fun o => a + k * f o) l) = INR (length l) * a + k * tsum RN (map f l).
Proof.
  induction l as [|o l IH]; [cbn [map tsum length INR]; rn_simpl; lra|].
  change (tsum RN (map (fun o => a + k * f o) (o :: l))) with ((a + k * f o) + tsum RN (map (fun o => a + k * f o) l)).
  change (tsum RN (map f (o :: l))) with (f o + tsum RN (map f l)).
  change (length (o :: l)) with (S (length l)). rewrite S_INR, IH. rn_simpl. ring.
Qed.

Lemma batch_mean_affine {X} (f : X -> R) (a k : R) (l : list X) : l <> [] ->
  batch_mean RN (map (fun o => a + k * f o) l) = a + k * batch_mean RN (map f l).
Proof.
  intros Hl. unfold batch_mean. rewrite !map_length, tsum_affine. rn_simpl. rewrite <- INR_IZR_INZ.
  assert (INR (length l) <> 0). { destruct l as [|o l]; [congruence|]. change (length (o :: l)) with (S (length l)). rewrite S_INR. pose proof (pos_INR (length l)). lra. }
  field. assumption.
Qed.

Lemma map3_ext {A B C D} (f g : A -> B -> C -> D) l1 l2 l3 :
  (forall a b c, f a b c = g a b c) -> map3 f l1 l2 l3 = map3 g l1 l2 l3.
Proof.
  intros H. revert l2 l3. induction l1 as [|a l1 IH]; intros [|b l2] [|c l3]; cbn; try reflexivity. rewrite H, IH. reflexivity.
Qed.
Lemma map4_ext {A B C D E} (f g : A -> B -> C -> D -> E) l1 l2 l3 l4 :
  (forall a b c d, f a b c d = g a b c d) -> map4 f l1 l2 l3 l4 = map4 g l1 l2 l3 l4.
Proof.
  intros H. revert l2 l3 l4. induction l1 as [|a l1 IH]; intros [|b l2] [|c l3] [|d l4]; cbn; try reflexivity. rewrite H, IH. reflexivity.
Qed.

(* If, after the step, every batch sample of a neuron is inside its refractory period and refrac_lock is on, the
   neuron's adaptations only receive the post-spike jump, scaled by the fraction of samples that spiked
   (batch mean of the spike indicator) - for all four adaptive classes. *)
Theorem column_adaptation_frozen :
  forall (c : cls) (p : params RN) (a : list R) (outs : list (cellout RN)),
    outs <> [] -> Forall (fun o => 0 < o_r RN o) outs ->
    let rate := batch_mean RN (map (fun o => ind (o_spike RN o)) outs) in
    cls_adapt RN c p true a outs =
    match c with
    | ALIF | GLIF2 => map3 (fun a _ inc => a + inc * rate) a (tc_adaptation RN p) (adapt_increment RN p)
    | Izhikevich | AdEx =>
        map4 (fun a _ _ inc => a + inc * rate) a (tc_adaptation RN p) (adapt_vc_coupling RN p) (adapt_increment RN p)
    | _ => a
    end.
Proof.
  intros c p a outs Hne HF rate.
  assert (E3 : forall (tcf : R -> R),
    map3 (fun a tc inc => batch_mean RN (map (fun o => ats a (o_spike RN o) (step_time RN p) (tcf tc) inc (lockr RN true (o_r RN o))) outs))
         a (tc_adaptation RN p) (adapt_increment RN p)
    = map3 (fun a _ inc => a + inc * rate) a (tc_adaptation RN p) (adapt_increment RN p)).
  { intros tcf. apply map3_ext. intros a0 tc inc. subst rate. rewrite <- batch_mean_affine by exact Hne. f_equal.
    apply map_ext_in. intros o Hin. rewrite Forall_forall in HF. specialize (HF o Hin). cbn [lockr].
    apply (adaptation_frozen_in_refractory a0 0 (o_spike RN o) (step_time RN p) 0 (tcf tc) 0 inc (o_r RN o) HF). }
  assert (E4 :
    map4 (fun a tc vc inc => batch_mean RN (map (fun o => acl a (o_v RN o) (o_spike RN o) (step_time RN p) (rest_v RN p) tc vc inc (lockr RN true (o_r RN o))) outs))
         a (tc_adaptation RN p) (adapt_vc_coupling RN p) (adapt_increment RN p)
    = map4 (fun a _ _ inc => a + inc * rate) a (tc_adaptation RN p) (adapt_vc_coupling RN p) (adapt_increment RN p)).
  { apply map4_ext. intros a0 tc vc inc. subst rate. rewrite <- batch_mean_affine by exact Hne. f_equal.
    apply map_ext_in. intros o Hin. rewrite Forall_forall in HF. specialize (HF o Hin). cbn [lockr].
    apply (adaptation_frozen_in_refractory a0 (o_v RN o) (o_spike RN o) (step_time RN p) (rest_v RN p) tc vc inc (o_r RN o) HF). }
  destruct c; cbn [cls_adapt]; try reflexivity.
  - exact (E3 (fun tc => tc)).
  - unfold adapt_glif2. exact (E3 (fun rc => div RN (one RN) rc)).
  - exact E4.
  - exact E4.
Qed.
