(* C03 - proofs about the GENERATED adaptation kernels: frozen during the absolute refractory period, documented
   update equations outside of it. *)
From Coq Require Import List ZArith Bool Reals Lra Lia.
From Flocq Require Import Core.Raux.
From Inferno Require Import Base.Num Base.NumR Gen.NeuronDynamics Gen.NeuronAdaptation C03.Neuron C03.NeuronSpec C03.ThresholdProofs.
Import ListNotations.
Open Scope R_scope.
Local Notation exp := Rtrigo_def.exp.

(* ------------------------------------------------------------------ Part E: adaptation kernels *)
Local Notation acl := (adaptive_currents_linear RN).
Local Notation atv := (adaptive_thresholds_linear_voltage RN).
Local Notation ats := (adaptive_thresholds_linear_spike RN).

(* during the absolute refractory period (remaining time > 0) the adaptation dynamics are frozen: only the
   post-spike jump is applied *)
Theorem adaptation_frozen_in_refractory :
  forall (a v : R) (s : bool) (dt rest tc vc inc r : R), 0 < r ->
    acl a v s dt rest tc vc inc (Some r) = a + inc * ind s /\
    ats a s dt tc inc (Some r) = a + inc * ind s /\
    (forall ar rr : R, atv a v dt rest ar rr None (Some s) (Some r) = a) /\
    (forall ar rr m : R, atv a v dt rest ar rr (Some m) (Some s) (Some r) = if s then Rmax a m else a).
Proof.
  intros. unfold adaptive_currents_linear, adaptive_thresholds_linear_spike,
    adaptive_thresholds_linear_voltage, ind. repeat split; intros; rewrite ?tmax_RN; rn_unfold;
    destruct (Rltb'_spec 0 r); try lra; destruct s; cbn [negb]; reflexivity.
Qed.

(* outside the refractory period (or without locking) they follow the documented update equations *)
Theorem adaptation_active :
  forall (a v : R) (s : bool) (dt rest tc vc inc : R) (ro : option R), (match ro with Some r => r <= 0 | None => True end) ->
    acl a v s dt rest tc vc inc ro = a + dt / tc * (vc * (v - rest) - a) + inc * ind s /\
    ats a s dt tc inc ro = a * exp (- dt / tc) + inc * ind s /\
    (forall ar rr : R, atv a v dt rest ar rr None (Some s) ro = a + dt * (ar * (v - rest) - rr * a)).
Proof.
  intros. unfold adaptive_currents_linear, adaptive_thresholds_linear_spike,
    adaptive_thresholds_linear_voltage, ind. repeat split; intros; destruct ro as [r|]; rn_unfold;
    try (destruct (Rltb'_spec 0 r); [lra|]); destruct s; reflexivity.
Qed.

(* ---- closed form of the spike-driven threshold adaptation (ALIF / GLIF2, no refractory freezing) ----
   Independent spec: every past spike contributes its increment, decayed by exp(-dt/tau) per step since. *)
Theorem threshold_adaptation_closed_form :
  forall (dt tc inc : R) (ss : list bool) (a : R),
    let lam := exp (- dt / tc) in
    ats_run a ss dt tc inc = a * lam ^ (length ss) + event_sum lam inc ss.
Proof.
  intros dt tc inc ss. induction ss as [|s tl IH]; intros a lam.
  - cbn. ring.
  - cbn [ats_run length event_sum]. rewrite IH.
    destruct (adaptation_active a 0 s dt 0 tc 0 inc None Logic.I) as (_ & E & _). 
    match goal with |- ?x * _ + _ = _ => replace x with (a * exp (- dt / tc) + inc * ind s) by (symmetry; exact E) end.
    subst lam. rn_simpl. cbn [Rpow_def.pow]. generalize (exp (- dt / tc) ^ length tl). intros y. ring.
Qed.
