(* C03 - small facts about the real instance of the numeric signature shared by the proof files. *)
From Coq Require Import Reals Lra.
From Inferno Require Import Base.Num Base.NumR.
Open Scope R_scope.

Lemma tmax_RN a b : tmax RN a b = Rmax a b.
Proof.
  rn_unfold. destruct (Rltb'_spec a b).
  - rewrite Rmax_right; lra.
  - rewrite Rmax_left; lra.
Qed.
