(* C03 - proofs about the class model (C03/Neuron.v) over the reals.
   Part B: one cell (one neuron, one batch sample) of any of the eight classes, driven by an ARBITRARY history of
           thresholds / input currents / refrac_lock flags: refractory-window theorem (silence, locked voltage,
           exact countdown), its tightness, invariants 0 <= refrac <= refrac_t, spike attribute.
   Part C: lift to whole populations: the trajectory of every cell of the population model IS such a cell run
           (the adaptation state only enters through the threshold / input history), hence the theorems hold for
           every neuron and batch sample of every class, with adaptation on or off. *)
From Coq Require Import List ZArith Bool Reals Lra Lia.
From Flocq Require Import Core.Raux.
From Inferno Require Import Base.Num Base.NumR Gen.NeuronDynamics Gen.NeuronAdaptation C03.Neuron C03.NeuronSpec C03.ThresholdProofs.
Import ListNotations.
Open Scope R_scope.

(* ------------------------------------------------------------------ one step of one cell *)

Lemma cls_cell_spec c p lock th x v r :
  cls_cell RN c p lock th x (v, r)
  = thr_spec (reset_of c p) x r (cls_integ RN c p v) (lockv RN lock v) (step_time RN p) th (refrac_t RN p).
Proof.
  destruct c; unfold cls_cell, cell_constant, cell_linear, reset_of; cbn [fst snd];
    first [apply thresholding_constant_spec | apply thresholding_linear_spec].
Qed.

(* the constructors' domains give dt > 0 and refrac_t >= 0 *)
Lemma ctor_ok_domain c p : ctor_ok RN c p = true -> 0 < step_time RN p /\ 0 <= refrac_t RN p.
Proof.
  unfold ctor_ok, ctor_common. intros H.
  repeat (apply andb_prop in H; destruct H as [H ?]).
  revert H H1. rn_unfold. intros.
  destruct (Rltb'_spec 0 (step_time RN p)); [|discriminate].
  destruct (Rleb'_spec 0 (refrac_t RN p)); [|discriminate]. split; assumption.
Qed.

(* ------------------------------------------------------------------ Part B: one cell over time *)

Section Cell.
Variables (c : cls) (p : params RN).
Hypothesis Hok : ctor_ok RN c p = true.
Let dt := step_time RN p.
Let Rt := refrac_t RN p.

Lemma Hdt : 0 < dt. Proof. apply (ctor_ok_domain c p Hok). Qed.
Lemma HRt : 0 <= Rt. Proof. apply (ctor_ok_domain c p Hok). Qed.

Lemma below_window j : (1 <= j < window p)%nat -> INR j * dt < Rt.
Proof.
  unfold window. fold dt Rt. intros [H1 H2]. pose proof Hdt as Hdt.
  assert (Hz : (Z.of_nat j < Zceil (Rt / dt))%Z) by lia.
  assert (Hq : IZR (Z.of_nat j) < Rt / dt).
  { destruct (Rlt_or_le (IZR (Z.of_nat j)) (Rt / dt)) as [|Hle]; auto. apply Zceil_glb in Hle. lia. }
  rewrite <- INR_IZR_INZ in Hq. apply Rmult_lt_compat_r with (r := dt) in Hq; auto.
  unfold Rdiv in Hq. rewrite Rmult_assoc, Rinv_l, Rmult_1_r in Hq by lra. exact Hq.
Qed.

Lemma at_window : Rt - INR (window p) * dt <= 0.
Proof.
  unfold window. fold dt Rt. pose proof Hdt as Hdt.
  set (z := Z.max 1 (Zceil (Rt / dt))).
  assert (Hz : (Zceil (Rt / dt) <= z)%Z) by lia.
  assert (Hp : (0 <= z)%Z) by lia.
  rewrite INR_IZR_INZ, Z2Nat.id by exact Hp.
  apply IZR_le in Hz. pose proof (Zceil_ub (Rt / dt)) as Hc.
  assert (Hq : Rt / dt <= IZR z) by lra.
  apply Rmult_le_compat_r with (r := dt) in Hq; [|lra].
  unfold Rdiv in Hq. rewrite Rmult_assoc, Rinv_l, Rmult_1_r in Hq by lra. lra.
Qed.

Lemma window_pos : (1 <= window p)%nat.
Proof. unfold window. lia. Qed.

(* splitting a run at step t *)
Lemma cell_run_skip ce evs t o :
  nth_error (cell_run c p ce evs) t = Some o ->
  forall k, nth_error (cell_run c p ce evs) (t + S k) = nth_error (cell_run c p (o_cell RN o) (skipn (S t) evs)) k.
Proof.
  revert ce t. induction evs as [|[[lock th] x] tl IH]; intros ce t H k.
  - destruct t; discriminate.
  - destruct t as [|t]; cbn [cell_run nth_error] in H.
    + inversion H; subst o. reflexivity.
    + cbn [cell_run]. change (S t + S k)%nat with (S (t + S k)). cbn [nth_error].
      rewrite (IH _ _ H). reflexivity.
Qed.

Lemma cell_run_step ce evs k o' :
  nth_error (cell_run c p ce evs) (S k) = Some o' ->
  exists oprev lock th x,
    nth_error (cell_run c p ce evs) k = Some oprev /\ nth_error evs (S k) = Some (lock, th, x) /\
    o' = cls_cell RN c p lock th x (o_cell RN oprev).
Proof.
  revert ce k. induction evs as [|[[lock th] x] tl IH]; intros ce k H.
  - discriminate.
  - cbn [cell_run nth_error] in H. destruct k as [|k].
    + destruct tl as [|[[l2 t2] x2] tl2]; [discriminate|]. cbn [cell_run nth_error] in H. inversion H.
      exists (cls_cell RN c p lock th x ce), l2, t2, x2. repeat split.
    + apply IH in H. destruct H as (oprev & l2 & t2 & x2 & H1 & H2 & H3).
      exists oprev, l2, t2, x2. repeat split; assumption.
Qed.

Lemma cell_run_head ce evs o :
  nth_error (cell_run c p ce evs) 0 = Some o ->
  exists lock th x, nth_error evs 0 = Some (lock, th, x) /\ o = cls_cell RN c p lock th x ce.
Proof.
  destruct evs as [|[[lock th] x] tl]; [discriminate|]. cbn. intros H; inversion H. eauto.
Qed.

(* a cell whose remaining refractory time exceeds (k+1) dt is silent for the next k+1 steps, its
   refractory time counts down by dt per step, and its voltage does not move while refrac_lock is on *)
Lemma silent_run evs : forall ce k o,
  INR (S k) * dt < snd ce ->
  nth_error (cell_run c p ce evs) k = Some o ->
  o_spike RN o = false /\ o_r RN o = snd ce - INR (S k) * dt /\
  (Forall (fun e => ev_lock e = true) (firstn (S k) evs) -> o_v RN o = fst ce).
Proof.
  pose proof Hdt as Hdt.
  induction evs as [|[[lock th] x] tl IH]; intros [v r] k o Hr Hn.
  - destruct k; discriminate.
  - cbn [snd fst] in *. rewrite S_INR in Hr.
    assert (Hdr : dt < r) by (pose proof (pos_INR k); nra).
    cbn [cell_run] in Hn. rewrite cls_cell_spec in Hn. fold dt in Hn.
    rewrite spec_refractory_silent in Hn by exact Hdr.
    destruct k as [|k]; cbn [nth_error] in Hn.
    + inversion Hn; subst o. unfold o_spike, o_r, o_v; cbn [fst snd INR]. repeat split; [lra|].
      intros HF. inversion HF as [|? ? Hl _]; subst. unfold ev_lock in Hl; cbn in Hl; subst lock. reflexivity.
    + unfold o_cell, o_v, o_r in Hn; cbn [fst snd] in Hn.
      apply IH in Hn; [|cbn [snd]; rewrite S_INR in *; lra].
      destruct Hn as (Hs & Hrr & Hv). cbn [fst snd] in *. repeat split; [exact Hs| rewrite Hrr, !S_INR; lra|].
      intros HF. change (firstn (S (S k)) ((lock, th, x) :: tl)) with ((lock, th, x) :: firstn (S k) tl) in HF.
      inversion HF as [|? ? Hl HF']; subst. unfold ev_lock in Hl; cbn in Hl; subst lock.
      rewrite (Hv HF'). reflexivity.
Qed.

(* REFRACTORY WINDOW.  For every history: if the cell spikes at step t then at every step t + j with
   1 <= j < max(1, ceil(refrac_t / dt)) it does not spike, its remaining refractory time is exactly
   refrac_t - j dt, and - if refrac_lock was on in steps t+1 .. t+j - its voltage still is the reset voltage. *)
Theorem cell_refractory_window :
  forall ce evs t o, nth_error (cell_run c p ce evs) t = Some o -> o_spike RN o = true ->
  forall j o', (1 <= j < window p)%nat -> nth_error (cell_run c p ce evs) (t + j) = Some o' ->
    o_spike RN o' = false /\ o_r RN o' = Rt - INR j * dt /\
    (Forall (fun e => ev_lock e = true) (firstn j (skipn (S t) evs)) -> o_v RN o' = o_v RN o).
Proof.
  intros ce evs t o Ht Hs j o' Hj Hn.
  destruct j as [|j]; [lia|].
  rewrite (cell_run_skip _ _ _ _ Ht) in Hn.
  assert (Hro : o_r RN o = Rt).
  { destruct t as [|t].
    - apply cell_run_head in Ht. destruct Ht as (lock & th & x & _ & ->). destruct ce as [v r].
      rewrite cls_cell_spec in Hs |- *. apply spec_spike_resets in Hs. apply Hs.
    - apply cell_run_step in Ht. destruct Ht as (op & lock & th & x & _ & _ & ->). destruct (o_cell RN op) as [v r].
      rewrite cls_cell_spec in Hs |- *. apply spec_spike_resets in Hs. apply Hs. }
  pose proof (below_window (S j) Hj) as Hb.
  apply silent_run in Hn; [|unfold o_cell; cbn [snd]; rewrite Hro; exact Hb].
  unfold o_cell in Hn; cbn [fst snd] in Hn. rewrite Hro in Hn. exact Hn.
Qed.

(* TIGHTNESS: at step t + max(1, ceil(refrac_t / dt)) the cell is out of its refractory period again: it
   spikes iff the voltage integrated from the previous step's voltage reaches the threshold. *)
Theorem cell_refractory_window_tight :
  forall ce evs t o, nth_error (cell_run c p ce evs) t = Some o -> o_spike RN o = true ->
  forall oprev o' lock th x,
    nth_error (cell_run c p ce evs) (t + window p - 1) = Some oprev ->
    nth_error (cell_run c p ce evs) (t + window p) = Some o' ->
    nth_error evs (t + window p) = Some (lock, th, x) ->
    (o_spike RN o' = true <-> th <= cls_integ RN c p (o_v RN oprev) x).
Proof.
  intros ce evs t o Ht Hs oprev o' lock th x Hp Hn He.
  pose proof window_pos as Hw. pose proof Hdt as Hdt.
  assert (Hrp : o_r RN oprev = Rt - INR (window p - 1) * dt).
  { destruct (Nat.eq_dec (window p) 1) as [E|E].
    - rewrite E in *. replace (t + 1 - 1)%nat with t in Hp by lia. rewrite Hp in Ht. inversion Ht; subst oprev.
      cbn [INR Nat.sub]. rewrite Rmult_0_l, Rminus_0_r.
      destruct t as [|t].
      + apply cell_run_head in Hp. destruct Hp as (l0 & th0 & x0 & _ & ->). destruct ce as [v r].
        rewrite cls_cell_spec in Hs |- *. apply spec_spike_resets in Hs. apply Hs.
      + apply cell_run_step in Hp. destruct Hp as (op & l0 & th0 & x0 & _ & _ & ->). destruct (o_cell RN op) as [v r].
        rewrite cls_cell_spec in Hs |- *. apply spec_spike_resets in Hs. apply Hs.
    - replace (t + window p - 1)%nat with (t + (window p - 1))%nat in Hp by lia.
      eapply cell_refractory_window in Hp; eauto; [|lia]. apply Hp. }
  replace (t + window p)%nat with (S (t + window p - 1)) in Hn, He by lia.
  apply cell_run_step in Hn. destruct Hn as (op & l2 & th2 & x2 & H1 & H2 & ->).
  rewrite Hp in H1. inversion H1; subst op. rewrite He in H2. inversion H2; subst l2 th2 x2.
  unfold o_cell. rewrite cls_cell_spec. fold dt Rt. rewrite Hrp.
  unfold o_spike. rewrite spec_spike_iff.
  assert (Hle : Rt - INR (window p - 1) * dt - dt <= 0).
  { pose proof at_window as Ha. replace (INR (window p)) with (INR (window p - 1) + 1) in Ha.
    - lra.
    - rewrite <- S_INR. f_equal. lia. }
  rewrite Rmax_right by lra. split; [tauto|auto].
Qed.

(* invariants over every run: 0 <= refrac (after any step) and refrac <= refrac_t (if so initially) *)
Theorem cell_refrac_nonneg :
  forall evs ce, Forall (fun o => 0 <= o_r RN o) (cell_run c p ce evs).
Proof.
  pose proof HRt as HRt.
  induction evs as [|[[lock th] x] tl IH]; intros [v r]; cbn [cell_run]; constructor; [|apply IH].
  rewrite cls_cell_spec. apply spec_refrac_nonneg. exact HRt.
Qed.

Theorem cell_refrac_le :
  forall evs ce, snd ce <= Rt -> Forall (fun o => o_r RN o <= Rt) (cell_run c p ce evs).
Proof.
  pose proof HRt as HRt. pose proof Hdt as Hdt.
  induction evs as [|[[lock th] x] tl IH]; intros [v r] Hr; cbn [cell_run]; [constructor|].
  assert (H : o_r RN (cls_cell RN c p lock th x (v, r)) <= Rt).
  { rewrite cls_cell_spec. apply spec_refrac_le; assumption. }
  constructor; [exact H|]. apply IH. exact H.
Qed.

(* SPIKE ATTRIBUTE: with refrac_t > 0 (and the initial refrac within [.., refrac_t], e.g. 0 after construction or
   clear) `refrac == refrac_t` equals the spike output of the most recent step, at every step of every run *)
Theorem cell_spike_attr_eq_output :
  0 < Rt -> forall evs ce, snd ce <= Rt ->
  Forall (fun o => eqb RN (o_r RN o) Rt = o_spike RN o) (cell_run c p ce evs).
Proof.
  intros HR. pose proof Hdt as Hdt.
  induction evs as [|[[lock th] x] tl IH]; intros [v r] Hr; cbn [cell_run]; [constructor|].
  constructor.
  - rewrite cls_cell_spec. rn_simpl. apply spec_spike_attr; assumption.
  - apply IH. unfold o_cell; cbn [snd]. rewrite cls_cell_spec. apply spec_refrac_le; try assumption. lra.
Qed.

(* the one-step contract in the vocabulary of the class model *)
Theorem cell_spike_iff :
  forall lock th x v r,
    o_spike RN (cls_cell RN c p lock th x (v, r)) = true
    <-> (Rmax (r - dt) 0 = 0 /\ th <= cls_integ RN c p v x).
Proof. intros. rewrite cls_cell_spec. apply spec_spike_iff. Qed.

Theorem cell_spike_resets :
  forall lock th x v r, let o := cls_cell RN c p lock th x (v, r) in
    o_spike RN o = true -> o_v RN o = reset_of c p (cls_integ RN c p v x) /\ o_r RN o = Rt.
Proof. intros until o. subst o. rewrite cls_cell_spec. apply spec_spike_resets. Qed.
End Cell.

(* ------------------------------------------------------------------ Part C: populations *)

Lemma nth_error_map2 {A B C} (f : A -> B -> C) l l' i :
  nth_error (map2 f l l') i =
  match nth_error l i, nth_error l' i with Some a, Some b => Some (f a b) | _, _ => None end.
Proof.
  revert l' i. induction l as [|a l IH]; intros [|b l'] [|i]; cbn; try reflexivity.
  - destruct (nth_error l i); reflexivity.
  - apply IH.
Qed.

(* one forward call, seen from cell (i, b) *)
Lemma forward_cell c p adapt lock cs xs i b col ce x :
  nth_error cs i = Some col -> nth_error (cells RN col) b = Some ce -> at2 xs i b = Some x ->
  let r := forward RN c p adapt lock cs xs in
  let o := cls_cell RN c p lock (cls_thresh RN c p (ad RN col)) (cls_input RN c (ad RN col) x) ce in
  obs_at r i b = Some o /\ cell_at (snd r) i b = Some (o_cell RN o).
Proof.
  intros Hc Hce Hx r o. unfold at2 in Hx. destruct (nth_error xs i) as [row|] eqn:Er; [|discriminate].
  assert (Hr : nth_error (map2 (col_forward RN c p adapt lock) cs xs) i = Some (col_forward RN c p adapt lock col row)).
  { rewrite nth_error_map2, Hc, Er. reflexivity. }
  assert (Ho : nth_error (col_outs RN c p lock col row) b = Some o).
  { unfold col_outs. rewrite nth_error_map2, Hx, Hce. reflexivity. }
  assert (H2 : cell_at (snd r) i b = Some (o_cell RN o)).
  { unfold cell_at, r, forward. cbn [snd]. rewrite nth_error_map, Hr. cbn [option_map].
    unfold col_forward. cbn [snd cells]. rewrite nth_error_map, Ho. reflexivity. }
  split; [|exact H2].
  unfold obs_at. rewrite H2. unfold at2, r, forward. cbn [fst]. rewrite nth_error_map, Hr. cbn [option_map].
  unfold col_forward. cbn [fst]. rewrite nth_error_map, Ho. cbn [option_map].
  unfold o_cell, o_spike, o_v, o_r. cbn [fst snd]. destruct o as [[s v] rr]. reflexivity.
Qed.


(* SIMULATION: inside any population run of any class (adaptation on or off, any batch size), the sequence of
   observations of cell (i, b) is exactly the cell run driven by the history [cell_events] *)
Theorem population_cell_simulation c p :
  forall evs cs i b ce, cell_at cs i b = Some ce -> shaped evs i b ->
    map (fun r => obs_at r i b) (fwd_run c p cs evs) = map Some (cell_run c p ce (cell_events c p cs evs i b)) /\
    map ev_lock (cell_events c p cs evs i b) = map pev_lock evs.
Proof.
  induction evs as [|[[adapt lock] xs] tl IH]; intros cs i b ce Hce Hsh.
  - split; reflexivity.
  - inversion Hsh as [|? ? Hx Hsh']; subst. cbn [snd] in Hx.
    destruct (at2 xs i b) as [x|] eqn:Ex; [|congruence].
    unfold cell_at in Hce. destruct (nth_error cs i) as [col|] eqn:Ec; [|discriminate].
    destruct (forward_cell c p adapt lock cs xs i b col ce x Ec Hce Ex) as [H1 H2].
    cbn [fwd_run cell_events map]. rewrite Ec, Ex. cbn [cell_run map].
    destruct (IH _ i b _ H2 Hsh') as [IH1 IH2].
    split.
    + rewrite H1. f_equal. exact IH1.
    + cbn [map]. f_equal. exact IH2.
Qed.

Lemma nth_error_map_Some {A B} (f : A -> option B) (g : list B) l n y :
  map f l = map Some g -> nth_error l n = Some y -> option_map Some (nth_error g n) = Some (f y).
Proof.
  intros E H. apply (f_equal (fun m => nth_error m n)) in E. rewrite !nth_error_map, H in E. cbn in E.
  symmetry. exact E.
Qed.

Section Population.
Variables (c : cls) (p : params RN).
Hypothesis Hok : ctor_ok RN c p = true.
Let dt := step_time RN p.
Let Rt := refrac_t RN p.

(* REFRACTORY WINDOW for every cell of every population run *)
Theorem population_refractory_window :
  forall cs evs i b, cell_at cs i b <> None -> shaped evs i b ->
  forall t j rt rj v r o', (1 <= j < window p)%nat ->
    nth_error (fwd_run c p cs evs) t = Some rt -> obs_at rt i b = Some (true, v, r) ->
    nth_error (fwd_run c p cs evs) (t + j) = Some rj -> obs_at rj i b = Some o' ->
    o_spike RN o' = false /\ o_r RN o' = Rt - INR j * dt /\
    (Forall (fun e => pev_lock e = true) (firstn j (skipn (S t) evs)) -> o_v RN o' = v).
Proof.
  intros cs evs i b Hce Hsh t j rt rj v r o' Hj Ht Hot Hj' Hoj.
  destruct (cell_at cs i b) as [ce|] eqn:Ece; [|congruence].
  destruct (population_cell_simulation c p evs cs i b ce Ece Hsh) as [Hsim Hlk].
  pose proof (nth_error_map_Some _ _ _ _ _ Hsim Ht) as E1. cbn beta in E1. rewrite Hot in E1.
  pose proof (nth_error_map_Some _ _ _ _ _ Hsim Hj') as E2. cbn beta in E2. rewrite Hoj in E2.
  destruct (nth_error (cell_run c p ce (cell_events c p cs evs i b)) t) as [o|] eqn:Eo; [|discriminate].
  destruct (nth_error (cell_run c p ce (cell_events c p cs evs i b)) (t + j)) as [oj|] eqn:Eoj; [|discriminate].
  cbn in E1, E2. inversion E1; subst o. inversion E2; subst oj.
  destruct (cell_refractory_window c p Hok ce _ t _ Eo eq_refl j o' Hj Eoj) as (A & B & C).
  repeat split; [exact A|exact B|].
  intros HF. apply C.
  rewrite Forall_forall in HF |- *. intros e He.
  assert (Hin : In (ev_lock e) (map ev_lock (firstn j (skipn (S t) (cell_events c p cs evs i b))))) by (apply in_map; exact He).
  rewrite <- firstn_map, <- skipn_map, Hlk, skipn_map, firstn_map in Hin.
  apply in_map_iff in Hin. destruct Hin as (e' & Hl & Hin'). rewrite <- Hl. apply HF. exact Hin'.
Qed.

(* one forward call, at cell (i, b): spike <=> out of the refractory period and the voltage integrated from the
   (adapted) input reaches the (adapted) threshold; a spike resets voltage and refractory time *)
Theorem population_spike_iff :
  forall adapt lock cs xs i b col v r x,
    nth_error cs i = Some col -> nth_error (cells RN col) b = Some (v, r) -> at2 xs i b = Some x ->
    forall o, obs_at (forward RN c p adapt lock cs xs) i b = Some o ->
      (o_spike RN o = true <->
         (Rmax (r - dt) 0 = 0 /\ cls_thresh RN c p (ad RN col) <= cls_integ RN c p v (cls_input RN c (ad RN col) x))) /\
      (o_spike RN o = true ->
         o_v RN o = reset_of c p (cls_integ RN c p v (cls_input RN c (ad RN col) x)) /\ o_r RN o = Rt).
Proof.
  intros adapt lock cs xs i b col v r x Hc Hce Hx o Ho.
  destruct (forward_cell c p adapt lock cs xs i b col (v, r) x Hc Hce Hx) as [H1 _].
  rewrite H1 in Ho. inversion Ho; subst o. split.
  - apply cell_spike_iff.
  - apply cell_spike_resets.
Qed.

(* TIGHTNESS for every cell of every population run *)
Theorem population_refractory_window_tight :
  forall cs evs i b, cell_at cs i b <> None -> shaped evs i b ->
  forall t rt v r rprev oprev rn o' adapt lock xs col x,
    nth_error (fwd_run c p cs evs) t = Some rt -> obs_at rt i b = Some (true, v, r) ->
    nth_error (fwd_run c p cs evs) (t + window p - 1) = Some rprev -> obs_at rprev i b = Some oprev ->
    nth_error (fwd_run c p cs evs) (t + window p) = Some rn -> obs_at rn i b = Some o' ->
    nth_error evs (t + window p) = Some (adapt, lock, xs) ->
    nth_error (snd rprev) i = Some col -> at2 xs i b = Some x ->
    (o_spike RN o' = true <->
       cls_thresh RN c p (ad RN col) <= cls_integ RN c p (o_v RN oprev) (cls_input RN c (ad RN col) x)).
Proof.
  intros cs evs i b Hce Hsh t rt v r rprev oprev rn o' adapt lock xs col x Ht Hot Hp Hop Hn Hon He Hcol Hx.
  pose proof (window_pos p) as Hw.
  (* the step t + window is one forward call from the state left by step t + window - 1 *)
  assert (Hstep : forall evs cs k rk, nth_error (fwd_run c p cs evs) k = Some rk ->
            forall ev, nth_error evs (S k) = Some ev ->
            nth_error (fwd_run c p cs evs) (S k) = Some (forward RN c p (fst (fst ev)) (snd (fst ev)) (snd rk) (snd ev))).
  { clear. induction evs as [|[[a l] y] tl IH]; intros cs k rk H ev Hev; [destruct k; discriminate|].
    cbn [fwd_run nth_error] in *. destruct k as [|k].
    - inversion H; subst rk. destruct tl as [|[[a2 l2] y2] tl2]; [discriminate|]. cbn in Hev. inversion Hev; subst ev. reflexivity.
    - cbn [nth_error] in Hev. apply (IH _ _ _ H _ Hev). }
  replace (t + window p)%nat with (S (t + window p - 1)) in Hn, He by lia.
  rewrite (Hstep _ _ _ _ Hp _ He) in Hn. cbn [fst snd] in Hn. inversion Hn; subst rn. clear Hn.
  unfold obs_at in Hop. destruct (at2 (fst rprev) i b) as [sp|] eqn:Esp; [|discriminate].
  destruct (cell_at (snd rprev) i b) as [[vp rp]|] eqn:Ecp; [|discriminate]. inversion Hop; subst oprev. clear Hop.
  unfold cell_at in Ecp. rewrite Hcol in Ecp.
  destruct (population_spike_iff adapt lock (snd rprev) xs i b col vp rp x Hcol Ecp Hx o' Hon) as [Hiff _].
  unfold o_v; cbn [fst snd]. rewrite Hiff.
  (* remaining refractory time at step t + window - 1 is refrac_t - (window - 1) dt *)
  assert (Hrp : rp = Rt - INR (window p - 1) * dt).
  { destruct (Nat.eq_dec (window p) 1) as [E|E].
    - rewrite E in *. replace (t + 1 - 1)%nat with t in Hp by lia. rewrite Hp in Ht. inversion Ht; subst rt.
      assert (Hvr : rp = r).
      { pose proof Hot as Hot'. unfold obs_at, cell_at in Hot'. rewrite Hcol, Ecp, Esp in Hot'.
        inversion Hot'. reflexivity. }
      subst rp. cbn [INR Nat.sub]. rewrite Rmult_0_l, Rminus_0_r.
      destruct (cell_at cs i b) as [ce|] eqn:Ece; [|congruence].
      destruct (population_cell_simulation c p evs cs i b ce Ece Hsh) as [Hsim _].
      pose proof (nth_error_map_Some _ _ _ _ _ Hsim Hp) as E1. cbn beta in E1. rewrite Hot in E1.
      destruct (nth_error (cell_run c p ce (cell_events c p cs evs i b)) t) as [o|] eqn:Eo; [|discriminate].
      cbn in E1. inversion E1; subst o.
      destruct t as [|t].
      + apply cell_run_head in Eo. destruct Eo as (l0 & th0 & x0 & _ & Eo). destruct ce as [v0 r0].
        pose proof (cell_spike_resets c p l0 th0 x0 v0 r0) as Hres. cbn zeta in Hres. rewrite <- Eo in Hres.
        apply Hres. reflexivity.
      + apply cell_run_step in Eo. destruct Eo as (op & l0 & th0 & x0 & _ & _ & Eo). destruct (o_cell RN op) as [v0 r0].
        pose proof (cell_spike_resets c p l0 th0 x0 v0 r0) as Hres. cbn zeta in Hres. rewrite <- Eo in Hres.
        apply Hres. reflexivity.
    - assert (Hobs : obs_at rprev i b <> None).
      { unfold obs_at, cell_at. rewrite Hcol, Ecp, Esp. discriminate. }
      destruct (obs_at rprev i b) as [op|] eqn:Eop; [|congruence].
      replace (t + window p - 1)%nat with (t + (window p - 1))%nat in Hp by lia.
      destruct (population_refractory_window cs evs i b Hce Hsh t (window p - 1)%nat rt rprev v r op ltac:(lia) Ht Hot Hp Eop) as (_ & B & _).
      unfold obs_at, cell_at in Eop. rewrite Hcol, Ecp, Esp in Eop.
      inversion Eop; subst op. exact B. }
  pose proof (at_window c p Hok) as Ha. fold dt Rt in Ha.
  pose proof (Hdt c p Hok) as Hd. fold dt in Hd.
  assert (Hle : rp - dt <= 0).
  { subst rp. replace (INR (window p)) with (INR (window p - 1) + 1) in Ha; [lra|].
    rewrite <- S_INR. f_equal. lia. }
  rewrite Rmax_right by lra. split; [tauto|auto].
Qed.
End Population.

(* ------------------------------------------------------------------ whole-matrix invariants *)
Lemma Forall_map2_l {A B C} (f : A -> B -> C) (P : A -> Prop) (Q : C -> Prop) l l' :
  (forall a b, P a -> Q (f a b)) -> Forall P l -> Forall Q (map2 f l l').
Proof.
  intros H HF. revert l'. induction HF as [|a l Ha HF IH]; intros [|b l']; cbn; constructor; auto.
Qed.
Lemma Forall_map2_r {A B C} (f : A -> B -> C) (P : B -> Prop) (Q : C -> Prop) l l' :
  (forall a b, P b -> Q (f a b)) -> Forall P l' -> Forall Q (map2 f l l').
Proof.
  intros H HF. revert l. induction HF as [|b l' Hb HF IH]; intros [|a l]; cbn; try constructor; auto.
Qed.
Lemma Forall_map2_any {A B C} (f : A -> B -> C) (Q : C -> Prop) l l' :
  (forall a b, Q (f a b)) -> Forall Q (map2 f l l').
Proof. intros H. revert l'. induction l as [|a l IH]; intros [|b l']; cbn; constructor; auto. Qed.


Section Matrix.
Variables (c : cls) (p : params RN).
Hypothesis Hok : ctor_ok RN c p = true.
Let dt := step_time RN p.
Let Rt := refrac_t RN p.

(* after ANY forward call (whatever the state before) every remaining refractory time is >= 0 *)
Theorem population_refrac_nonneg :
  forall adapt lock cs xs, all_cells (fun ce => 0 <= snd ce) (snd (forward RN c p adapt lock cs xs)).
Proof.
  intros. unfold all_cells, forward. cbn [snd]. rewrite Forall_map.
  apply Forall_map2_any. intros col row. unfold col_forward. cbn [snd cells]. rewrite Forall_map.
  unfold col_outs. apply Forall_map2_any. intros x [v r]. unfold o_cell; cbn [snd].
  rewrite cls_cell_spec. apply spec_refrac_nonneg. apply (HRt c p Hok).
Qed.

(* refrac <= refrac_t is preserved by forward *)
Theorem population_refrac_le :
  forall adapt lock cs xs, all_cells (fun ce => snd ce <= Rt) cs ->
    all_cells (fun ce => snd ce <= Rt) (snd (forward RN c p adapt lock cs xs)).
Proof.
  intros adapt lock cs xs H. unfold all_cells, forward. cbn [snd]. rewrite Forall_map.
  eapply Forall_map2_l; [|exact H]. intros col row Hc. cbn beta in Hc. unfold col_forward. cbn [snd cells]. rewrite Forall_map.
  unfold col_outs. eapply Forall_map2_r; [|exact Hc]. intros x [v r] Hr. unfold o_cell; cbn [snd] in *.
  rewrite cls_cell_spec. apply spec_refrac_le; [apply (Hdt c p Hok)|apply (HRt c p Hok)|exact Hr].
Qed.

(* SPIKE ATTRIBUTE, whole tensors: with refrac_t > 0, after every forward call the attribute `spike`
   (refrac == refrac_t) IS the tensor of spikes that the call returned *)
Theorem population_spike_attr_eq_output :
  0 < Rt -> forall adapt lock cs xs, all_cells (fun ce => snd ce <= Rt) cs ->
    let r := forward RN c p adapt lock cs xs in spike_attr RN p (snd r) = fst r.
Proof.
  intros HR adapt lock cs xs H r. subst r. unfold forward, spike_attr. cbn [fst snd].
  rewrite map_map.
  assert (HF : Forall (fun y : list bool * column RN =>
                 map (fun ce : cell RN => eqb RN (snd ce) (refrac_t RN p)) (cells RN (snd y)) = fst y)
               (map2 (col_forward RN c p adapt lock) cs xs)).
  { eapply Forall_map2_l; [|exact H]. intros col row Hc. cbn beta in Hc. unfold col_forward. cbn [fst snd cells].
    rewrite map_map. unfold col_outs.
    assert (HQ : Forall (fun o => eqb RN (snd (o_cell RN o)) (refrac_t RN p) = o_spike RN o)
                   (map2 (fun x ce => cls_cell RN c p lock (cls_thresh RN c p (ad RN col)) (cls_input RN c (ad RN col) x) ce)
                      row (cells RN col))).
    { eapply Forall_map2_r; [|exact Hc]. intros x [v r] Hr. cbn [snd] in Hr. unfold o_cell, o_spike; cbn [snd].
      rewrite cls_cell_spec. rn_simpl. apply spec_spike_attr; [apply (Hdt c p Hok)|exact HR|exact Hr]. }
    induction HQ as [|o l Ho _ IH]; cbn [map]; [reflexivity|]. rewrite Ho, IH. reflexivity. }
  induction HF as [|y l Hy _ IH]; cbn [map]; [reflexivity|]. rewrite Hy, IH. reflexivity.
Qed.

(* ... along every run of forward calls that starts from a state with refrac <= refrac_t (construction, clear) *)
Theorem population_run_spike_attr :
  0 < Rt -> forall evs cs, all_cells (fun ce => snd ce <= Rt) cs ->
    Forall (fun r : pres => spike_attr RN p (snd r) = fst r /\ all_cells (fun ce => 0 <= snd ce <= Rt) (snd r))
      (fwd_run c p cs evs).
Proof.
  intros HR. induction evs as [|[[adapt lock] xs] tl IH]; intros cs H; cbn [fwd_run]; constructor.
  - split; [apply population_spike_attr_eq_output; assumption|].
    pose proof (population_refrac_nonneg adapt lock cs xs) as H0.
    pose proof (population_refrac_le adapt lock cs xs H) as H1.
    unfold all_cells in *. rewrite Forall_forall in *. intros col Hin.
    specialize (H0 col Hin). specialize (H1 col Hin). rewrite Forall_forall in *. intros ce Hce. split; auto.
  - apply IH. apply population_refrac_le. exact H.
Qed.

(* the constructor state and the state after clear() satisfy the hypothesis refrac <= refrac_t *)
Theorem init_refrac_le : forall n b, all_cells (fun ce => snd ce <= Rt) (cols RN (init RN c p n b)).
Proof.
  intros. unfold init, all_cells. cbn [cols]. apply Forall_forall. intros col Hin. apply repeat_spec in Hin. subst col.
  cbn [cells]. apply Forall_forall. intros ce Hin. apply repeat_spec in Hin. subst ce. cbn [snd]. apply (HRt c p Hok).
Qed.
Theorem clear_refrac_le : forall keep cs, all_cells (fun ce => snd ce <= Rt) (clear RN c p keep cs).
Proof.
  intros. unfold clear, all_cells. rewrite Forall_map. apply Forall_forall. intros col _. cbn [cells].
  rewrite Forall_map. apply Forall_forall. intros ce _. cbn [snd]. apply (HRt c p Hok).
Qed.
End Matrix.

