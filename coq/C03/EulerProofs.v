(* C03 - the quadratic and exponential integration kernels are the Euler steps of their documented differential equations. *)
From Coq Require Import List ZArith Bool Reals Lra Lia.
From Flocq Require Import Core.Raux.
From Inferno Require Import Base.Num Base.NumR Gen.NeuronDynamics Gen.NeuronAdaptation C03.Neuron C03.NeuronSpec.
Import ListNotations.
Open Scope R_scope.
Local Notation exp := Rtrigo_def.exp.

Local Notation viq := (voltage_integration_quadratic RN).
Local Notation vie := (voltage_integration_exponential RN).

(* documented: Euler step of  tau dV/dt = a (V - V_rest)(V - V_crit) + R I *)
Theorem integration_quadratic_euler :
  forall I v dt rest crit a tau Rm : R,
    viq I v dt rest crit a tau Rm = v + dt * ((a * (v - rest) * (v - crit) + Rm * I) / tau).
Proof. intros. unfold voltage_integration_quadratic. rn_simpl. unfold Rdiv. ring. Qed.

(* documented: Euler step of  tau dV/dt = -(V - V_rest) + D exp((V - V_T)/D) + R I *)
Theorem integration_exponential_euler :
  forall I v dt rest rheo D tau Rm : R,
    vie I v dt rest rheo D tau Rm = v + dt * ((- (v - rest) + D * exp ((v - rheo) / D) + Rm * I) / tau).
Proof. intros. unfold voltage_integration_exponential. rn_simpl. unfold Rdiv. ring. Qed.

