(* C03 - tie of the model to the definitions generated from class QIF (see GenTie.v). *)
From Coq Require Import List ZArith Bool.
From Inferno Require Import Base.Num Gen.NeuronDynamics Gen.NeuronAdaptation Gen.NeuronApply Gen.NeuronClasses C03.Neuron C03.GenTie.
Import ListNotations.

(* the generated definitions take the attributes they read as parameters named self_<attribute>: pin the names, so that
   reading a different attribute in the source (same number of reads) also breaks this file *)
Arguments QIF_integrate_v N self_affinity self_crit_v self_resistance self_rest_v self_step_time self_time_constant self_voltage masked_inputs : assert.
Arguments QIF_forward_cell N self_affinity self_crit_v self_refrac self_refrac_t self_reset_v self_resistance self_rest_v self_step_time self_thresh_v self_time_constant self_voltage inputs refrac_lock : assert.
Arguments QIF_clear_cell N self_rest_v : assert.
Arguments QIF_spike N self_refrac self_refrac_t : assert.

(* _integrate_v *)
Theorem tie_QIF_integrate_v : forall N (p : params N) v masked_inputs,
  cls_integ N QIF p v masked_inputs = QIF_integrate_v N (affinity N p) (crit_v N p) (resistance N p) (rest_v N p) (step_time N p) (time_constant N p) v masked_inputs.
Proof. reflexivity. Qed.

(* forward: the thresholding step of one cell (the model's cell step with the class's threshold and input, as
   col_outs applies it, equals the generated one) *)
Theorem tie_QIF_forward_cell : forall N (p : params N) (a : list (T N)) (lock : bool) (x v r : T N),
  cls_cell N QIF p lock (cls_thresh N QIF p a) (cls_input N QIF a x) (v, r) = QIF_forward_cell N (affinity N p) (crit_v N p) r (refrac_t N p) (reset_v N p) (resistance N p) (rest_v N p) (step_time N p) (thresh_v N p) (time_constant N p) v x lock.
Proof. intros. exact (eta3 _). Qed.

(* forward has no adaptation block: the adaptation vector is left alone *)
Theorem tie_QIF_no_adapt : forall N (p : params N) lock a outs, cls_adapt N QIF p lock a outs = a.
Proof. reflexivity. Qed.

(* the whole column step assembled from the generated pieces *)
Theorem tie_QIF_col_forward : forall N (p : params N) (adapt lock : bool) (col : column N) xs,
  col_forward N QIF p adapt lock col xs =
  let outs := map2 (fun x (ce : cell N) => QIF_forward_cell N (affinity N p) (crit_v N p) (snd ce) (refrac_t N p) (reset_v N p) (resistance N p) (rest_v N p) (step_time N p) (thresh_v N p) (time_constant N p) (fst ce) x lock) xs (cells N col) in
  (map (o_spike N) outs, mkCol (ad N col) (map (o_cell N) outs)).
Proof.
  intros. unfold col_forward, col_outs. cbn zeta.
  rewrite (map2_ext _ (fun x (ce : cell N) => QIF_forward_cell N (affinity N p) (crit_v N p) (snd ce) (refrac_t N p) (reset_v N p) (resistance N p) (rest_v N p) (step_time N p) (thresh_v N p) (time_constant N p) (fst ce) x lock)).
  - destruct adapt; reflexivity.
  - intros x [v r]. apply tie_QIF_forward_cell.
Qed.

(* clear *)
Theorem tie_QIF_clear : forall N (p : params N) keep cs,
  clear N QIF p keep cs =
  map (fun col => mkCol (ad N col)
                        (map (fun _ => QIF_clear_cell N (rest_v N p)) (cells N col))) cs.
Proof.
  intros. unfold clear. apply map_ext. intros col. f_equal.
Qed.

(* spike *)
Theorem tie_QIF_spike : forall N (p : params N) cs,
  spike_attr N p cs = map (fun col => map (fun ce : cell N => QIF_spike N (snd ce) (refrac_t N p)) (cells N col)) cs.
Proof. reflexivity. Qed.
