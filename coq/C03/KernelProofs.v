(* C03 - proofs about the GENERATED element-wise kernels (real-number reading).
   Part A: case-complete characterisation of the two thresholding kernels against an independent three-case
           specification (out of refractory & reaches threshold / out of refractory & below / refractory).
   Part D: the integration kernels equal the documented update equations; the linear one is the exact solution
           of its differential equation (so it composes over time steps), the other two are Euler steps.
   Part E: the adaptation kernels are frozen during the refractory period; closed form of the spike-driven one. *)
From Coq Require Import List ZArith Bool Reals Lra Lia.
From Flocq Require Import Core.Raux.
From Inferno Require Import Base.Num Base.NumR Gen.NeuronDynamics Gen.NeuronAdaptation.
Import ListNotations.
Open Scope R_scope.
Local Notation exp := Rtrigo_def.exp.

(* ------------------------------------------------------------------ Part A *)
Lemma tmax_RN a b : tmax RN a b = Rmax a b.
Proof.
  rn_unfold. destruct (Rltb'_spec a b).
  - rewrite Rmax_right; lra.
  - rewrite Rmax_left; lra.
Qed.

(* The specification: remaining refractory time r, step dt.  The neuron is OUT of its refractory period in
   this step iff r - dt <= 0.  [dyn] is the integration of an input current into the voltage of the
   previous step; [held] is the voltage kept during the refractory period (None: not kept - the voltage
   integrates a zero input instead); [reset_of] maps the integrated voltage to the reset voltage. *)
Definition thr_spec (reset_of : R -> R) (x r : R) (dyn : R -> R) (held : option R) (dt th Rt : R)
  : bool * R * R :=
  if Rle_dec (r - dt) 0 then
    if Rle_dec th (dyn x) then (true, reset_of (dyn x), Rt) else (false, dyn x, 0)
  else (false, match held with Some v => v | None => dyn 0 end, r - dt).

Theorem thresholding_constant_spec :
  forall x r dyn held dt reset th Rt,
    voltage_thresholding_constant RN x r dyn held dt reset th Rt
    = thr_spec (fun _ => reset) x r dyn held dt th Rt.
Proof.
  intros. unfold voltage_thresholding_constant, thr_spec. rewrite tmax_RN.
  rn_unfold.
  destruct (Rle_dec (r - dt) 0) as [Hle|Hgt].
  - rewrite Rmax_right by lra.
    destruct (Reqb'_spec 0 0) as [_|E]; [|lra]. cbn [negb].
    rewrite Rmult_1_r.
    destruct held; destruct (Rleb'_spec th (dyn x)); destruct (Rle_dec th (dyn x)); try lra; reflexivity.
  - rewrite Rmax_left by lra.
    destruct (Reqb'_spec (r - dt) 0) as [E|_]; [lra|]. cbn [negb andb].
    rewrite Rmult_0_r. destruct held; reflexivity.
Qed.

Theorem thresholding_linear_spec :
  forall x r dyn held dt rest slope intercept th Rt,
    voltage_thresholding_linear RN x r dyn held dt rest slope intercept th Rt
    = thr_spec (fun v => rest + slope * (v - rest) - intercept) x r dyn held dt th Rt.
Proof.
  intros. unfold voltage_thresholding_linear, thr_spec. rewrite tmax_RN.
  rn_unfold.
  destruct (Rle_dec (r - dt) 0) as [Hle|Hgt].
  - rewrite Rmax_right by lra.
    destruct (Reqb'_spec 0 0) as [_|E]; [|lra]. cbn [negb].
    rewrite Rmult_1_r.
    destruct held; destruct (Rleb'_spec th (dyn x)); destruct (Rle_dec th (dyn x)); try lra; reflexivity.
  - rewrite Rmax_left by lra.
    destruct (Reqb'_spec (r - dt) 0) as [E|_]; [lra|]. cbn [negb andb].
    rewrite Rmult_0_r. destruct held; reflexivity.
Qed.

(* consequences of the specification, for an arbitrary reset map *)
Section SpecFacts.
Variables (reset_of : R -> R) (x r : R) (dyn : R -> R) (held : option R) (dt th Rt : R).
Let out := thr_spec reset_of x r dyn held dt th Rt.

Lemma spec_spike_iff : fst (fst out) = true <-> (Rmax (r - dt) 0 = 0 /\ th <= dyn x).
Proof.
  unfold out, thr_spec. destruct (Rle_dec (r - dt) 0) as [Hle|Hgt].
  - rewrite Rmax_right by lra. destruct (Rle_dec th (dyn x)); cbn; split; intros; try tauto; try discriminate;
      try (match goal with H : _ /\ _ |- _ => destruct H; lra end).
  - rewrite Rmax_left by lra. cbn. split; [discriminate|]. intros [E _]. lra.
Qed.

Lemma spec_spike_resets : fst (fst out) = true -> snd (fst out) = reset_of (dyn x) /\ snd out = Rt.
Proof.
  unfold out, thr_spec. destruct (Rle_dec (r - dt) 0); [destruct (Rle_dec th (dyn x))|]; cbn; intros; try discriminate; auto.
Qed.

Lemma spec_nospike : fst (fst out) = false ->
  snd out = Rmax (r - dt) 0 /\
  snd (fst out) = (if Rle_dec (r - dt) 0 then dyn x else match held with Some v => v | None => dyn 0 end).
Proof.
  unfold out, thr_spec. destruct (Rle_dec (r - dt) 0) as [Hle|Hgt]; [destruct (Rle_dec th (dyn x))|]; cbn; intros; try discriminate.
  - rewrite Rmax_right by lra. auto.
  - rewrite Rmax_left by lra. auto.
Qed.

Lemma spec_refractory_silent : dt < r ->
  out = (false, match held with Some v => v | None => dyn 0 end, r - dt).
Proof. intros. unfold out, thr_spec. destruct (Rle_dec (r - dt) 0); [lra|reflexivity]. Qed.

Lemma spec_refrac_nonneg : 0 <= Rt -> 0 <= snd out.
Proof.
  unfold out, thr_spec. destruct (Rle_dec (r - dt) 0); [destruct (Rle_dec th (dyn x))|]; cbn; lra.
Qed.

Lemma spec_refrac_le : 0 < dt -> 0 <= Rt -> r <= Rt -> snd out <= Rt.
Proof.
  unfold out, thr_spec. destruct (Rle_dec (r - dt) 0); [destruct (Rle_dec th (dyn x))|]; cbn; lra.
Qed.

(* refrac' = refrac_t exactly for the cells that spiked - provided the refractory period is positive *)
Lemma spec_spike_attr : 0 < dt -> 0 < Rt -> r <= Rt -> Reqb' (snd out) Rt = fst (fst out).
Proof.
  unfold out, thr_spec. destruct (Rle_dec (r - dt) 0); [destruct (Rle_dec th (dyn x))|]; cbn; intros;
    match goal with |- Reqb' ?a ?b = _ => destruct (Reqb'_spec a b) end; try reflexivity; lra.
Qed.
End SpecFacts.

(* ---- the same facts stated directly about the generated kernels ---- *)
Definition vtc := voltage_thresholding_constant RN.
Definition vtl := voltage_thresholding_linear RN.

(* spike  <=>  out of the refractory period (max(refrac - dt, 0) = 0)  and  integrated voltage >= threshold *)
Theorem spike_iff :
  forall x r dyn held dt th Rt,
    (forall reset, fst (fst (vtc x r dyn held dt reset th Rt)) = true <-> (Rmax (r - dt) 0 = 0 /\ th <= dyn x)) /\
    (forall rest slope icpt, fst (fst (vtl x r dyn held dt rest slope icpt th Rt)) = true <-> (Rmax (r - dt) 0 = 0 /\ th <= dyn x)).
Proof.
  intros; split; intros; unfold vtc, vtl;
    [rewrite thresholding_constant_spec | rewrite thresholding_linear_spec]; apply spec_spike_iff.
Qed.

(* a spiking cell is reset in the same step: documented reset voltage, refrac = refrac_t *)
Theorem spike_resets :
  forall x r dyn held dt th Rt,
    (forall reset, let o := vtc x r dyn held dt reset th Rt in
       fst (fst o) = true -> snd (fst o) = reset /\ snd o = Rt) /\
    (forall rest slope icpt, let o := vtl x r dyn held dt rest slope icpt th Rt in
       fst (fst o) = true -> snd (fst o) = rest + slope * (dyn x - rest) - icpt /\ snd o = Rt).
Proof.
  intros; split; intros until o; subst o; unfold vtc, vtl;
    [rewrite thresholding_constant_spec | rewrite thresholding_linear_spec]; intros H;
    apply spec_spike_resets in H; exact H.
Qed.

(* a cell that does not spike: refrac decremented and clamped at 0; voltage integrated when out of the
   refractory period, otherwise held (refrac_lock) or integrated with zero input *)
Theorem nospike_update :
  forall x r dyn held dt th Rt,
    let upd := if Rle_dec (r - dt) 0 then dyn x else match held with Some v => v | None => dyn 0 end in
    (forall reset, let o := vtc x r dyn held dt reset th Rt in
       fst (fst o) = false -> snd o = Rmax (r - dt) 0 /\ snd (fst o) = upd) /\
    (forall rest slope icpt, let o := vtl x r dyn held dt rest slope icpt th Rt in
       fst (fst o) = false -> snd o = Rmax (r - dt) 0 /\ snd (fst o) = upd).
Proof.
  intros; split; intros until o; subst o upd; unfold vtc, vtl;
    [rewrite thresholding_constant_spec | rewrite thresholding_linear_spec]; intros H;
    apply spec_nospike in H; exact H.
Qed.

(* the remaining refractory time is never negative after a step, whatever it was before *)
Theorem refrac_nonneg :
  forall x r dyn held dt th Rt, 0 <= Rt ->
    (forall reset, 0 <= snd (vtc x r dyn held dt reset th Rt)) /\
    (forall rest slope icpt, 0 <= snd (vtl x r dyn held dt rest slope icpt th Rt)).
Proof.
  intros; split; intros; unfold vtc, vtl;
    [rewrite thresholding_constant_spec | rewrite thresholding_linear_spec]; apply spec_refrac_nonneg; assumption.
Qed.

(* ... and never exceeds the refractory period *)
Theorem refrac_le_refrac_t :
  forall x r dyn held dt th Rt, 0 < dt -> 0 <= Rt -> r <= Rt ->
    (forall reset, snd (vtc x r dyn held dt reset th Rt) <= Rt) /\
    (forall rest slope icpt, snd (vtl x r dyn held dt rest slope icpt th Rt) <= Rt).
Proof.
  intros; split; intros; unfold vtc, vtl;
    [rewrite thresholding_constant_spec | rewrite thresholding_linear_spec]; apply spec_refrac_le; assumption.
Qed.

(* spike attribute (refrac == refrac_t, mixins.py) equals the returned spikes when refrac_t > 0 *)
Theorem spike_attr_eq_output_step :
  forall x r dyn held dt th Rt, 0 < dt -> 0 < Rt -> r <= Rt ->
    (forall reset, let o := vtc x r dyn held dt reset th Rt in eqb RN (snd o) Rt = fst (fst o)) /\
    (forall rest slope icpt, let o := vtl x r dyn held dt rest slope icpt th Rt in eqb RN (snd o) Rt = fst (fst o)).
Proof.
  intros; split; intros; subst o; unfold vtc, vtl; rn_simpl;
    [rewrite thresholding_constant_spec | rewrite thresholding_linear_spec]; apply spec_spike_attr; assumption.
Qed.

(* ... and is wrong for refrac_t = 0: every cell that is out of its refractory period reads as "spiked" *)
Theorem spike_attr_refrac0_always_true :
  forall x r dyn held dt th, 0 < dt -> r <= 0 ->
    (forall reset, eqb RN (snd (vtc x r dyn held dt reset th 0)) 0 = true) /\
    (forall rest slope icpt, eqb RN (snd (vtl x r dyn held dt rest slope icpt th 0)) 0 = true).
Proof.
  intros; split; intros; unfold vtc, vtl; rn_simpl;
    [rewrite thresholding_constant_spec | rewrite thresholding_linear_spec]; unfold thr_spec;
    (destruct (Rle_dec (r - dt) 0); [|lra]); destruct (Rle_dec th (dyn x)); cbn;
    destruct (Reqb'_spec 0 0); try reflexivity; lra.
Qed.

(* ------------------------------------------------------------------ Part D: integration kernels *)
Definition vil := voltage_integration_linear RN.
Definition viq := voltage_integration_quadratic RN.
Definition vie := voltage_integration_exponential RN.

(* documented: V(t+dt) = [V(t) - V_rest - R I] exp(-dt/tau) + V_rest + R I *)
Theorem integration_linear_formula :
  forall I v dt tau rest Rm : R,
    vil I v dt tau rest Rm = (v - rest - Rm * I) * exp (- dt / tau) + rest + Rm * I.
Proof. intros. unfold vil, voltage_integration_linear. rn_simpl. ring. Qed.

(* documented: Euler step of  tau dV/dt = a (V - V_rest)(V - V_crit) + R I *)
Theorem integration_quadratic_euler :
  forall I v dt rest crit a tau Rm : R,
    viq I v dt rest crit a tau Rm = v + dt * ((a * (v - rest) * (v - crit) + Rm * I) / tau).
Proof. intros. unfold viq, voltage_integration_quadratic. rn_simpl. unfold Rdiv. ring. Qed.

(* documented: Euler step of  tau dV/dt = -(V - V_rest) + D exp((V - V_T)/D) + R I *)
Theorem integration_exponential_euler :
  forall I v dt rest rheo D tau Rm : R,
    vie I v dt rest rheo D tau Rm = v + dt * ((- (v - rest) + D * exp ((v - rheo) / D) + Rm * I) / tau).
Proof. intros. unfold vie, voltage_integration_exponential. rn_simpl. unfold Rdiv. ring. Qed.

(* The linear kernel is EXACT in the step size: integrating s1 and then s2 under a constant input is
   integrating s1 + s2 (so the result does not depend on how the interval is cut into steps). *)
Theorem integration_linear_semigroup :
  forall I v s1 s2 tau rest Rm : R,
    vil I (vil I v s1 tau rest Rm) s2 tau rest Rm = vil I v (s1 + s2) tau rest Rm.
Proof.
  intros. rewrite !integration_linear_formula.
  replace (- (s1 + s2) / tau) with (- s1 / tau + - s2 / tau) by (unfold Rdiv; ring).
  rewrite exp_plus. rn_simpl. ring.
Qed.

Theorem integration_linear_zero_step :
  forall I v tau rest Rm : R, vil I v 0 tau rest Rm = v.
Proof.
  intros. rewrite integration_linear_formula. replace (- 0 / tau) with 0 by (unfold Rdiv; ring).
  rewrite exp_0. rn_simpl. ring.
Qed.

(* n steps under a constant input: closed form *)
Theorem integration_linear_iterated :
  forall (I dt tau rest Rm : R) (n : nat) (v : R),
    Nat.iter n (fun u => vil I u dt tau rest Rm) v
    = (v - rest - Rm * I) * exp (- (INR n * dt) / tau) + rest + Rm * I.
Proof.
  intros I dt tau rest Rm n. induction n as [|n IH]; intros v.
  - simpl. replace (- (0 * dt) / tau) with 0 by (unfold Rdiv; ring). rewrite exp_0. rn_simpl. ring.
  - change (Nat.iter (S n) (fun u => vil I u dt tau rest Rm) v) with (vil I (Nat.iter n (fun u => vil I u dt tau rest Rm) v) dt tau rest Rm). rewrite IH, integration_linear_formula, S_INR.
    replace (- ((INR n + 1) * dt) / tau) with (- (INR n * dt) / tau + - dt / tau) by (unfold Rdiv; ring).
    rewrite exp_plus. rn_simpl. ring.
Qed.

Lemma exp_neg_lt_1 x : x < 0 -> 0 < exp x < 1.
Proof. intros H. split; [apply exp_pos|]. rewrite <- exp_0. apply exp_increasing. exact H. Qed.

(* a leaky integrator whose steady state rest + R I stays below the threshold never reaches it from below *)
Theorem integration_linear_subthreshold :
  forall I v dt tau rest Rm th : R,
    0 < dt -> 0 < tau -> v < th -> rest + Rm * I < th -> vil I v dt tau rest Rm < th.
Proof.
  intros I v dt tau rest Rm th Hdt Htau Hv Hs. rewrite integration_linear_formula. rn_simpl.
  assert (Hx : - dt / tau < 0).
  { unfold Rdiv. assert (0 < / tau) by (apply Rinv_0_lt_compat; lra). nra. }
  destruct (exp_neg_lt_1 _ Hx) as [H0 H1]. set (l := exp (- dt / tau)) in *.
  replace ((v - rest - Rm * I) * l + rest + Rm * I) with (l * v + (1 - l) * (rest + Rm * I)) by ring.
  nra.
Qed.

(* the distance to the steady state contracts by exp(-dt/tau) in every step *)
Theorem integration_linear_contracts :
  forall I v dt tau rest Rm : R,
    vil I v dt tau rest Rm - (rest + Rm * I) = (v - (rest + Rm * I)) * exp (- dt / tau).
Proof. intros. rewrite integration_linear_formula. rn_simpl. ring. Qed.

(* ------------------------------------------------------------------ Part E: adaptation kernels *)
Definition acl := adaptive_currents_linear RN.
Definition atv := adaptive_thresholds_linear_voltage RN.
Definition ats := adaptive_thresholds_linear_spike RN.
Definition ind (b : bool) : R := if b then 1 else 0.

(* during the absolute refractory period (remaining time > 0) the adaptation dynamics are frozen: only the
   post-spike jump is applied *)
Theorem adaptation_frozen_in_refractory :
  forall (a v : R) (s : bool) (dt rest tc vc inc r : R), 0 < r ->
    acl a v s dt rest tc vc inc (Some r) = a + inc * ind s /\
    ats a s dt tc inc (Some r) = a + inc * ind s /\
    (forall ar rr : R, atv a v dt rest ar rr None (Some s) (Some r) = a) /\
    (forall ar rr m : R, atv a v dt rest ar rr (Some m) (Some s) (Some r) = if s then Rmax a m else a).
Proof.
  intros. unfold acl, ats, atv, adaptive_currents_linear, adaptive_thresholds_linear_spike,
    adaptive_thresholds_linear_voltage, ind. repeat split; intros; rewrite ?tmax_RN; rn_unfold;
    destruct (Rltb'_spec 0 r); try lra; destruct s; cbn [negb]; reflexivity.
Qed.

(* outside the refractory period (or without locking) they follow the documented update equations *)
Theorem adaptation_active :
  forall (a v : R) (s : bool) (dt rest tc vc inc : R) (ro : option R), (match ro with Some r => r <= 0 | None => True end) ->
    acl a v s dt rest tc vc inc ro = a + dt / tc * (vc * (v - rest) - a) + inc * ind s /\
    ats a s dt tc inc ro = a * exp (- dt / tc) + inc * ind s /\
    (forall ar rr : R, atv a v dt rest ar rr None (Some s) ro = a + dt * (ar * (v - rest) - rr * a)).
Proof.
  intros. unfold acl, ats, atv, adaptive_currents_linear, adaptive_thresholds_linear_spike,
    adaptive_thresholds_linear_voltage, ind. repeat split; intros; destruct ro as [r|]; rn_unfold;
    try (destruct (Rltb'_spec 0 r); [lra|]); destruct s; reflexivity.
Qed.
