(* C03 - the known finding: the `spike` attribute with refrac_t = 0 (witness theorem). *)
From Coq Require Import List ZArith Bool Reals Lra Lia.
From Flocq Require Import Core.Raux.
From Inferno Require Import Base.Num Base.NumR Gen.NeuronDynamics Gen.NeuronAdaptation C03.Neuron C03.NeuronSpec
  C03.ThresholdProofs C03.IntegrationProofs C03.NeuronProofs.
Import ListNotations.
Open Scope R_scope.
Local Notation vil := (voltage_integration_linear RN).

(* ------------------------------------------------------------------ the refrac_t = 0 finding *)
(* A freshly constructed LIF population with refrac_t = 0 and zero input: forward returns "no spike" but the
   `spike` attribute reads True (refrac = 0 = refrac_t).  Witness replayed on the implementation by the check. *)
Definition p_refuted : params RN :=
  mkParams (N := RN) 1 (-60) (-65) 0 0 (-50) 0 20 1 0 0 0 0 [] [] [].

Theorem spike_attr_refuted :
  exists (c : cls) (p : params RN) (xs : list (list R)),
    ctor_ok RN c p = true /\ refrac_t RN p = 0 /\
    let r := forward RN c p false true (cols RN (init RN c p 1 1)) xs in
    fst r = [[false]] /\ spike_attr RN p (snd r) = [[true]].
Proof.
  exists LIF, p_refuted, [[0]].
  assert (Hok : ctor_ok RN LIF p_refuted = true).
  { unfold ctor_ok, ctor_common, p_refuted. rn_unfold. cbn.
    repeat match goal with
    | |- context [Rltb' ?a ?b] => destruct (Rltb'_spec a b); [|lra]
    | |- context [Rleb' ?a ?b] => destruct (Rleb'_spec a b); [|lra]
    | |- context [Reqb' ?a ?b] => destruct (Reqb'_spec a b); [lra|]
    end. reflexivity. }
  split; [exact Hok|]. split; [reflexivity|].
  cbn zeta. unfold forward, init, spike_attr. cbn [cols repeat map2 map fst snd has_adaptation].
  unfold col_forward, col_outs. cbn [cells ad map2 map fst snd].
  set (o := cls_cell RN LIF p_refuted true _ _ _).
  assert (Ho : o = (false, vil 0 (-60) 1 20 (-60) 1, 0)).
  { subst o. rewrite cls_cell_spec. unfold thr_spec, cls_thresh, cls_integ, cls_input, integrate_linear, p_refuted.
    cbn [thresh_v step_time time_constant rest_v resistance refrac_t]. rn_simpl. fold (vil 0 (-60) 1 20 (-60) 1).
    destruct (Rle_dec (0 - 1) 0) as [_|H]; [|lra].
    destruct (Rle_dec (-50) (vil 0 (-60) 1 20 (-60) 1)) as [H|_]; [|reflexivity].
    rewrite integration_linear_formula in H. lra. }
  rewrite Ho. unfold o_spike, o_cell, o_v, o_r, p_refuted. cbn [fst snd refrac_t]. rn_simpl.
  destruct (Reqb'_spec 0 0); [split; reflexivity|lra].
Qed.

(* the general shape of the finding: with refrac_t = 0 EVERY entry of the `spike` attribute is True after every
   forward call (from a constructed / cleared neuron), whatever forward returned *)
Theorem spike_attr_refrac0_all_true :
  forall c p, ctor_ok RN c p = true -> refrac_t RN p = 0 ->
  forall adapt lock cs xs, all_cells (fun ce => snd ce <= 0) cs ->
    Forall (Forall (fun a : bool => a = true)) (spike_attr RN p (snd (forward RN c p adapt lock cs xs))).
Proof.
  intros c p Hok HR adapt lock cs xs H. pose proof (Hdt c p Hok) as Hd.
  unfold spike_attr, forward. cbn [snd]. rewrite map_map, Forall_map.
  eapply Forall_map2_l; [|exact H]. intros col row Hc. cbn beta in Hc. unfold col_forward. cbn [snd cells].
  rewrite map_map, Forall_map. unfold col_outs.
  eapply Forall_map2_r; [|exact Hc]. intros x [v r] Hr. cbn [snd] in Hr. unfold o_cell. cbn [snd].
  rewrite cls_cell_spec, HR. unfold thr_spec.
  destruct (Rle_dec (r - step_time RN p) 0) as [_|Hn]; [|lra].
  destruct (Rle_dec _ _); unfold o_r; cbn [snd]; rn_simpl; destruct (Reqb'_spec 0 0); try reflexivity; lra.
Qed.
