(* C07 - tie of the model (C07/Reducer.v) to the definitions GENERATED from class PassthroughReducer
   (Gen/ReducerClasses.v, re-translated from inferno/observe/reducers on every run).  Every statement is an equality
   between a field of the model's class record and the generated definition, so an edit of the class's fold /
   interpolate / fill in the source changes the generated term and stops this file compiling. *)
From Coq Require Import List ZArith Bool.
From Inferno Require Import Base.Num Gen.Infra Gen.Trace Gen.Math Gen.Interpolation Gen.ReducerClasses C01.Ring C07.Reducer.
Import ListNotations.

(* pin the generated parameter names (reading a different attribute in the source breaks this file) *)
Arguments PassthroughReducer_fold N obs state : assert.
Arguments PassthroughReducer_interpolate N prev_data next_data sample_at step_time : assert.

Theorem tie_PassthroughReducer_fold : forall N dt decay cnt (o : T N) s,
  kfold (cls_pass N) dt decay cnt o s = PassthroughReducer_fold N o s.
Proof. reflexivity. Qed.
Theorem tie_PassthroughReducer_interpolate : forall N p n sa st,
  kinterp (cls_pass N) p n sa st = PassthroughReducer_interpolate N p n sa st.
Proof. reflexivity. Qed.
Theorem tie_PassthroughReducer_fill : forall N,
  kfill (cls_pass N) = PassthroughReducer_fill N /\ kdecay (cls_pass N) = None /\ kcounts (cls_pass N) = false.
Proof. repeat split; reflexivity. Qed.
