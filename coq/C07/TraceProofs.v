(* C07, part 1: closed forms of the one-step kernels over ANY observation history (real-number instance).

   A history is the list of steps, oldest first; each step carries the step time in force when it was
   folded (the reducers recompute decay = exp(-dt/tau) when dt changes) and the observation.  The
   independent specification is written with the AGE of every observation - the time elapsed between
   that observation and the present, i.e. the sum of the step times of all LATER steps:

     cumulative trace = sum over matching observations of  amplitude * exp(-age/tau)
     nearest trace    = amplitude * exp(-age/tau) of the latest matching observation, 0 if none
     scaled variants  = the same with (scale*obs + amplitude) in place of amplitude
     event            = age of the latest matching observation
     EMA              = (1-a)^n x_0 + sum_i a (1-a)^(n-i) x_i ;   CA = arithmetic mean.

   All theorems are about the GENERATED definitions of Gen/Trace.v (so an edit of the Python formula
   re-checks them) except exponential_smoothing / the CA and event folds, which are the hand-transcribed
   definitions of C07/Reducer.v. *)
From Coq Require Import List ZArith Reals Bool Lra Lia.
From Inferno Require Import Base.Num Base.NumR Gen.Trace Gen.Interpolation C01.Ring C07.Reducer.
Import ListNotations.
Open Scope R_scope.
Local Notation exp := Rtrigo_def.exp.

(* ------------------------------------------------------------------ sums and ages *)
Fixpoint sum_list (l : list R) : R := match l with [] => 0 | x :: t => x + sum_list t end.

Lemma sum_list_app l m : sum_list (l ++ m) = sum_list l + sum_list m.
Proof. induction l as [|x l IH]; cbn; [lra|rewrite IH; lra]. Qed.
Lemma sum_list_map_scale {X} (g : X -> R) c l : sum_list (map (fun x => c * g x) l) = c * sum_list (map g l).
Proof. induction l as [|x l IH]; cbn; [lra|rewrite IH; lra]. Qed.
Lemma sum_list_ext {X} (g h : X -> R) l : (forall x, In x l -> g x = h x) -> sum_list (map g l) = sum_list (map h l).
Proof.
  induction l as [|x l IH]; intros H; cbn; [reflexivity|].
  rewrite (H x (or_introl eq_refl)), IH; [reflexivity|]. intros y Hy; apply H; right; exact Hy.
Qed.

Section Ages.
Context {Obs : Type}.
(* total time spanned by a list of steps *)
Definition sum_dt (l : list (R * Obs)) : R := sum_list (map fst l).
(* (age, observation): age = time between that observation and the present = sum of the step times of all
   later steps *)
Fixpoint elapsed (l : list (R * Obs)) : list (R * Obs) :=
  match l with
  | [] => []
  | p :: tl => (sum_dt tl, snd p) :: elapsed tl
  end.
Definition shift_age (dt : R) (p : R * Obs) : R * Obs := (fst p + dt, snd p).

Lemma sum_dt_snoc l p : sum_dt (l ++ [p]) = sum_dt l + fst p.
Proof. unfold sum_dt. rewrite map_app, sum_list_app. cbn. lra. Qed.
Lemma elapsed_snoc l p : elapsed (l ++ [p]) = map (shift_age (fst p)) (elapsed l) ++ [(0, snd p)].
Proof.
  induction l as [|q l IH]; cbn [app elapsed map].
  - unfold sum_dt; cbn. reflexivity.
  - rewrite IH, sum_dt_snoc. reflexivity.
Qed.
Lemma elapsed_length l : length (elapsed l) = length l.
Proof. induction l as [|q l IH]; cbn; congruence. Qed.

(* the latest observation satisfying m, with its age *)
Fixpoint last_event (m : Obs -> bool) (l : list (R * Obs)) : option (R * Obs) :=
  match l with
  | [] => None
  | p :: tl => match last_event m tl with
               | Some x => Some x
               | None => if m (snd p) then Some (sum_dt tl, snd p) else None
               end
  end.
Lemma last_event_snoc m l p :
  last_event m (l ++ [p]) = if m (snd p) then Some (0, snd p) else option_map (shift_age (fst p)) (last_event m l).
Proof.
  induction l as [|q l IH]; cbn [app last_event].
  - unfold sum_dt; cbn. destruct (m (snd p)); reflexivity.
  - rewrite IH. destruct (m (snd p)); [reflexivity|].
    destruct (last_event m l) as [x|]; cbn [option_map]; [reflexivity|].
    destruct (m (snd q)); cbn [option_map]; [|reflexivity].
    unfold shift_age; cbn [fst snd]. rewrite sum_dt_snoc. reflexivity.
Qed.
(* specification facts about last_event: it is a matching member, and nothing later matches *)
Lemma last_event_none m l : last_event m l = None <-> (forall p, In p l -> m (snd p) = false).
Proof.
  induction l as [|q l IH]; cbn [last_event].
  - split; [intros _ p []|reflexivity].
  - destruct (last_event m l) as [x|] eqn:E.
    + split; [discriminate|]. intros H. exfalso.
      assert (Hl : Some x = None) by (apply IH; intros p Hp; apply H; right; exact Hp). discriminate.
    + destruct (m (snd q)) eqn:Eq.
      * split; [discriminate|]. intros H. rewrite (H q (or_introl eq_refl)) in Eq. discriminate.
      * split; [|reflexivity]. intros _ p [<-|Hp]; [exact Eq|]. apply IH; [reflexivity|exact Hp].
Qed.
Lemma last_event_some m l age o : last_event m l = Some (age, o) ->
  exists l1 dt l2, l = l1 ++ (dt, o) :: l2 /\ m o = true /\ age = sum_dt l2 /\ (forall p, In p l2 -> m (snd p) = false).
Proof.
  revert age o. induction l as [|q l IH]; cbn [last_event]; intros age o H; [discriminate|].
  destruct (last_event m l) as [x|] eqn:E.
  - injection H as ->. destruct (IH age o eq_refl) as (l1 & dt & l2 & -> & Hm & Ha & Hn).
    exists (q :: l1), dt, l2. auto.
  - destruct (m (snd q)) eqn:Eq; [|discriminate]. injection H as <- <-.
    exists [], (fst q), l. destruct q; cbn. repeat split; auto. apply last_event_none; exact E.
Qed.
End Ages.

(* steps since each observation (fixed step time): (n-1, x_0), ..., (0, x_{n-1}) *)
Definition ages {X} (l : list X) : list (nat * X) := combine (rev (seq 0 (length l))) l.
Lemma ages_cons {X} (x : X) l : ages (x :: l) = (length l, x) :: ages l.
Proof. unfold ages. cbn [length]. rewrite seq_S, rev_app_distr. reflexivity. Qed.
Lemma elapsed_fixed_dt {X} (dt : R) (l : list X) :
  elapsed (map (fun o => (dt, o)) l) = map (fun ko => (INR (fst ko) * dt, snd ko)) (ages l).
Proof.
  induction l as [|x l IH]; [reflexivity|].
  rewrite ages_cons. cbn [map elapsed fst snd]. rewrite IH. f_equal. f_equal.
  unfold sum_dt. rewrite map_map. cbn [fst]. clear. induction l as [|y l IH]; cbn [map sum_list length]; [cbn; lra|].
  rewrite IH, S_INR. lra.
Qed.

(* ------------------------------------------------------------------ generic cumulative / nearest recurrences *)
Section Generic.
Context {Obs : Type}.
Variable tau : R.
Variable f : R -> Obs -> option R -> R.        (* step time, observation, prior state *)
Definition run_state (l : list (R * Obs)) : option R :=
  fold_left (fun s p => Some (f (fst p) (snd p) s)) l None.
Lemma run_state_snoc l p : run_state (l ++ [p]) = Some (f (fst p) (snd p) (run_state l)).
Proof. unfold run_state. rewrite fold_left_app. reflexivity. Qed.

Lemma shift_sum (g : Obs -> R) dt (E : list (R * Obs)) :
  sum_list (map (fun p => g (snd p) * exp (- fst p / tau)) (map (shift_age dt) E))
  = exp (- dt / tau) * sum_list (map (fun p => g (snd p) * exp (- fst p / tau)) E).
Proof.
  induction E as [|q E IH]; cbn [map sum_list]; [lra|]. rewrite IH. unfold shift_age; cbn [fst snd].
  replace (- (fst q + dt) / tau) with (- fst q / tau + - dt / tau) by (unfold Rdiv; ring).
  rewrite exp_plus. ring.
Qed.
Lemma exp_0_div : exp (- 0 / tau) = 1.
Proof. replace (- 0 / tau) with 0 by (unfold Rdiv; ring). apply exp_0. Qed.

Section Cum.
Variable contrib : Obs -> R.
Hypothesis f_none : forall dt o, f dt o None = contrib o.
Hypothesis f_some : forall dt o s, f dt o (Some s) = exp (- dt / tau) * s + contrib o.
Definition cum_closed (l : list (R * Obs)) : R :=
  sum_list (map (fun p => contrib (snd p) * exp (- fst p / tau)) (elapsed l)).
Theorem cum_generic l : run_state l = match l with [] => None | _ => Some (cum_closed l) end.
Proof.
  induction l as [|p l IH] using rev_ind; [reflexivity|].
  rewrite run_state_snoc, IH.
  assert (Hs : forall (q : R * Obs) m, match (q :: m) ++ [p] with [] => @None R | _ => Some (cum_closed ((q :: m) ++ [p])) end
                                = Some (cum_closed ((q :: m) ++ [p]))) by reflexivity.
  destruct l as [|q m].
  - cbn [app]. rewrite f_none. unfold cum_closed. cbn. rewrite exp_0_div. f_equal. lra.
  - rewrite Hs, f_some. f_equal. unfold cum_closed. rewrite elapsed_snoc, map_app, sum_list_app, shift_sum.
    cbn [map sum_list fst snd]. rewrite exp_0_div. lra.
Qed.
End Cum.

Section Near.
Variable m : Obs -> bool.
Variable v : Obs -> R.
Hypothesis f_none : forall dt o, f dt o None = if m o then v o else 0.
Hypothesis f_some : forall dt o s, f dt o (Some s) = if m o then v o else exp (- dt / tau) * s.
Definition near_closed (l : list (R * Obs)) : R :=
  match last_event m l with
  | Some (age, o) => v o * exp (- age / tau)
  | None => 0
  end.
Theorem near_generic l : run_state l = match l with [] => None | _ => Some (near_closed l) end.
Proof.
  induction l as [|p l IH] using rev_ind; [reflexivity|].
  rewrite run_state_snoc, IH.
  assert (Hs : forall (q : R * Obs) k, match (q :: k) ++ [p] with [] => @None R | _ => Some (near_closed ((q :: k) ++ [p])) end
                                = Some (near_closed ((q :: k) ++ [p]))) by reflexivity.
  destruct l as [|q k].
  - cbn [app]. rewrite f_none. unfold near_closed. cbn [last_event]. destruct (m (snd p)); [|reflexivity].
    unfold sum_dt; cbn. rewrite exp_0_div. f_equal. lra.
  - rewrite Hs, f_some. f_equal. unfold near_closed. rewrite last_event_snoc.
    destruct (m (snd p)).
    + rewrite exp_0_div. lra.
    + destruct (last_event m (q :: k)) as [[age o]|]; cbn [option_map shift_age fst snd]; [|lra].
      replace (- (age + fst p) / tau) with (- age / tau + - fst p / tau) by (unfold Rdiv; ring).
      rewrite exp_plus. ring.
Qed.
End Near.
End Generic.

(* ------------------------------------------------------------------ the generated kernels *)
(* "the observation is an event": the documented matching rule of trace_nearest / trace_cumulative *)
Definition is_event (target : R) (tol : option R) (o : R) : Prop :=
  match tol with Some e => Rabs (o - target) <= e | None => o = target end.
Definition matchb (target : R) (tol : option R) (o : R) : bool :=
  match tol with Some e => Rleb' (Rabs (o - target)) e | None => Reqb' o target end.
Lemma matchb_spec target tol o : reflect (is_event target tol o) (matchb target tol o).
Proof. unfold is_event, matchb. destruct tol; [apply Rleb'_spec|apply Reqb'_spec]. Qed.

Lemma mul_b2t (a : R) (b : bool) : a * b2t RN b = if b then a else 0.
Proof. unfold b2t; destruct b; rn_simpl; lra. Qed.
Lemma decay_of_R tau dt : decay_of RN tau dt = exp (- dt / tau).
Proof. reflexivity. Qed.
(* the generated kernel satisfies a recurrence equation: robust against harmless rewrites of the Python
   expression (operand order, association), since it ends in case analysis + ring *)
Ltac kernel_eq :=
  rewrite ?decay_of_R; unfold matchb, b2t; rn_simpl;
  repeat match goal with
         | |- context [match ?t with Some _ => _ | None => _ end] => destruct t
         | |- context [if ?b then _ else _] => destruct b
         end;
  rn_simpl; try reflexivity; try ring.

(* a step of a trace reducer: the generated kernel applied with the decay the reducer holds for the
   step time in force *)
Definition cumulative_step (tau a target : R) (tol : option R) (dt o : R) (s : option R) : R :=
  trace_cumulative RN o s (decay_of RN tau dt) a target tol.
Definition nearest_step (tau a target : R) (tol : option R) (dt o : R) (s : option R) : R :=
  trace_nearest RN o s (decay_of RN tau dt) a target tol.
Definition cumulative_scaled_step (tau a scale : R) (crit : R -> bool) (dt o : R) (s : option R) : R :=
  trace_cumulative_scaled RN o s (decay_of RN tau dt) a scale crit.
Definition nearest_scaled_step (tau a scale : R) (crit : R -> bool) (dt o : R) (s : option R) : R :=
  trace_nearest_scaled RN o s (decay_of RN tau dt) a scale crit.
Definition cumulative_cond_step (tau a scale : R) (dt : R) (oc : R * bool) (s : option R) : R :=
  trace_cumulative_scaled RN (fst oc) s (decay_of RN tau dt) a scale (fun _ => snd oc).
Definition nearest_cond_step (tau a scale : R) (dt : R) (oc : R * bool) (s : option R) : R :=
  trace_nearest_scaled RN (fst oc) s (decay_of RN tau dt) a scale (fun _ => snd oc).
Definition cumulative_value_step (tau scale : R) (dt o : R) (s : option R) : R :=
  trace_cumulative_value RN o s (decay_of RN tau dt) scale.

(* cumulative trace = sum over all past matching events of  a * exp(-(t - t_f)/tau) *)
Theorem cumulative_closed tau a target tol (l : list (R * R)) :
  run_state (cumulative_step tau a target tol) l
  = match l with
    | [] => None
    | _ => Some (sum_list (map (fun p => (if matchb target tol (snd p) then a else 0) * exp (- fst p / tau)) (elapsed l)))
    end.
Proof.
  apply (cum_generic tau (cumulative_step tau a target tol) (fun o => if matchb target tol o then a else 0)).
  - intros dt o. unfold cumulative_step, trace_cumulative. kernel_eq.
  - intros dt o s. unfold cumulative_step, trace_cumulative. kernel_eq.
Qed.

(* nearest trace = a * exp(-(t - t_last)/tau), 0 before the first event *)
Theorem nearest_closed tau a target tol (l : list (R * R)) :
  run_state (nearest_step tau a target tol) l
  = match l with
    | [] => None
    | _ => Some (match last_event (matchb target tol) l with
                 | Some (age, _) => a * exp (- age / tau)
                 | None => 0
                 end)
    end.
Proof.
  rewrite (near_generic tau (nearest_step tau a target tol) (matchb target tol) (fun _ => a)).
  - unfold near_closed. destruct l; [reflexivity|]. destruct (last_event _ _) as [[? ?]|]; reflexivity.
  - intros dt o. unfold nearest_step, trace_nearest. kernel_eq.
  - intros dt o s. unfold nearest_step, trace_nearest. kernel_eq.
Qed.

(* scaled variants: every matching observation h contributes scale*h + amplitude *)
Theorem cumulative_scaled_closed tau a scale crit (l : list (R * R)) :
  run_state (cumulative_scaled_step tau a scale crit) l
  = match l with
    | [] => None
    | _ => Some (sum_list (map (fun p => (if crit (snd p) then scale * snd p + a else 0) * exp (- fst p / tau)) (elapsed l)))
    end.
Proof.
  apply (cum_generic tau (cumulative_scaled_step tau a scale crit) (fun o => if crit o then scale * o + a else 0)).
  - intros dt o. unfold cumulative_scaled_step, trace_cumulative_scaled. kernel_eq.
  - intros dt o s. unfold cumulative_scaled_step, trace_cumulative_scaled. kernel_eq.
Qed.
Theorem nearest_scaled_closed tau a scale crit (l : list (R * R)) :
  run_state (nearest_scaled_step tau a scale crit) l
  = match l with
    | [] => None
    | _ => Some (match last_event crit l with
                 | Some (age, h) => (scale * h + a) * exp (- age / tau)
                 | None => 0
                 end)
    end.
Proof.
  rewrite (near_generic tau (nearest_scaled_step tau a scale crit) crit (fun o => scale * o + a)).
  - unfold near_closed. destruct l; reflexivity.
  - intros dt o. unfold nearest_scaled_step, trace_nearest_scaled. kernel_eq.
  - intros dt o s. unfold nearest_scaled_step, trace_nearest_scaled. kernel_eq.
Qed.

(* conditional variants: the event condition is a second input *)
Theorem cumulative_conditional_closed tau a scale (l : list (R * (R * bool))) :
  run_state (cumulative_cond_step tau a scale) l
  = match l with
    | [] => None
    | _ => Some (sum_list (map (fun p : R * (R * bool) => (if snd (snd p) then scale * fst (snd p) + a else 0) * exp (- fst p / tau)) (elapsed l)))
    end.
Proof.
  apply (cum_generic tau (cumulative_cond_step tau a scale) (fun oc : R * bool => if snd oc then scale * fst oc + a else 0)).
  - intros dt o. unfold cumulative_cond_step, trace_cumulative_scaled. kernel_eq.
  - intros dt o s. unfold cumulative_cond_step, trace_cumulative_scaled. kernel_eq.
Qed.
Theorem nearest_conditional_closed tau a scale (l : list (R * (R * bool))) :
  run_state (nearest_cond_step tau a scale) l
  = match l with
    | [] => None
    | _ => Some (match last_event (@snd R bool) l with
                 | Some (age, hc) => (scale * fst hc + a) * exp (- age / tau)
                 | None => 0
                 end)
    end.
Proof.
  rewrite (near_generic tau (nearest_cond_step tau a scale) (@snd R bool) (fun oc : R * bool => scale * fst oc + a)).
  - unfold near_closed. destruct l; reflexivity.
  - intros dt o. unfold nearest_cond_step, trace_nearest_scaled. kernel_eq.
  - intros dt o s. unfold nearest_cond_step, trace_nearest_scaled. kernel_eq.
Qed.

(* trace_cumulative_value: every observation contributes scale * h *)
Theorem cumulative_value_closed tau scale (l : list (R * R)) :
  run_state (cumulative_value_step tau scale) l
  = match l with
    | [] => None
    | _ => Some (sum_list (map (fun p => scale * snd p * exp (- fst p / tau)) (elapsed l)))
    end.
Proof.
  apply (cum_generic tau (cumulative_value_step tau scale) (fun o => scale * o)).
  - intros dt o. unfold cumulative_value_step, trace_cumulative_value. kernel_eq.
  - intros dt o s. unfold cumulative_value_step, trace_cumulative_value. kernel_eq.
Qed.

(* fixed step time: the flagship form, with the number of steps since each observation *)
Theorem cumulative_closed_fixed_dt tau a target tol dt (obs : list R) :
  run_state (cumulative_step tau a target tol) (map (fun o => (dt, o)) obs)
  = match obs with
    | [] => None
    | _ => Some (sum_list (map (fun ko => if matchb target tol (snd ko) then a * exp (- (INR (fst ko) * dt) / tau) else 0)
                               (ages obs)))
    end.
Proof.
  rewrite cumulative_closed, elapsed_fixed_dt, map_map. destruct obs as [|o obs]; [reflexivity|].
  cbn [map]. f_equal. apply sum_list_ext. intros [k x] _. cbn [fst snd]. destruct (matchb target tol x); lra.
Qed.

(* the decay after n steps of a fixed step time is the analytic one *)
Lemma decay_pow tau dt n : exp (- dt / tau) ^ n = exp (- (INR n * dt) / tau).
Proof.
  induction n as [|n IH]; [cbn; replace (- (0 * dt) / tau) with 0 by (unfold Rdiv; ring); symmetry; apply exp_0|].
  rewrite S_INR. cbn [Rpow_def.pow]. rewrite IH, <- exp_plus. f_equal. unfold Rdiv; ring.
Qed.

(* ------------------------------------------------------------------ event: time since the last event *)
Section Event.
Variable crit : R -> bool.
Variable i : einit.
Definition event_step (dt o : R) (s : option (option R)) : option R :=
  kfold (cls_event RN crit i) dt 0 0%Z o s.
Definition event_run (l : list (R * R)) : option (option R) :=
  fold_left (fun s p => Some (event_step (fst p) (snd p) s)) l None.
(* time since the last event; before the first event: the initial value (None = inf / nan), which for
   initial = 'zero' means the time since the first observation *)
Definition event_closed (l : list (R * R)) : option R :=
  match last_event crit l with
  | Some (age, _) => Some age
  | None => match i with EZero => Some (sum_dt (tl l)) | _ => None end
  end.
Theorem event_time_since_last l :
  event_run l = match l with [] => None | _ => Some (event_closed l) end.
Proof.
  induction l as [|p l IH] using rev_ind; [reflexivity|].
  unfold event_run in *. rewrite fold_left_app. cbn [fold_left]. rewrite IH.
  assert (Hs : forall (q : R * R) k, match (q :: k) ++ [p] with [] => @None (option R) | _ => Some (event_closed ((q :: k) ++ [p])) end
                                = Some (event_closed ((q :: k) ++ [p]))) by reflexivity.
  destruct l as [|q k].
  - cbn [app]. f_equal. unfold event_step, event_closed, cls_event, kfold, event_init. cbn [last_event tl].
    destruct (crit (snd p)); [unfold sum_dt; reflexivity|]. destruct i; reflexivity.
  - rewrite Hs. f_equal. unfold event_step, event_closed, cls_event, kfold. rewrite last_event_snoc.
    destruct (crit (snd p)); [reflexivity|].
    destruct (last_event crit (q :: k)) as [[age o]|]; cbn [option_map shift_age fst snd]; rn_simpl; [reflexivity|].
    destruct i; cbn [option_map]; try reflexivity.
    cbn [app tl]. rewrite sum_dt_snoc. reflexivity.
Qed.
End Event.

(* ------------------------------------------------------------------ exponential smoothing *)
Definition ema_run (alpha : R) (l : list R) : option R :=
  fold_left (fun s o => Some (exponential_smoothing RN o s alpha)) l None.
(* s_n = (1-a)^n x_0 + sum_{i=1..n} a (1-a)^(n-i) x_i *)
Definition ema_closed (alpha : R) (l : list R) : R :=
  match l with
  | [] => 0
  | x0 :: tl => (1 - alpha) ^ length tl * x0
                + sum_list (map (fun kx => alpha * (1 - alpha) ^ fst kx * snd kx) (ages tl))
  end.
Lemma ages_snoc {X} (l : list X) x : ages (l ++ [x]) = map (fun kx => (S (fst kx), snd kx)) (ages l) ++ [(O, x)].
Proof.
  induction l as [|y l IH]; [reflexivity|].
  change ((y :: l) ++ [x]) with (y :: (l ++ [x])). rewrite !ages_cons, IH, app_length. cbn [length map fst snd app].
  replace (length l + 1)%nat with (S (length l)) by lia. reflexivity.
Qed.
Theorem ema_closed_form alpha l :
  ema_run alpha l = match l with [] => None | _ => Some (ema_closed alpha l) end.
Proof.
  induction l as [|x l IH] using rev_ind; [reflexivity|].
  unfold ema_run in *. rewrite fold_left_app. cbn [fold_left]. rn_simpl. rewrite IH.
  destruct l as [|x0 tl]; [cbn; f_equal; lra|].
  cbn [app]. f_equal. unfold exponential_smoothing, Gen.Math.exponential_smoothing, ema_closed. rn_simpl.
  rewrite app_length. cbn [length]. replace (length tl + 1)%nat with (S (length tl)) by lia.
  rewrite ages_snoc, map_app, sum_list_app, map_map. cbn [map sum_list fst snd Rpow_def.pow].
  rewrite (sum_list_ext (fun kx : nat * R => alpha * ((1 - alpha) * (1 - alpha) ^ fst kx) * snd kx)
                        (fun kx => (1 - alpha) * (alpha * (1 - alpha) ^ fst kx * snd kx))) by (intros; ring).
  rewrite sum_list_map_scale. ring.
Qed.

(* ------------------------------------------------------------------ cumulative average = arithmetic mean *)
Definition ca_run (l : list R) : option R * Z :=
  fold_left (fun sc o => let c := (snd sc + 1)%Z in (Some (kfold (cls_ca RN) 0 0 c o (fst sc)), c)) l (None, 0%Z).
Theorem ca_is_mean l :
  ca_run l = match l with [] => (None, 0%Z) | _ => (Some (sum_list l / INR (length l)), Z.of_nat (length l)) end.
Proof.
  induction l as [|x l IH] using rev_ind; [reflexivity|].
  unfold ca_run in *. rewrite fold_left_app. cbn [fold_left]. rn_simpl. rewrite IH.
  destruct l as [|x0 tl]; [cbn; f_equal; f_equal; field|].
  cbn [app fst snd]. set (n := length (x0 :: tl)).
  assert (Hn : length (x0 :: tl ++ [x]) = S n) by (unfold n; cbn [length]; rewrite app_length; cbn; lia).
  rewrite Hn. f_equal; [|lia]. f_equal. unfold cls_ca, kfold. rn_simpl.
  replace (Z.of_nat n + 1)%Z with (Z.of_nat (S n)) by lia. rewrite <- INR_IZR_INZ.
  change (x0 :: tl ++ [x]) with ((x0 :: tl) ++ [x]). rewrite sum_list_app. cbn [sum_list].
  assert (Hpos : 0 < INR n) by (apply lt_0_INR; unfold n; cbn; lia).
  rewrite S_INR. field. split; lra.
Qed.

(* ------------------------------------------------------------------ pass-through *)
Theorem passthrough_id (l : list R) :
  fold_left (fun s o => Some (kfold (cls_pass RN) 0 0 0%Z o s)) l None
  = match rev l with [] => None | x :: _ => Some x end.
Proof.
  induction l as [|x l IH] using rev_ind; [reflexivity|].
  rewrite fold_left_app, rev_app_distr. reflexivity.
Qed.
