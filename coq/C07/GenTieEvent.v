(* C07 - tie of the model (C07/Reducer.v) to the definitions GENERATED from class EventReducer
   (Gen/ReducerClasses.v, re-translated from inferno/observe/reducers on every run).  Every statement is an equality
   between a field of the model's class record and the generated definition, so an edit of the class's fold /
   interpolate / fill in the source changes the generated term and stops this file compiling. *)
From Coq Require Import List ZArith Bool.
From Inferno Require Import Base.Num Gen.Infra Gen.Trace Gen.Math Gen.Interpolation Gen.ReducerClasses C01.Ring C07.Reducer.
Import ListNotations.

(* pin the generated parameter names (reading a different attribute in the source breaks this file) *)
Arguments EventReducer_fold N self_criterion self_dt self_initial_value obs state : assert.
Arguments EventReducer_interpolate N prev_data next_data sample_at step_time : assert.
Arguments EventReducer_fill N initial : assert.
Arguments EventReducer_initial_value N initial : assert.

(* The generated fold is over numbers.  The model's element type is option (T N): None stands for the non-finite initial
   value float('inf') / float('nan') (hand-written lifting: it is absorbing for "+ dt" and "+ sample_at"), and the mapping
   of the constructor's string argument to the initial value (einit / event_init) is hand-written as well.
   On finite values the model IS the generated fold: *)
Theorem tie_EventReducer_fold_finite : forall N crit i init dt decay cnt o (s : option (T N)),
  event_init N i = Some init ->
  kfold (cls_event N crit i) dt decay cnt o (option_map Some s)
  = Some (EventReducer_fold N crit dt (EventReducer_initial_value N init) o s).
Proof.
  intros N crit i init dt decay cnt o s Hi. unfold cls_event, kfold, EventReducer_fold, EventReducer_initial_value.
  destruct s as [x|]; cbn [option_map]; destruct (crit o); try reflexivity. exact Hi.
Qed.
(* the absorbing element: an event resets it to 0, otherwise it stays *)
Theorem tie_EventReducer_fold_nonfinite : forall N crit i dt decay cnt o,
  kfold (cls_event N crit i) dt decay cnt o (Some None) = (if crit o then Some (zero N) else None) /\
  (event_init N i = None -> kfold (cls_event N crit i) dt decay cnt o None = (if crit o then Some (zero N) else None)).
Proof.
  intros. unfold cls_event, kfold. split; [destruct (crit o); reflexivity|]. intros Hi. rewrite Hi. reflexivity.
Qed.
(* the step time added per step is the reducer's dt (first argument of kfold), nothing is read from decay / count *)
Theorem tie_EventReducer_interpolate : forall N crit i p (n : option (T N)) n' sa st,
  kinterp (cls_event N crit i) (Some p) n sa st = Some (EventReducer_interpolate N p n' sa st) /\
  kinterp (cls_event N crit i) None n sa st = None.
Proof. split; reflexivity. Qed.
Theorem tie_EventReducer_fill : forall N crit i,
  kfill (cls_event N crit i) = event_init N i /\
  (forall init, event_init N i = Some init -> kfill (cls_event N crit i) = Some (EventReducer_fill N init)) /\
  kdecay (cls_event N crit i) = None /\ kcounts (cls_event N crit i) = false.
Proof. intros. split; [reflexivity|]. split; [intros init H; exact H|]. split; reflexivity. Qed.
