(* C07 - tie of the model's state machine (C07/Reducer.v: forward, rd_clear, rd_peek, rd_dump, rd_view_scalar) to the
   statement structure GENERATED from FoldReducer (inferno/observe/reducers/base.py -> Gen/ReducerClasses.v: emitted only
   when the method bodies have exactly the expected statement shapes; any edit of the decision structure, of an
   operation or of their order fails the translation).  The generated definitions are over abstract record operations;
   here they are instantiated with the C01 ring operations the model uses.  The model additionally threads errors
   (RErr) and the observation counter; the ties are stated for the calls that return. *)
From Coq Require Import List ZArith Bool.
From Inferno Require Import Base.Num Gen.Infra Gen.ReducerClasses C01.Ring C07.Reducer C07.ReducerProofs.
Import ListNotations.

Arguments FoldReducer_forward {S X} fold peek push ignored initialize self_initial data_ : assert.
Arguments FoldReducer_clear {S} reset_fill deinitialize keepshape data_ : assert.
Arguments FoldReducer_peek {S X} peek self_initial data_ : assert.
Arguments FoldReducer_dump {S Y} align0 value_flip self_initial data_ : assert.
Arguments FoldReducer_view {S Y} select_interpolate self_initial data_ : assert.

Section Tie.
Variable M : Num.
Context {A Obs : Type}.
Variable K : @rclass M A Obs.
Notation reducer := (@reducer M A).
Notation ring := (@ring A unit).

(* the record operations, as total functions on the record (an operation that raises leaves it unchanged) *)
Definition op_peek (s : ring) : option (list A) :=
  match @peek A unit s with Ok _ (OObs _ _ els) => Some els | _ => None end.
Definition op_push (sh : list nat) (inpl : bool) (x : list A) (s : ring) : ring :=
  match @push A unit rcast (kfill K) s (mkObs tt sh x) inpl with Ok s' _ => s' | Err _ => s end.
Definition op_initialize (sh : list nat) (_ : list A) (s : ring) : ring := @initialize A unit (kfill K) s sh tt.
Definition op_reset_fill (s : ring) : ring :=
  match @reset A unit rcast s (Some (kfill K)) with Ok s' _ => s' | Err _ => s end.
Definition op_align0 (s : ring) : ring := match @align A unit s 0 with Ok s' _ => s' | Err _ => s end.
Definition op_value_flip (s : ring) : option (list nat * list (list A)) :=
  match st s with SFull _ sh rows => Some (sh, rev rows) | _ => None end.

Theorem tie_FoldReducer_initial : forall dt dur incl inpl, rinit (fresh M K dt dur incl inpl) = FoldReducer_initial.
Proof. reflexivity. Qed.

(* forward: record and _initial flag after a call that returns *)
Theorem tie_FoldReducer_forward : forall (r r' : reducer) sh obs out,
  forward M K r sh obs = ROk r' out ->
  (rrec r', rinit r') =
  FoldReducer_forward (zipfold M K (bump K r) obs) op_peek (op_push sh (rinpl r)) (@ignored A) (op_initialize sh)
                      (rinit r) (rrec r).
Proof.
  intros r r' sh obs out H. unfold forward in H. fold (bump K r) in H.
  unfold FoldReducer_forward, op_peek, op_push, op_initialize.
  destruct (rinit r) eqn:Ei; cbn [negb] in *.
  - destruct (ignored (rrec r)); destruct (push _ _ _ _ _) as [s' o'|e] eqn:Ep; try discriminate;
      injection H as <- _; reflexivity.
  - rewrite rrec_bump in H.
    destruct (peek (rrec r)) as [s0 [| | |d shs els|]|e]; try discriminate;
      try (destruct (push _ _ _ _ _) as [s' o'|e'] eqn:Ep; try discriminate; injection H as <- _;
           cbn [rrec rinit set_rec]; rewrite rinit_bump, Ei; reflexivity).
    destruct (kcheck K && negb (shape_eqb sh shs)); [discriminate|].
    destruct (push _ _ _ _ _) as [s' o'|e'] eqn:Ep; try discriminate. injection H as <- _.
    cbn [rrec rinit set_rec]. rewrite rinit_bump, Ei. reflexivity.
Qed.

(* clear *)
Theorem tie_FoldReducer_clear : forall (r r' : reducer) ks out,
  rd_clear M K r ks = ROk r' out ->
  (rrec r', rinit r') = FoldReducer_clear op_reset_fill (@deinitialize A) ks (rrec r).
Proof.
  intros r r' ks out H. unfold rd_clear in H. unfold FoldReducer_clear, op_reset_fill.
  assert (Hrec : rrec (if kcounts K then set_count r 0%Z else r) = rrec r) by (destruct (kcounts K); reflexivity).
  destruct ks.
  - rewrite Hrec in H. destruct (reset _ _ _) as [s' o'|e]; [|discriminate]. injection H as <- _. reflexivity.
  - injection H as <- _. cbn [rrec rinit set_init set_rec]. rewrite Hrec. reflexivity.
Qed.

(* peek / latest *)
Theorem tie_FoldReducer_peek : forall (r : reducer),
  rd_peek M r = ROk r (match FoldReducer_peek (fun s => match @peek A unit s with Ok _ (OObs _ sh el) => Some (sh, el) | _ => None end)
                                              (rinit r) (rrec r)
                       with Some (sh, el) => RObs sh el | None => RNone end).
Proof.
  intros r. unfold rd_peek, FoldReducer_peek. destruct (negb (rinit r)); [|reflexivity].
  unfold peek, read. destruct (st (rrec r)); reflexivity.
Qed.

(* dump *)
Theorem tie_FoldReducer_dump : forall (r r' : reducer) out,
  rd_dump M r = ROk r' out ->
  rrec r' = fst (FoldReducer_dump op_align0 op_value_flip (rinit r) (rrec r)) /\
  out = match snd (FoldReducer_dump op_align0 op_value_flip (rinit r) (rrec r)) with
        | Some (Some (sh, rows)) => RRows sh rows
        | _ => RNone
        end.
Proof.
  intros r r' out H. unfold rd_dump in H. unfold FoldReducer_dump, op_align0, op_value_flip.
  destruct (negb (rinit r)); [|injection H as <- <-; split; reflexivity].
  destruct (align (rrec r) 0) as [s' o'|e]; [|discriminate]. cbn [fst snd].
  destruct (st s') as [|d|d sh rows]; try discriminate. injection H as <- <-. split; reflexivity.
Qed.

(* view (float time): None before the first observation, otherwise the record's time-indexed selection with the
   class's interpolate *)
Theorem tie_FoldReducer_view : forall (r r' : reducer) time tol out,
  rd_view_scalar M K r time tol = ROk r' out ->
  out = match FoldReducer_view (fun s => match st s with
                                         | SFull _ sh rows => RObs sh (select_scalar M K r rows time tol)
                                         | _ => RNone
                                         end) (rinit r) (rrec r)
        with Some o => o | None => RNone end.
Proof.
  intros r r' time tol out H. unfold rd_view_scalar in H. unfold FoldReducer_view.
  destruct (negb (rinit r)); [|injection H as _ <-; reflexivity].
  destruct (st (rrec r)); try discriminate. destruct (out_of_range M r time tol); [discriminate|].
  injection H as _ <-. reflexivity.
Qed.
End Tie.
