(* Executable (binary64) instance of the reducer model for the correspondence check, and the
   serialiser of its observable behaviour.  No theorem depends on this file. *)
From Coq Require Import List ZArith Bool PrimFloat.
From Inferno Require Import Base.Num Base.NumF Gen.Trace C01.Ring C07.Reducer.
Import ListNotations.

Section Ser.
Context {A Obs : Type}.
Variable serA : A -> tree.
Notation reducer := (@reducer FN A).
Notation rres := (@rres FN A).

Definition ser_err (e : err) : tree := match e with ERuntime => L 1 | EValue => L 2 | EIndex => L 3 end%Z.
Definition ser_shape (s : list nat) : tree := ser_list ser_nat s.
Definition ser_rout (o : @rout A) : tree :=
  match o with
  | RNone => Nd [L 0]
  | RUnit => Nd [L 1]
  | RObs sh el => Nd [L 3; ser_shape sh; ser_list serA el]
  | RRows sh rows => Nd [L 4; ser_shape sh; ser_list (ser_list serA) rows]
  | RView cols => Nd [L 5; ser_list (ser_list serA) cols]
  end%Z.
Definition ser_storage (s : @storage A unit) : tree :=
  match s with
  | SNone => Nd [L 0]
  | SEmpty _ => Nd [L 1]
  | SFull _ sh rows => Nd [L 2; ser_shape sh; ser_list (ser_list serA) rows]
  end%Z.
Definition ser_state (r : reducer) : tree :=
  Nd [ser_nat (Ring.N (rrec r)); ser_nat (ptr (rrec r)); ser_bool (rinit r); ser_storage (st (rrec r));
      ser_float (rdt r); ser_float (rdecay r); ser_Z (rcount r); ser_bool (rinpl r)].
Definition ser_res (x : rres) : tree :=
  match x with
  | ROk r o => Nd [Nd [L 0; ser_rout o]; ser_state r]
  | RErr r e => Nd [Nd [L 1; ser_err e]; ser_state r]
  end%Z.

Definition run_case (K : @rclass FN A Obs) (dt dur : float) (incl inpl : bool) (ops : list (@rop FN Obs)) : tree :=
  let r0 := fresh FN K dt dur incl inpl in
  Nd (ser_res (ROk r0 RUnit) :: map ser_res (snd (rrun FN K r0 ops))).
End Ser.

Definition ser_of (x : option float) : tree := ser_option ser_float x.

(* criteria used by the harness *)
Definition crit_gt (c : float) : float -> bool := fun x => gtb FN x c.
Definition crit_ge (c : float) : float -> bool := fun x => geb FN x c.
Definition crit_ne (c : float) : float -> bool := fun x => neb FN x c.
Definition crit_lt (c : float) : float -> bool := fun x => ltb FN x c.

(* float-typed constructors (so that literals elaborate without unifying T ?M with float) *)
Definition Fwd {Obs} (sh : list nat) (obs : list Obs) : @rop FN Obs := @OFwd FN Obs sh obs.
Definition Peek {Obs} : @rop FN Obs := @OPeek FN Obs.
Definition Dump {Obs} : @rop FN Obs := @ODump FN Obs.
Definition ViewS {Obs} (t tol : float) : @rop FN Obs := @OViewS FN Obs t tol.
Definition ViewT {Obs} (ts : list (list float)) (tol : float) : @rop FN Obs := @OViewT FN Obs ts tol.
Definition Clear {Obs} (ks : bool) : @rop FN Obs := @OClear FN Obs ks.
Definition SetDt {Obs} (v : float) : @rop FN Obs := @OSetDt FN Obs v.
Definition SetInplace {Obs} (b : bool) : @rop FN Obs := @OSetInplace FN Obs b.
Definition k_nearest (tau amp target : float) (tol : option float) := cls_nearest FN tau amp target tol.
Definition k_cumulative (tau amp target : float) (tol : option float) := cls_cumulative FN tau amp target tol.
Definition k_snearest (tau amp scale : float) (c : float -> bool) := cls_scaled_nearest FN tau amp scale c.
Definition k_scumulative (tau amp scale : float) (c : float -> bool) := cls_scaled_cumulative FN tau amp scale c.
Definition k_cnearest (tau amp scale : float) := cls_cond_nearest FN tau amp scale.
Definition k_ccumulative (tau amp scale : float) := cls_cond_cumulative FN tau amp scale.
Definition k_event (c : float -> bool) (i : einit) := cls_event FN c i.
Definition k_pass := cls_pass FN.
Definition k_ema (alpha : float) := cls_ema FN alpha.
Definition k_ca := cls_ca FN.
