(* C07, finding candidate (error path, outside the property's quantifier): CAReducer.fold increments _count BEFORE
   the arithmetic that can raise, so a forward() that raises (observation of an unbroadcastable shape) still
   advances the count; every later cumulative average is then divided by a count that is one too large and is no
   longer the mean of the observations that were folded.  Witness on the faithful model (real-number instance). *)
From Coq Require Import List ZArith Reals Bool Lra Lia.
From Flocq Require Import Core.Raux.
From Inferno Require Import Base.Num Base.NumR Gen.Infra C01.Ring C07.Reducer C07.ReducerProofs.
Import ListNotations.
Open Scope R_scope.

Definition ca0 : @reducer RN R := @mkRed RN R 1 0 false false 0 0%Z true (mkRing 1 0 (SEmpty tt)).
Lemma ca0_is_fresh : fresh RN (cls_ca RN) 1 0 false false = ca0.
Proof.
  unfold fresh, ca0, recordsz_expr. cbn [kdecay cls_ca]. rn_simpl.
  replace (0 / 1) with (IZR 0) by (cbn; field). rewrite Zceil_IZR. reflexivity.
Qed.
Definition ca_ops : list (@rop RN R) :=
  [@OFwd RN R [2%nat] [1; 0]; @OFwd RN R [3%nat] [0; 0; 1]; @OFwd RN R [2%nat] [0; 4]].

Theorem ca_count_after_failed_forward_refuted :
  let r0 := fresh RN (cls_ca RN) 1 0 false false in
  let r := final (cls_ca RN) r0 ca_ops in
  (* the second observation (wrong shape) raises RuntimeError and is not folded ... *)
  (exists r1, nth 1 (outputs (cls_ca RN) r0 ca_ops) (ROk r0 RNone) = RErr r1 ERuntime) /\
  (* ... the two folded observations are [1; 0] and [0; 4], whose mean is [1/2; 2], but the reducer reports *)
  exists x y, rd_peek RN r = ROk r (RObs [2%nat] [x; y]) /\ x = 2 / 3 /\ y = 4 / 3 /\ x <> (1 + 0) / 2 /\ y <> (0 + 4) / 2.
Proof.
  cbn zeta. rewrite ca0_is_fresh. split.
  - eexists. vm_compute. reflexivity.
  - eexists. eexists. split; [vm_compute; reflexivity|]. rn_simpl. repeat split; try lra; field.
Qed.
