(* C07 - tie of the model (C07/Reducer.v) to the definitions GENERATED from class EMAReducer
   (Gen/ReducerClasses.v, re-translated from inferno/observe/reducers on every run).  Every statement is an equality
   between a field of the model's class record and the generated definition, so an edit of the class's fold /
   interpolate / fill in the source changes the generated term and stops this file compiling. *)
From Coq Require Import List ZArith Bool.
From Inferno Require Import Base.Num Gen.Infra Gen.Trace Gen.Math Gen.Interpolation Gen.ReducerClasses C01.Ring C07.Reducer.
Import ListNotations.

(* pin the generated parameter names (reading a different attribute in the source breaks this file) *)
Arguments EMAReducer_fold N self_alpha obs state : assert.
Arguments EMAReducer_interpolate N prev_data next_data sample_at step_time : assert.

Theorem tie_EMAReducer_fold : forall N alpha dt decay cnt (o : T N) s,
  kfold (cls_ema N alpha) dt decay cnt o s = EMAReducer_fold N alpha o s.
Proof. reflexivity. Qed.
Theorem tie_EMAReducer_interpolate : forall N alpha p n sa st,
  kinterp (cls_ema N alpha) p n sa st = EMAReducer_interpolate N p n sa st.
Proof. reflexivity. Qed.
Theorem tie_EMAReducer_fill : forall N alpha,
  kfill (cls_ema N alpha) = EMAReducer_fill N /\ kdecay (cls_ema N alpha) = None /\ kcounts (cls_ema N alpha) = false.
Proof. repeat split; reflexivity. Qed.
