(* C07 - tie of the model (C07/Reducer.v) to the definitions GENERATED from class ConditionalNearestTraceReducer
   (Gen/ReducerClasses.v, re-translated from inferno/observe/reducers on every run).  Every statement is an equality
   between a field of the model's class record and the generated definition, so an edit of the class's fold / decay /
   interpolate / fill in the source changes the generated term and stops this file compiling. *)
From Coq Require Import List ZArith Bool.
From Inferno Require Import Base.Num Gen.Infra Gen.Trace Gen.Math Gen.Interpolation Gen.ReducerClasses C01.Ring C07.Reducer.
Import ListNotations.

(* the generated definitions take the attributes they read as parameters named self_<attribute>: pin the names, so that
   reading a different attribute in the source (same number of reads) also breaks this file *)
Arguments ConditionalNearestTraceReducer_fold N self_amplitude self_decay self_scale obs cond state : assert.
Arguments ConditionalNearestTraceReducer_decay N self_dt self_time_constant : assert.
Arguments ConditionalNearestTraceReducer_interpolate N self_time_constant prev_data next_data sample_at step_time : assert.

(* fold: which kernel, with which attributes as which arguments *)
Theorem tie_ConditionalNearestTraceReducer_fold : forall N (tau amp scale : T N) dt decay cnt (o : T N * bool) s,
  kfold (cls_cond_nearest N tau amp scale) dt decay cnt o s = ConditionalNearestTraceReducer_fold N amp decay scale (fst o) (snd o) s.
Proof. reflexivity. Qed.

(* decay: the dt setter's recomputation ... *)
Theorem tie_ConditionalNearestTraceReducer_decay : forall N (tau amp scale : T N),
  kdecay (cls_cond_nearest N tau amp scale) = Some (fun dt => ConditionalNearestTraceReducer_decay N dt tau).
Proof. reflexivity. Qed.
(* ... and the constructor's *)
Theorem tie_ConditionalNearestTraceReducer_fresh_decay : forall N (tau amp scale : T N) dt dur incl inpl,
  rdecay (fresh N (cls_cond_nearest N tau amp scale) dt dur incl inpl) = ConditionalNearestTraceReducer_decay N dt tau.
Proof. reflexivity. Qed.
Theorem tie_ConditionalNearestTraceReducer_set_dt_decay : forall N (tau amp scale : T N) r v r' out,
  rd_set_dt N (cls_cond_nearest N tau amp scale) r v = ROk r' out -> rdecay r' = ConditionalNearestTraceReducer_decay N (rdt r') tau.
Proof.
  intros N tau amp scale r v r' out H. unfold rd_set_dt in H. destruct (negb (gtb N v (zero N))); [discriminate|].
  cbn [kdecay cls_cond_nearest] in H. injection H as <- _. reflexivity.
Qed.

(* interpolate, the fill value, no observation counter *)
Theorem tie_ConditionalNearestTraceReducer_interpolate : forall N (tau amp scale : T N) p n sa st,
  kinterp (cls_cond_nearest N tau amp scale) p n sa st = ConditionalNearestTraceReducer_interpolate N tau p n sa st.
Proof. reflexivity. Qed.
Theorem tie_ConditionalNearestTraceReducer_fill : forall N (tau amp scale : T N),
  kfill (cls_cond_nearest N tau amp scale) = ConditionalNearestTraceReducer_fill N /\ kcounts (cls_cond_nearest N tau amp scale) = false.
Proof. split; reflexivity. Qed.
