(* C07 - tie of the model (C07/Reducer.v) to the definitions GENERATED from class ScaledNearestTraceReducer
   (Gen/ReducerClasses.v, re-translated from inferno/observe/reducers on every run).  Every statement is an equality
   between a field of the model's class record and the generated definition, so an edit of the class's fold / decay /
   interpolate / fill in the source changes the generated term and stops this file compiling. *)
From Coq Require Import List ZArith Bool.
From Inferno Require Import Base.Num Gen.Infra Gen.Trace Gen.Math Gen.Interpolation Gen.ReducerClasses C01.Ring C07.Reducer.
Import ListNotations.

(* the generated definitions take the attributes they read as parameters named self_<attribute>: pin the names, so that
   reading a different attribute in the source (same number of reads) also breaks this file *)
Arguments ScaledNearestTraceReducer_fold N self_amplitude self_criterion self_decay self_scale obs state : assert.
Arguments ScaledNearestTraceReducer_decay N self_dt self_time_constant : assert.
Arguments ScaledNearestTraceReducer_interpolate N self_time_constant prev_data next_data sample_at step_time : assert.

(* fold: which kernel, with which attributes as which arguments *)
Theorem tie_ScaledNearestTraceReducer_fold : forall N (tau amp scale : T N) (crit : T N -> bool) dt decay cnt (o : T N) s,
  kfold (cls_scaled_nearest N tau amp scale crit) dt decay cnt o s = ScaledNearestTraceReducer_fold N amp crit decay scale o s.
Proof. reflexivity. Qed.

(* decay: the dt setter's recomputation ... *)
Theorem tie_ScaledNearestTraceReducer_decay : forall N (tau amp scale : T N) (crit : T N -> bool),
  kdecay (cls_scaled_nearest N tau amp scale crit) = Some (fun dt => ScaledNearestTraceReducer_decay N dt tau).
Proof. reflexivity. Qed.
(* ... and the constructor's *)
Theorem tie_ScaledNearestTraceReducer_fresh_decay : forall N (tau amp scale : T N) (crit : T N -> bool) dt dur incl inpl,
  rdecay (fresh N (cls_scaled_nearest N tau amp scale crit) dt dur incl inpl) = ScaledNearestTraceReducer_decay N dt tau.
Proof. reflexivity. Qed.
Theorem tie_ScaledNearestTraceReducer_set_dt_decay : forall N (tau amp scale : T N) (crit : T N -> bool) r v r' out,
  rd_set_dt N (cls_scaled_nearest N tau amp scale crit) r v = ROk r' out -> rdecay r' = ScaledNearestTraceReducer_decay N (rdt r') tau.
Proof.
  intros N tau amp scale crit r v r' out H. unfold rd_set_dt in H. destruct (negb (gtb N v (zero N))); [discriminate|].
  cbn [kdecay cls_scaled_nearest] in H. injection H as <- _. reflexivity.
Qed.

(* interpolate, the fill value, no observation counter *)
Theorem tie_ScaledNearestTraceReducer_interpolate : forall N (tau amp scale : T N) (crit : T N -> bool) p n sa st,
  kinterp (cls_scaled_nearest N tau amp scale crit) p n sa st = ScaledNearestTraceReducer_interpolate N tau p n sa st.
Proof. reflexivity. Qed.
Theorem tie_ScaledNearestTraceReducer_fill : forall N (tau amp scale : T N) (crit : T N -> bool),
  kfill (cls_scaled_nearest N tau amp scale crit) = ScaledNearestTraceReducer_fill N /\ kcounts (cls_scaled_nearest N tau amp scale crit) = false.
Proof. split; reflexivity. Qed.
