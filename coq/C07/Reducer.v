(* Model of inferno.observe.reducers: the FoldReducer state machine (base.py) and the ten shipped
   fold reducers (trace.py, general.py, stats.py), mirroring the code branch by branch.
   Definitions only: this file must keep compiling (and running for the correspondence check) when a
   proof elsewhere is broken.

   The record is the RecordTensor model of C01 (Inferno.C01.Ring) with a single data type (the
   reducers' storage is created from torch.empty(0), i.e. the default floating type, and every write
   casts to it).  An observation / a state is a flat list of elements; every fold is element-wise, so
   a reducer class is given by its per-element fold [kfold], its per-element [kinterp] and its fill
   value.  The one-step trace formulas are the GENERATED kernels of Gen/Trace.v and the
   interpolations those of Gen/Interpolation.v. *)
From Coq Require Import List ZArith Bool.
From Inferno Require Import Base.Num Gen.Infra Gen.Trace Gen.Interpolation C01.Ring.
From Inferno Require Gen.Math.
Import ListNotations.

(* ------------------------------------------------------------------ the generic machine *)
Section Machine.
Variable M : Num.
Context {A Obs : Type}.

Record rclass := mkClass {
  (* per-element fold: step time, stored decay attribute, _count (after its increment), observation,
     prior state (None on the initial step) *)
  kfold : T M -> T M -> Z -> Obs -> option A -> A;
  (* per-element interpolate(prev_data, next_data, sample_at, step_time) *)
  kinterp : A -> A -> T M -> T M -> A;
  kfill : A;                          (* FoldReducer fill: storage initialisation and clear(keepshape=True) *)
  kzero : A;                          (* the number 0 (RecordTensor pads with zeros when the record grows) *)
  kdecay : option (T M -> T M);       (* trace classes: the dt setter recomputes the decay attribute *)
  kcounts : bool;                     (* CAReducer: fold increments _count, clear zeroes it *)
  kcheck : bool                       (* fold combines observation and prior state element-wise, so torch
                                         raises RuntimeError on (unbroadcastable) unequal shapes *)
}.
Variable K : rclass.

Definition rcast (_ : unit) (a : A) : A := a.
Definition rpromote (_ _ : unit) : unit := tt.
Definition rdeqb (_ _ : unit) : bool := true.
Notation ring := (@ring A unit).
Notation rpush := (@push A unit rcast (kfill K)).
Notation rinitialize := (@initialize A unit (kfill K)).
Notation rreset := (@reset A unit rcast).
Notation ralign := (@align A unit).
Notation rpeek := (@peek A unit).

Record reducer := mkRed {
  rdt : T M; rdur : T M; rincl : bool; rinpl : bool;
  rdecay : T M;            (* attribute `decay` (trace classes) *)
  rcount : Z;              (* extra `_count` (CAReducer) *)
  rinit : bool;            (* extra `_initial` *)
  rrec : ring              (* data_ *)
}.

Inductive rout :=
| RNone | RUnit
| RObs (sh : list nat) (el : list A)
| RRows (sh : list nat) (rows : list (list A))
| RView (cols : list (list A)).
(* an operation that raises may still have changed the state (CAReducer._count), so errors carry it *)
Inductive rres := ROk (r : reducer) (o : rout) | RErr (r : reducer) (e : err).

Definition set_rec (r : reducer) (x : ring) : reducer :=
  mkRed (rdt r) (rdur r) (rincl r) (rinpl r) (rdecay r) (rcount r) (rinit r) x.
Definition set_init (r : reducer) (b : bool) : reducer :=
  mkRed (rdt r) (rdur r) (rincl r) (rinpl r) (rdecay r) (rcount r) b (rrec r).
Definition set_count (r : reducer) (c : Z) : reducer :=
  mkRed (rdt r) (rdur r) (rincl r) (rinpl r) (rdecay r) c (rinit r) (rrec r).
Definition set_inplace (r : reducer) (b : bool) : reducer :=
  mkRed (rdt r) (rdur r) (rincl r) b (rdecay r) (rcount r) (rinit r) (rrec r).

(* RecordReducer.__init__ + FoldReducer.__init__: RecordTensor.create(..., torch.empty(0), ...) *)
Definition fresh (dt dur : T M) (incl inpl : bool) : reducer :=
  mkRed dt dur incl inpl
        (match kdecay K with Some f => f dt | None => zero M end)
        0%Z true
        (mkRing (Z.to_nat (recordsz_expr M dur dt incl)) 0 (SEmpty tt)).

Definition ignored (s : ring) : bool := match st s with SFull _ _ _ => false | _ => true end.

(* element-wise fold of an observation tensor with the prior state *)
Definition zipfold (r : reducer) (obs : list Obs) (state : option (list A)) : list A :=
  match state with
  | None => map (fun o => kfold K (rdt r) (rdecay r) (rcount r) o None) obs
  | Some s => map (fun os => kfold K (rdt r) (rdecay r) (rcount r) (fst os) (Some (snd os))) (combine obs s)
  end.

(* FoldReducer.forward  (base.py:408-429) *)
Definition forward (r : reducer) (sh : list nat) (obs : list Obs) : rres :=
  (* CAReducer.fold starts with self._count += 1 *)
  let r1 := if kcounts K then set_count r (rcount r + 1)%Z else r in
  if negb (rinit r) then
    (* self.push(self.fold(inputs..., self.peek())) *)
    match rpeek (rrec r) with
    | Ok _ (OObs _ shs els) =>
        if kcheck K && negb (shape_eqb sh shs) then RErr r1 ERuntime
        else
          match rpush (rrec r1) (mkObs tt sh (zipfold r1 obs (Some els))) (rinpl r) with
          | Ok rec' _ => ROk (set_rec r1 rec') RUnit
          | Err e => RErr r1 e
          end
    | Ok _ _ =>
        (* data_.peek() is None (storage ignored): unreachable, see ReducerProofs.noninitial_full *)
        match rpush (rrec r1) (mkObs tt sh (zipfold r1 obs None)) (rinpl r) with
        | Ok rec' _ => ROk (set_rec r1 rec') RUnit
        | Err e => RErr r1 e
        end
    | Err e => RErr r1 e
    end
  else
    let res := zipfold r1 obs None in
    let rec1 := if ignored (rrec r) then rinitialize (rrec r) sh tt else rrec r in
    match rpush rec1 (mkObs tt sh res) (rinpl r) with
    | Ok rec' _ => ROk (set_init (set_rec r1 rec') false) RUnit
    | Err e => RErr (set_rec r1 rec1) e
    end.

(* FoldReducer.peek / Reducer.latest *)
Definition rd_peek (r : reducer) : rres :=
  if negb (rinit r) then
    match rpeek (rrec r) with
    | Ok _ (OObs _ sh el) => ROk r (RObs sh el)
    | Ok _ _ => ROk r RNone
    | Err e => RErr r e
    end
  else ROk r RNone.

(* FoldReducer.dump: data_.align(0); data_.value.flip(0) *)
Definition rd_dump (r : reducer) : rres :=
  if negb (rinit r) then
    match ralign (rrec r) 0 with
    | Ok rec' _ =>
        match st rec' with
        | SFull _ sh rows => ROk (set_rec r rec') (RRows sh (rev rows))
        | _ => RErr r ERuntime
        end
    | Err e => RErr r e
    end
  else ROk r RNone.

(* RecordTensor.deinitialize(False): an empty tensor of the same data type, pointer 0 *)
Definition deinitialize (s : ring) : ring := mkRing (Ring.N s) 0 (SEmpty tt).

(* FoldReducer.clear / CAReducer.clear *)
Definition rd_clear (r : reducer) (keepshape : bool) : rres :=
  let r1 := if kcounts K then set_count r 0%Z else r in
  if keepshape then
    match rreset (rrec r1) (Some (kfill K)) with
    | Ok rec' _ => ROk (set_init (set_rec r1 rec') true) RUnit
    | Err e => RErr r1 e
    end
  else ROk (set_init (set_rec r1 (deinitialize (rrec r1))) true) RUnit.

(* ---- RecordTensor.select(time, interp, tolerance=tol, offset=1)  (infrastructure.py:2004-2167) *)
Definition row_at (s : ring) (rows : list (list A)) (off : Z) : list A := nth (idx s off) rows [].
Definition out_of_range (r : reducer) (time tol : T M) : bool :=
  ltb M time (opp M tol)
  || gtb M time (add M (mul M (rdt r) (ofZ M (Z.of_nat (Ring.N (rrec r)) - 1))) tol).
(* shift % 1 for shift >= 0 *)
Definition frac (x : T M) : T M := sub M x (ofZ M (floorZ M x)).
Fixpoint map2 {X Y W} (f : X -> Y -> W) (l : list X) (m : list Y) : list W :=
  match l, m with x :: l', y :: m' => f x y :: map2 f l' m' | _, _ => [] end.

(* scalar time *)
Definition select_scalar (r : reducer) (rows : list (list A)) (time tol : T M) : list A :=
  let dt := rdt r in
  let shift := div M time dt in
  let k := rneZ M shift in
  if leb M (abs M (sub M (mul M dt (ofZ M k)) time)) tol
  then row_at (rrec r) rows (1 + k)
  else
    let off := add M (one M) shift in
    let sample_at := sub M dt (mul M dt (frac shift)) in
    map2 (fun p n => kinterp K p n sample_at dt)
         (row_at (rrec r) rows (ceilZ M off)) (row_at (rrec r) rows (floorZ M off)).

(* tensor time: one element e, one requested time *)
Definition select_elem (r : reducer) (rows : list (list A)) (e : nat) (time tol : T M) : A :=
  let dt := rdt r in
  let shift0 := div M time dt in
  let shiftr := ofZ M (rneZ M shift0) in
  let shift := if leb M (abs M (sub M (mul M dt shiftr) time)) tol then shiftr else shift0 in
  let off := add M (one M) shift in
  let pi := ceilZ M off in
  let ni := floorZ M off in
  let prev := nth e (row_at (rrec r) rows pi) (kzero K) in
  let next := nth e (row_at (rrec r) rows ni) (kzero K) in
  let res := kinterp K prev next (sub M dt (mul M dt (frac shift))) dt in
  if (pi =? ni)%Z then prev else res.

(* FoldReducer.view with a python float *)
Definition rd_view_scalar (r : reducer) (time tol : T M) : rres :=
  if negb (rinit r) then
    match st (rrec r) with
    | SFull _ sh rows =>
        if out_of_range r time tol then RErr r EValue
        else ROk r (RObs sh (select_scalar r rows time tol))
    | _ => RErr r ERuntime
    end
  else ROk r RNone.

(* FoldReducer.view with a tensor: times is element-major, for each element its D requested times *)
Definition rd_view_tensor (r : reducer) (times : list (list (T M))) (tol : T M) : rres :=
  if negb (rinit r) then
    match st (rrec r) with
    | SFull _ sh rows =>
        if existsb (fun ts => existsb (fun t => out_of_range r t tol) ts) times then RErr r EValue
        else ROk r (RView (map (fun ets => map (fun t => select_elem r rows (fst ets) t tol) (snd ets))
                               (combine (seq 0 (length times)) times)))
    | _ => RErr r ERuntime
    end
  else ROk r RNone.

(* ---- dt setter: RecordReducer.dt -> RecordTensor.dt (reconstrain, newest kept, zero padded),
        then (trace classes) decay = exp(-dt / time_constant) *)
Definition resize_rows (sh : list nat) (rows : list (list A)) (n' : nat) : list (list A) :=
  let n := length rows in
  if n' <? n then skipn (n - n') rows
  else repeat (repeat (kzero K) (nel sh)) (n' - n) ++ rows.
Definition record_set_dt (r : reducer) (v : T M) : ring :=
  let s := rrec r in
  let n' := Z.to_nat (recordsz_expr M (rdur r) v (rincl r)) in
  if n' =? Ring.N s then s
  else
    match st s with
    | SFull d sh rows =>
        match ralign s 0 with
        | Ok s1 _ =>
            match st s1 with
            | SFull _ _ rows1 => mkRing n' 0 (SFull d sh (resize_rows sh rows1 n'))
            | _ => s1
            end
        | Err _ => s
        end
    | x => mkRing n' (ptr s) x
    end.
Definition rd_set_dt (r : reducer) (v : T M) : rres :=
  if negb (gtb M v (zero M)) then RErr r EValue
  else
    let r1 := if neb M v (rdt r)
              then mkRed v (rdur r) (rincl r) (rinpl r) (rdecay r) (rcount r) (rinit r) (record_set_dt r v)
              else r in
    let r2 := match kdecay K with
              | Some f => mkRed (rdt r1) (rdur r1) (rincl r1) (rinpl r1) (f (rdt r1)) (rcount r1) (rinit r1) (rrec r1)
              | None => r1
              end in
    ROk r2 RUnit.

(* ---- operations as data, and runs ---- *)
Inductive rop :=
| OFwd (sh : list nat) (obs : list Obs)
| OPeek | ODump
| OViewS (time tol : T M)
| OViewT (times : list (list (T M))) (tol : T M)
| OClear (keepshape : bool)
| OSetDt (v : T M)
| OSetInplace (b : bool).

Definition rstep (r : reducer) (o : rop) : rres :=
  match o with
  | OFwd sh obs => forward r sh obs
  | OPeek => rd_peek r
  | ODump => rd_dump r
  | OViewS t tol => rd_view_scalar r t tol
  | OViewT ts tol => rd_view_tensor r ts tol
  | OClear ks => rd_clear r ks
  | OSetDt v => rd_set_dt r v
  | OSetInplace b => ROk (set_inplace r b) RUnit
  end.

Definition res_state (x : rres) : reducer := match x with ROk r _ => r | RErr r _ => r end.

Fixpoint rrun (r : reducer) (ops : list rop) : reducer * list rres :=
  match ops with
  | [] => (r, [])
  | o :: tl => let x := rstep r o in
               let '(rf, outs) := rrun (res_state x) tl in (rf, x :: outs)
  end.

End Machine.

Arguments kfold {M A Obs} r.
Arguments kinterp {M A Obs} r.
Arguments kfill {M A Obs} r.
Arguments kzero {M A Obs} r.
Arguments kdecay {M A Obs} r.
Arguments kcounts {M A Obs} r.
Arguments kcheck {M A Obs} r.
Arguments set_rec {M A} r x.
Arguments set_init {M A} r b.
Arguments set_count {M A} r c.
Arguments set_inplace {M A} r b.
Arguments rdt {M A} r.
Arguments rdur {M A} r.
Arguments rincl {M A} r.
Arguments rinpl {M A} r.
Arguments rdecay {M A} r.
Arguments rcount {M A} r.
Arguments rinit {M A} r.
Arguments rrec {M A} r.
Arguments mkRed {M A}.
Arguments ROk {M A}.
Arguments RErr {M A}.
Arguments res_state {M A} x.
Arguments OFwd {M Obs}.
Arguments OPeek {M Obs}.
Arguments ODump {M Obs}.
Arguments OViewS {M Obs}.
Arguments OViewT {M Obs}.
Arguments OClear {M Obs}.
Arguments OSetDt {M Obs}.
Arguments OSetInplace {M Obs}.

(* ------------------------------------------------------------------ the shipped classes *)
Section Classes.
Variable M : Num.
Notation R := (T M).

(* hand-transcribed: inferno/observe/reducers/trace.py:69 and :90 (and the five sibling classes):
   self.decay = exp(-self.dt / self.time_constant) *)
Definition decay_of (tau dt : R) : R := exp M (div M (opp M dt) tau).

(* GENERATED: Gen/Math.v exponential_smoothing is re-translated from inferno/core/math.py on every run *)
Definition exponential_smoothing (obs : R) (level : option R) (alpha : R) : R :=
  Gen.Math.exponential_smoothing M obs level alpha.

Definition expdecay_interp (tau : R) : R -> R -> R -> R -> R :=
  fun p n sa st => interp_expdecay M p n sa st tau.

(* NearestTraceReducer / CumulativeTraceReducer (observations are cast to the storage type: numbers) *)
Definition cls_nearest (tau amp target : R) (tol : option R) : @rclass M R R :=
  mkClass M (fun _ decay _ o s => trace_nearest M o s decay amp target tol)
          (expdecay_interp tau) (zero M) (zero M) (Some (decay_of tau)) false true.
Definition cls_cumulative (tau amp target : R) (tol : option R) : @rclass M R R :=
  mkClass M (fun _ decay _ o s => trace_cumulative M o s decay amp target tol)
          (expdecay_interp tau) (zero M) (zero M) (Some (decay_of tau)) false true.
(* ScaledNearestTraceReducer / ScaledCumulativeTraceReducer *)
Definition cls_scaled_nearest (tau amp scale : R) (crit : R -> bool) : @rclass M R R :=
  mkClass M (fun _ decay _ o s => trace_nearest_scaled M o s decay amp scale crit)
          (expdecay_interp tau) (zero M) (zero M) (Some (decay_of tau)) false true.
Definition cls_scaled_cumulative (tau amp scale : R) (crit : R -> bool) : @rclass M R R :=
  mkClass M (fun _ decay _ o s => trace_cumulative_scaled M o s decay amp scale crit)
          (expdecay_interp tau) (zero M) (zero M) (Some (decay_of tau)) false true.
(* ConditionalNearestTraceReducer / ConditionalCumulativeTraceReducer: matchfn = lambda o: cond *)
Definition cls_cond_nearest (tau amp scale : R) : @rclass M R (R * bool) :=
  mkClass M (fun _ decay _ oc s => trace_nearest_scaled M (fst oc) s decay amp scale (fun _ => snd oc))
          (expdecay_interp tau) (zero M) (zero M) (Some (decay_of tau)) false true.
Definition cls_cond_cumulative (tau amp scale : R) : @rclass M R (R * bool) :=
  mkClass M (fun _ decay _ oc s => trace_cumulative_scaled M (fst oc) s decay amp scale (fun _ => snd oc))
          (expdecay_interp tau) (zero M) (zero M) (Some (decay_of tau)) false true.

(* EventReducer (general.py).  Element type: option R, None = the non-finite initial value
   (float('inf') or float('nan'); both are absorbing for "+ dt" and "+ sample_at"). *)
Inductive einit := EInf | EZero | ENan.
Definition event_init (i : einit) : option R := match i with EZero => Some (zero M) | _ => None end.
Definition cls_event (crit : R -> bool) (i : einit) : @rclass M (option R) R :=
  mkClass M
    (fun dt _ _ o s =>
       if crit o then Some (zero M)
       else match s with
            | None => event_init i                                 (* torch.where(crit, 0, initial) *)
            | Some x => option_map (fun y => add M y dt) x         (* torch.where(crit, 0, state + dt) *)
            end)
    (fun p _ sa _ => option_map (fun y => add M y sa) p)           (* prev_data + sample_at *)
    (event_init i) (Some (zero M)) None false true.

(* PassthroughReducer *)
Definition cls_pass : @rclass M R R :=
  mkClass M (fun _ _ _ o _ => o) (interp_previous M) (zero M) (zero M) None false false.
(* EMAReducer *)
Definition cls_ema (alpha : R) : @rclass M R R :=
  mkClass M (fun _ _ _ o s => exponential_smoothing o s alpha) (interp_linear M) (zero M) (zero M) None false true.
(* CAReducer (stats.py:138-155): state + (obs - state) / self._count *)
Definition cls_ca : @rclass M R R :=
  mkClass M (fun _ _ cnt o s => match s with
                                | None => o
                                | Some x => add M x (div M (sub M o x) (ofZ M cnt))
                                end)
          (interp_linear M) (zero M) (zero M) None true true.

End Classes.
