(* C07, part 5: the machine is element-wise (so the one-element closed-form records of ClosedProofs.v describe
   every element of a reducer over tensors of any shape), the tensor-time view, the dt setter, and
   clear(keepshape=True) followed by an observation. *)
From Coq Require Import List ZArith Reals Bool Lra Lia.
From Flocq Require Import Core.Raux.
From Inferno Require Import Base.Num Base.NumR Gen.Infra Gen.Trace Gen.Interpolation C01.Ring C01.RingProofs
  C07.Reducer C07.ReducerProofs C07.TraceProofs C07.ViewProofs C07.ClosedProofs.
Import ListNotations.
Local Notation exp := Rtrigo_def.exp.
Close Scope R_scope.

Lemma map_repeat' {X Y} (f : X -> Y) x n : map f (repeat x n) = repeat (f x) n.
Proof. induction n as [|n IH]; cbn; [reflexivity|]. rewrite IH. reflexivity. Qed.

Section Elementwise.
Variable M : Num.
Context {A Obs : Type}.
Variable K : @rclass M A Obs.
Notation reducer := (@reducer M A).
Variable dA : A.
Variable dO : Obs.
Variable e : nat.

(* column e of a row, as a one-element row *)
Definition colA (row : list A) : list A := [nth e row dA].
Definition colO (o : list Obs) : list Obs := [nth e o dO].

Lemma zipfold_length (r : reducer) o (p : option (list A)) :
  (forall s, p = Some s -> length s = length o) -> length (zipfold M K r o p) = length o.
Proof.
  intros Hp. unfold zipfold. destruct p as [s|]; rewrite map_length; [|reflexivity].
  rewrite combine_length, (Hp s eq_refl). lia.
Qed.
Lemma zipfold_col (r : reducer) o (p : option (list A)) : e < length o ->
  (forall s, p = Some s -> length s = length o) ->
  colA (zipfold M K r o p) = zipfold M K r (colO o) (option_map colA p).
Proof.
  intros He Hp. unfold colA, colO, zipfold. destruct p as [s|]; cbn [option_map map combine fst snd].
  - specialize (Hp s eq_refl). f_equal.
    rewrite (nth_indep _ dA (kfold K (rdt r) (rdecay r) (rcount r) (fst (dO, dA)) (Some (snd (dO, dA)))))
      by (rewrite map_length, combine_length; lia).
    rewrite (map_nth (fun os => kfold K (rdt r) (rdecay r) (rcount r) (fst os) (Some (snd os)))).
    rewrite combine_nth by lia. reflexivity.
  - f_equal. rewrite (nth_indep _ dA (kfold K (rdt r) (rdecay r) (rcount r) dO None)) by (rewrite map_length; lia).
    rewrite (map_nth (fun o0 => kfold K (rdt r) (rdecay r) (rcount r) o0 None)). reflexivity.
Qed.

Lemma fold_rows_col obs : forall (r : reducer) p n, e < n ->
  Forall (fun o => length o = n) obs -> (forall s, p = Some s -> length s = n) ->
  map colA (fold_rows K r p obs) = fold_rows K r (option_map colA p) (map colO obs).
Proof.
  induction obs as [|o tl IH]; intros r p n He Hobs Hp; [reflexivity|].
  inversion Hobs as [|? ? Ho Htl]; subst. cbn [fold_rows map]. rewrite map_app. cbn [map].
  rewrite zipfold_col by (try lia; exact Hp). f_equal.
  rewrite (IH (bump K r) (Some (zipfold M K (bump K r) o p)) (length o) He Htl).
  - cbn [option_map]. rewrite zipfold_col by (try lia; exact Hp). reflexivity.
  - intros s Hs. injection Hs as <-. apply zipfold_length. exact Hp.
Qed.

(* Observing tensors (rows of n elements) and then looking at element e of the record is the same as observing only
   element e with a scalar-shaped reducer: every element evolves independently by the one-element machine. *)
Theorem run_elementwise dt dur incl inpl sh (o : list Obs) (obs : list (list Obs)) :
  e < nel sh -> Forall (fun x => length x = nel sh) (o :: obs) ->
  let r0 := fresh M K dt dur incl inpl in
  map colA (rhist (final K r0 (fwd_ops sh (o :: obs))))
  = rhist (final K r0 (fwd_ops [] (map colO (o :: obs)))).
Proof.
  intros He Hobs. cbn zeta.
  destruct (fresh_facts M K dt dur incl inpl) as (Hwf & Hn & Ei & Eig & _).
  set (r0 := fresh M K dt dur incl inpl) in *.
  assert (Hsh : forall s, shape_ok r0 s) by (intros s; unfold shape_ok, stored_shape; reflexivity).
  destruct (run_forwards K sh o obs r0 Hwf Hn (Hsh sh) Ei) as (_ & _ & _ & _ & _ & _ & Hh).
  destruct (run_forwards K [] (colO o) (map colO obs) r0 Hwf Hn (Hsh []) Ei) as (_ & _ & _ & _ & _ & _ & Hh1).
  change (colO o :: map colO obs) with (map colO (o :: obs)) in Hh1.
  rewrite Hh, Hh1. rewrite <- firstn_map, map_app. f_equal. f_equal.
  - rewrite (fold_rows_col (o :: obs) r0 None (nel sh) He Hobs) by discriminate. reflexivity.
  - unfold base. rewrite Eig. rewrite map_repeat'. f_equal. unfold colA.
    rewrite (nth_indep _ dA (kfill K)) by (rewrite repeat_length; exact He). rewrite nth_repeat. reflexivity.
Qed.
End Elementwise.

(* ------------------------------------------------------------------ tensor-time view *)
Open Scope R_scope.
Section TensorView.
Context {A Obs : Type}.
Variable K : @rclass RN A Obs.
Notation reducer := (@reducer RN A).

(* view with a tensor of times: element e of the result, for each of its requested times, is element e of the
   float-time view at that time (so view_on_grid / view_off_grid describe it) *)
Theorem view_tensor_spec (r : reducer) (times : list (list R)) tol d sh rows :
  rinit r = false -> st (rrec r) = SFull d sh rows -> 0 < rdt r -> 0 <= tol ->
  (forall k e, (e < length times)%nat -> (e < length (row_at (rrec r) rows k))%nat) ->
  existsb (fun ts => existsb (fun t => out_of_range RN r t tol) ts) times = false ->
  rd_view_tensor RN K r times tol
  = ROk r (RView (map (fun ets => map (fun t => nth (fst ets) (select_scalar RN K r rows t tol) (kzero K)) (snd ets))
                      (combine (seq 0 (length times)) times))).
Proof.
  intros Ei Est Hdt Htol Hlen Hr. unfold rd_view_tensor. rewrite Ei, Est, Hr. cbn [negb]. f_equal. f_equal.
  apply map_ext_in. intros [e ts] Hin. cbn [fst snd]. apply map_ext. intros t.
  apply select_elem_eq_scalar; [exact Hdt|exact Htol|].
  intros k. apply Hlen. apply in_combine_l in Hin. apply in_seq in Hin. lia.
Qed.
Theorem view_tensor_out_of_range (r : reducer) (times : list (list R)) tol d sh rows :
  rinit r = false -> st (rrec r) = SFull d sh rows ->
  existsb (fun ts => existsb (fun t => out_of_range RN r t tol) ts) times = true ->
  rd_view_tensor RN K r times tol = RErr r EValue.
Proof. intros Ei Est Hr. unfold rd_view_tensor. rewrite Ei, Est, Hr. reflexivity. Qed.

(* ------------------------------------------------------------------ dt setter *)
(* a positive step time is stored and the decay of the trace classes is recomputed from it; everything else of
   the configuration is kept; a non-positive one is rejected (ValueError) *)
Theorem set_dt_spec (r : reducer) v : 0 < v ->
  exists r', rd_set_dt RN K r v = ROk r' RUnit /\ rdt r' = v /\
             rdecay r' = match kdecay K with Some f => f v | None => rdecay r end /\
             rdur r' = rdur r /\ rincl r' = rincl r /\ rinpl r' = rinpl r /\ rcount r' = rcount r /\ rinit r' = rinit r /\
             (v = rdt r -> rrec r' = rrec r).
Proof.
  intros Hv. unfold rd_set_dt. rn_unfold. destruct (Rltb'_spec 0 v) as [_|H]; [|lra]. cbn [negb].
  destruct (Reqb'_spec v (rdt r)) as [E|E]; cbn [negb].
  - eexists. split; [reflexivity|]. destruct (kdecay K); cbn; rewrite <- ?E; repeat split; auto.
  - eexists. split; [reflexivity|]. destruct (kdecay K); cbn; repeat split; auto; intros; contradiction.
Qed.
Theorem set_dt_rejects (r : reducer) v : v <= 0 -> rd_set_dt RN K r v = RErr r EValue.
Proof. intros Hv. unfold rd_set_dt. rn_unfold. destruct (Rltb'_spec 0 v) as [H|_]; [lra|]. reflexivity. Qed.
End TensorView.

Theorem set_dt_trace_decay (r : @reducer RN R) tau a target tol v : 0 < v ->
  exists r', rd_set_dt RN (cls_cumulative RN tau a target tol) r v = ROk r' RUnit /\ rdt r' = v /\
             rdecay r' = exp (- v / tau).
Proof.
  intros Hv. destruct (set_dt_spec (cls_cumulative RN tau a target tol) r v Hv) as (r' & H1 & H2 & H3 & _).
  exists r'. split; [exact H1|]. split; [exact H2|]. rewrite H3. reflexivity.
Qed.

(* ------------------------------------------------------------------ clear(keepshape=True), then an observation *)
Close Scope R_scope.
Section ClearKeep.
Variable M : Num.
Context {A Obs : Type}.
Variable K : @rclass M A Obs.
Notation reducer := (@reducer M A).

(* after clear(keepshape=True) the next observation is folded as a FIRST observation (prior state None) onto a
   record that holds the fill value everywhere - the pre-first-observation behaviour *)
Theorem clear_keepshape_then_forward (r : reducer) sh obs : rwf r -> full (rrec r) -> shape_ok r sh ->
  let rc := res_state (rd_clear M K r true) in
  rinit rc = true /\ Forall (fun row => Forall (eq (kfill K)) row) (rhist rc) /\
  exists rec', forward M K rc sh obs = ROk (set_init (set_rec (bump K rc) rec') false) RUnit /\
               wf rec' /\ full rec' /\
               hist rec' = zipfold M K (bump K rc) obs None :: removelast (rhist rc).
Proof.
  intros Hwf Hf Hsh. cbn zeta.
  destruct (clear_keepshape M K r Hwf Hf) as (rec1 & Hc & Hw1 & Hf1 & HN1 & Hs1 & Hfill & _).
  rewrite Hc. cbn [res_state].
  set (rc := set_init (set_rec (if kcounts K then set_count r 0%Z else r) rec1) true).
  assert (Hrec : rrec rc = rec1) by reflexivity.
  assert (Hwfc : rwf rc) by (split; [exact Hw1|intros _; exact Hf1]).
  assert (Hn : 0 < N (rrec rc)) by (rewrite Hrec; apply Hw1).
  assert (Hshc : shape_ok rc sh).
  { unfold shape_ok, stored_shape in *. rewrite Hrec. cbn [set_rec rrec] in Hs1. rewrite Hs1. exact Hsh. }
  split; [reflexivity|]. split; [exact Hfill|].
  destruct (forward_spec K rc sh obs Hwfc Hn Hshc) as (rec' & Hfw & Hw' & Hf' & _ & _ & Hh).
  exists rec'. split; [exact Hfw|]. split; [exact Hw'|]. split; [exact Hf'|].
  rewrite Hh. unfold prior, base. cbn [rinit rc set_init].
  assert (Eig : ignored (rrec rc) = false) by (apply full_ignored; rewrite Hrec; exact Hf1).
  rewrite Eig. reflexivity.
Qed.
End ClearKeep.

(* ------------------------------------------------------------------ "analytic decay" is exact for traces *)
Open Scope R_scope.
(* Decaying the closed form of a cumulative trace for a further time s gives the closed form with every age
   increased by s: the interpolated view of a trace reducer between two steps IS the trace at that time
   (combine with view_offgrid_closed and interp_trace_decay, s = kc*dt - time). *)
Theorem cumulative_cf_decay dt tau a target tol (m : list R) s :
  cumulative_cf dt tau a target tol m * exp (- s / tau)
  = sum_list (map (fun ko => if matchb target tol (snd ko) then a * exp (- (INR (fst ko) * dt + s) / tau) else 0) (ages m)).
Proof.
  unfold cumulative_cf. induction (ages m) as [|[k o] L IH]; cbn [map sum_list fst snd]; [ring|].
  rewrite <- IH. destruct (matchb target tol o).
  - replace (- (INR k * dt + s) / tau) with (- (INR k * dt) / tau + - s / tau) by (unfold Rdiv; ring).
    rewrite exp_plus. ring.
  - ring.
Qed.
Theorem nearest_cf_decay dt tau a target tol (m : list R) s :
  nearest_cf dt tau a target tol m * exp (- s / tau)
  = match last_event (matchb target tol) (map (fun o => (dt, o)) m) with
    | Some (age, _) => a * exp (- (age + s) / tau)
    | None => 0
    end.
Proof.
  unfold nearest_cf. destruct (last_event _ _) as [[age o]|]; [|ring].
  replace (- (age + s) / tau) with (- age / tau + - s / tau) by (unfold Rdiv; ring). rewrite exp_plus. ring.
Qed.
