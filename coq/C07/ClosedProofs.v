(* C07, part 4: end to end.  A freshly constructed (or cleared) reducer that has folded the observations
   x_1 .. x_n holds, k steps back in its record, the CLOSED FORM of the history x_1 .. x_(n-k); peek is the
   closed form of the whole history; dump lists them newest first; view(k*dt) returns the k-th.
   (Observations with one element; the machine is element-wise, see zipfold.) *)
From Coq Require Import List ZArith Reals Bool Lra Lia.
From Inferno Require Import Base.Num Base.NumR Gen.Infra Gen.Trace Gen.Interpolation C01.Ring C01.RingProofs
  C07.Reducer C07.ReducerProofs C07.TraceProofs C07.ViewProofs.
Import ListNotations.
Local Notation exp := Rtrigo_def.exp.

(* ------------------------------------------------------------------ generic: one-element observations *)
Close Scope R_scope.
Section Single.
Variable M : Num.
Context {A Obs : Type}.
Variable K : @rclass M A Obs.
Notation reducer := (@reducer M A).

(* the per-element recurrence: fold the observations oldest first, counting them when the class counts *)
Fixpoint elem_fold (dt decay : T M) (cnt : Z) (p : option A) (l : list Obs) : option A :=
  match l with
  | [] => p
  | o :: tl => let c := if kcounts K then (cnt + 1)%Z else cnt in
               elem_fold dt decay c (Some (kfold K dt decay c o p)) tl
  end.
Definition single {X} (x : X) : list X := [x].
Definition orow (x : option A) : list A := match x with Some a => [a] | None => [] end.

Lemma rcount_bump (r : reducer) : rcount (bump K r) = if kcounts K then (rcount r + 1)%Z else rcount r.
Proof. unfold bump. destruct (kcounts K); reflexivity. Qed.
Lemma zipfold_single (r : reducer) o (p : option A) :
  zipfold M K r [o] (option_map single p) = [kfold K (rdt r) (rdecay r) (rcount r) o p].
Proof. destruct p; reflexivity. Qed.
Lemma hd_app_nonempty {X} (d : X) (a b : list X) : a <> [] -> hd d (a ++ b) = hd d a.
Proof. destruct a; [congruence|reflexivity]. Qed.

Lemma fold_rows_single l : forall (r : reducer) p, l <> [] ->
  hd [] (fold_rows K r (option_map single p) (map single l)) = orow (elem_fold (rdt r) (rdecay r) (rcount r) p l).
Proof.
  induction l as [|o tl IH]; intros r p Hne; [congruence|].
  change (map single (o :: tl)) with ([o] :: map single tl). cbn [fold_rows elem_fold]. rewrite zipfold_single.
  pose proof (same_cfg_bump K r) as (b1 & _ & _ & _ & b5). rewrite b1, b5, rcount_bump.
  destruct tl as [|o' tl'].
  - reflexivity.
  - rewrite hd_app_nonempty.
    + change (Some [kfold K (rdt r) (rdecay r) (if kcounts K then (rcount r + 1)%Z else rcount r) o p])
        with (option_map single (Some (kfold K (rdt r) (rdecay r) (if kcounts K then (rcount r + 1)%Z else rcount r) o p))).
      rewrite IH by discriminate. rewrite b1, b5, rcount_bump. reflexivity.
    + intros E. apply (f_equal (@length _)) in E. rewrite fold_rows_length in E. discriminate.
Qed.

Lemma list_eq_map_nth {X} (d : X) (l : list X) : l = map (fun k => nth k l d) (seq 0 (length l)).
Proof.
  apply nth_ext with (d := d) (d' := d); [rewrite map_length, seq_length; reflexivity|].
  intros k Hk. rewrite (nth_map_seq (@rcast A) (kfill K)) by exact Hk. reflexivity.
Qed.

Lemma fresh_facts dt dur incl inpl :
  let r := fresh M K dt dur incl inpl in
  rwf r /\ 0 < N (rrec r) /\ rinit r = true /\ ignored (rrec r) = true /\ rinv K r /\ rcount r = 0%Z /\
  rdt r = dt /\ rdecay r = match kdecay K with Some f => f dt | None => zero M end.
Proof.
  cbn zeta. unfold fresh, rwf, rinv, wf, full, recordsz_expr. cbn. repeat split; try lia; try discriminate; auto.
Qed.

(* the record of a fresh reducer after one-element observations x_1..x_n (n >= 1): entry k is the state
   after x_1..x_(n-k); older entries hold the fill value *)
Theorem fresh_run_record dt dur incl inpl (l : list Obs) : l <> [] ->
  let r0 := fresh M K dt dur incl inpl in
  let r := final K r0 (fwd_ops [] (map single l)) in
  let n := length l in
  rwf r /\ rinit r = false /\ N (rrec r) = N (rrec r0) /\ stored_shape r = Some [] /\ same_cfg r0 r /\
  all_ok (outputs K r0 (fwd_ops [] (map single l))) /\
  rhist r = firstn (N (rrec r0))
              (map (fun k => orow (elem_fold (rdt r0) (rdecay r0) 0%Z None (firstn (n - k) l))) (seq 0 n)
               ++ repeat [kfill K] (N (rrec r0))).
Proof.
  intros Hne. cbn zeta.
  destruct (fresh_facts dt dur incl inpl) as (Hwf & Hn & Ei & Eig & _ & Hc & _ & _).
  set (r0 := fresh M K dt dur incl inpl) in *.
  destruct l as [|o tl]; [congruence|]. cbn [map].
  assert (Hsh : shape_ok r0 []) by (unfold shape_ok, stored_shape; reflexivity).
  destruct (run_forwards K [] (single o) (map single tl) r0 Hwf Hn Hsh Ei) as (Hw & HN & Hi & Hs & Hcfg & Hok & Hh).
  split; [exact Hw|]. split; [exact Hi|]. split; [exact HN|]. split; [exact Hs|]. split; [exact Hcfg|]. split; [exact Hok|].
  rewrite Hh. f_equal. f_equal.
  change (single o :: map single tl) with (map single (o :: tl)).
  rewrite (list_eq_map_nth [] (fold_rows K r0 None (map single (o :: tl)))) at 1.
  rewrite fold_rows_length, map_length. apply map_ext_in. intros k Hk. apply in_seq in Hk.
  rewrite fold_rows_prefix by (rewrite map_length; lia). rewrite map_length, firstn_map.
  change (@None (list A)) with (option_map (@single A) None).
  rewrite fold_rows_single.
  - rewrite Hc. reflexivity.
  - intros E. apply (f_equal (@length _)) in E. rewrite firstn_length in E. cbn [length] in *. lia.
Qed.
End Single.

(* ------------------------------------------------------------------ real-number corollaries *)
Open Scope R_scope.

(* classes that do not count: elem_fold is the plain left fold of the kernel *)
Lemma elem_fold_nocount {A Obs} (K : @rclass RN A Obs) dt decay cnt p l : kcounts K = false ->
  elem_fold RN K dt decay cnt p l = fold_left (fun s o => Some (kfold K dt decay cnt o s)) l p.
Proof.
  intros Hk. revert p. induction l as [|o tl IH]; intros p; cbn [elem_fold fold_left]; [reflexivity|].
  rewrite Hk. apply IH.
Qed.
Lemma run_state_fixed_dt {Obs} (f : R -> Obs -> option R -> R) dt (l : list Obs) :
  run_state f (map (fun o => (dt, o)) l) = fold_left (fun s o => Some (f dt o s)) l None.
Proof.
  unfold run_state. generalize (@None R). induction l as [|o tl IH]; intros s; cbn [map fold_left fst snd]; [reflexivity|].
  apply IH.
Qed.
Lemma fold_left_ext {S X} (f g : S -> X -> S) l s : (forall s x, f s x = g s x) -> fold_left f l s = fold_left g l s.
Proof. intros H. revert s. induction l as [|x l IH]; intros s; cbn; [reflexivity|]. rewrite H. apply IH. Qed.

Section TraceReducers.
Variables (dt dur : R) (incl inpl : bool).

(* what a view k steps back / the k-th dump entry of a reducer that observed l must be, given the closed form
   [cf] of its class: the closed form of the history without its last k observations *)
Definition record_spec (cf : list R -> R) (fillv : R) (nrec : nat) (l : list R) : list (list R) :=
  firstn nrec (map (fun k => [cf (firstn (length l - k) l)]) (seq 0 (length l)) ++ repeat [fillv] nrec).

Lemma record_of_closed (K : @rclass RN R R) (cf : list R -> R) (l : list R) :
  kcounts K = false ->
  (forall m, m <> [] ->
     fold_left (fun s o => Some (kfold K dt (match kdecay K with Some f => f dt | None => 0 end) 0%Z o s)) m None
     = Some (cf m)) ->
  l <> [] ->
  let r0 := fresh RN K dt dur incl inpl in
  let r := final K r0 (fwd_ops [] (map single l)) in
  rwf r /\ rinit r = false /\ N (rrec r) = N (rrec r0) /\ stored_shape r = Some [] /\ rdt r = dt /\
  all_ok (outputs K r0 (fwd_ops [] (map single l))) /\
  rhist r = record_spec cf (kfill K) (N (rrec r0)) l.
Proof.
  intros Hk Hcf Hne. cbn zeta.
  destruct (fresh_run_record RN K dt dur incl inpl l Hne) as (Hw & Hi & HN & Hs & Hcfg & Hok & Hh).
  destruct (fresh_facts RN K dt dur incl inpl) as (_ & _ & _ & _ & _ & _ & Hdt & Hdec).
  split; [exact Hw|]. split; [exact Hi|]. split; [exact HN|]. split; [exact Hs|].
  split; [destruct Hcfg as (c1 & _); rewrite c1; exact Hdt|]. split; [exact Hok|].
  rewrite Hh. unfold record_spec. f_equal. f_equal. apply map_ext_in. intros k Hin. apply in_seq in Hin.
  rewrite Hdt, Hdec, elem_fold_nocount by exact Hk. rewrite Hcf; [reflexivity|].
  intros E. apply (f_equal (@length _)) in E. rewrite firstn_length in E. cbn [length] in E. lia.
Qed.

(* ---- cumulative trace *)
Definition cumulative_cf (tau a target : R) (tol : option R) (l : list R) : R :=
  sum_list (map (fun ko => if matchb target tol (snd ko) then a * exp (- (INR (fst ko) * dt) / tau) else 0) (ages l)).
Theorem cumulative_reducer_record tau a target tol (l : list R) : l <> [] ->
  let K := cls_cumulative RN tau a target tol in
  let r0 := fresh RN K dt dur incl inpl in
  let r := final K r0 (fwd_ops [] (map single l)) in
  rwf r /\ rinit r = false /\ N (rrec r) = N (rrec r0) /\ stored_shape r = Some [] /\ rdt r = dt /\
  all_ok (outputs K r0 (fwd_ops [] (map single l))) /\
  rhist r = record_spec (cumulative_cf tau a target tol) 0 (N (rrec r0)) l.
Proof.
  intros Hne. apply (record_of_closed (cls_cumulative RN tau a target tol)); [reflexivity| |exact Hne].
  intros m Hm. cbn [kdecay cls_cumulative kfold].
  pose proof (cumulative_closed_fixed_dt tau a target tol dt m) as H. rewrite run_state_fixed_dt in H.
  unfold cumulative_step in H. rewrite H. destruct m; [congruence|reflexivity].
Qed.

(* ---- nearest trace *)
Definition nearest_cf (tau a target : R) (tol : option R) (l : list R) : R :=
  match last_event (matchb target tol) (map (fun o => (dt, o)) l) with
  | Some (age, _) => a * exp (- age / tau)
  | None => 0
  end.
Theorem nearest_reducer_record tau a target tol (l : list R) : l <> [] ->
  let K := cls_nearest RN tau a target tol in
  let r0 := fresh RN K dt dur incl inpl in
  let r := final K r0 (fwd_ops [] (map single l)) in
  rwf r /\ rinit r = false /\ N (rrec r) = N (rrec r0) /\ stored_shape r = Some [] /\ rdt r = dt /\
  all_ok (outputs K r0 (fwd_ops [] (map single l))) /\
  rhist r = record_spec (nearest_cf tau a target tol) 0 (N (rrec r0)) l.
Proof.
  intros Hne. apply (record_of_closed (cls_nearest RN tau a target tol)); [reflexivity| |exact Hne].
  intros m Hm. cbn [kdecay cls_nearest kfold].
  pose proof (nearest_closed tau a target tol (map (fun o => (dt, o)) m)) as H. rewrite run_state_fixed_dt in H.
  unfold nearest_step in H. rewrite H. destruct m; [congruence|reflexivity].
Qed.

(* ---- scaled traces *)
Definition scaled_cumulative_cf (tau a scale : R) (crit : R -> bool) (l : list R) : R :=
  sum_list (map (fun p => (if crit (snd p) then scale * snd p + a else 0) * exp (- fst p / tau))
                (elapsed (map (fun o => (dt, o)) l))).
Theorem scaled_cumulative_reducer_record tau a scale crit (l : list R) : l <> [] ->
  let K := cls_scaled_cumulative RN tau a scale crit in
  let r0 := fresh RN K dt dur incl inpl in
  let r := final K r0 (fwd_ops [] (map single l)) in
  rwf r /\ rinit r = false /\ N (rrec r) = N (rrec r0) /\ stored_shape r = Some [] /\ rdt r = dt /\
  all_ok (outputs K r0 (fwd_ops [] (map single l))) /\
  rhist r = record_spec (scaled_cumulative_cf tau a scale crit) 0 (N (rrec r0)) l.
Proof.
  intros Hne. apply (record_of_closed (cls_scaled_cumulative RN tau a scale crit)); [reflexivity| |exact Hne].
  intros m Hm. cbn [kdecay cls_scaled_cumulative kfold].
  pose proof (cumulative_scaled_closed tau a scale crit (map (fun o => (dt, o)) m)) as H. rewrite run_state_fixed_dt in H.
  unfold cumulative_scaled_step in H. rewrite H. destruct m; [congruence|reflexivity].
Qed.
Definition scaled_nearest_cf (tau a scale : R) (crit : R -> bool) (l : list R) : R :=
  match last_event crit (map (fun o => (dt, o)) l) with
  | Some (age, h) => (scale * h + a) * exp (- age / tau)
  | None => 0
  end.
Theorem scaled_nearest_reducer_record tau a scale crit (l : list R) : l <> [] ->
  let K := cls_scaled_nearest RN tau a scale crit in
  let r0 := fresh RN K dt dur incl inpl in
  let r := final K r0 (fwd_ops [] (map single l)) in
  rwf r /\ rinit r = false /\ N (rrec r) = N (rrec r0) /\ stored_shape r = Some [] /\ rdt r = dt /\
  all_ok (outputs K r0 (fwd_ops [] (map single l))) /\
  rhist r = record_spec (scaled_nearest_cf tau a scale crit) 0 (N (rrec r0)) l.
Proof.
  intros Hne. apply (record_of_closed (cls_scaled_nearest RN tau a scale crit)); [reflexivity| |exact Hne].
  intros m Hm. cbn [kdecay cls_scaled_nearest kfold].
  pose proof (nearest_scaled_closed tau a scale crit (map (fun o => (dt, o)) m)) as H. rewrite run_state_fixed_dt in H.
  unfold nearest_scaled_step in H. rewrite H. destruct m; [congruence|reflexivity].
Qed.

(* ---- pass-through and exponential moving average *)
Theorem passthrough_reducer_record (l : list R) : l <> [] ->
  let K := cls_pass RN in
  let r0 := fresh RN K dt dur incl inpl in
  let r := final K r0 (fwd_ops [] (map single l)) in
  rwf r /\ rinit r = false /\ N (rrec r) = N (rrec r0) /\ stored_shape r = Some [] /\ rdt r = dt /\
  all_ok (outputs K r0 (fwd_ops [] (map single l))) /\
  rhist r = record_spec (fun m => last m 0) 0 (N (rrec r0)) l.
Proof.
  intros Hne. apply (record_of_closed (cls_pass RN)); [reflexivity| |exact Hne].
  intros m Hm. cbn [kdecay cls_pass].
  transitivity (match rev m with [] => None | x :: _ => Some x end).
  - rewrite <- (passthrough_id m). apply fold_left_ext. intros s x. reflexivity.
  - destruct m as [|x m _] using rev_ind; [congruence|]. rewrite rev_app_distr, last_last. reflexivity.
Qed.
Theorem ema_reducer_record alpha (l : list R) : l <> [] ->
  let K := cls_ema RN alpha in
  let r0 := fresh RN K dt dur incl inpl in
  let r := final K r0 (fwd_ops [] (map single l)) in
  rwf r /\ rinit r = false /\ N (rrec r) = N (rrec r0) /\ stored_shape r = Some [] /\ rdt r = dt /\
  all_ok (outputs K r0 (fwd_ops [] (map single l))) /\
  rhist r = record_spec (ema_closed alpha) 0 (N (rrec r0)) l.
Proof.
  intros Hne. apply (record_of_closed (cls_ema RN alpha)); [reflexivity| |exact Hne].
  intros m Hm. cbn [kdecay cls_ema kfold].
  pose proof (ema_closed_form alpha m) as H. unfold ema_run in H. rewrite H. destruct m; [congruence|reflexivity].
Qed.
End TraceReducers.
