(* C07, part 4: end to end.  A freshly constructed (or cleared) reducer that has folded the observations
   x_1 .. x_n holds, k steps back in its record, the CLOSED FORM of the history x_1 .. x_(n-k); peek is the
   closed form of the whole history; dump lists them newest first; view(k*dt) returns the k-th.
   (Observations with one element; the machine is element-wise, see zipfold.) *)
From Coq Require Import List ZArith Reals Bool Lra Lia.
From Flocq Require Import Core.Raux.
From Inferno Require Import Base.Num Base.NumR Gen.Infra Gen.Trace Gen.Interpolation C01.Ring C01.RingProofs
  C07.Reducer C07.ReducerProofs C07.TraceProofs C07.ViewProofs.
Import ListNotations.
Local Notation exp := Rtrigo_def.exp.

(* ------------------------------------------------------------------ generic: one-element observations *)
Close Scope R_scope.
Section Single.
Variable M : Num.
Context {A Obs : Type}.
Variable K : @rclass M A Obs.
Notation reducer := (@reducer M A).

(* the per-element recurrence: fold the observations oldest first, counting them when the class counts *)
Fixpoint elem_fold (dt decay : T M) (cnt : Z) (p : option A) (l : list Obs) : option A :=
  match l with
  | [] => p
  | o :: tl => let c := if kcounts K then (cnt + 1)%Z else cnt in
               elem_fold dt decay c (Some (kfold K dt decay c o p)) tl
  end.
Definition single {X} (x : X) : list X := [x].
Definition orow (x : option A) : list A := match x with Some a => [a] | None => [] end.

Lemma rcount_bump (r : reducer) : rcount (bump K r) = if kcounts K then (rcount r + 1)%Z else rcount r.
Proof. unfold bump. destruct (kcounts K); reflexivity. Qed.
Lemma zipfold_single (r : reducer) o (p : option A) :
  zipfold M K r [o] (option_map single p) = [kfold K (rdt r) (rdecay r) (rcount r) o p].
Proof. destruct p; reflexivity. Qed.
Lemma hd_app_nonempty {X} (d : X) (a b : list X) : a <> [] -> hd d (a ++ b) = hd d a.
Proof. destruct a; [congruence|reflexivity]. Qed.

Lemma fold_rows_single l : forall (r : reducer) p, l <> [] ->
  hd [] (fold_rows K r (option_map single p) (map single l)) = orow (elem_fold (rdt r) (rdecay r) (rcount r) p l).
Proof.
  induction l as [|o tl IH]; intros r p Hne; [congruence|].
  change (map single (o :: tl)) with ([o] :: map single tl). cbn [fold_rows elem_fold]. rewrite zipfold_single.
  pose proof (same_cfg_bump K r) as (b1 & _ & _ & _ & b5). rewrite b1, b5, rcount_bump.
  destruct tl as [|o' tl'].
  - reflexivity.
  - rewrite hd_app_nonempty.
    + change (Some [kfold K (rdt r) (rdecay r) (if kcounts K then (rcount r + 1)%Z else rcount r) o p])
        with (option_map single (Some (kfold K (rdt r) (rdecay r) (if kcounts K then (rcount r + 1)%Z else rcount r) o p))).
      rewrite IH by discriminate. rewrite b1, b5, rcount_bump. reflexivity.
    + intros E. apply (f_equal (@length _)) in E. rewrite fold_rows_length in E. discriminate.
Qed.

Lemma list_eq_map_nth {X} (d : X) (l : list X) : l = map (fun k => nth k l d) (seq 0 (length l)).
Proof.
  apply nth_ext with (d := d) (d' := d); [rewrite map_length, seq_length; reflexivity|].
  intros k Hk. rewrite (nth_map_seq (@rcast A) (kfill K)) by exact Hk. reflexivity.
Qed.

Lemma fresh_facts dt dur incl inpl :
  let r := fresh M K dt dur incl inpl in
  rwf r /\ 0 < N (rrec r) /\ rinit r = true /\ ignored (rrec r) = true /\ rinv K r /\ rcount r = 0%Z /\
  rdt r = dt /\ rdecay r = match kdecay K with Some f => f dt | None => zero M end.
Proof.
  cbn zeta. unfold fresh, rwf, rinv, wf, full, recordsz_expr. cbn. repeat split; try lia; try discriminate; auto.
Qed.

(* the record of a fresh reducer after one-element observations x_1..x_n (n >= 1): entry k is the state
   after x_1..x_(n-k); older entries hold the fill value *)
Theorem fresh_run_record dt dur incl inpl (l : list Obs) : l <> [] ->
  let r0 := fresh M K dt dur incl inpl in
  let r := final K r0 (fwd_ops [] (map single l)) in
  let n := length l in
  rwf r /\ rinit r = false /\ N (rrec r) = N (rrec r0) /\ stored_shape r = Some [] /\ same_cfg r0 r /\
  all_ok (outputs K r0 (fwd_ops [] (map single l))) /\
  rhist r = firstn (N (rrec r0))
              (map (fun k => orow (elem_fold (rdt r0) (rdecay r0) 0%Z None (firstn (n - k) l))) (seq 0 n)
               ++ repeat [kfill K] (N (rrec r0))).
Proof.
  intros Hne. cbn zeta.
  destruct (fresh_facts dt dur incl inpl) as (Hwf & Hn & Ei & Eig & _ & Hc & _ & _).
  set (r0 := fresh M K dt dur incl inpl) in *.
  destruct l as [|o tl]; [congruence|]. cbn [map].
  assert (Hsh : shape_ok r0 []) by (unfold shape_ok, stored_shape; reflexivity).
  destruct (run_forwards K [] (single o) (map single tl) r0 Hwf Hn Hsh Ei) as (Hw & HN & Hi & Hs & Hcfg & Hok & Hh).
  split; [exact Hw|]. split; [exact Hi|]. split; [exact HN|]. split; [exact Hs|]. split; [exact Hcfg|]. split; [exact Hok|].
  rewrite Hh. f_equal. f_equal.
  change (single o :: map single tl) with (map single (o :: tl)).
  rewrite (list_eq_map_nth [] (fold_rows K r0 None (map single (o :: tl)))) at 1.
  rewrite fold_rows_length, map_length. apply map_ext_in. intros k Hk. apply in_seq in Hk.
  rewrite fold_rows_prefix by (rewrite map_length; lia). rewrite map_length, firstn_map.
  change (@None (list A)) with (option_map (@single A) None).
  rewrite fold_rows_single.
  - rewrite Hc. reflexivity.
  - intros E. apply (f_equal (@length _)) in E. rewrite firstn_length in E. cbn [length] in *. lia.
Qed.
End Single.

(* ------------------------------------------------------------------ real-number corollaries *)
Open Scope R_scope.

(* classes that do not count: elem_fold is the plain left fold of the kernel *)
Lemma elem_fold_nocount {A Obs} (K : @rclass RN A Obs) dt decay cnt p l : kcounts K = false ->
  elem_fold RN K dt decay cnt p l = fold_left (fun s o => Some (kfold K dt decay cnt o s)) l p.
Proof.
  intros Hk. revert p. induction l as [|o tl IH]; intros p; cbn [elem_fold fold_left]; [reflexivity|].
  rewrite Hk. apply IH.
Qed.
Lemma run_state_fixed_dt {Obs} (f : R -> Obs -> option R -> R) dt (l : list Obs) :
  run_state f (map (fun o => (dt, o)) l) = fold_left (fun s o => Some (f dt o s)) l None.
Proof.
  unfold run_state. generalize (@None R). induction l as [|o tl IH]; intros s; cbn [map fold_left fst snd]; [reflexivity|].
  apply IH.
Qed.
Lemma fold_left_ext {S X} (f g : S -> X -> S) l s : (forall s x, f s x = g s x) -> fold_left f l s = fold_left g l s.
Proof. intros H. revert s. induction l as [|x l IH]; intros s; cbn; [reflexivity|]. rewrite H. apply IH. Qed.

Section TraceReducers.
Variables (dt dur : R) (incl inpl : bool).

(* what a view k steps back / the k-th dump entry of a reducer that observed l must be, given the closed form
   [cf] of its class: the closed form of the history without its last k observations *)
Definition record_spec {A Obs} (cf : list Obs -> A) (fillv : A) (nrec : nat) (l : list Obs) : list (list A) :=
  firstn nrec (map (fun k => [cf (firstn (length l - k) l)]) (seq 0 (length l)) ++ repeat [fillv] nrec).

Lemma record_of_closed {A Obs} (K : @rclass RN A Obs) (cf : list Obs -> A) (l : list Obs) :
  kcounts K = false ->
  (forall m, m <> [] ->
     fold_left (fun s o => Some (kfold K dt (match kdecay K with Some f => f dt | None => 0 end) 0%Z o s)) m None
     = Some (cf m)) ->
  l <> [] ->
  let r0 := fresh RN K dt dur incl inpl in
  let r := final K r0 (fwd_ops [] (map single l)) in
  rwf r /\ rinit r = false /\ N (rrec r) = N (rrec r0) /\ stored_shape r = Some [] /\ rdt r = dt /\
  all_ok (outputs K r0 (fwd_ops [] (map single l))) /\
  rhist r = record_spec cf (kfill K) (N (rrec r0)) l.
Proof.
  intros Hk Hcf Hne. cbn zeta.
  destruct (fresh_run_record RN K dt dur incl inpl l Hne) as (Hw & Hi & HN & Hs & Hcfg & Hok & Hh).
  destruct (fresh_facts RN K dt dur incl inpl) as (_ & _ & _ & _ & _ & _ & Hdt & Hdec).
  split; [exact Hw|]. split; [exact Hi|]. split; [exact HN|]. split; [exact Hs|].
  split; [destruct Hcfg as (c1 & _); exact (eq_trans c1 Hdt)|]. split; [exact Hok|].
  rewrite Hh. unfold record_spec. f_equal. f_equal. apply map_ext_in. intros k Hin. apply in_seq in Hin.
  rewrite Hdt, Hdec, elem_fold_nocount by exact Hk. rn_simpl. rewrite Hcf; [reflexivity|].
  intros E. apply (f_equal (@length _)) in E. rewrite firstn_length in E. cbn [length] in E. lia.
Qed.

(* ---- cumulative trace *)
Definition cumulative_cf (tau a target : R) (tol : option R) (l : list R) : R :=
  sum_list (map (fun ko => if matchb target tol (snd ko) then a * exp (- (INR (fst ko) * dt) / tau) else 0) (ages l)).
Theorem cumulative_reducer_record tau a target tol (l : list R) : l <> [] ->
  let K := cls_cumulative RN tau a target tol in
  let r0 := fresh RN K dt dur incl inpl in
  let r := final K r0 (fwd_ops [] (map single l)) in
  rwf r /\ rinit r = false /\ N (rrec r) = N (rrec r0) /\ stored_shape r = Some [] /\ rdt r = dt /\
  all_ok (outputs K r0 (fwd_ops [] (map single l))) /\
  rhist r = record_spec (cumulative_cf tau a target tol) 0 (N (rrec r0)) l.
Proof.
  intros Hne. apply (record_of_closed (cls_cumulative RN tau a target tol)); [reflexivity| |exact Hne].
  intros m Hm. cbn [kdecay cls_cumulative kfold].
  pose proof (cumulative_closed_fixed_dt tau a target tol dt m) as H. rewrite run_state_fixed_dt in H.
  unfold cumulative_step in H. destruct m; [congruence|exact H].
Qed.

(* ---- nearest trace *)
Definition nearest_cf (tau a target : R) (tol : option R) (l : list R) : R :=
  match last_event (matchb target tol) (map (fun o => (dt, o)) l) with
  | Some (age, _) => a * exp (- age / tau)
  | None => 0
  end.
Theorem nearest_reducer_record tau a target tol (l : list R) : l <> [] ->
  let K := cls_nearest RN tau a target tol in
  let r0 := fresh RN K dt dur incl inpl in
  let r := final K r0 (fwd_ops [] (map single l)) in
  rwf r /\ rinit r = false /\ N (rrec r) = N (rrec r0) /\ stored_shape r = Some [] /\ rdt r = dt /\
  all_ok (outputs K r0 (fwd_ops [] (map single l))) /\
  rhist r = record_spec (nearest_cf tau a target tol) 0 (N (rrec r0)) l.
Proof.
  intros Hne. apply (record_of_closed (cls_nearest RN tau a target tol)); [reflexivity| |exact Hne].
  intros m Hm. cbn [kdecay cls_nearest kfold].
  pose proof (nearest_closed tau a target tol (map (fun o => (dt, o)) m)) as H. rewrite run_state_fixed_dt in H.
  unfold nearest_step in H. destruct m; [congruence|exact H].
Qed.

(* ---- scaled traces *)
Definition scaled_cumulative_cf (tau a scale : R) (crit : R -> bool) (l : list R) : R :=
  sum_list (map (fun p => (if crit (snd p) then scale * snd p + a else 0) * exp (- fst p / tau))
                (elapsed (map (fun o => (dt, o)) l))).
Theorem scaled_cumulative_reducer_record tau a scale crit (l : list R) : l <> [] ->
  let K := cls_scaled_cumulative RN tau a scale crit in
  let r0 := fresh RN K dt dur incl inpl in
  let r := final K r0 (fwd_ops [] (map single l)) in
  rwf r /\ rinit r = false /\ N (rrec r) = N (rrec r0) /\ stored_shape r = Some [] /\ rdt r = dt /\
  all_ok (outputs K r0 (fwd_ops [] (map single l))) /\
  rhist r = record_spec (scaled_cumulative_cf tau a scale crit) 0 (N (rrec r0)) l.
Proof.
  intros Hne. apply (record_of_closed (cls_scaled_cumulative RN tau a scale crit)); [reflexivity| |exact Hne].
  intros m Hm. cbn [kdecay cls_scaled_cumulative kfold].
  pose proof (cumulative_scaled_closed tau a scale crit (map (fun o => (dt, o)) m)) as H. rewrite run_state_fixed_dt in H.
  unfold cumulative_scaled_step in H. destruct m; [congruence|exact H].
Qed.
Definition scaled_nearest_cf (tau a scale : R) (crit : R -> bool) (l : list R) : R :=
  match last_event crit (map (fun o => (dt, o)) l) with
  | Some (age, h) => (scale * h + a) * exp (- age / tau)
  | None => 0
  end.
Theorem scaled_nearest_reducer_record tau a scale crit (l : list R) : l <> [] ->
  let K := cls_scaled_nearest RN tau a scale crit in
  let r0 := fresh RN K dt dur incl inpl in
  let r := final K r0 (fwd_ops [] (map single l)) in
  rwf r /\ rinit r = false /\ N (rrec r) = N (rrec r0) /\ stored_shape r = Some [] /\ rdt r = dt /\
  all_ok (outputs K r0 (fwd_ops [] (map single l))) /\
  rhist r = record_spec (scaled_nearest_cf tau a scale crit) 0 (N (rrec r0)) l.
Proof.
  intros Hne. apply (record_of_closed (cls_scaled_nearest RN tau a scale crit)); [reflexivity| |exact Hne].
  intros m Hm. cbn [kdecay cls_scaled_nearest kfold].
  pose proof (nearest_scaled_closed tau a scale crit (map (fun o => (dt, o)) m)) as H. rewrite run_state_fixed_dt in H.
  unfold nearest_scaled_step in H. destruct m; [congruence|exact H].
Qed.

(* ---- pass-through and exponential moving average *)
Theorem passthrough_reducer_record (l : list R) : l <> [] ->
  let K := cls_pass RN in
  let r0 := fresh RN K dt dur incl inpl in
  let r := final K r0 (fwd_ops [] (map single l)) in
  rwf r /\ rinit r = false /\ N (rrec r) = N (rrec r0) /\ stored_shape r = Some [] /\ rdt r = dt /\
  all_ok (outputs K r0 (fwd_ops [] (map single l))) /\
  rhist r = record_spec (fun m => last m 0) 0 (N (rrec r0)) l.
Proof.
  intros Hne. apply (record_of_closed (cls_pass RN)); [reflexivity| |exact Hne].
  intros m Hm. cbn [kdecay cls_pass].
  transitivity (match rev m with [] => None | x :: _ => Some x end).
  - exact (passthrough_id m).
  - destruct m as [|x m _] using rev_ind; [congruence|]. rewrite rev_app_distr, last_last. reflexivity.
Qed.
Theorem ema_reducer_record alpha (l : list R) : l <> [] ->
  let K := cls_ema RN alpha in
  let r0 := fresh RN K dt dur incl inpl in
  let r := final K r0 (fwd_ops [] (map single l)) in
  rwf r /\ rinit r = false /\ N (rrec r) = N (rrec r0) /\ stored_shape r = Some [] /\ rdt r = dt /\
  all_ok (outputs K r0 (fwd_ops [] (map single l))) /\
  rhist r = record_spec (ema_closed alpha) 0 (N (rrec r0)) l.
Proof.
  intros Hne. apply (record_of_closed (cls_ema RN alpha)); [reflexivity| |exact Hne].
  intros m Hm. cbn [kdecay cls_ema kfold].
  transitivity (ema_run alpha m); [reflexivity|]. rewrite ema_closed_form. destruct m; [congruence|reflexivity].
Qed.

(* ---- conditional traces: the observation is a pair (value, condition) *)
Definition cond_cumulative_cf (tau a scale : R) (l : list (R * bool)) : R :=
  sum_list (map (fun p : R * (R * bool) => (if snd (snd p) then scale * fst (snd p) + a else 0) * exp (- fst p / tau))
                (elapsed (map (fun o => (dt, o)) l))).
Theorem conditional_cumulative_reducer_record tau a scale (l : list (R * bool)) : l <> [] ->
  let K := cls_cond_cumulative RN tau a scale in
  let r0 := fresh RN K dt dur incl inpl in
  let r := final K r0 (fwd_ops [] (map single l)) in
  rwf r /\ rinit r = false /\ N (rrec r) = N (rrec r0) /\ stored_shape r = Some [] /\ rdt r = dt /\
  all_ok (outputs K r0 (fwd_ops [] (map single l))) /\
  rhist r = record_spec (cond_cumulative_cf tau a scale) 0 (N (rrec r0)) l.
Proof.
  intros Hne. apply (record_of_closed (cls_cond_cumulative RN tau a scale)); [reflexivity| |exact Hne].
  intros m Hm. cbn [kdecay cls_cond_cumulative kfold].
  pose proof (cumulative_conditional_closed tau a scale (map (fun o => (dt, o)) m)) as H. rewrite run_state_fixed_dt in H.
  unfold cumulative_cond_step in H. destruct m; [congruence|exact H].
Qed.
Definition cond_nearest_cf (tau a scale : R) (l : list (R * bool)) : R :=
  match last_event (@snd R bool) (map (fun o => (dt, o)) l) with
  | Some (age, hc) => (scale * fst hc + a) * exp (- age / tau)
  | None => 0
  end.
Theorem conditional_nearest_reducer_record tau a scale (l : list (R * bool)) : l <> [] ->
  let K := cls_cond_nearest RN tau a scale in
  let r0 := fresh RN K dt dur incl inpl in
  let r := final K r0 (fwd_ops [] (map single l)) in
  rwf r /\ rinit r = false /\ N (rrec r) = N (rrec r0) /\ stored_shape r = Some [] /\ rdt r = dt /\
  all_ok (outputs K r0 (fwd_ops [] (map single l))) /\
  rhist r = record_spec (cond_nearest_cf tau a scale) 0 (N (rrec r0)) l.
Proof.
  intros Hne. apply (record_of_closed (cls_cond_nearest RN tau a scale)); [reflexivity| |exact Hne].
  intros m Hm. cbn [kdecay cls_cond_nearest kfold].
  pose proof (nearest_conditional_closed tau a scale (map (fun o => (dt, o)) m)) as H. rewrite run_state_fixed_dt in H.
  unfold nearest_cond_step in H. destruct m; [congruence|exact H].
Qed.

(* ---- event reducer: time since the last event (None = the non-finite initial value inf / nan) *)
Lemma fold_left_fixed_dt {S Obs} (F : R -> Obs -> S -> S) (l : list Obs) s0 :
  fold_left (fun s p => F (fst p) (snd p) s) (map (fun o => (dt, o)) l) s0 = fold_left (fun s o => F dt o s) l s0.
Proof. revert s0. induction l as [|o tl IH]; intros s0; cbn [map fold_left fst snd]; [reflexivity|]. apply IH. Qed.
Theorem event_reducer_record crit i (l : list R) : l <> [] ->
  let K := cls_event RN crit i in
  let r0 := fresh RN K dt dur incl inpl in
  let r := final K r0 (fwd_ops [] (map single l)) in
  rwf r /\ rinit r = false /\ N (rrec r) = N (rrec r0) /\ stored_shape r = Some [] /\ rdt r = dt /\
  all_ok (outputs K r0 (fwd_ops [] (map single l))) /\
  rhist r = record_spec (fun m => event_closed crit i (map (fun o => (dt, o)) m)) (event_init RN i) (N (rrec r0)) l.
Proof.
  intros Hne. apply (record_of_closed (cls_event RN crit i)); [reflexivity| |exact Hne].
  intros m Hm. cbn [kdecay cls_event].
  pose proof (event_time_since_last crit i (map (fun o => (dt, o)) m)) as H. unfold event_run in H.
  rewrite (fold_left_fixed_dt (fun d o s => Some (event_step crit i d o s))) in H.
  transitivity (fold_left (fun (s : option (option R)) (o : R) => Some (event_step crit i dt o s)) m None); [reflexivity|].
  destruct m; [congruence|exact H].
Qed.

(* ---- cumulative average: the arithmetic mean of the observations so far *)
Lemma elem_fold_ca dt' decay (l : list R) : forall p c,
  elem_fold RN (cls_ca RN) dt' decay c p l
  = fst (fold_left (fun sc o => let c := (snd sc + 1)%Z in (Some (kfold (cls_ca RN) 0 0 c o (fst sc)), c)) l (p, c)).
Proof. induction l as [|o tl IH]; intros p c; cbn [elem_fold fold_left]; [reflexivity|]. rewrite IH. reflexivity. Qed.
Lemma elem_fold_ca_run dt' decay (l : list R) : elem_fold RN (cls_ca RN) dt' decay 0%Z None l = fst (ca_run l).
Proof. exact (elem_fold_ca dt' decay l None 0%Z). Qed.
Theorem ca_reducer_record (l : list R) : l <> [] ->
  let K := cls_ca RN in
  let r0 := fresh RN K dt dur incl inpl in
  let r := final K r0 (fwd_ops [] (map single l)) in
  rwf r /\ rinit r = false /\ N (rrec r) = N (rrec r0) /\ stored_shape r = Some [] /\ rdt r = dt /\
  all_ok (outputs K r0 (fwd_ops [] (map single l))) /\
  rhist r = record_spec (fun m => sum_list m / INR (length m)) 0 (N (rrec r0)) l.
Proof.
  intros Hne. cbn zeta.
  destruct (fresh_run_record RN (cls_ca RN) dt dur incl inpl l Hne) as (Hw & Hi & HN & Hs & Hcfg & Hok & Hh).
  destruct (fresh_facts RN (cls_ca RN) dt dur incl inpl) as (_ & _ & _ & _ & _ & _ & Hdt & Hdec).
  split; [exact Hw|]. split; [exact Hi|]. split; [exact HN|]. split; [exact Hs|].
  split; [destruct Hcfg as (c1 & _); exact (eq_trans c1 Hdt)|]. split; [exact Hok|].
  etransitivity; [exact Hh|]. unfold record_spec. f_equal. f_equal. apply map_ext_in. intros k Hin. apply in_seq in Hin.
  transitivity (orow (fst (ca_run (firstn (length l - k) l)))); [f_equal; apply elem_fold_ca_run|].
  rewrite ca_is_mean.
  destruct (firstn (length l - k) l) eqn:E; [|reflexivity].
  apply (f_equal (@length _)) in E. rewrite firstn_length in E. cbn [length] in E. lia.
Qed.
End TraceReducers.

(* ------------------------------------------------------------------ what the observers return *)
Lemma nth_firstn_lt {X} (d : X) (l : list X) n j : (j < n)%nat -> nth j (firstn n l) d = nth j l d.
Proof.
  revert n j. induction l as [|x l IH]; intros n j Hj; [rewrite firstn_nil; reflexivity|].
  destruct n as [|n]; [lia|]. destruct j as [|j]; [reflexivity|]. cbn. apply IH. lia.
Qed.
Lemma record_spec_nth {A Obs} (cf : list Obs -> A) fillv nrec (l : list Obs) k : (k < nrec)%nat ->
  nth k (record_spec cf fillv nrec l) [] = if (k <? length l)%nat then [cf (firstn (length l - k) l)] else [fillv].
Proof.
  intros Hk. unfold record_spec. rewrite nth_firstn_lt by exact Hk.
  destruct (Nat.ltb_spec k (length l)) as [Hlt|Hge].
  - rewrite app_nth1 by (rewrite map_length, seq_length; exact Hlt).
    rewrite (nth_map_seq (@rcast A) fillv) by exact Hlt. reflexivity.
  - rewrite app_nth2 by (rewrite map_length, seq_length; exact Hge). rewrite map_length, seq_length.
    rewrite (nth_indep _ [] [fillv]) by (rewrite repeat_length; lia). apply nth_repeat.
Qed.

Section Observers.
(* For ANY reducer whose record is the closed-form record of a history l (the *_reducer_record theorems above
   establish this hypothesis for every shipped class): *)
Context {A Obs : Type}.
Variable K : @rclass RN A Obs.
Variable r : @reducer RN A.
Variable cf : list Obs -> A.
Variable l : list Obs.
Hypothesis Hwf : rwf r.
Hypothesis Hini : rinit r = false.
Hypothesis Hshape : stored_shape r = Some [].
Hypothesis Hne : l <> [].
Hypothesis Hrec : rhist r = record_spec cf (kfill K) (N (rrec r)) l.

Lemma Npos : (0 < N (rrec r))%nat.
Proof. destruct Hwf as ((Hn & _) & _). exact Hn. Qed.
Lemma len_pos : (0 < length l)%nat.
Proof. destruct l; [congruence|cbn; lia]. Qed.
Lemma hd_nth0 {X} (d : X) (m : list X) : hd d m = nth 0 m d.
Proof. destruct m; reflexivity. Qed.

(* peek / latest: the closed form of the whole history *)
Theorem peek_closed : rd_peek RN r = ROk r (RObs [] [cf l]).
Proof.
  rewrite (peek_head RN r Hwf Npos), Hini, Hshape. f_equal. f_equal.
  rewrite hd_nth0, Hrec, record_spec_nth by exact Npos.
  pose proof len_pos as Hl. destruct (Nat.ltb_spec 0 (length l)) as [_|H]; [|lia].
  rewrite Nat.sub_0_r, firstn_all. reflexivity.
Qed.

(* dump: the record newest first - entry k is the closed form of the history without its last k observations,
   entries older than the first observation hold the fill value *)
Theorem dump_closed :
  exists rec', rd_dump RN r = ROk (set_rec r rec') (RRows [] (record_spec cf (kfill K) (N (rrec r)) l)) /\
               hist rec' = rhist r.
Proof.
  destruct (dump_newest_first RN K r Hwf Npos Hini) as (rec' & Hd & _ & _ & _ & Hh & _).
  exists rec'. rewrite Hd, Hshape, Hrec. split; [reflexivity|]. rewrite <- Hrec. exact Hh.
Qed.

(* view k steps back, on the grid: the value recorded then = the closed form of the history up to then *)
Theorem view_grid_closed time tol (k : Z) :
  0 < rdt r -> 0 <= tol < rdt r / 2 -> (0 <= k < Z.of_nat (N (rrec r)))%Z -> Rabs (IZR k * rdt r - time) <= tol ->
  rd_view_scalar RN K r time tol
  = ROk r (RObs [] (if (Z.to_nat k <? length l)%nat then [cf (firstn (length l - Z.to_nat k) l)] else [kfill K])).
Proof.
  intros Hdt Htol Hk Hg. rewrite (view_on_grid K r time tol k Hwf Hini Hdt Htol Hk Hg), Hshape, Hrec.
  rewrite record_spec_nth by lia. reflexivity.
Qed.

(* view between two recorded steps: the reducer's interpolation of the closed forms of the two neighbouring
   steps, sampled at the time elapsed since the earlier one *)
Theorem view_offgrid_closed time tol :
  0 < rdt r -> 0 <= tol -> 0 <= time <= rdt r * IZR (Z.of_nat (N (rrec r)) - 1) ->
  (forall j : Z, tol < Rabs (IZR j * rdt r - time)) ->
  let kf := Z.to_nat (Zfloor (time / rdt r)) in
  let kc := S kf in
  let entry k := if (k <? length l)%nat then cf (firstn (length l - k) l) else kfill K in
  rd_view_scalar RN K r time tol
  = ROk r (RObs [] [kinterp K (entry kc) (entry kf) (INR kc * rdt r - time) (rdt r)]).
Proof.
  intros Hdt Htol Hrange Hoff kf kc entry.
  destruct (view_off_grid K r time tol Hwf Hini Hdt Htol Hrange Hoff) as (Hkf & Hkc & Hv).
  rewrite Hv, Hshape, Hrec. f_equal. f_equal.
  replace (Z.to_nat (Zfloor (time / rdt r) + 1)) with kc by (unfold kc, kf; lia).
  fold kf. rewrite !record_spec_nth by (unfold kc, kf; lia).
  assert (Ekc : IZR (Zfloor (time / rdt r) + 1) = INR kc).
  { unfold kc, kf. rewrite INR_IZR_INZ. f_equal. lia. }
  rewrite Ekc. unfold entry.
  destruct (kc <? length l)%nat; destruct (kf <? length l)%nat; reflexivity.
Qed.
End Observers.
