(* C07, part 2: the FoldReducer state machine refines "the newest-first list of folded states".
   Everything in the first section is independent of the number type (no axioms); it rests on the
   ring-buffer theorems of C01 (hist_push, push_creates_storage, peek_spec, align_spec, reset_fill_spec). *)
From Coq Require Import List ZArith Bool Arith Lia.
From Inferno Require Import Base.Num Gen.Infra C01.Ring C01.RingProofs C07.Reducer.
Import ListNotations.
Ltac Zify.zify_post_hook ::= Z.div_mod_to_equations.

Section MachineProofs.
Variable M : Num.
Context {A Obs : Type}.
Variable K : @rclass M A Obs.

Notation reducer := (@reducer M A).
Notation ring := (@ring A unit).
Notation rpush := (@push A unit rcast (kfill K)).
Notation rpeek := (@peek A unit).
Notation fillrow sh := (repeat (kfill K) (nel sh)).
Notation forward := (forward M K).
Notation rd_peek := (rd_peek M).
Notation rd_dump := (rd_dump M).
Notation rd_clear := (rd_clear M K).
Notation zipfold := (zipfold M K).

(* ------------------------------------------------------------------ specification vocabulary *)
(* the record, newest first *)
Definition rhist (r : reducer) : list (list A) := hist (rrec r).
Definition rwf (r : reducer) : Prop := wf (rrec r) /\ (rinit r = false -> full (rrec r)).
Definition stored_shape (r : reducer) : option (list nat) :=
  match st (rrec r) with SFull _ sh _ => Some sh | _ => None end.
(* an observation of shape sh is acceptable: storage not yet created, or created with that shape *)
Definition shape_ok (r : reducer) (sh : list nat) : Prop :=
  match stored_shape r with Some shs => shape_eqb sh shs = true | None => True end.
(* the state handed to fold: None on the initial step, the newest recorded state otherwise *)
Definition prior (r : reducer) : option (list A) :=
  if rinit r then None else Some (hd [] (rhist r)).
(* the record the next observation is pushed onto: all fill values when storage is created now *)
Definition base (r : reducer) (sh : list nat) : list (list A) :=
  if ignored (rrec r) then repeat (fillrow sh) (N (rrec r)) else rhist r.
Definition bump (r : reducer) : reducer := if kcounts K then set_count r (rcount r + 1)%Z else r.
Definition same_cfg (r r' : reducer) : Prop :=
  rdt r' = rdt r /\ rdur r' = rdur r /\ rincl r' = rincl r /\ rinpl r' = rinpl r /\ rdecay r' = rdecay r.

Lemma map_rcast d (l : list A) : map (rcast d) l = l.
Proof. induction l as [|x l IH]; cbn; [reflexivity|]. rewrite IH. reflexivity. Qed.
Lemma rrec_bump r : rrec (bump r) = rrec r.
Proof. unfold bump. destruct (kcounts K); reflexivity. Qed.
Lemma rinit_bump r : rinit (bump r) = rinit r.
Proof. unfold bump. destruct (kcounts K); reflexivity. Qed.
Lemma rinpl_bump r : rinpl (bump r) = rinpl r.
Proof. unfold bump. destruct (kcounts K); reflexivity. Qed.
Lemma same_cfg_bump r : same_cfg r (bump r).
Proof. unfold bump, same_cfg. destruct (kcounts K); cbn; auto. Qed.
Lemma full_ignored (s : ring) : full s <-> ignored s = false.
Proof. unfold full, ignored. destruct (st s); split; intros H; try exact I; try reflexivity; try discriminate; contradiction. Qed.
Lemma hist_length (s : ring) : length (hist s) = N s.
Proof. unfold hist. rewrite map_length, seq_length. reflexivity. Qed.
Lemma hd_hist (s : ring) : 0 < N s -> hd [] (hist s) = at_ s 1.
Proof. unfold hist. destruct (N s) as [|n]; [lia|]. intros _. reflexivity. Qed.
Lemma removelast_repeat_S {X} (x : X) n : removelast (repeat x (S n)) = repeat x n.
Proof.
  induction n as [|n IH]; [reflexivity|].
  change (removelast (repeat x (S (S n)))) with (x :: removelast (repeat x (S n))). rewrite IH. reflexivity.
Qed.
Lemma removelast_repeat {X} (x : X) n : removelast (repeat x n) = repeat x (n - 1).
Proof. destruct n as [|n]; [reflexivity|]. rewrite removelast_repeat_S. f_equal. lia. Qed.

(* ------------------------------------------------------------------ forward *)
(* One theorem for the three situations (first observation with storage creation, first observation
   after clear(keepshape=True), later observations): the new record is
       fold(observation, prior state) :: (old record without its oldest entry). *)
Theorem forward_spec r sh obs : rwf r -> 0 < N (rrec r) -> shape_ok r sh ->
  exists rec',
    forward r sh obs = ROk (set_init (set_rec (bump r) rec') false) RUnit /\
    wf rec' /\ full rec' /\ N rec' = N (rrec r) /\
    st rec' = SFull tt (match stored_shape r with Some s => s | None => sh end) (rows rec') /\
    hist rec' = zipfold (bump r) obs (prior r) :: removelast (base r sh).
Proof.
  intros (Hwf & Hfull) Hn Hsh. unfold forward. fold (bump r).
  destruct (rinit r) eqn:Ei; cbn [negb].
  - (* initial step *)
    destruct (ignored (rrec r)) eqn:Eig.
    + (* storage is created, filled with kfill *)
      assert (Hnf : ~ full (rrec r)) by (rewrite full_ignored; congruence).
      destruct (push_creates_storage rcast rpromote rdeqb (kfill K) (rrec r) (mkObs tt sh (zipfold (bump r) obs None)) (rinpl r) Hn Hnf)
        as (s' & Hp & Hwf' & HN' & Est' & Hh).
      exists s'. cbn [oshape oel odt] in *.
      assert (Hpush : rpush (initialize (kfill K) (rrec r) sh tt) (mkObs tt sh (zipfold (bump r) obs None)) (rinpl r)
                      = Ok s' OUnit).
      { rewrite <- Hp. unfold push at 2. cbn [oshape odt].
        unfold ignored in Eig. destruct (st (rrec r)) eqn:E; try discriminate.
        - unfold push. unfold initialize at 1. rewrite E. cbn [st]. unfold initialize. rewrite E. reflexivity.
        - unfold push. unfold initialize at 1. rewrite E. cbn [st]. unfold initialize. rewrite E. destruct d. reflexivity. }
      rewrite Hpush. split; [reflexivity|]. split; [exact Hwf'|]. split.
      { unfold full. rewrite Est'. exact I. }
      split; [exact HN'|]. split.
      { unfold stored_shape. unfold ignored in Eig. destruct (st (rrec r)) as [|d|] eqn:E; try discriminate; rewrite Est';
          [|destruct d]; reflexivity. }
      rewrite Hh, map_rcast. unfold prior, base. rewrite Ei, Eig, removelast_repeat. reflexivity.
    + (* storage kept by clear(keepshape=True) *)
      assert (Hf : full (rrec r)) by (rewrite full_ignored; exact Eig).
      destruct (hist_push rcast rpromote rdeqb (kfill K) (rrec r) (mkObs tt sh (zipfold (bump r) obs None)) (rinpl r) Hwf Hf)
        as (d & shs & Est & Hpush).
      unfold shape_ok, stored_shape in Hsh. rewrite Est in Hsh.
      destruct (Hpush Hsh) as (s' & Hp & Hwf' & HN' & Est' & Hh). cbn [oshape oel] in *.
      exists s'. rewrite Hp. split; [reflexivity|]. split; [exact Hwf'|]. split.
      { unfold full. rewrite Est'. exact I. }
      split; [exact HN'|]. split.
      { unfold stored_shape. rewrite Est. destruct d. exact Est'. }
      rewrite Hh, map_rcast. unfold prior, base. rewrite Ei, Eig. reflexivity.
  - (* later steps *)
    assert (Hf : full (rrec r)) by (apply Hfull; reflexivity).
    destruct (peek_spec (rrec r) Hwf Hf) as (d & shs & Est & Hpk). rewrite Hpk.
    unfold shape_ok, stored_shape in Hsh. rewrite Est in Hsh. rewrite Hsh. cbn [negb]. rewrite andb_false_r.
    rewrite rrec_bump.
    destruct (hist_push rcast rpromote rdeqb (kfill K) (rrec r) (mkObs tt sh (zipfold (bump r) obs (Some (at_ (rrec r) 1)))) (rinpl r) Hwf Hf)
      as (d' & shs' & Est2 & Hpush).
    rewrite Est in Est2. injection Est2 as <- <-.
    destruct (Hpush Hsh) as (s' & Hp & Hwf' & HN' & Est' & Hh). cbn [oshape oel] in *.
    exists s'. rewrite Hp. split.
    { f_equal. unfold set_init, set_rec. cbn. rewrite rinit_bump, Ei. reflexivity. }
    split; [exact Hwf'|]. split.
    { unfold full. rewrite Est'. exact I. }
    split; [exact HN'|]. split.
    { unfold stored_shape. rewrite Est. destruct d. exact Est'. }
    rewrite Hh, map_rcast. unfold prior, base, rhist. rewrite Ei, hd_hist by exact Hn.
    assert (Eig : ignored (rrec r) = false) by (rewrite <- full_ignored; exact Hf). rewrite Eig. reflexivity.
Qed.

(* ------------------------------------------------------------------ peek / latest *)
Theorem peek_head r : rwf r -> 0 < N (rrec r) ->
  rd_peek r = ROk r (if rinit r then RNone
                     else RObs (match stored_shape r with Some s => s | None => [] end) (hd [] (rhist r))).
Proof.
  intros (Hwf & Hfull) Hn. unfold rd_peek. destruct (rinit r) eqn:Ei; cbn [negb]; [reflexivity|].
  assert (Hf : full (rrec r)) by (apply Hfull; reflexivity).
  destruct (peek_spec (rrec r) Hwf Hf) as (d & shs & Est & Hpk). rewrite Hpk.
  unfold stored_shape, rhist. rewrite Est, hd_hist by exact Hn. reflexivity.
Qed.

(* ------------------------------------------------------------------ dump *)
Lemma rev_rows_hist (s : ring) : wf s -> full s -> ptr s = 0 -> rev (rows s) = hist s.
Proof.
  intros Hwf Hf Hp. pose proof Hwf as (Hn & _ & Hlen). unfold full in Hf. unfold hist, at_, rows, idx in *.
  destruct (st s) as [| |d sh r]; try contradiction.
  apply nth_ext with (d := []) (d' := []).
  - rewrite rev_length, map_length, seq_length. exact Hlen.
  - intros i Hi. rewrite rev_length in Hi. rewrite rev_nth by exact Hi.
    rewrite (nth_map_seq rcast (kfill K)) by lia. f_equal.
    unfold unwind, _unwind_ptr. rewrite Hp, Hlen.
    replace ((Z.of_nat 0 - (Z.of_nat i + 1)) mod Z.of_nat (N s))%Z with (Z.of_nat (N s) - 1 - Z.of_nat i)%Z; [lia|].
    apply Z.mod_unique with (q := (-1)%Z); lia.
Qed.
Lemma hist_ext (s s' : ring) : N s' = N s -> (forall k, at_ s' k = at_ s k) -> hist s' = hist s.
Proof. intros HN H. unfold hist. rewrite HN. apply map_ext. intros k. apply H. Qed.

(* dump lists the record newest first and does not change it (it only re-aligns the storage) *)
Theorem dump_newest_first r : rwf r -> 0 < N (rrec r) -> rinit r = false ->
  exists rec', rd_dump r = ROk (set_rec r rec') (RRows (match stored_shape r with Some s => s | None => [] end) (rhist r)) /\
               wf rec' /\ full rec' /\ N rec' = N (rrec r) /\ hist rec' = rhist r /\
               stored_shape (set_rec r rec') = stored_shape r.
Proof.
  intros (Hwf & Hfull) Hn Ei. assert (Hf : full (rrec r)) by (apply Hfull; exact Ei).
  destruct (align_spec rcast rpromote rdeqb (kfill K) (rrec r) 0 Hwf Hf ltac:(lia))
    as (s' & Ha & Hwf' & HN' & Hp' & (d & sh & Est & Est') & Hat).
  exists s'. unfold rd_dump. rewrite Ei. cbn [negb]. rewrite Ha, Est'.
  assert (Hf' : full s') by (unfold full; rewrite Est'; exact I).
  assert (Hh : hist s' = hist (rrec r)) by (apply hist_ext; assumption).
  split.
  { f_equal. unfold stored_shape. rewrite Est. f_equal. rewrite rev_rows_hist by assumption. exact Hh. }
  split; [exact Hwf'|]. split; [exact Hf'|]. split; [exact HN'|]. split; [exact Hh|].
  unfold stored_shape, set_rec. cbn [rrec]. rewrite Est, Est'. reflexivity.
Qed.
Theorem dump_initial (r : reducer) : rinit r = true -> rd_dump r = ROk r RNone.
Proof. intros Ei. unfold rd_dump. rewrite Ei. reflexivity. Qed.

(* ------------------------------------------------------------------ clear *)
(* invariants of construction: record size and decay are functions of the configuration *)
Definition rinv (r : reducer) : Prop :=
  N (rrec r) = Z.to_nat (recordsz_expr M (rdur r) (rdt r) (rincl r)) /\
  rdecay r = match kdecay K with Some f => f (rdt r) | None => zero M end /\
  (kcounts K = false -> rcount r = 0%Z).

(* clear() (keepshape=False) returns EXACTLY the freshly constructed reducer of the current configuration *)
Theorem clear_restores_initial r : rinv r ->
  rd_clear r false = ROk (fresh M K (rdt r) (rdur r) (rincl r) (rinpl r)) RUnit.
Proof.
  intros (HN & Hd & Hc). unfold rd_clear, fresh, deinitialize, set_init, set_rec, set_count.
  destruct (kcounts K) eqn:Ek; cbn; rewrite HN, Hd; [reflexivity|]. rewrite (Hc eq_refl). reflexivity.
Qed.

(* clear(keepshape=True) on created storage: the record holds the fill value everywhere and the next
   observation is treated as the first one *)
Theorem clear_keepshape r : rwf r -> full (rrec r) ->
  exists rec', rd_clear r true = ROk (set_init (set_rec (if kcounts K then set_count r 0%Z else r) rec') true) RUnit /\
               wf rec' /\ full rec' /\ N rec' = N (rrec r) /\
               stored_shape (set_rec r rec') = stored_shape r /\
               Forall (fun row => Forall (eq (kfill K)) row) (hist rec') /\
               (forall k, length (at_ rec' k) = length (at_ (rrec r) (k + Z.of_nat (ptr (rrec r))))).
Proof.
  intros (Hwf & _) Hf.
  destruct (reset_fill_spec rcast rpromote rdeqb (rrec r) (kfill K) Hwf Hf)
    as (s' & d & sh & Hr & Hwf' & HN' & Hp' & Est & Est' & Hat).
  exists s'. unfold rd_clear.
  assert (Hrec : rrec (if kcounts K then set_count r 0%Z else r) = rrec r) by (destruct (kcounts K); reflexivity).
  rewrite Hrec, Hr. split; [reflexivity|]. split; [exact Hwf'|]. split; [unfold full; rewrite Est'; exact I|].
  split; [exact HN'|]. split; [unfold stored_shape, set_rec; cbn [rrec]; rewrite Est, Est'; reflexivity|]. split.
  - unfold hist. apply Forall_forall. intros row Hin. apply in_map_iff in Hin. destruct Hin as (k & <- & _).
    rewrite Hat. apply Forall_forall. intros x Hx. apply in_map_iff in Hx. destruct Hx as (y & <- & _). reflexivity.
  - intros k. rewrite Hat, map_length. reflexivity.
Qed.

(* ------------------------------------------------------------------ inplace does not matter *)
Lemma write_inplace_eq (s : ring) o off : wf s -> write rcast s o off true = write rcast s o off false.
Proof.
  intros Hwf. unfold write. destruct (st s) as [| |d sh r] eqn:Est; try reflexivity.
  destruct (negb (shape_eqb (oshape o) sh)); [reflexivity|].
  pose proof (idx_lt rcast (kfill K) s off Hwf) as Hi. destruct Hwf as (_ & _ & Hlen). rewrite Est in Hlen.
  rewrite (splice_eq_upd rcast (kfill K)) by lia. reflexivity.
Qed.
Lemma push_inplace_eq (s : ring) o : 0 < N s -> ptr s < N s -> (full s -> wf s) -> rpush s o true = rpush s o false.
Proof.
  intros Hn Hp Hwf. unfold push.
  assert (Hw : wf match st s with SFull _ _ _ => s | _ => initialize (kfill K) s (oshape o) (odt o) end).
  { destruct (st s) eqn:E.
    - unfold initialize, wf; rewrite E; cbn. rewrite repeat_length. lia.
    - unfold initialize, wf; rewrite E; cbn. rewrite repeat_length. lia.
    - apply Hwf. unfold full. rewrite E. exact I. }
  rewrite (write_inplace_eq _ o 0 Hw). reflexivity.
Qed.
Theorem inplace_eq r sh obs : rwf r -> 0 < N (rrec r) ->
  forward (set_inplace r true) sh obs
  = match forward (set_inplace r false) sh obs with
    | ROk r' o => ROk (set_inplace r' true) o
    | RErr r' e => RErr (set_inplace r' true) e
    end.
Proof.
  intros (Hwf & Hfull) Hn. pose proof Hwf as (_ & Hp & _).
  destruct r as [dt dur incl inpl dec cnt ini rec]. cbn [rrec rinit] in *.
  assert (Hpush : forall s o, s = rec \/ (ignored rec = true /\ s = initialize (kfill K) rec sh tt) ->
                              rpush s o true = rpush s o false).
  { intros s o [->|(Hig & ->)].
    - apply push_inplace_eq; auto.
    - apply push_inplace_eq.
      + unfold initialize. destruct (st rec); exact Hn.
      + unfold initialize. destruct (st rec); cbn; exact Hn.
      + intros _. unfold initialize, wf. destruct (st rec); cbn; rewrite repeat_length; lia. }
  unfold forward, zipfold, set_inplace, set_count, set_rec, set_init.
  cbn [rdt rdur rincl rinpl rdecay rcount rinit rrec].
  destruct (kcounts K); destruct ini; cbn [negb rdt rdur rincl rinpl rdecay rcount rinit rrec];
    repeat match goal with
    | |- context [rpeek rec] => destruct (rpeek rec) as [? [| | |? ? ?|]|]
    | |- context [kcheck K && ?b] => destruct (kcheck K && b)
    | |- context [ignored rec] => let E := fresh "Eig" in destruct (ignored rec) eqn:E
    end;
    try reflexivity;
    try (rewrite Hpush by (left; reflexivity); match goal with |- context [rpush ?s ?o false] => destruct (rpush s o false) end; reflexivity);
    try (rewrite Hpush by (right; split; reflexivity); match goal with |- context [rpush ?s ?o false] => destruct (rpush s o false) end; reflexivity).
Qed.

(* ------------------------------------------------------------------ runs of observations *)
(* invariant preservation, so that the step theorems can be chained *)
Lemma forward_post (r : reducer) rec' : rwf r ->
  wf rec' -> full rec' -> rwf (set_init (set_rec (bump r) rec') false).
Proof. intros _ Hw Hf. split; cbn; auto. Qed.

(* the states produced by folding a list of observation rows (oldest first), newest first *)
Fixpoint fold_rows (r : reducer) (p : option (list A)) (obs : list (list Obs)) : list (list A) :=
  match obs with
  | [] => []
  | o :: tl => let r1 := bump r in
               let row := zipfold r1 o p in
               fold_rows r1 (Some row) tl ++ [row]
  end.
Definition fwd_ops (sh : list nat) (obs : list (list Obs)) : list (@rop M Obs) := map (fun o => OFwd sh o) obs.

Lemma firstn_cons_removelast {X} (x : X) (l : list X) n : length l = n -> 0 < n ->
  x :: removelast l = firstn n (x :: l).
Proof.
  intros Hl Hn. destruct n as [|n]; [lia|]. cbn [firstn]. f_equal.
  revert n Hl Hn. induction l as [|y l IH]; intros n Hl _; [discriminate|].
  cbn [length] in Hl. injection Hl as Hl. destruct l as [|z l]; [subst n; reflexivity|].
  destruct n as [|n]; [discriminate|]. cbn [firstn]. change (removelast (y :: z :: l)) with (y :: removelast (z :: l)).
  f_equal. apply IH; [exact Hl|lia].
Qed.
Lemma firstn_app_firstn_le {X} (a b : list X) n m : n <= m -> firstn n (a ++ firstn m b) = firstn n (a ++ b).
Proof.
  revert n. induction a as [|x a IH]; intros n Hnm; cbn [app].
  - rewrite firstn_firstn. f_equal. lia.
  - destruct n as [|n]; [reflexivity|]. cbn [firstn]. f_equal. apply IH. lia.
Qed.
Lemma firstn_app_firstn {X} (a b : list X) n : firstn n (a ++ firstn n b) = firstn n (a ++ b).
Proof. apply firstn_app_firstn_le. lia. Qed.

Definition final (r : reducer) (ops : list (@rop M Obs)) : reducer := fst (rrun M K r ops).
Definition outputs (r : reducer) (ops : list (@rop M Obs)) : list (@rres M A) := snd (rrun M K r ops).
Lemma final_cons r o ops : final r (o :: ops) = final (res_state (rstep M K r o)) ops.
Proof. unfold final. cbn [rrun]. destruct (rrun M K (res_state (rstep M K r o)) ops). reflexivity. Qed.
Lemma outputs_cons r o ops : outputs r (o :: ops) = rstep M K r o :: outputs (res_state (rstep M K r o)) ops.
Proof. unfold outputs. cbn [rrun]. destruct (rrun M K (res_state (rstep M K r o)) ops). reflexivity. Qed.

Lemma zipfold_ext (r r' : reducer) o p : rdt r = rdt r' -> rdecay r = rdecay r' -> rcount r = rcount r' ->
  zipfold r o p = zipfold r' o p.
Proof. intros H1 H2 H3. unfold zipfold. rewrite H1, H2, H3. reflexivity. Qed.
Lemma bump_fields (r r' : reducer) : rdt r = rdt r' -> rdecay r = rdecay r' -> rcount r = rcount r' ->
  rdt (bump r) = rdt (bump r') /\ rdecay (bump r) = rdecay (bump r') /\ rcount (bump r) = rcount (bump r').
Proof. intros H1 H2 H3. unfold bump. destruct (kcounts K); cbn; rewrite ?H1, ?H2, ?H3; auto. Qed.
Lemma fold_rows_ext obs : forall (r r' : reducer) p, rdt r = rdt r' -> rdecay r = rdecay r' -> rcount r = rcount r' ->
  fold_rows r p obs = fold_rows r' p obs.
Proof.
  induction obs as [|o tl IH]; intros r r' p H1 H2 H3; [reflexivity|]. cbn [fold_rows].
  destruct (bump_fields r r' H1 H2 H3) as (B1 & B2 & B3).
  rewrite (zipfold_ext (bump r) (bump r') o p B1 B2 B3). f_equal. apply IH; assumption.
Qed.

Definition all_ok (outs : list (@rres M A)) : Prop := Forall (fun x => exists r, x = ROk r RUnit) outs.

(* later observations: the record after a run of observations is the list of folded states, newest first,
   followed by what was recorded before, cut to the record size *)
Lemma run_forwards_noninitial sh obs : forall r, rwf r -> 0 < N (rrec r) -> shape_ok r sh -> rinit r = false ->
  let r' := final r (fwd_ops sh obs) in
  rwf r' /\ N (rrec r') = N (rrec r) /\ rinit r' = false /\ stored_shape r' = stored_shape r /\
  same_cfg r r' /\ all_ok (outputs r (fwd_ops sh obs)) /\
  rhist r' = firstn (N (rrec r)) (fold_rows r (Some (hd [] (rhist r))) obs ++ rhist r).
Proof.
  induction obs as [|o tl IH]; intros r Hwf Hn Hsh Ei.
  - unfold final, outputs, fwd_ops. cbn [map rrun fst snd fold_rows app].
    split; [exact Hwf|]. split; [reflexivity|]. split; [exact Ei|]. split; [reflexivity|].
    split; [unfold same_cfg; auto|]. split; [constructor|].
    unfold rhist. rewrite <- (hist_length (rrec r)) at 1. symmetry. apply firstn_all.
  - cbn zeta. unfold fwd_ops. cbn [map]. rewrite final_cons, outputs_cons. cbn [rstep].
    destruct (forward_spec r sh o Hwf Hn Hsh) as (rec' & Hfw & Hwf' & Hf' & HN' & Est' & Hh).
    rewrite Hfw. cbn [res_state]. set (r1 := set_init (set_rec (bump r) rec') false).
    assert (Hwf1 : rwf r1) by (split; cbn; auto).
    assert (HN1 : N (rrec r1) = N (rrec r)) by exact HN'.
    assert (Hshape1 : stored_shape r1 = stored_shape r).
    { unfold stored_shape at 1. cbn [r1 set_init set_rec rrec]. rewrite Est'.
      destruct (stored_shape r) eqn:E; [reflexivity|].
      exfalso. unfold stored_shape in E. destruct Hwf as (_ & Hfull). specialize (Hfull Ei). unfold full in Hfull.
      destruct (st (rrec r)); try contradiction; discriminate. }
    assert (Hsh1 : shape_ok r1 sh) by (unfold shape_ok; rewrite Hshape1; exact Hsh).
    destruct (IH r1 Hwf1 ltac:(lia) Hsh1 eq_refl) as (Hw2 & HN2 & Hi2 & Hs2 & Hc2 & Hok2 & Hh2).
    fold (fwd_ops sh tl). split; [exact Hw2|]. split; [lia|]. split; [exact Hi2|]. split; [congruence|]. split.
    { destruct Hc2 as (c1 & c2 & c3 & c4 & c5). pose proof (same_cfg_bump r) as (b1 & b2 & b3 & b4 & b5).
      unfold same_cfg. cbn [r1 set_init set_rec rdt rdur rincl rinpl rdecay] in *. repeat split; congruence. }
    split. { constructor; [eexists; reflexivity|exact Hok2]. }
    rewrite Hh2, HN1. cbn [fold_rows].
    assert (Ehist1 : rhist r1 = zipfold (bump r) o (prior r) :: removelast (rhist r)).
    { unfold rhist at 1. cbn [r1 set_init set_rec rrec]. rewrite Hh. unfold base.
      assert (Eig : ignored (rrec r) = false) by (rewrite <- full_ignored; apply Hwf; exact Ei). rewrite Eig. reflexivity. }
    rewrite Ehist1. cbn [hd]. unfold prior. rewrite Ei.
    rewrite (fold_rows_ext tl r1 (bump r)) by reflexivity.
    rewrite (firstn_cons_removelast _ (rhist r) (N (rrec r))) by (try apply hist_length; exact Hn).
    rewrite firstn_app_firstn, <- app_assoc. reflexivity.
Qed.

(* a run of observations from a state that has not folded anything yet (fresh, or cleared) *)
Theorem run_forwards sh o obs : forall r, rwf r -> 0 < N (rrec r) -> shape_ok r sh -> rinit r = true ->
  let r' := final r (fwd_ops sh (o :: obs)) in
  rwf r' /\ N (rrec r') = N (rrec r) /\ rinit r' = false /\
  stored_shape r' = Some (match stored_shape r with Some s => s | None => sh end) /\
  same_cfg r r' /\ all_ok (outputs r (fwd_ops sh (o :: obs))) /\
  rhist r' = firstn (N (rrec r)) (fold_rows r None (o :: obs) ++ base r sh).
Proof.
  intros r Hwf Hn Hsh Ei. cbn zeta. unfold fwd_ops. cbn [map]. rewrite final_cons, outputs_cons. cbn [rstep].
  destruct (forward_spec r sh o Hwf Hn Hsh) as (rec' & Hfw & Hwf' & Hf' & HN' & Est' & Hh).
  rewrite Hfw. cbn [res_state]. set (r1 := set_init (set_rec (bump r) rec') false).
  assert (Hwf1 : rwf r1) by (split; cbn; auto).
  assert (HN1 : N (rrec r1) = N (rrec r)) by exact HN'.
  assert (Hshape1 : stored_shape r1 = Some (match stored_shape r with Some s => s | None => sh end)).
  { unfold stored_shape at 1. cbn [r1 set_init set_rec rrec]. rewrite Est'. reflexivity. }
  assert (Hsh1 : shape_ok r1 sh).
  { unfold shape_ok. rewrite Hshape1. unfold shape_ok in Hsh. destruct (stored_shape r); [exact Hsh|apply shape_eqb_refl]. }
  destruct (run_forwards_noninitial sh obs r1 Hwf1 ltac:(lia) Hsh1 eq_refl) as (Hw2 & HN2 & Hi2 & Hs2 & Hc2 & Hok2 & Hh2).
  fold (fwd_ops sh obs). split; [exact Hw2|]. split; [lia|]. split; [exact Hi2|]. split; [congruence|]. split.
  { destruct Hc2 as (c1 & c2 & c3 & c4 & c5). pose proof (same_cfg_bump r) as (b1 & b2 & b3 & b4 & b5).
    unfold same_cfg. cbn [r1 set_init set_rec rdt rdur rincl rinpl rdecay] in *. repeat split; congruence. }
  split. { constructor; [eexists; reflexivity|exact Hok2]. }
  rewrite Hh2, HN1. cbn [fold_rows].
  assert (Ehist1 : rhist r1 = zipfold (bump r) o None :: removelast (base r sh)).
  { unfold rhist at 1. cbn [r1 set_init set_rec rrec]. rewrite Hh. unfold prior. rewrite Ei. reflexivity. }
  rewrite Ehist1. cbn [hd].
  rewrite (fold_rows_ext obs r1 (bump r)) by reflexivity.
  assert (Hbl : length (base r sh) = N (rrec r)).
  { unfold base. destruct (ignored (rrec r)); [apply repeat_length|apply hist_length]. }
  rewrite (firstn_cons_removelast _ (base r sh) (N (rrec r)) Hbl Hn).
  rewrite firstn_app_firstn, <- app_assoc. reflexivity.
Qed.

(* the k-th newest folded state is the state reached after all but the last k observations *)
Lemma fold_rows_app l1 : forall (r : reducer) p l2,
  exists r' p', fold_rows r p (l1 ++ l2) = fold_rows r' p' l2 ++ fold_rows r p l1 /\
                rdt r' = rdt r /\ rdecay r' = rdecay r.
Proof.
  induction l1 as [|o l1 IH]; intros r p l2; cbn [app fold_rows].
  - exists r, p. rewrite app_nil_r. auto.
  - destruct (IH (bump r) (Some (zipfold (bump r) o p)) l2) as (r' & p' & E & H1 & H2).
    exists r', p'. rewrite E, app_assoc. pose proof (same_cfg_bump r) as (b1 & _ & _ & _ & b5).
    split; [reflexivity|]. split; congruence.
Qed.
Lemma fold_rows_length l : forall (r : reducer) p, length (fold_rows r p l) = length l.
Proof. induction l as [|o l IH]; intros r p; cbn [fold_rows length]; [reflexivity|]. rewrite app_length, IH. cbn. lia. Qed.
Theorem fold_rows_prefix (r : reducer) p l k : k < length l ->
  nth k (fold_rows r p l) [] = hd [] (fold_rows r p (firstn (length l - k) l)).
Proof.
  intros Hk. rewrite <- (firstn_skipn (length l - k) l) at 1.
  destruct (fold_rows_app (firstn (length l - k) l) r p (skipn (length l - k) l)) as (r' & p' & E & _). rewrite E.
  assert (Hl : length (fold_rows r' p' (skipn (length l - k) l)) = k) by (rewrite fold_rows_length, skipn_length; lia).
  rewrite app_nth2 by lia. rewrite Hl, Nat.sub_diag.
  destruct (fold_rows r p (firstn (length l - k) l)); reflexivity.
Qed.

End MachineProofs.

(* ------------------------------------------------------------------ invariants of every reachable state *)
Section Invariants.
Variable M : Num.
Context {A Obs : Type}.
Variable K : @rclass M A Obs.
Notation reducer := (@reducer M A).
Notation ring := (@ring A unit).
Notation rpush := (@push A unit rcast (kfill K)).

Definition state_ok (r : reducer) : Prop :=
  rwf M r /\ rinv M K r /\ (ignored (rrec r) = true -> ptr (rrec r) = 0).

Lemma push_ok (s : ring) o ip s' out : wf s -> rpush s o ip = Ok s' out -> wf s' /\ N s' = N s /\ full s'.
Proof.
  intros Hwf H.
  destruct (step_wf rcast rpromote rdeqb (kfill K) s (OpPush o ip) s' out Hwf H) as (Hw' & HN').
  split; [exact Hw'|]. split; [exact HN'|].
  unfold push in H. destruct (write rcast _ o 0 ip) as [s2 o2|e]; [|discriminate].
  destruct (incr s2 1) as [s3 o3|e] eqn:Ei; [|discriminate]. injection H as <- _.
  unfold incr in Ei. destruct (st s2) eqn:E2; try discriminate. injection Ei as <- _.
  unfold full. cbn. rewrite E2. exact I.
Qed.
Lemma initialize_wf (s : ring) sh : 0 < N s ->
  wf (initialize (kfill K) s sh tt) /\ N (initialize (kfill K) s sh tt) = N s /\ full (initialize (kfill K) s sh tt).
Proof. intros Hn. unfold initialize, wf, full. destruct (st s); cbn; rewrite ?repeat_length; repeat split; lia. Qed.
Lemma full_not_ignored (s : ring) : full s -> ignored s = true -> ptr s = 0.
Proof. intros Hf Hi. apply full_ignored in Hf. congruence. Qed.

Lemma ok_transfer (r r' : reducer) : state_ok r ->
  rdt r' = rdt r -> rdur r' = rdur r -> rincl r' = rincl r -> rdecay r' = rdecay r ->
  (kcounts K = false -> rcount r' = rcount r) -> N (rrec r') = N (rrec r) ->
  wf (rrec r') -> (rinit r' = false -> full (rrec r')) -> (ignored (rrec r') = true -> ptr (rrec r') = 0) -> state_ok r'.
Proof.
  intros (_ & (HN & Hd & Hc) & _) E1 E2 E3 E4 E5 E6 Hw Hf Hp. split; [split; assumption|]. split; [|exact Hp].
  unfold rinv. rewrite E1, E2, E3, E4, E6. split; [exact HN|]. split; [exact Hd|].
  intros Hk. rewrite (E5 Hk). apply Hc; exact Hk.
Qed.
Lemma bump_count (r : reducer) : kcounts K = false -> rcount (bump M K r) = rcount r.
Proof. intros Hk. unfold bump. rewrite Hk. reflexivity. Qed.
Lemma ok_Npos (r : reducer) : state_ok r -> 0 < N (rrec r).
Proof. intros ((Hw & _) & _). apply Hw. Qed.

Lemma forward_ok r sh obs : state_ok r -> state_ok (res_state (forward M K r sh obs)).
Proof.
  intros Hok. pose proof Hok as ((Hwf & Hfull) & _ & Hptr). pose proof (ok_Npos r Hok) as Hn.
  pose proof (same_cfg_bump M K r) as (b1 & b2 & b3 & b4 & b5).
  assert (Hb : state_ok (bump M K r)).
  { apply (ok_transfer r); auto using bump_count; rewrite ?rrec_bump, ?rinit_bump; auto. }
  unfold forward. fold (bump M K r). destruct (rinit r) eqn:Ei; cbn [negb].
  - destruct (ignored (rrec r)) eqn:Eig.
    + destruct (initialize_wf (rrec r) sh Hn) as (Hwi & HNi & Hfi).
      destruct (rpush (initialize (kfill K) (rrec r) sh tt) _ (rinpl r)) as [rec' o'|e] eqn:Ep; cbn [res_state].
      * destruct (push_ok _ _ _ _ _ Hwi Ep) as (Hw' & HN' & Hf').
        apply (ok_transfer r); cbn; auto using bump_count, full_not_ignored; congruence.
      * apply (ok_transfer r); cbn; auto using bump_count, full_not_ignored.
    + destruct (rpush (rrec r) _ (rinpl r)) as [rec' o'|e] eqn:Ep; cbn [res_state].
      * destruct (push_ok _ _ _ _ _ Hwf Ep) as (Hw' & HN' & Hf').
        apply (ok_transfer r); cbn; auto using bump_count, full_not_ignored.
      * apply (ok_transfer r); cbn; auto using bump_count; try (intros; congruence). rewrite rinit_bump, Ei. discriminate.
  - specialize (Hfull eq_refl).
    destruct (peek (rrec r)) as [s0 [| | |d shs els|]|e]; cbn [res_state]; try exact Hb;
      try (rewrite rrec_bump;
           destruct (rpush (rrec r) _ (rinpl r)) as [rec' o'|e'] eqn:Ep; cbn [res_state]; [|exact Hb];
           destruct (push_ok _ _ _ _ _ Hwf Ep) as (Hw' & HN' & Hf');
           apply (ok_transfer r); cbn; auto using bump_count, full_not_ignored).
    destruct (kcheck K && negb (shape_eqb sh shs)); cbn [res_state]; [exact Hb|].
    rewrite rrec_bump.
    destruct (rpush (rrec r) _ (rinpl r)) as [rec' o'|e'] eqn:Ep; cbn [res_state]; [|exact Hb].
    destruct (push_ok _ _ _ _ _ Hwf Ep) as (Hw' & HN' & Hf').
    apply (ok_transfer r); cbn; auto using bump_count, full_not_ignored.
Qed.

Lemma resize_rows_length sh (rows : list (list A)) n' : length (resize_rows M K sh rows n') = n'.
Proof.
  unfold resize_rows. destruct (Nat.ltb_spec n' (length rows)).
  - rewrite skipn_length. lia.
  - rewrite app_length, repeat_length. lia.
Qed.

Lemma set_dt_ok r v : state_ok r -> state_ok (res_state (rd_set_dt M K r v)).
Proof.
  intros Hok. pose proof Hok as ((Hwf & Hfull) & (HN & Hd & Hc) & Hptr). pose proof (ok_Npos r Hok) as Hn.
  unfold rd_set_dt. destruct (negb (gtb M v (zero M))); [exact Hok|]. cbn [res_state].
  assert (Hpos : 0 < Z.to_nat (recordsz_expr M (rdur r) v (rincl r))) by (unfold recordsz_expr; lia).
  assert (H1 : forall r1 : reducer,
             r1 = r \/ r1 = mkRed v (rdur r) (rincl r) (rinpl r) (rdecay r) (rcount r) (rinit r) (record_set_dt M K r v) ->
             rwf M r1 /\ N (rrec r1) = Z.to_nat (recordsz_expr M (rdur r1) (rdt r1) (rincl r1)) /\ rcount r1 = rcount r /\
             (ignored (rrec r1) = true -> ptr (rrec r1) = 0)).
  { intros r1 [-> | ->]; [split; [split; [exact Hwf|exact Hfull]|split; [exact HN|split; [reflexivity|exact Hptr]]]|].
    unfold rwf. cbn [rrec rdt rdur rincl rcount rinit].
    unfold record_set_dt. set (n' := Z.to_nat (recordsz_expr M (rdur r) v (rincl r))) in *.
    destruct (Nat.eqb_spec n' (N (rrec r))) as [E|E].
    - split; [split; [exact Hwf|exact Hfull]|]. split; [symmetry; exact E|]. split; [reflexivity|exact Hptr].
    - destruct (st (rrec r)) as [|d|d sh rows] eqn:Est.
      + assert (Hp0 : ptr (rrec r) = 0) by (apply Hptr; unfold ignored; rewrite Est; reflexivity).
        split; [|split; [reflexivity|split; [reflexivity|intros _; exact Hp0]]].
        split; [|intros Ei; specialize (Hfull Ei); unfold full in Hfull; rewrite Est in Hfull; contradiction].
        unfold wf. cbn. repeat split; auto. lia.
      + assert (Hp0 : ptr (rrec r) = 0) by (apply Hptr; unfold ignored; rewrite Est; reflexivity).
        split; [|split; [reflexivity|split; [reflexivity|intros _; exact Hp0]]].
        split; [|intros Ei; specialize (Hfull Ei); unfold full in Hfull; rewrite Est in Hfull; contradiction].
        unfold wf. cbn. repeat split; auto. lia.
      + assert (Hf : full (rrec r)) by (unfold full; rewrite Est; exact I).
        destruct (align_spec rcast rpromote rdeqb (kfill K) (rrec r) 0 Hwf Hf ltac:(lia))
          as (s1 & Ha & Hw1 & HN1 & Hp1 & (d1 & sh1 & Est0 & Est1) & _).
        rewrite Ha, Est1. split; [|split; [reflexivity|split; [reflexivity|intros _; reflexivity]]]. split.
        * unfold wf. cbn. rewrite resize_rows_length. repeat split; lia.
        * intros _. unfold full. cbn. exact I. }
  set (r1 := if neb M v (rdt r) then _ else r).
  assert (Hr1 : rwf M r1 /\ N (rrec r1) = Z.to_nat (recordsz_expr M (rdur r1) (rdt r1) (rincl r1)) /\ rcount r1 = rcount r /\
                (ignored (rrec r1) = true -> ptr (rrec r1) = 0)).
  { apply H1. unfold r1. destruct (neb M v (rdt r)); auto. }
  destruct Hr1 as (Hw1 & HN1 & Hc1 & Hp1).
  assert (Hdec1 : kdecay K = None -> rdecay r1 = rdecay r) by (intros _; unfold r1; destruct (neb M v (rdt r)); reflexivity).
  destruct (kdecay K) as [f|] eqn:Ek.
  - split; [exact Hw1|]. split; [|exact Hp1]. unfold rinv. cbn. rewrite Ek. split; [exact HN1|]. split; [reflexivity|].
    intros Hk. rewrite Hc1. apply Hc; exact Hk.
  - split; [exact Hw1|]. split; [|exact Hp1]. unfold rinv. rewrite Ek. split; [exact HN1|].
    split; [rewrite Hdec1 by reflexivity; exact Hd|].
    intros Hk. rewrite Hc1. apply Hc; exact Hk.
Qed.

Lemma clear_ok r ks : state_ok r -> state_ok (res_state (rd_clear M K r ks)).
Proof.
  intros Hok. pose proof Hok as ((Hwf & Hfull) & (HN & Hd & Hc) & Hptr). pose proof (ok_Npos r Hok) as Hn.
  unfold rd_clear. set (r1 := if kcounts K then set_count r 0%Z else r).
  assert (Hrec1 : rrec r1 = rrec r) by (unfold r1; destruct (kcounts K); reflexivity).
  assert (Hc1 : kcounts K = false -> rcount r1 = rcount r) by (intros Hk; unfold r1; rewrite Hk; reflexivity).
  assert (Hf1 : rdt r1 = rdt r /\ rdur r1 = rdur r /\ rincl r1 = rincl r /\ rdecay r1 = rdecay r)
    by (unfold r1; destruct (kcounts K); cbn; auto).
  destruct Hf1 as (f1 & f2 & f3 & f4).
  assert (Hfin : forall rec' b, N rec' = N (rrec r) -> wf rec' -> (b = false -> full rec') ->
                 (ignored rec' = true -> ptr rec' = 0) -> state_ok (set_init (set_rec r1 rec') b)).
  { intros rec' b H1 H2 H3 H4. apply (ok_transfer r); auto. }
  destruct ks.
  - rewrite Hrec1. unfold reset. destruct (st (rrec r)) as [|d|d sh rows] eqn:Est; cbn [res_state]; apply Hfin;
      try reflexivity; try discriminate; try (intros _; reflexivity).
    + unfold wf; cbn. repeat split; auto.
    + unfold wf; cbn. repeat split; auto.
    + unfold wf; cbn. rewrite map_length. destruct Hwf as (_ & _ & Hl). rewrite Est in Hl. repeat split; auto.
  - cbn [res_state]. apply Hfin; try reflexivity; try discriminate; try (intros _; reflexivity).
    + rewrite Hrec1. reflexivity.
    + unfold wf, deinitialize; cbn. rewrite Hrec1. repeat split; auto.
Qed.

Lemma dump_ok r : state_ok r -> state_ok (res_state (rd_dump M r)).
Proof.
  intros Hok. pose proof Hok as ((Hwf & Hfull) & _ & Hptr). pose proof (ok_Npos r Hok) as Hn.
  unfold rd_dump. destruct (rinit r) eqn:Ei; cbn [negb]; [exact Hok|]. specialize (Hfull eq_refl).
  destruct (align_spec rcast rpromote rdeqb (kfill K) (rrec r) 0 Hwf Hfull ltac:(lia))
    as (s1 & Ha & Hw1 & HN1 & Hp1 & (d1 & sh1 & Est0 & Est1) & _).
  rewrite Ha, Est1. cbn [res_state]. apply (ok_transfer r); cbn; auto;
    try (intros _; unfold full; rewrite Est1; exact I); try (unfold ignored; rewrite Est1; discriminate).
Qed.

(* every operation keeps the invariants; hence they hold in every reachable state *)
Theorem step_ok r o : state_ok r -> state_ok (res_state (rstep M K r o)).
Proof.
  intros Hok. destruct o; cbn [rstep].
  - apply forward_ok; exact Hok.
  - unfold rd_peek. destruct (negb (rinit r)); [|exact Hok]. destruct (peek (rrec r)) as [? [| | | |]|]; exact Hok.
  - apply dump_ok; exact Hok.
  - unfold rd_view_scalar. destruct (negb (rinit r)); [|exact Hok]. destruct (st (rrec r)); try exact Hok.
    destruct (out_of_range M r time tol); exact Hok.
  - unfold rd_view_tensor. destruct (negb (rinit r)); [|exact Hok]. destruct (st (rrec r)); try exact Hok.
    destruct (existsb _ times); exact Hok.
  - apply clear_ok; exact Hok.
  - apply set_dt_ok; exact Hok.
  - cbn [res_state]. apply (ok_transfer r); cbn; auto; apply Hok.
Qed.
Theorem fresh_ok dt dur incl inpl : state_ok (fresh M K dt dur incl inpl).
Proof. unfold state_ok, fresh, rwf, rinv, wf, full, recordsz_expr. cbn. repeat split; try lia; try discriminate; auto. Qed.
Theorem run_ok ops : forall r, state_ok r -> state_ok (final M K r ops).
Proof.
  induction ops as [|o ops IH]; intros r Hok; [exact Hok|]. rewrite final_cons. apply IH. apply step_ok. exact Hok.
Qed.

(* clear() at ANY point of ANY operation sequence returns exactly the freshly constructed reducer of the
   current configuration *)
Theorem clear_anywhere dt dur incl inpl ops :
  let r := final M K (fresh M K dt dur incl inpl) ops in
  rd_clear M K r false = ROk (fresh M K (rdt r) (rdur r) (rincl r) (rinpl r)) RUnit.
Proof. cbn zeta. apply clear_restores_initial. apply (run_ok ops). apply fresh_ok. Qed.
End Invariants.

Arguments bump {M A Obs} K r.
Arguments rhist {M A} r.
Arguments rwf {M A} r.
Arguments stored_shape {M A} r.
Arguments shape_ok {M A} r sh.
Arguments same_cfg {M A} r r'.
Arguments prior {M A} r.
Arguments base {M A Obs} K r sh.
Arguments rinv {M A Obs} K r.
Arguments fold_rows {M A Obs} K r p obs.
Arguments final {M A Obs} K r ops.
Arguments outputs {M A Obs} K r ops.
Arguments fwd_ops {M Obs} sh obs.
Arguments all_ok {M A} outs.
Arguments same_cfg_bump {M A Obs} K r.
Arguments fold_rows_length {M A Obs} K l r p.
Arguments fold_rows_prefix {M A Obs} K r p l k _.
Arguments run_forwards {M A Obs} K sh o obs r _ _ _ _.
Arguments run_forwards_noninitial {M A Obs} K sh obs r _ _ _ _.
Arguments forward_spec {M A Obs} K r sh obs _ _ _.
Arguments hist_length {A} s.
Arguments state_ok {M A Obs} K r.
