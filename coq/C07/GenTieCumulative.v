(* C07 - tie of the model (C07/Reducer.v) to the definitions GENERATED from class CumulativeTraceReducer
   (Gen/ReducerClasses.v, re-translated from inferno/observe/reducers on every run).  Every statement is an equality
   between a field of the model's class record and the generated definition, so an edit of the class's fold / decay /
   interpolate / fill in the source changes the generated term and stops this file compiling. *)
From Coq Require Import List ZArith Bool.
From Inferno Require Import Base.Num Gen.Infra Gen.Trace Gen.Math Gen.Interpolation Gen.ReducerClasses C01.Ring C07.Reducer.
Import ListNotations.

(* the generated definitions take the attributes they read as parameters named self_<attribute>: pin the names, so that
   reading a different attribute in the source (same number of reads) also breaks this file *)
Arguments CumulativeTraceReducer_fold N self_amplitude self_decay self_target self_tolerance obs state : assert.
Arguments CumulativeTraceReducer_decay N self_dt self_time_constant : assert.
Arguments CumulativeTraceReducer_interpolate N self_time_constant prev_data next_data sample_at step_time : assert.

(* fold: which kernel, with which attributes as which arguments *)
Theorem tie_CumulativeTraceReducer_fold : forall N (tau amp target : T N) (tol : option (T N)) dt decay cnt (o : T N) s,
  kfold (cls_cumulative N tau amp target tol) dt decay cnt o s = CumulativeTraceReducer_fold N amp decay target tol o s.
Proof. reflexivity. Qed.

(* decay: the dt setter's recomputation ... *)
Theorem tie_CumulativeTraceReducer_decay : forall N (tau amp target : T N) (tol : option (T N)),
  kdecay (cls_cumulative N tau amp target tol) = Some (fun dt => CumulativeTraceReducer_decay N dt tau).
Proof. reflexivity. Qed.
(* ... and the constructor's *)
Theorem tie_CumulativeTraceReducer_fresh_decay : forall N (tau amp target : T N) (tol : option (T N)) dt dur incl inpl,
  rdecay (fresh N (cls_cumulative N tau amp target tol) dt dur incl inpl) = CumulativeTraceReducer_decay N dt tau.
Proof. reflexivity. Qed.
Theorem tie_CumulativeTraceReducer_set_dt_decay : forall N (tau amp target : T N) (tol : option (T N)) r v r' out,
  rd_set_dt N (cls_cumulative N tau amp target tol) r v = ROk r' out -> rdecay r' = CumulativeTraceReducer_decay N (rdt r') tau.
Proof.
  intros N tau amp target tol r v r' out H. unfold rd_set_dt in H. destruct (negb (gtb N v (zero N))); [discriminate|].
  cbn [kdecay cls_cumulative] in H. injection H as <- _. reflexivity.
Qed.

(* interpolate, the fill value, no observation counter *)
Theorem tie_CumulativeTraceReducer_interpolate : forall N (tau amp target : T N) (tol : option (T N)) p n sa st,
  kinterp (cls_cumulative N tau amp target tol) p n sa st = CumulativeTraceReducer_interpolate N tau p n sa st.
Proof. reflexivity. Qed.
Theorem tie_CumulativeTraceReducer_fill : forall N (tau amp target : T N) (tol : option (T N)),
  kfill (cls_cumulative N tau amp target tol) = CumulativeTraceReducer_fill N /\ kcounts (cls_cumulative N tau amp target tol) = false.
Proof. split; reflexivity. Qed.
