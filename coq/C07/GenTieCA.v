(* C07 - tie of the model (C07/Reducer.v) to the definitions GENERATED from class CAReducer
   (Gen/ReducerClasses.v, re-translated from inferno/observe/reducers on every run).  Every statement is an equality
   between a field of the model's class record and the generated definition, so an edit of the class's fold /
   interpolate / fill in the source changes the generated term and stops this file compiling. *)
From Coq Require Import List ZArith Bool.
From Inferno Require Import Base.Num Gen.Infra Gen.Trace Gen.Math Gen.Interpolation Gen.ReducerClasses C01.Ring C07.Reducer C07.ReducerProofs.
Import ListNotations.

(* pin the generated parameter names (reading a different attribute in the source breaks this file) *)
Arguments CAReducer_fold N self_count obs state : assert.
Arguments CAReducer_fold_count self_count : assert.
Arguments CAReducer_interpolate N prev_data next_data sample_at step_time : assert.

(* fold reads the count AFTER its own increment (third argument of kfold) *)
Theorem tie_CAReducer_fold : forall N dt decay cnt (o : T N) s,
  kfold (cls_ca N) dt decay cnt o s = CAReducer_fold N cnt o s.
Proof. reflexivity. Qed.
(* forward hands fold the incremented count (bump), also when the fold then raises *)
Theorem tie_CAReducer_fold_count : forall N (r : @reducer N (T N)),
  kcounts (cls_ca N) = true /\ rcount (bump (cls_ca N) r) = CAReducer_fold_count (rcount r).
Proof. split; reflexivity. Qed.
(* clear zeroes the count *)
Theorem tie_CAReducer_clear_count : forall N (r : @reducer N (T N)) ks,
  rcount (res_state (rd_clear N (cls_ca N) r ks)) = CAReducer_clear_count.
Proof.
  intros. unfold rd_clear. cbn [kcounts cls_ca]. destruct ks; [|reflexivity].
  destruct (reset _ _ _) as [s o|e]; reflexivity.
Qed.
Theorem tie_CAReducer_interpolate : forall N p n sa st,
  kinterp (cls_ca N) p n sa st = CAReducer_interpolate N p n sa st.
Proof. reflexivity. Qed.
Theorem tie_CAReducer_fill : forall N,
  kfill (cls_ca N) = CAReducer_fill N /\ kdecay (cls_ca N) = None.
Proof. split; reflexivity. Qed.
