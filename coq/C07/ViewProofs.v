(* C07, part 3: FoldReducer.view = RecordTensor.select with the reducer's interpolation (real-number
   instance).  On the grid it returns the value recorded then; off the grid the reducer's interpolation of
   the two neighbouring recorded values, sampled at the time elapsed since the older one; the float-time
   and tensor-time code paths agree. *)
From Coq Require Import List ZArith Reals Bool Lra Lia.
From Flocq Require Import Core.Raux Core.Generic_fmt.
From Inferno Require Import Base.Num Base.NumR Gen.Infra Gen.Interpolation C01.Ring C01.RingProofs
  C07.Reducer C07.ReducerProofs.
Import ListNotations.
Open Scope R_scope.
Local Notation exp := Rtrigo_def.exp.

Section ViewProofs.
Context {A Obs : Type}.
Variable K : @rclass RN A Obs.
Notation reducer := (@reducer RN A).
Notation rhist := (@rhist RN A).
Notation rwf := (@rwf RN A).
Notation stored_shape := (@stored_shape RN A).

Lemma map2_ext {X Y W} (f g : X -> Y -> W) l m : (forall x y, f x y = g x y) -> map2 f l m = map2 g l m.
Proof. intros H. revert m. induction l as [|x l IH]; intros [|y m]; cbn; try reflexivity. rewrite H, IH. reflexivity. Qed.
Lemma nth_map2 {X Y W} (f : X -> Y -> W) l m e dx dy dw : (e < length l)%nat -> (e < length m)%nat ->
  nth e (map2 f l m) dw = f (nth e l dx) (nth e m dy).
Proof.
  revert m e. induction l as [|x l IH]; intros [|y m] e Hl Hm; cbn in *; try lia.
  destruct e as [|e]; [reflexivity|]. apply IH; lia.
Qed.

(* the k-th newest record entry is the one k+1 steps before the write position *)
Lemma nth_hist (s : @ring A unit) (k : nat) : (k < N s)%nat -> nth k (hist s) [] = at_ s (Z.of_nat k + 1).
Proof. intros Hk. unfold hist. rewrite (nth_map_seq (@rcast A) (kfill K)) by exact Hk. reflexivity. Qed.
Lemma row_at_hist (r : reducer) rows (k : Z) : rows = RingProofs.rows (rrec r) -> (0 <= k < Z.of_nat (N (rrec r)))%Z ->
  row_at (rrec r) rows (1 + k) = nth (Z.to_nat k) (rhist r) [].
Proof.
  intros -> Hk. unfold rhist. rewrite nth_hist by lia. unfold row_at, at_. f_equal. f_equal. lia.
Qed.

(* ---- arithmetic of the time index *)
Lemma shift_close dt tol time (k : Z) : 0 < dt -> tol < dt / 2 -> Rabs (IZR k * dt - time) <= tol ->
  Rabs (time / dt - IZR k) < / 2.
Proof.
  intros Hdt Htol Hk. replace (time / dt - IZR k) with ((time - IZR k * dt) * / dt) by (field; lra).
  rewrite Rabs_mult, (Rabs_pos_eq (/ dt)) by (left; apply Rinv_0_lt_compat; exact Hdt).
  rewrite Rabs_minus_sym. apply (Rmult_lt_reg_r dt); [exact Hdt|].
  rewrite Rmult_assoc, Rinv_l by lra. lra.
Qed.
Lemma rne_on_grid dt tol time (k : Z) : 0 < dt -> tol < dt / 2 -> Rabs (IZR k * dt - time) <= tol ->
  Znearest (fun z : Z => negb (Z.even z)) (time / dt) = k.
Proof. intros Hdt Htol Hk. apply Znearest_imp. eapply shift_close; eauto. Qed.
Lemma floor_succ x : Zfloor (1 + x) = (1 + Zfloor x)%Z.
Proof.
  apply Zfloor_imp. rewrite !plus_IZR. pose proof (Zfloor_lb x). pose proof (Zfloor_ub x). cbn. lra.
Qed.
Lemma ceil_nonint x : IZR (Zfloor x) <> x -> Zceil (1 + x) = (2 + Zfloor x)%Z.
Proof.
  intros Hx. rewrite Zceil_floor_neq.
  - rewrite floor_succ. lia.
  - rewrite floor_succ, plus_IZR. cbn. lra.
Qed.
Lemma off_grid_nonint dt tol time : 0 < dt -> 0 <= tol -> (forall j : Z, tol < Rabs (IZR j * dt - time)) ->
  IZR (Zfloor (time / dt)) <> time / dt.
Proof.
  intros Hdt Htol Hoff E. specialize (Hoff (Zfloor (time / dt))). rewrite E in Hoff.
  replace (time / dt * dt - time) with 0 in Hoff by (field; lra). rewrite Rabs_R0 in Hoff. lra.
Qed.

(* ------------------------------------------------------------------ float time *)
(* on the grid (within the tolerance of k steps back): the value recorded k steps ago *)
Theorem view_on_grid (r : reducer) time tol (k : Z) :
  rwf r -> rinit r = false -> 0 < rdt r -> 0 <= tol < rdt r / 2 ->
  (0 <= k < Z.of_nat (N (rrec r)))%Z -> Rabs (IZR k * rdt r - time) <= tol ->
  rd_view_scalar RN K r time tol
  = ROk r (RObs (match stored_shape r with Some s => s | None => [] end) (nth (Z.to_nat k) (rhist r) [])).
Proof.
  intros (Hwf & Hfull) Ei Hdt Htol Hk Hg. specialize (Hfull Ei).
  destruct (read_spec (rrec r) 0 Hwf Hfull) as (d & sh & Est & _).
  unfold rd_view_scalar, stored_shape. rewrite Ei, Est. cbn [negb].
  assert (Hrange : out_of_range RN r time tol = false).
  { unfold out_of_range. rn_unfold. apply Rabs_le_inv in Hg.
    assert (Hk1 : IZR k <= IZR (Z.of_nat (N (rrec r)) - 1)) by (apply IZR_le; lia).
    assert (Hk0 : 0 <= IZR k) by (apply IZR_le; lia).
    destruct (Rltb'_spec time (- tol)) as [H1|_]; [nra|].
    destruct (Rltb'_spec (rdt r * IZR (Z.of_nat (N (rrec r)) - 1) + tol) time) as [H2|_]; [nra|]. reflexivity. }
  rewrite Hrange. f_equal. f_equal. unfold select_scalar.
  rn_simpl. rewrite (rne_on_grid (rdt r) tol time k) by (try lra; exact Hg).
  destruct (Rleb'_spec (Rabs (rdt r * IZR k - time)) tol) as [_|Hn].
  - apply row_at_hist; [reflexivity|exact Hk].
  - exfalso. apply Hn. replace (rdt r * IZR k) with (IZR k * rdt r) by ring. exact Hg.
Qed.

(* off the grid: the reducer's interpolation between the recorded values just before (kc steps back) and just
   after (kf steps back) the requested time, sampled at the time elapsed since the earlier one *)
Theorem view_off_grid (r : reducer) time tol :
  rwf r -> rinit r = false -> 0 < rdt r -> 0 <= tol ->
  0 <= time <= rdt r * IZR (Z.of_nat (N (rrec r)) - 1) ->
  (forall j : Z, tol < Rabs (IZR j * rdt r - time)) ->
  let kf := Zfloor (time / rdt r) in
  let kc := (kf + 1)%Z in
  (0 <= kf)%Z /\ (kc < Z.of_nat (N (rrec r)))%Z /\
  rd_view_scalar RN K r time tol
  = ROk r (RObs (match stored_shape r with Some s => s | None => [] end)
                (map2 (fun p n => kinterp K p n (IZR kc * rdt r - time) (rdt r))
                      (nth (Z.to_nat kc) (rhist r) []) (nth (Z.to_nat kf) (rhist r) []))).
Proof.
  intros (Hwf & Hfull) Ei Hdt Htol Hrange Hoff kf kc. specialize (Hfull Ei).
  pose proof (off_grid_nonint (rdt r) tol time Hdt Htol Hoff) as Hni. fold kf in Hni.
  pose proof (Zfloor_lb (time / rdt r)) as Hlb. pose proof (Zfloor_ub (time / rdt r)) as Hub. fold kf in Hlb, Hub.
  assert (Hshift : time / rdt r * rdt r = time) by (field; lra).
  assert (Hkf0 : (0 <= kf)%Z).
  { apply Zfloor_lub. cbn. apply Rmult_le_reg_r with (rdt r); [exact Hdt|]. rewrite Hshift. lra. }
  assert (Hkc : (kc < Z.of_nat (N (rrec r)))%Z).
  { unfold kc. apply lt_IZR. rewrite plus_IZR. cbn.
    assert (Hlt : IZR kf < time / rdt r) by lra.
    assert (Hle : time / rdt r <= IZR (Z.of_nat (N (rrec r)) - 1)).
    { apply Rmult_le_reg_r with (rdt r); [exact Hdt|]. rewrite Hshift. lra. }
    rewrite minus_IZR in Hle. cbn in Hle.
    (* kf < shift <= N-1 and both integers: kf + 1 <= N - 1 < N *)
    assert (Hz : (kf < Z.of_nat (N (rrec r)) - 1)%Z) by (apply lt_IZR; rewrite minus_IZR; cbn; lra).
    apply IZR_lt in Hz. rewrite minus_IZR in Hz. cbn in Hz. lra. }
  split; [exact Hkf0|]. split; [exact Hkc|].
  destruct (read_spec (rrec r) 0 Hwf Hfull) as (d & sh & Est & _).
  unfold rd_view_scalar, stored_shape. rewrite Ei, Est. cbn [negb].
  assert (Hr : out_of_range RN r time tol = false).
  { unfold out_of_range. rn_unfold.
    destruct (Rltb'_spec time (- tol)) as [H1|_]; [lra|].
    destruct (Rltb'_spec (rdt r * IZR (Z.of_nat (N (rrec r)) - 1) + tol) time) as [H2|_]; [lra|]. reflexivity. }
  rewrite Hr. f_equal. f_equal. unfold select_scalar. rn_simpl.
  destruct (Rleb'_spec (Rabs (rdt r * IZR (Znearest (fun z : Z => negb (Z.even z)) (time / rdt r)) - time)) tol) as [Hg|_].
  { exfalso. specialize (Hoff (Znearest (fun z : Z => negb (Z.even z)) (time / rdt r))).
    replace (rdt r * IZR (Znearest (fun z : Z => negb (Z.even z)) (time / rdt r))) with
      (IZR (Znearest (fun z : Z => negb (Z.even z)) (time / rdt r)) * rdt r) in Hg by ring. lra. }
  rewrite ceil_nonint by exact Hni. rewrite floor_succ. fold kf.
  replace (2 + kf)%Z with (1 + kc)%Z by (unfold kc; lia).
  rewrite !row_at_hist by (try reflexivity; lia).
  apply map2_ext. intros p n. f_equal. unfold frac. rn_simpl. fold kf. unfold kc. rewrite plus_IZR. cbn.
  field. lra.
Qed.

(* out of range (beyond the tolerance): ValueError *)
Theorem view_out_of_range (r : reducer) time tol :
  rwf r -> rinit r = false -> (time < - tol \/ rdt r * IZR (Z.of_nat (N (rrec r)) - 1) + tol < time) ->
  rd_view_scalar RN K r time tol = RErr r EValue.
Proof.
  intros (Hwf & Hfull) Ei Hout. specialize (Hfull Ei).
  destruct (read_spec (rrec r) 0 Hwf Hfull) as (d & sh & Est & _).
  unfold rd_view_scalar. rewrite Ei, Est. cbn [negb]. unfold out_of_range. rn_unfold.
  destruct (Rltb'_spec time (- tol)) as [H1|H1]; [reflexivity|].
  destruct (Rltb'_spec (rdt r * IZR (Z.of_nat (N (rrec r)) - 1) + tol) time) as [H2|H2]; [reflexivity|]. lra.
Qed.
(* before the first observation (fresh or cleared): None *)
Theorem view_initial (r : reducer) time tol : rinit r = true -> rd_view_scalar RN K r time tol = ROk r RNone.
Proof. intros Ei. unfold rd_view_scalar. rewrite Ei. reflexivity. Qed.

(* ------------------------------------------------------------------ tensor time = float time, per element *)
Theorem select_elem_eq_scalar (r : reducer) rows e time tol :
  0 < rdt r -> 0 <= tol ->
  (forall k, (e < length (row_at (rrec r) rows k))%nat) ->
  select_elem RN K r rows e time tol = nth e (select_scalar RN K r rows time tol) (kzero K).
Proof.
  intros Hdt Htol Hlen. unfold select_elem, select_scalar. rn_simpl.
  set (k := Znearest (fun z : Z => negb (Z.even z)) (time / rdt r)).
  destruct (Rleb'_spec (Rabs (rdt r * IZR k - time)) tol) as [Hg|Hg].
  - (* on the grid: both neighbours are the same slot, interpolation is bypassed *)
    replace (1 + IZR k) with (IZR (1 + k)) by (rewrite plus_IZR; reflexivity).
    rewrite Zceil_IZR, Zfloor_IZR, Z.eqb_refl. reflexivity.
  - assert (Hni : IZR (Zfloor (time / rdt r)) <> time / rdt r).
    { intros E. apply Hg.
      assert (Hk : k = Zfloor (time / rdt r)).
      { unfold k. apply Znearest_imp. rewrite E. unfold Rminus. rewrite Rplus_opp_r, Rabs_R0. lra. }
      rewrite Hk, E. replace (rdt r * (time / rdt r) - time) with 0 by (field; lra). rewrite Rabs_R0. exact Htol. }
    rewrite ceil_nonint by exact Hni. rewrite floor_succ.
    destruct (Z.eqb_spec (2 + Zfloor (time / rdt r)) (1 + Zfloor (time / rdt r))) as [E|_]; [lia|].
    rewrite (nth_map2 _ _ _ e (kzero K) (kzero K) (kzero K)) by apply Hlen. reflexivity.
Qed.

End ViewProofs.

(* ------------------------------------------------------------------ the documented interpolation rules *)
(* traces: analytic decay of the earlier value over the elapsed time *)
Lemma interp_trace_decay tau p n sa dt : expdecay_interp RN tau p n sa dt = p * exp (- sa / tau).
Proof. reflexivity. Qed.
(* events: the earlier value plus the elapsed time (the non-finite initial value is absorbing) *)
Lemma interp_event_elapsed crit i (p n : option R) sa dt :
  kinterp (cls_event RN crit i) p n sa dt = option_map (fun y => y + sa) p.
Proof. reflexivity. Qed.
(* pass-through: the earlier value *)
Lemma interp_pass_previous (p n sa dt : R) : kinterp (cls_pass RN) p n sa dt = p.
Proof. reflexivity. Qed.
(* moving / cumulative average: linear *)
Lemma interp_avg_linear (p n sa dt : R) : kinterp (cls_ca RN) p n sa dt = p + (n - p) / dt * sa.
Proof. reflexivity. Qed.
Lemma interp_ema_linear alpha (p n sa dt : R) : kinterp (cls_ema RN alpha) p n sa dt = p + (n - p) / dt * sa.
Proof. reflexivity. Qed.
