(* Obligation C04/within_iff.  Statement as printed by Coq from Inferno.C04.SelectProofs; proof by reference.
   This file contains nothing else, so the statement cannot be weakened quietly. *)
From Coq Require Import List ZArith Bool Arith Lia Reals Lra.
From Flocq Require Import Core.Raux Core.Generic_fmt.
From Inferno Require Import Base.Num Base.NumR Gen.Infra Gen.Interpolation C01.Ring C01.RingProofs C04.Synapse C04.HistProofs C04.SelectProofs.
Import ListNotations.
Open Scope R_scope.
Theorem within_iff : forall (dur tol : R) (t : T RN),
  0 <= dur ->
  0 <= tol ->
  leb RN (abs RN (sub RN t (clamp_sel RN dur t))) tol = true <-> - tol <= t <= dur + tol.
Proof. exact (@Inferno.C04.SelectProofs.within_iff). Qed.
Print Assumptions within_iff.
