(* Obligation C04/tie_SingleExp_records.  Statement as printed by Coq from Inferno.C04.GenTieSingleExp; proof by reference.
   This file contains nothing else, so the statement cannot be weakened quietly. *)
From Coq Require Import List ZArith Bool Arith Lia.
From Inferno Require Import Base.Num Gen.Infra Gen.SynapseClasses C01.Ring C04.Synapse C04.HistProofs C04.GenTie C04.GenTieSingleExp.
Import ListNotations.
Theorem tie_SingleExp_records : kind_writes KSingleExp = SingleExponentialCurrent_forward_writes /\
  kind_writes KSingleExp = SingleExponentialCurrent_clear_resets.
Proof. exact (@Inferno.C04.GenTieSingleExp.tie_SingleExp_records). Qed.
Print Assumptions tie_SingleExp_records.
