(* Obligation C04/tie_Delta_forward.  Statement as printed by Coq from Inferno.C04.GenTieDelta; proof by reference.
   This file contains nothing else, so the statement cannot be weakened quietly. *)
From Coq Require Import List ZArith Bool Arith Lia.
From Inferno Require Import Base.Num Gen.Infra Gen.SynapseClasses C01.Ring C04.Synapse C04.HistProofs C04.GenTie C04.GenTieDelta.
Import ListNotations.
Theorem tie_Delta_forward : forall (NM : Num) (c : cfg NM) (s : syn NM) (xsh : list nat) (xs : list (T NM))
    (inj : list (list (T NM))),
  ckind NM c = KDelta ->
  forward NM c s xsh xs inj =
  match
    rpush NM c (spk NM s) xsh
      (map (fun x : T NM => b2t NM (DeltaCurrent_forward_spike NM x)) xs)
  with
  | SOk spk' =>
      SOk
        ({| spk := spk'; cur := cur NM s; neg := neg NM s |},
         SOFloat NM (rshape_of NM spk') (map (delta_to_current NM c) (peek_row NM spk')))
  | SErr e => SErr e
  end.
Proof. exact (@Inferno.C04.GenTieDelta.tie_Delta_forward). Qed.
Print Assumptions tie_Delta_forward.
