(* Obligation C04/sel_elem_h.  Statement as printed by Coq from Inferno.C04.SelectProofs; proof by reference.
   This file contains nothing else, so the statement cannot be weakened quietly. *)
From Coq Require Import List ZArith Bool Arith Lia Reals Lra.
From Flocq Require Import Core.Raux Core.Generic_fmt.
From Inferno Require Import Base.Num Base.NumR Gen.Infra Gen.Interpolation C01.Ring C01.RingProofs C04.Synapse C04.HistProofs C04.SelectProofs.
Import ListNotations.
Open Scope R_scope.
Theorem sel_elem_h : forall (dt tol : R) (sh : list nat) (r : ringR) (interp : interp_fn RN) (e : nat) (t : T RN),
  wfr RN sh r ->
  sel_elem RN r dt tol interp e t = sel_h dt tol (fun z : Z => nth e (atR r z) 0) interp t.
Proof. exact (@Inferno.C04.SelectProofs.sel_elem_h). Qed.
Print Assumptions sel_elem_h.
