(* Obligation C04/tie_SingleExp_forward_current.  Statement as printed by Coq from Inferno.C04.GenTieSingleExp; proof by reference.
   This file contains nothing else, so the statement cannot be weakened quietly. *)
From Coq Require Import List ZArith Bool Arith Lia.
From Inferno Require Import Base.Num Gen.Infra Gen.SynapseClasses C01.Ring C04.Synapse C04.HistProofs C04.GenTie C04.GenTieSingleExp.
Import ListNotations.
Theorem tie_SingleExp_forward_current : forall (NM : Num) (c : cfg NM) (i x : T NM),
  sexp_step NM (cdt NM c) (ctau NM c) (div NM (cQ NM c) (ctau NM c)) i x =
  SingleExponentialCurrent_forward_current NM i (cdt NM c) (cQ NM c) (ctau NM c) x.
Proof. exact (@Inferno.C04.GenTieSingleExp.tie_SingleExp_forward_current). Qed.
Print Assumptions tie_SingleExp_forward_current.
