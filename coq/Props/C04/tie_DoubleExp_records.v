(* Obligation C04/tie_DoubleExp_records.  Statement as printed by Coq from Inferno.C04.GenTieDoubleExp; proof by reference.
   This file contains nothing else, so the statement cannot be weakened quietly. *)
From Coq Require Import List ZArith Bool Arith Lia.
From Inferno Require Import Base.Num Gen.Infra Gen.SynapseClasses C01.Ring C04.Synapse C04.HistProofs C04.GenTie C04.GenTieDoubleExp.
Import ListNotations.
Theorem tie_DoubleExp_records : kind_writes KDoubleExp = DoubleExponentialCurrent_forward_writes /\
  kind_writes KDoubleExp = DoubleExponentialCurrent_clear_resets.
Proof. exact (@Inferno.C04.GenTieDoubleExp.tie_DoubleExp_records). Qed.
Print Assumptions tie_DoubleExp_records.
