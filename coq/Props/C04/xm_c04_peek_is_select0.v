(* Obligation XM/c04_peek_is_select0.  Statement as printed by Coq from Inferno.XModel.SelectC04R; proof by reference.
   This file contains nothing else, so the statement cannot be weakened quietly. *)
From Coq Require Import List ZArith Bool Arith Lia Reals Lra.
From Inferno Require Import Base.Num Base.NumR Gen.Infra C01.Ring C01.RingProofs C02.Select C02.SelectProofs.
From Inferno Require C04.Synapse.
From Inferno Require Import XModel.SelectC04R.
Import ListNotations.
Local Open Scope R_scope.
Theorem c04_peek_is_select0 : forall (r : ringR) (d : unit) (sh : list nat) (rws : list (list R)) 
    (dt tol : R) (interp : interp_fn RN) (e : nat),
  0 < dt ->
  0 <= tol < dt / 2 ->
  st r = SFull d sh rws ->
  nth e (Synapse.peek_row RN r) 0 = sel_elem RN r rws dt tol 1 interp e 0.
Proof. exact (@Inferno.XModel.SelectC04R.c04_peek_is_select0). Qed.
Print Assumptions c04_peek_is_select0.
