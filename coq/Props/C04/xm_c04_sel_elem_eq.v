(* Obligation XM/c04_sel_elem_eq.  Statement as printed by Coq from Inferno.XModel.SelectC04; proof by reference.
   This file contains nothing else, so the statement cannot be weakened quietly. *)
From Coq Require Import List ZArith Bool Arith Lia.
From Inferno Require Import Base.Num Gen.Infra C01.Ring.
From Inferno Require C02.Select C04.Synapse.
From Inferno Require Import XModel.XLists XModel.SelectC04.
Import ListNotations.
Theorem c04_sel_elem_eq : forall (NM : Num) (r : ring) (d : unit) (sh : list nat) (rows : list (list (T NM)))
    (dt tol : T NM) (interp : T NM -> T NM -> T NM -> T NM -> T NM) 
    (e : nat) (t : T NM),
  st r = SFull d sh rows ->
  Synapse.sel_elem NM r dt tol interp e t = Select.sel_elem NM r rows dt tol 1 interp e t.
Proof. exact (@Inferno.XModel.SelectC04.c04_sel_elem_eq). Qed.
Print Assumptions c04_sel_elem_eq.
