(* Obligation C04/spike_record_eq_input.  Statement as printed by Coq from Inferno.C04.HistProofs; proof by reference.
   This file contains nothing else, so the statement cannot be weakened quietly. *)
From Coq Require Import List ZArith Bool Arith Lia.
From Inferno Require Import Base.Num Gen.Infra C01.Ring C01.RingProofs C04.Synapse C04.HistProofs.
Import ListNotations.
Theorem spike_record_eq_input : forall (NM : Num) (c : cfg NM) (ops : list (sop NM)) (k : nat),
  Forall (op_ok NM) ops ->
  let s := fst (run NM c (init NM c) ops) in
  let p := fold_left (spec_step NM c) ops [] in
  k < N (spk NM s) ->
  at_ (spk NM s) (Z.of_nat k + 1) =
  match nth_error p k with
  | Some (xs, _) => map (boolify NM) xs
  | None => zrow NM c
  end.
Proof. exact (@Inferno.C04.HistProofs.spike_record_eq_input). Qed.
Print Assumptions spike_record_eq_input.
