(* Obligation XM/c04_synparam_at_delayed_eq.  Statement as printed by Coq from Inferno.XModel.SelectC04; proof by reference.
   This file contains nothing else, so the statement cannot be weakened quietly. *)
From Coq Require Import List ZArith Bool Arith Lia.
From Inferno Require Import Base.Num Gen.Infra C01.Ring.
From Inferno Require C02.Select C04.Synapse.
From Inferno Require Import XModel.XLists XModel.SelectC04.
Import ListNotations.
Theorem c04_synparam_at_delayed_eq : forall (NM : Num) (r : ring) (dd : unit) (sh : list nat) (rows : list (list (T NM)))
    (dt dur tol : T NM) (interp : Synapse.interp_fn NM) (transform : T NM -> T NM)
    (ob : option (T NM)) (ssh : list nat) (sel : list (T NM)) (d : nat),
  st r = SFull dd sh rows ->
  N r <> 1 ->
  d = (if length ssh =? length sh then 1 else last ssh 0) ->
  length sel = nel sh * d ->
  Synapse.synparam_at NM r dt dur tol interp transform ob ssh sel =
  match
    Select.select_tensor NM r dt tol 1 (length ssh) (clamped_times NM dur (nel sh) d sel)
      interp
  with
  | Ok _ o =>
      Synapse.SOk
        (if length ssh =? length sh then sh else sh ++ [d],
         flat_map
           (fun e : nat =>
            map
              (fun j : nat =>
               post NM dur tol transform ob (nth (e * d + j) sel (zero NM))
                 (nth j (nth e (cols_of o) []) (zero NM))) (seq 0 d)) 
           (seq 0 (nel sh)))
  | Err e => Synapse.SErr e
  end.
Proof. exact (@Inferno.XModel.SelectC04.c04_synparam_at_delayed_eq). Qed.
Print Assumptions c04_synparam_at_delayed_eq.
