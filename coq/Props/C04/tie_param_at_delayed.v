(* Obligation C04/tie_param_at_delayed.  Statement as printed by Coq from Inferno.C04.GenTieMixins; proof by reference.
   This file contains nothing else, so the statement cannot be weakened quietly. *)
From Coq Require Import List ZArith Bool Arith Lia.
From Inferno Require Import Base.Num Gen.Infra Gen.SynapseClasses C01.Ring C04.Synapse C04.HistProofs C04.GenTie C04.GenTieMixins.
Import ListNotations.
Theorem tie_param_at_delayed : forall (NM : Num) (n : nat) (sh : list nat) (peekv : list (T NM))
    (selv : nat -> T NM -> T NM) (dt dur tol : T NM) (ob : option (T NM)) 
    (d : nat) (sel : list (T NM)),
  (n =? 1) = false ->
  existsb (out_of_range NM n dt tol) (map (fun t : T NM => synparam_at_bounded NM t dur) sel) =
  false ->
  param_at NM n sh peekv selv dt dur tol ob (sh ++ [d]) sel =
  SOk
    (sh ++ [d],
     flat_map
       (fun e : nat =>
        map
          (fun j : nat =>
           let t := nth (e * d + j) sel (zero NM) in
           let b := synparam_at_bounded NM t dur in
           synparam_at_overbound NM t b tol (selv e b) ob) (seq 0 d)) 
       (seq 0 (nel sh))).
Proof. exact (@Inferno.C04.GenTieMixins.tie_param_at_delayed). Qed.
Print Assumptions tie_param_at_delayed.
