(* Obligation C04/tie_DeltaPlus_forward.  Statement as printed by Coq from Inferno.C04.GenTieDeltaPlus; proof by reference.
   This file contains nothing else, so the statement cannot be weakened quietly. *)
From Coq Require Import List ZArith Bool Arith Lia.
From Inferno Require Import Base.Num Gen.Infra Gen.SynapseClasses C01.Ring C04.Synapse C04.HistProofs C04.GenTie C04.GenTieDeltaPlus.
Import ListNotations.
Theorem tie_DeltaPlus_forward : forall (NM : Num) (c : cfg NM) (s : syn NM) (xsh : list nat) (xs : list (T NM))
    (inj : list (list (T NM))),
  ckind NM c = KDeltaPlus ->
  forward NM c s xsh xs inj =
  match
    rpush NM c (spk NM s) xsh
      (map (fun x : T NM => b2t NM (DeltaPlusCurrent_forward_spike NM x)) xs)
  with
  | SOk spk' =>
      match rpush NM c (cur NM s) xsh (deltaplus_val NM c xs inj) with
      | SOk cur' =>
          SOk
            ({| spk := spk'; cur := cur'; neg := neg NM s |},
             SOFloat NM (rshape_of NM cur') (peek_row NM cur'))
      | SErr e => SErr e
      end
  | SErr e => SErr e
  end.
Proof. exact (@Inferno.C04.GenTieDeltaPlus.tie_DeltaPlus_forward). Qed.
Print Assumptions tie_DeltaPlus_forward.
