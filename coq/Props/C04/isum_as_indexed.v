(* Obligation C04/isum_as_indexed.  Statement as printed by Coq from Inferno.C04.ClosedForms; proof by reference.
   This file contains nothing else, so the statement cannot be weakened quietly. *)
From Coq Require Import List ZArith Bool Arith Lia Reals Lra.
From Inferno Require Import Base.Num Base.NumR Gen.Infra C01.Ring C04.Synapse C04.HistProofs C04.ClosedForms.
Import ListNotations.
Open Scope R_scope.
Theorem isum_as_indexed : forall (resp : nat -> R) (xs : list R),
  isum resp xs =
  fold_right Rplus 0 (map (fun j : nat => nth j xs 0 * resp j) (seq 0 (length xs))).
Proof. exact (@Inferno.C04.ClosedForms.isum_as_indexed). Qed.
Print Assumptions isum_as_indexed.
