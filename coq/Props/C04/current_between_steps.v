(* Obligation C04/current_between_steps.  Statement as printed by Coq from Inferno.C04.SynapseProofs; proof by reference.
   This file contains nothing else, so the statement cannot be weakened quietly. *)
From Coq Require Import List ZArith Bool Arith Lia Reals Lra.
From Flocq Require Import Core.Raux Core.Generic_fmt.
From Inferno Require Import Base.Num Base.NumR Gen.Infra Gen.Interpolation C01.Ring C01.RingProofs C04.Synapse C04.HistProofs C04.ClosedForms C04.SelectProofs C04.SynapseProofs.
Import ListNotations.
Open Scope R_scope.
Theorem current_between_steps : forall (c : cfgR) (s : synR) (p : pastR),
  Inv RN c s p ->
  cfg_ok c ->
  forall (e : nat) (b : R),
  0 <= b <= cdelay RN c ->
  (forall k : Z, ctol RN c < Rabs (IZR k * cdt RN c - b)) ->
  cur_sel c s e b =
  match ckind RN c with
  | KSingleExp =>
      value_ago c p (Z.to_nat (Zceil (b / cdt RN c))) e *
      Rexp (- (IZR (Zceil (b / cdt RN c)) * cdt RN c - b) / ctau RN c)
  | KDoubleExp =>
      pos_ago c p (Z.to_nat (Zceil (b / cdt RN c))) e *
      Rexp (- (IZR (Zceil (b / cdt RN c)) * cdt RN c - b) / ctau RN c) -
      neg_ago c p (Z.to_nat (Zceil (b / cdt RN c))) e *
      Rexp (- (IZR (Zceil (b / cdt RN c)) * cdt RN c - b) / ctr RN c)
  | _ =>
      match cmode RN c with
      | IPrevious => value_ago c p (Z.to_nat (Zceil (b / cdt RN c))) e
      | INearest =>
          if Rlt_dec (cdt RN c / 2) (IZR (Zceil (b / cdt RN c)) * cdt RN c - b)
          then value_ago c p (Z.to_nat (Zfloor (b / cdt RN c))) e
          else value_ago c p (Z.to_nat (Zceil (b / cdt RN c))) e
      end
  end.
Proof. exact (@Inferno.C04.SynapseProofs.current_between_steps). Qed.
Print Assumptions current_between_steps.
