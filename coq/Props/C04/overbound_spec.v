(* Obligation C04/overbound_spec.  Statement as printed by Coq from Inferno.C04.SelectProofs; proof by reference.
   This file contains nothing else, so the statement cannot be weakened quietly. *)
From Coq Require Import List ZArith Bool Arith Lia Reals Lra.
From Flocq Require Import Core.Raux Core.Generic_fmt.
From Inferno Require Import Base.Num Base.NumR Gen.Infra Gen.Interpolation C01.Ring C01.RingProofs C04.Synapse C04.HistProofs C04.SelectProofs.
Import ListNotations.
Open Scope R_scope.
Theorem overbound_spec : forall (selv : nat -> R -> R) (dur tol : R) (ob : option R) (e : nat) (t : R),
  0 <= dur ->
  0 <= tol ->
  read_one selv dur tol ob e t =
  (if Rle_dec (- tol) t
   then
    if Rle_dec t (dur + tol)
    then selv e (clamp_sel RN dur t)
    else match ob with
         | Some o => o
         | None => selv e dur
         end
   else match ob with
        | Some o => o
        | None => selv e 0
        end).
Proof. exact (@Inferno.C04.SelectProofs.overbound_spec). Qed.
Print Assumptions overbound_spec.
