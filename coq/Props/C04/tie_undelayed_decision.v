(* Obligation C04/tie_undelayed_decision.  Statement as printed by Coq from Inferno.C04.GenTieMixins; proof by reference.
   This file contains nothing else, so the statement cannot be weakened quietly. *)
From Coq Require Import List ZArith Bool Arith Lia.
From Inferno Require Import Base.Num Gen.Infra Gen.SynapseClasses C01.Ring C04.Synapse C04.HistProofs C04.GenTie C04.GenTieMixins.
Import ListNotations.
Theorem tie_undelayed_decision : forall (NM : Num) (t tol v o : T NM),
  (if leb NM (abs NM (sub NM t (synparam_at_bounded_undelayed NM))) tol then v else o) =
  synparam_at_overbound NM t (synparam_at_bounded_undelayed NM) tol v (Some o).
Proof. exact (@Inferno.C04.GenTieMixins.tie_undelayed_decision). Qed.
Print Assumptions tie_undelayed_decision.
