(* Obligation C04/spike_at_delayed_flat.  Statement as printed by Coq from Inferno.C04.SynapseProofs; proof by reference.
   This file contains nothing else, so the statement cannot be weakened quietly. *)
From Coq Require Import List ZArith Bool Arith Lia Reals Lra.
From Flocq Require Import Core.Raux Core.Generic_fmt.
From Inferno Require Import Base.Num Base.NumR Gen.Infra Gen.Interpolation C01.Ring C01.RingProofs C04.Synapse C04.HistProofs C04.ClosedForms C04.SelectProofs C04.SynapseProofs.
Import ListNotations.
Open Scope R_scope.
Theorem spike_at_delayed_flat : forall (c : cfgR) (s : synR) (p : pastR),
  Inv RN c s p ->
  cfg_ok c ->
  forall sel : list (T RN),
  N (spk RN s) <> 1%nat ->
  spike_at RN c s (cshape RN c) sel =
  SOk
    (cshape RN c,
     map (boolify RN)
       (map
          (fun e : nat =>
           read_one (spk_sel c s) (cdelay RN c) (ctol RN c)
             (option_map (b2t RN) (cspk_ob RN c)) e (nth e sel 0)) 
          (seq 0 (nel (cshape RN c))))).
Proof. exact (@Inferno.C04.SynapseProofs.spike_at_delayed_flat). Qed.
Print Assumptions spike_at_delayed_flat.
