(* Obligation C04/value_ago_closed_form.  Statement as printed by Coq from Inferno.C04.SynapseProofs; proof by reference.
   This file contains nothing else, so the statement cannot be weakened quietly. *)
From Coq Require Import List ZArith Bool Arith Lia Reals Lra.
From Flocq Require Import Core.Raux Core.Generic_fmt.
From Inferno Require Import Base.Num Base.NumR Gen.Infra Gen.Interpolation C01.Ring C01.RingProofs C04.Synapse C04.HistProofs C04.ClosedForms C04.SelectProofs C04.SynapseProofs.
Import ListNotations.
Open Scope R_scope.
Theorem value_ago_closed_form : forall (c : cfgR) (p : pastR) (k e : nat),
  Forall (entry_ok RN c) p ->
  (e < nel (cshape RN c))%nat ->
  value_ago c p k e =
  match ckind RN c with
  | KDelta => isum (resp_delta (cQ RN c) (cdt RN c)) (skipn k (btrain p e))
  | KDeltaPlus =>
      isum (resp_delta (cQ RN c) (cdt RN c)) (skipn k (train p e)) + injected (skipn k p) e
  | KSingleExp =>
      isum (resp_exp (cQ RN c / ctau RN c) (cdt RN c) (ctau RN c)) (skipn k (train p e))
  | KDoubleExp =>
      isum (resp_dexp (cQ RN c) (cdt RN c) (ctau RN c) (ctr RN c)) (skipn k (train p e))
  end.
Proof. exact (@Inferno.C04.SynapseProofs.value_ago_closed_form). Qed.
Print Assumptions value_ago_closed_form.
