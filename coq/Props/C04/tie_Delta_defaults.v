(* Obligation C04/tie_Delta_defaults.  Statement as printed by Coq from Inferno.C04.GenTieDelta; proof by reference.
   This file contains nothing else, so the statement cannot be weakened quietly. *)
From Coq Require Import List ZArith Bool Arith Lia.
From Inferno Require Import Base.Num Gen.Infra Gen.SynapseClasses C01.Ring C04.Synapse C04.HistProofs C04.GenTie C04.GenTieDelta.
Import ListNotations.
Theorem tie_Delta_defaults : forall NM : Num,
  mode_of_code DeltaCurrent_default_interp_mode = dflt_mode /\
  DeltaCurrent_default_delay NM = dflt_delay NM /\
  DeltaCurrent_default_interp_tol NM = dflt_tol NM /\
  DeltaCurrent_default_current_overbound NM = dflt_cur_ob NM /\
  DeltaCurrent_default_spike_overbound = dflt_spk_ob /\
  DeltaCurrent_default_batch_size = dflt_batch /\
  DeltaCurrent_default_inplace = dflt_inplace /\
  mode_of_code DeltaCurrent_partial_default_interp_mode = dflt_mode /\
  DeltaCurrent_partial_default_interp_tol NM = dflt_tol NM /\
  DeltaCurrent_partial_default_current_overbound NM = dflt_cur_ob NM /\
  DeltaCurrent_partial_default_spike_overbound = dflt_spk_ob /\
  DeltaCurrent_partial_default_inplace = dflt_inplace.
Proof. exact (@Inferno.C04.GenTieDelta.tie_Delta_defaults). Qed.
Print Assumptions tie_Delta_defaults.
