(* Obligation C04/forward_ok.  Statement as printed by Coq from Inferno.C04.HistProofs; proof by reference.
   This file contains nothing else, so the statement cannot be weakened quietly. *)
From Coq Require Import List ZArith Bool Arith Lia.
From Inferno Require Import Base.Num Gen.Infra C01.Ring C01.RingProofs C04.Synapse C04.HistProofs.
Import ListNotations.
Theorem forward_ok : forall (NM : Num) (c : cfg NM) (s : syn NM) (p : past NM) (xs : list (T NM))
    (inj : list (list (T NM))),
  Inv NM c s p ->
  entry_ok NM c (xs, inj) ->
  exists s' : syn NM,
    forward NM c s (cshape NM c) xs inj =
    SOk (s', SOFloat NM (cshape NM c) (cur_out NM c ((xs, inj) :: p))) /\
    Inv NM c s' ((xs, inj) :: p).
Proof. exact (@Inferno.C04.HistProofs.forward_ok). Qed.
Print Assumptions forward_ok.
