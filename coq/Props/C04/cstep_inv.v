(* Obligation C04/cstep_inv.  Statement as printed by Coq from Inferno.C04.ConfigProofs; proof by reference.
   This file contains nothing else, so the statement cannot be weakened quietly. *)
From Coq Require Import List ZArith Bool Arith Lia.
From Inferno Require Import Base.Num Gen.Infra C01.Ring C01.RingProofs C04.Synapse C04.Config C04.HistProofs C04.ConfigProofs.
Import ListNotations.
Theorem cstep_inv : forall (NM : Num) (cs : cst NM) (p : past NM) (o : cop NM),
  CInv NM cs p ->
  cop_ok NM o ->
  match cstep NM cs o with
  | SOk (cs', _) => CInv NM cs' (cspec_step NM cs p o)
  | SErr _ => cspec_step NM cs p o = p
  end.
Proof. exact (@Inferno.C04.ConfigProofs.cstep_inv). Qed.
Print Assumptions cstep_inv.
