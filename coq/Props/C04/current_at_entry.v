(* Obligation C04/current_at_entry.  Statement as printed by Coq from Inferno.C04.SynapseProofs; proof by reference.
   This file contains nothing else, so the statement cannot be weakened quietly. *)
From Coq Require Import List ZArith Bool Arith Lia Reals Lra.
From Flocq Require Import Core.Raux Core.Generic_fmt.
From Inferno Require Import Base.Num Base.NumR Gen.Infra Gen.Interpolation C01.Ring C01.RingProofs C04.Synapse C04.HistProofs C04.ClosedForms C04.SelectProofs C04.SynapseProofs.
Import ListNotations.
Open Scope R_scope.
Theorem current_at_entry : forall (c : cfgR) (s : synR) (p : pastR) (d : nat) (sel : list (T RN)),
  Inv RN c s p ->
  cfg_ok c ->
  N (spk RN s) <> 1%nat ->
  exists vals : list (T RN),
    current_at RN c s (cshape RN c ++ [d]) sel = SOk (cshape RN c ++ [d], vals) /\
    length vals = (nel (cshape RN c) * d)%nat /\
    (forall e j : nat,
     (e < nel (cshape RN c))%nat ->
     (j < d)%nat ->
     nth (e * d + j) vals 0 =
     read_one (cur_sel c s) (cdelay RN c) (ctol RN c) (ccur_ob RN c) e (nth (e * d + j) sel 0)).
Proof. exact (@Inferno.C04.SynapseProofs.current_at_entry). Qed.
Print Assumptions current_at_entry.
