(* Obligation C04/spike_ago_bit.  Statement as printed by Coq from Inferno.C04.SynapseProofs; proof by reference.
   This file contains nothing else, so the statement cannot be weakened quietly. *)
From Coq Require Import List ZArith Bool Arith Lia Reals Lra.
From Flocq Require Import Core.Raux Core.Generic_fmt.
From Inferno Require Import Base.Num Base.NumR Gen.Infra Gen.Interpolation C01.Ring C01.RingProofs C04.Synapse C04.HistProofs C04.ClosedForms C04.SelectProofs C04.SynapseProofs.
Import ListNotations.
Open Scope R_scope.
Theorem spike_ago_bit : forall (c : cfgR) (p : pastR) (k e : nat),
  boolify RN (spike_ago c p k e) = spike_ago c p k e.
Proof. exact (@Inferno.C04.SynapseProofs.spike_ago_bit). Qed.
Print Assumptions spike_ago_bit.
