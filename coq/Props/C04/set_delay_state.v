(* Obligation C04/set_delay_state.  Statement as printed by Coq from Inferno.C04.ConfigProofs; proof by reference.
   This file contains nothing else, so the statement cannot be weakened quietly. *)
From Coq Require Import List ZArith Bool Arith Lia.
From Inferno Require Import Base.Num Gen.Infra C01.Ring C01.RingProofs C04.Synapse C04.Config C04.HistProofs C04.ConfigProofs.
Import ListNotations.
Theorem set_delay_state : forall (NM : Num) (cs : cst NM) (v : T NM),
  ltb NM v (zero NM) = false ->
  cstep NM cs (CSetDelay NM v) =
  SOk
    ({|
       ccfg := set_delay NM (ccfg NM cs) v;
       ctau_i := ctau_i NM cs;
       csyn := init NM (set_delay NM (ccfg NM cs) v)
     |}, SOUnit NM).
Proof. exact (@Inferno.C04.ConfigProofs.set_delay_state). Qed.
Print Assumptions set_delay_state.
