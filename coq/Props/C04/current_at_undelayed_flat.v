(* Obligation C04/current_at_undelayed_flat.  Statement as printed by Coq from Inferno.C04.SynapseProofs; proof by reference.
   This file contains nothing else, so the statement cannot be weakened quietly. *)
From Coq Require Import List ZArith Bool Arith Lia Reals Lra.
From Flocq Require Import Core.Raux Core.Generic_fmt.
From Inferno Require Import Base.Num Base.NumR Gen.Infra Gen.Interpolation C01.Ring C01.RingProofs C04.Synapse C04.HistProofs C04.ClosedForms C04.SelectProofs C04.SynapseProofs.
Import ListNotations.
Open Scope R_scope.
Theorem current_at_undelayed_flat : forall (c : cfgR) (s : synR) (p : pastR),
  Inv RN c s p ->
  forall sel : list (T RN),
  N (spk RN s) = 1%nat ->
  length sel = nel (cshape RN c) ->
  current_at RN c s (cshape RN c) sel =
  SOk
    (cshape RN c,
     match ccur_ob RN c with
     | Some _ =>
         map
           (fun e : nat =>
            read_now (ctol RN c) (ccur_ob RN c) (value_ago c p 0 e) (nth e sel 0))
           (seq 0 (nel (cshape RN c)))
     | None => cur_out RN c p
     end).
Proof. exact (@Inferno.C04.SynapseProofs.current_at_undelayed_flat). Qed.
Print Assumptions current_at_undelayed_flat.
