(* Obligation C04/btrain_bits.  Statement as printed by Coq from Inferno.C04.ClosedForms; proof by reference.
   This file contains nothing else, so the statement cannot be weakened quietly. *)
From Coq Require Import List ZArith Bool Arith Lia Reals Lra.
From Inferno Require Import Base.Num Base.NumR Gen.Infra C01.Ring C04.Synapse C04.HistProofs C04.ClosedForms.
Import ListNotations.
Open Scope R_scope.
Theorem btrain_bits : forall (p : pastR) (e : nat),
  Forall (fun x : list R * list (list (T RN)) => nth e (fst x) 0 = 0 \/ nth e (fst x) 0 = 1) p ->
  btrain p e = train p e.
Proof. exact (@Inferno.C04.ClosedForms.btrain_bits). Qed.
Print Assumptions btrain_bits.
