(* Obligation C04/run_inv.  Statement as printed by Coq from Inferno.C04.HistProofs; proof by reference.
   This file contains nothing else, so the statement cannot be weakened quietly. *)
From Coq Require Import List ZArith Bool Arith Lia.
From Inferno Require Import Base.Num Gen.Infra C01.Ring C01.RingProofs C04.Synapse C04.HistProofs.
Import ListNotations.
Theorem run_inv : forall (NM : Num) (c : cfg NM) (ops : list (sop NM)) (s : syn NM) (p : past NM),
  Inv NM c s p ->
  Forall (op_ok NM) ops -> Inv NM c (fst (run NM c s ops)) (fold_left (spec_step NM c) ops p).
Proof. exact (@Inferno.C04.HistProofs.run_inv). Qed.
Print Assumptions run_inv.
