(* Obligation C04/reachable_recordsz.  Statement as printed by Coq from Inferno.C04.SynapseProofs; proof by reference.
   This file contains nothing else, so the statement cannot be weakened quietly. *)
From Coq Require Import List ZArith Bool Arith Lia Reals Lra.
From Flocq Require Import Core.Raux Core.Generic_fmt.
From Inferno Require Import Base.Num Base.NumR Gen.Infra Gen.Interpolation C01.Ring C01.RingProofs C04.Synapse C04.HistProofs C04.ClosedForms C04.SelectProofs C04.SynapseProofs.
Import ListNotations.
Open Scope R_scope.
Theorem reachable_recordsz : forall (c : cfgR) (ops : list (sop RN)),
  cfg_ok c ->
  Forall (op_ok RN) ops ->
  N (spk RN (fst (run RN c (init RN c) ops))) = recordsz RN (cdt RN c) (cdelay RN c) /\
  (N (spk RN (fst (run RN c (init RN c) ops))) = 1%nat <-> cdelay RN c = 0).
Proof. exact (@Inferno.C04.SynapseProofs.reachable_recordsz). Qed.
Print Assumptions reachable_recordsz.
