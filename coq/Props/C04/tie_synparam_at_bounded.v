(* Obligation C04/tie_synparam_at_bounded.  Statement as printed by Coq from Inferno.C04.GenTieMixins; proof by reference.
   This file contains nothing else, so the statement cannot be weakened quietly. *)
From Coq Require Import List ZArith Bool Arith Lia.
From Inferno Require Import Base.Num Gen.Infra Gen.SynapseClasses C01.Ring C04.Synapse C04.HistProofs C04.GenTie C04.GenTieMixins.
Import ListNotations.
Theorem tie_synparam_at_bounded : forall (NM : Num) (dur t : T NM), clamp_sel NM dur t = synparam_at_bounded NM t dur.
Proof. exact (@Inferno.C04.GenTieMixins.tie_synparam_at_bounded). Qed.
Print Assumptions tie_synparam_at_bounded.
