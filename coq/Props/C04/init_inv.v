(* Obligation C04/init_inv.  Statement as printed by Coq from Inferno.C04.HistProofs; proof by reference.
   This file contains nothing else, so the statement cannot be weakened quietly. *)
From Coq Require Import List ZArith Bool Arith Lia.
From Inferno Require Import Base.Num Gen.Infra C01.Ring C01.RingProofs C04.Synapse C04.HistProofs.
Import ListNotations.
Theorem init_inv : forall (NM : Num) (c : cfg NM), Inv NM c (init NM c) [].
Proof. exact (@Inferno.C04.HistProofs.init_inv). Qed.
Print Assumptions init_inv.
