(* Obligation C04/pos_neg_at_delayed_D.  Statement as printed by Coq from Inferno.C04.SynapseProofs; proof by reference.
   This file contains nothing else, so the statement cannot be weakened quietly. *)
From Coq Require Import List ZArith Bool Arith Lia Reals Lra.
From Flocq Require Import Core.Raux Core.Generic_fmt.
From Inferno Require Import Base.Num Base.NumR Gen.Infra Gen.Interpolation C01.Ring C01.RingProofs C04.Synapse C04.HistProofs C04.ClosedForms C04.SelectProofs C04.SynapseProofs.
Import ListNotations.
Open Scope R_scope.
Theorem pos_neg_at_delayed_D : forall (c : cfgR) (s : synR) (p : pastR),
  Inv RN c s p ->
  cfg_ok c ->
  forall (d : nat) (sel : list (T RN)),
  N (spk RN s) <> 1%nat ->
  pos_current_at RN c s (cshape RN c ++ [d]) sel =
  SOk
    (cshape RN c ++ [d],
     flat_map
       (fun e : nat =>
        map
          (fun j : nat =>
           read_one
             (fun (e0 : nat) (b : R) =>
              sel_elem RN (cur RN s) (cdt RN c) (ctol RN c) (interp_decay RN (ctau RN c)) e0 b)
             (cdelay RN c) (ctol RN c) (ccur_ob RN c) e (nth (e * d + j) sel 0)) 
          (seq 0 d)) (seq 0 (nel (cshape RN c)))) /\
  neg_current_at RN c s (cshape RN c ++ [d]) sel =
  SOk
    (cshape RN c ++ [d],
     flat_map
       (fun e : nat =>
        map
          (fun j : nat =>
           read_one
             (fun (e0 : nat) (b : R) =>
              sel_elem RN (neg RN s) (cdt RN c) (ctol RN c) (interp_decay RN (ctr RN c)) e0 b)
             (cdelay RN c) (ctol RN c) (ccur_ob RN c) e (nth (e * d + j) sel 0)) 
          (seq 0 d)) (seq 0 (nel (cshape RN c)))).
Proof. exact (@Inferno.C04.SynapseProofs.pos_neg_at_delayed_D). Qed.
Print Assumptions pos_neg_at_delayed_D.
