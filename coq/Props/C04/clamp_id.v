(* Obligation C04/clamp_id.  Statement as printed by Coq from Inferno.C04.SelectProofs; proof by reference.
   This file contains nothing else, so the statement cannot be weakened quietly. *)
From Coq Require Import List ZArith Bool Arith Lia Reals Lra.
From Flocq Require Import Core.Raux Core.Generic_fmt.
From Inferno Require Import Base.Num Base.NumR Gen.Infra Gen.Interpolation C01.Ring C01.RingProofs C04.Synapse C04.HistProofs C04.SelectProofs.
Import ListNotations.
Open Scope R_scope.
Theorem clamp_id : forall dur t : R, 0 <= t <= dur -> clamp_sel RN dur t = t.
Proof. exact (@Inferno.C04.SelectProofs.clamp_id). Qed.
Print Assumptions clamp_id.
