(* Obligation C04/sel_h_expdecay.  Statement as printed by Coq from Inferno.C04.SelectProofs; proof by reference.
   This file contains nothing else, so the statement cannot be weakened quietly. *)
From Coq Require Import List ZArith Bool Arith Lia Reals Lra.
From Flocq Require Import Core.Raux Core.Generic_fmt.
From Inferno Require Import Base.Num Base.NumR Gen.Infra Gen.Interpolation C01.Ring C01.RingProofs C04.Synapse C04.HistProofs C04.SelectProofs.
Import ListNotations.
Open Scope R_scope.
Theorem sel_h_expdecay : forall dt tol : R,
  0 < dt ->
  0 <= tol < dt / 2 ->
  forall (h : Z -> R) (tau : T RN) (t : R),
  (forall k : Z, tol < Rabs (IZR k * dt - t)) ->
  sel_h dt tol h (interp_decay RN tau) t =
  h (1 + Zceil (t / dt))%Z * Rexp (- (IZR (Zceil (t / dt)) * dt - t) / tau).
Proof. exact (@Inferno.C04.SelectProofs.sel_h_expdecay). Qed.
Print Assumptions sel_h_expdecay.
