(* Obligation C04/after_set_delay.  Statement as printed by Coq from Inferno.C04.ConfigProofs; proof by reference.
   This file contains nothing else, so the statement cannot be weakened quietly. *)
From Coq Require Import List ZArith Bool Arith Lia.
From Inferno Require Import Base.Num Gen.Infra C01.Ring C01.RingProofs C04.Synapse C04.Config C04.HistProofs C04.ConfigProofs.
Import ListNotations.
Theorem after_set_delay : forall (NM : Num) (cs : cst NM) (v : T NM) (ops : list (cop NM)),
  ltb NM v (zero NM) = false ->
  crun NM cs (CSetDelay NM v :: ops) =
  (let c' := set_delay NM (ccfg NM cs) v in
   let
   '(sf, outs) := crun NM {| ccfg := c'; ctau_i := ctau_i NM cs; csyn := init NM c' |} ops in
    (sf, inl (SOUnit NM) :: outs)).
Proof. exact (@Inferno.C04.ConfigProofs.after_set_delay). Qed.
Print Assumptions after_set_delay.
