(* Obligation C04/tie_DeltaPlus_forward_spike.  Statement as printed by Coq from Inferno.C04.GenTieDeltaPlus; proof by reference.
   This file contains nothing else, so the statement cannot be weakened quietly. *)
From Coq Require Import List ZArith Bool Arith Lia.
From Inferno Require Import Base.Num Gen.Infra Gen.SynapseClasses C01.Ring C04.Synapse C04.HistProofs C04.GenTie C04.GenTieDeltaPlus.
Import ListNotations.
Theorem tie_DeltaPlus_forward_spike : forall (NM : Num) (x : T NM), boolify NM x = b2t NM (DeltaPlusCurrent_forward_spike NM x).
Proof. exact (@Inferno.C04.GenTieDeltaPlus.tie_DeltaPlus_forward_spike). Qed.
Print Assumptions tie_DeltaPlus_forward_spike.
