(* Obligation C04/tie_DeltaPlus_defaults.  Statement as printed by Coq from Inferno.C04.GenTieDeltaPlus; proof by reference.
   This file contains nothing else, so the statement cannot be weakened quietly. *)
From Coq Require Import List ZArith Bool Arith Lia.
From Inferno Require Import Base.Num Gen.Infra Gen.SynapseClasses C01.Ring C04.Synapse C04.HistProofs C04.GenTie C04.GenTieDeltaPlus.
Import ListNotations.
Theorem tie_DeltaPlus_defaults : forall NM : Num,
  mode_of_code DeltaPlusCurrent_default_interp_mode = dflt_mode /\
  DeltaPlusCurrent_default_delay NM = dflt_delay NM /\
  DeltaPlusCurrent_default_interp_tol NM = dflt_tol NM /\
  DeltaPlusCurrent_default_current_overbound NM = dflt_cur_ob NM /\
  DeltaPlusCurrent_default_spike_overbound = dflt_spk_ob /\
  DeltaPlusCurrent_default_batch_size = dflt_batch /\
  DeltaPlusCurrent_default_inplace = dflt_inplace /\
  mode_of_code DeltaPlusCurrent_partial_default_interp_mode = dflt_mode /\
  DeltaPlusCurrent_partial_default_interp_tol NM = dflt_tol NM /\
  DeltaPlusCurrent_partial_default_current_overbound NM = dflt_cur_ob NM /\
  DeltaPlusCurrent_partial_default_spike_overbound = dflt_spk_ob /\
  DeltaPlusCurrent_partial_default_inplace = dflt_inplace.
Proof. exact (@Inferno.C04.GenTieDeltaPlus.tie_DeltaPlus_defaults). Qed.
Print Assumptions tie_DeltaPlus_defaults.
