(* Obligation C04/clear_resets.  Statement as printed by Coq from Inferno.C04.GenTie; proof by reference.
   This file contains nothing else, so the statement cannot be weakened quietly. *)
From Coq Require Import List ZArith Bool Arith Lia.
From Inferno Require Import Base.Num Gen.Infra Gen.SynapseClasses C01.Ring C04.Synapse C04.HistProofs C04.GenTie.
Import ListNotations.
Theorem clear_resets : forall (NM : Num) (c : cfg NM) (s : syn NM),
  clear NM c s = apply_resets NM (kind_writes (ckind NM c)) s.
Proof. exact (@Inferno.C04.GenTie.clear_resets). Qed.
Print Assumptions clear_resets.
