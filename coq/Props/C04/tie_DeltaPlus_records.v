(* Obligation C04/tie_DeltaPlus_records.  Statement as printed by Coq from Inferno.C04.GenTieDeltaPlus; proof by reference.
   This file contains nothing else, so the statement cannot be weakened quietly. *)
From Coq Require Import List ZArith Bool Arith Lia.
From Inferno Require Import Base.Num Gen.Infra Gen.SynapseClasses C01.Ring C04.Synapse C04.HistProofs C04.GenTie C04.GenTieDeltaPlus.
Import ListNotations.
Theorem tie_DeltaPlus_records : kind_writes KDeltaPlus = DeltaPlusCurrent_forward_writes /\
  kind_writes KDeltaPlus = DeltaPlusCurrent_clear_resets.
Proof. exact (@Inferno.C04.GenTieDeltaPlus.tie_DeltaPlus_records). Qed.
Print Assumptions tie_DeltaPlus_records.
