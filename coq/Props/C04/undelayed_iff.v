(* Obligation C04/undelayed_iff.  Statement as printed by Coq from Inferno.C04.SynapseProofs; proof by reference.
   This file contains nothing else, so the statement cannot be weakened quietly. *)
From Coq Require Import List ZArith Bool Arith Lia Reals Lra.
From Flocq Require Import Core.Raux Core.Generic_fmt.
From Inferno Require Import Base.Num Base.NumR Gen.Infra Gen.Interpolation C01.Ring C01.RingProofs C04.Synapse C04.HistProofs C04.ClosedForms C04.SelectProofs C04.SynapseProofs.
Import ListNotations.
Open Scope R_scope.
Theorem undelayed_iff : forall (c : cfgR) (s : synR) (p : pastR),
  Inv RN c s p -> cfg_ok c -> N (spk RN s) = 1%nat <-> cdelay RN c = 0.
Proof. exact (@Inferno.C04.SynapseProofs.undelayed_iff). Qed.
Print Assumptions undelayed_iff.
