(* Obligation C04/tie_synparam_at_undelayed.  Statement as printed by Coq from Inferno.C04.GenTieMixins; proof by reference.
   This file contains nothing else, so the statement cannot be weakened quietly. *)
From Coq Require Import List ZArith Bool Arith Lia.
From Inferno Require Import Base.Num Gen.Infra Gen.SynapseClasses C01.Ring C04.Synapse C04.HistProofs C04.GenTie C04.GenTieMixins.
Import ListNotations.
Theorem tie_synparam_at_undelayed : forall n : nat, synparam_at_undelayed (Z.of_nat n) = (n =? 1).
Proof. exact (@Inferno.C04.GenTieMixins.tie_synparam_at_undelayed). Qed.
Print Assumptions tie_synparam_at_undelayed.
