(* Obligation C04/tie_DoubleExp_defaults.  Statement as printed by Coq from Inferno.C04.GenTieDoubleExp; proof by reference.
   This file contains nothing else, so the statement cannot be weakened quietly. *)
From Coq Require Import List ZArith Bool Arith Lia.
From Inferno Require Import Base.Num Gen.Infra Gen.SynapseClasses C01.Ring C04.Synapse C04.HistProofs C04.GenTie C04.GenTieDoubleExp.
Import ListNotations.
Theorem tie_DoubleExp_defaults : forall NM : Num,
  mode_of_code DoubleExponentialCurrent_default_interp_mode = dflt_mode /\
  DoubleExponentialCurrent_default_delay NM = dflt_delay NM /\
  DoubleExponentialCurrent_default_interp_tol NM = dflt_tol NM /\
  DoubleExponentialCurrent_default_current_overbound NM = dflt_cur_ob NM /\
  DoubleExponentialCurrent_default_spike_overbound = dflt_spk_ob /\
  DoubleExponentialCurrent_default_batch_size = dflt_batch /\
  DoubleExponentialCurrent_default_inplace = dflt_inplace /\
  mode_of_code DoubleExponentialCurrent_partial_default_interp_mode = dflt_mode /\
  DoubleExponentialCurrent_partial_default_interp_tol NM = dflt_tol NM /\
  DoubleExponentialCurrent_partial_default_current_overbound NM = dflt_cur_ob NM /\
  DoubleExponentialCurrent_partial_default_spike_overbound = dflt_spk_ob /\
  DoubleExponentialCurrent_partial_default_inplace = dflt_inplace.
Proof. exact (@Inferno.C04.GenTieDoubleExp.tie_DoubleExp_defaults). Qed.
Print Assumptions tie_DoubleExp_defaults.
