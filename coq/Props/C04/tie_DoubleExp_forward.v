(* Obligation C04/tie_DoubleExp_forward.  Statement as printed by Coq from Inferno.C04.GenTieDoubleExp; proof by reference.
   This file contains nothing else, so the statement cannot be weakened quietly. *)
From Coq Require Import List ZArith Bool Arith Lia.
From Inferno Require Import Base.Num Gen.Infra Gen.SynapseClasses C01.Ring C04.Synapse C04.HistProofs C04.GenTie C04.GenTieDoubleExp.
Import ListNotations.
Theorem tie_DoubleExp_forward : forall (NM : Num) (c : cfg NM) (s : syn NM) (xsh : list nat) (xs : list (T NM))
    (inj : list (list (T NM))),
  ckind NM c = KDoubleExp ->
  forward NM c s xsh xs inj =
  match
    rpush NM c (spk NM s) xsh
      (map (fun x : T NM => b2t NM (DoubleExponentialCurrent_forward_spike NM x)) xs)
  with
  | SOk spk' =>
      match
        rpush NM c (cur NM s) xsh
          (zipw
             (fun i x : T NM =>
              DoubleExponentialCurrent_forward_pos_current NM (cdt NM c) i 
                (cQ NM c) (ctau NM c) (ctr NM c) x) (peek_row NM (cur NM s)) xs)
      with
      | SOk cur' =>
          match
            rpush NM c (neg NM s) xsh
              (zipw
                 (fun i x : T NM =>
                  DoubleExponentialCurrent_forward_neg_current NM 
                    (cdt NM c) i (cQ NM c) (ctau NM c) (ctr NM c) x) 
                 (peek_row NM (neg NM s)) xs)
          with
          | SOk neg' =>
              SOk
                ({| spk := spk'; cur := cur'; neg := neg' |},
                 SOFloat NM (rshape_of NM cur')
                   (zipw (DoubleExponentialCurrent_current NM) (peek_row NM cur')
                      (peek_row NM neg')))
          | SErr e => SErr e
          end
      | SErr e => SErr e
      end
  | SErr e => SErr e
  end.
Proof. exact (@Inferno.C04.GenTieDoubleExp.tie_DoubleExp_forward). Qed.
Print Assumptions tie_DoubleExp_forward.
