(* Obligation C04/forward_writes.  Statement as printed by Coq from Inferno.C04.GenTie; proof by reference.
   This file contains nothing else, so the statement cannot be weakened quietly. *)
From Coq Require Import List ZArith Bool Arith Lia.
From Inferno Require Import Base.Num Gen.Infra Gen.SynapseClasses C01.Ring C04.Synapse C04.HistProofs C04.GenTie.
Import ListNotations.
Theorem forward_writes : forall (NM : Num) (c : cfg NM) (s : syn NM) (xsh : list nat) (xs : list (T NM))
    (inj : list (list (T NM))) (s' : syn NM) (o : sout NM),
  forward NM c s xsh xs inj = SOk (s', o) ->
  (has 1 (kind_writes (ckind NM c)) = false -> cur NM s' = cur NM s) /\
  (has 2 (kind_writes (ckind NM c)) = false -> neg NM s' = neg NM s).
Proof. exact (@Inferno.C04.GenTie.forward_writes). Qed.
Print Assumptions forward_writes.
