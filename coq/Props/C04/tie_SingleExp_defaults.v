(* Obligation C04/tie_SingleExp_defaults.  Statement as printed by Coq from Inferno.C04.GenTieSingleExp; proof by reference.
   This file contains nothing else, so the statement cannot be weakened quietly. *)
From Coq Require Import List ZArith Bool Arith Lia.
From Inferno Require Import Base.Num Gen.Infra Gen.SynapseClasses C01.Ring C04.Synapse C04.HistProofs C04.GenTie C04.GenTieSingleExp.
Import ListNotations.
Theorem tie_SingleExp_defaults : forall NM : Num,
  mode_of_code SingleExponentialCurrent_default_interp_mode = dflt_mode /\
  SingleExponentialCurrent_default_delay NM = dflt_delay NM /\
  SingleExponentialCurrent_default_interp_tol NM = dflt_tol NM /\
  SingleExponentialCurrent_default_current_overbound NM = dflt_cur_ob NM /\
  SingleExponentialCurrent_default_spike_overbound = dflt_spk_ob /\
  SingleExponentialCurrent_default_batch_size = dflt_batch /\
  SingleExponentialCurrent_default_inplace = dflt_inplace /\
  mode_of_code SingleExponentialCurrent_partial_default_interp_mode = dflt_mode /\
  SingleExponentialCurrent_partial_default_interp_tol NM = dflt_tol NM /\
  SingleExponentialCurrent_partial_default_current_overbound NM = dflt_cur_ob NM /\
  SingleExponentialCurrent_partial_default_spike_overbound = dflt_spk_ob /\
  SingleExponentialCurrent_partial_default_inplace = dflt_inplace.
Proof. exact (@Inferno.C04.GenTieSingleExp.tie_SingleExp_defaults). Qed.
Print Assumptions tie_SingleExp_defaults.
