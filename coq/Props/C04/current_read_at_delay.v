(* Obligation C04/current_read_at_delay.  Statement as printed by Coq from Inferno.C04.SynapseProofs; proof by reference.
   This file contains nothing else, so the statement cannot be weakened quietly. *)
From Coq Require Import List ZArith Bool Arith Lia Reals Lra.
From Flocq Require Import Core.Raux Core.Generic_fmt.
From Inferno Require Import Base.Num Base.NumR Gen.Infra Gen.Interpolation C01.Ring C01.RingProofs C04.Synapse C04.HistProofs C04.ClosedForms C04.SelectProofs C04.SynapseProofs.
Import ListNotations.
Open Scope R_scope.
Theorem current_read_at_delay : forall (c : cfgR) (s : synR) (p : pastR),
  Inv RN c s p ->
  cfg_ok c ->
  forall (e : nat) (b : R) (k : Z),
  0 <= b <= cdelay RN c ->
  Rabs (IZR k * cdt RN c - b) <= ctol RN c -> cur_sel c s e b = value_ago c p (Z.to_nat k) e.
Proof. exact (@Inferno.C04.SynapseProofs.current_read_at_delay). Qed.
Print Assumptions current_read_at_delay.
