(* Obligation C04/tie_DoubleExp_current.  Statement as printed by Coq from Inferno.C04.GenTieDoubleExp; proof by reference.
   This file contains nothing else, so the statement cannot be weakened quietly. *)
From Coq Require Import List ZArith Bool Arith Lia.
From Inferno Require Import Base.Num Gen.Infra Gen.SynapseClasses C01.Ring C04.Synapse C04.HistProofs C04.GenTie C04.GenTieDoubleExp.
Import ListNotations.
Theorem tie_DoubleExp_current : forall (NM : Num) (c : cfg NM) (s : syn NM),
  ckind NM c = KDoubleExp ->
  current_of NM c s =
  zipw (DoubleExponentialCurrent_current NM) (peek_row NM (cur NM s)) (peek_row NM (neg NM s)).
Proof. exact (@Inferno.C04.GenTieDoubleExp.tie_DoubleExp_current). Qed.
Print Assumptions tie_DoubleExp_current.
