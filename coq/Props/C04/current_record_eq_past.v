(* Obligation C04/current_record_eq_past.  Statement as printed by Coq from Inferno.C04.HistProofs; proof by reference.
   This file contains nothing else, so the statement cannot be weakened quietly. *)
From Coq Require Import List ZArith Bool Arith Lia.
From Inferno Require Import Base.Num Gen.Infra C01.Ring C01.RingProofs C04.Synapse C04.HistProofs.
Import ListNotations.
Theorem current_record_eq_past : forall (NM : Num) (c : cfg NM) (ops : list (sop NM)) (k : nat),
  Forall (op_ok NM) ops ->
  let s := fst (run NM c (init NM c) ops) in
  let p := fold_left (spec_step NM c) ops [] in
  k < N (spk NM s) ->
  at_ (cur NM s) (Z.of_nat k + 1) = cur_val NM c (skipn k p) /\
  at_ (neg NM s) (Z.of_nat k + 1) = neg_val NM c (skipn k p).
Proof. exact (@Inferno.C04.HistProofs.current_record_eq_past). Qed.
Print Assumptions current_record_eq_past.
