(* Obligation C04/current_of_inv.  Statement as printed by Coq from Inferno.C04.HistProofs; proof by reference.
   This file contains nothing else, so the statement cannot be weakened quietly. *)
From Coq Require Import List ZArith Bool Arith Lia.
From Inferno Require Import Base.Num Gen.Infra C01.Ring C01.RingProofs C04.Synapse C04.HistProofs.
Import ListNotations.
Theorem current_of_inv : forall (NM : Num) (c : cfg NM) (s : syn NM) (p : past NM),
  Inv NM c s p -> current_of NM c s = cur_out NM c p.
Proof. exact (@Inferno.C04.HistProofs.current_of_inv). Qed.
Print Assumptions current_of_inv.
