(* Obligation C04/double_exp_between_steps_exact.  Statement as printed by Coq from Inferno.C04.SynapseProofs; proof by reference.
   This file contains nothing else, so the statement cannot be weakened quietly. *)
From Coq Require Import List ZArith Bool Arith Lia Reals Lra.
From Flocq Require Import Core.Raux Core.Generic_fmt.
From Inferno Require Import Base.Num Base.NumR Gen.Infra Gen.Interpolation C01.Ring C01.RingProofs C04.Synapse C04.HistProofs C04.ClosedForms C04.SelectProofs C04.SynapseProofs.
Import ListNotations.
Open Scope R_scope.
Theorem double_exp_between_steps_exact : forall (c : cfgR) (p : list (list (T RN) * list (list (T RN)))) (k e : nat) (since : R),
  ckind RN c = KDoubleExp ->
  Forall (entry_ok RN c) p ->
  (e < nel (cshape RN c))%nat ->
  pos_ago c p k e * Rexp (- since / ctau RN c) - neg_ago c p k e * Rexp (- since / ctr RN c) =
  isum
    (fun j : nat =>
     cQ RN c / (ctau RN c - ctr RN c) *
     (Rexp (- (INR j * cdt RN c + since) / ctau RN c) -
      Rexp (- (INR j * cdt RN c + since) / ctr RN c))) (skipn k (train p e)).
Proof. exact (@Inferno.C04.SynapseProofs.double_exp_between_steps_exact). Qed.
Print Assumptions double_exp_between_steps_exact.
