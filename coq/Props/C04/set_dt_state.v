(* Obligation C04/set_dt_state.  Statement as printed by Coq from Inferno.C04.ConfigProofs; proof by reference.
   This file contains nothing else, so the statement cannot be weakened quietly. *)
From Coq Require Import List ZArith Bool Arith Lia.
From Inferno Require Import Base.Num Gen.Infra C01.Ring C01.RingProofs C04.Synapse C04.Config C04.HistProofs C04.ConfigProofs.
Import ListNotations.
Theorem set_dt_state : forall (NM : Num) (cs : cst NM) (v : T NM),
  leb NM v (zero NM) = false ->
  cstep NM cs (CSetDt NM v) =
  SOk
    ({|
       ccfg := set_dt NM (ccfg NM cs) v;
       ctau_i := ctau_i NM cs;
       csyn := init NM (set_dt NM (ccfg NM cs) v)
     |}, SOUnit NM).
Proof. exact (@Inferno.C04.ConfigProofs.set_dt_state). Qed.
Print Assumptions set_dt_state.
