(* Obligation C04/tie_Delta_forward_spike.  Statement as printed by Coq from Inferno.C04.GenTieDelta; proof by reference.
   This file contains nothing else, so the statement cannot be weakened quietly. *)
From Coq Require Import List ZArith Bool Arith Lia.
From Inferno Require Import Base.Num Gen.Infra Gen.SynapseClasses C01.Ring C04.Synapse C04.HistProofs C04.GenTie C04.GenTieDelta.
Import ListNotations.
Theorem tie_Delta_forward_spike : forall (NM : Num) (x : T NM), boolify NM x = b2t NM (DeltaCurrent_forward_spike NM x).
Proof. exact (@Inferno.C04.GenTieDelta.tie_Delta_forward_spike). Qed.
Print Assumptions tie_Delta_forward_spike.
