(* Obligation C04/tie_Delta_spike_to_current.  Statement as printed by Coq from Inferno.C04.GenTieDelta; proof by reference.
   This file contains nothing else, so the statement cannot be weakened quietly. *)
From Coq Require Import List ZArith Bool Arith Lia.
From Inferno Require Import Base.Num Gen.Infra Gen.SynapseClasses C01.Ring C04.Synapse C04.HistProofs C04.GenTie C04.GenTieDelta.
Import ListNotations.
Theorem tie_Delta_spike_to_current : forall (NM : Num) (c : cfg NM) (b : bool),
  delta_to_current NM c (b2t NM b) = DeltaCurrent_spike_to_current NM (cdt NM c) (cQ NM c) b.
Proof. exact (@Inferno.C04.GenTieDelta.tie_Delta_spike_to_current). Qed.
Print Assumptions tie_Delta_spike_to_current.
