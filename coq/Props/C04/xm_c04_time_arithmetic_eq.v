(* Obligation XM/c04_time_arithmetic_eq.  Statement as printed by Coq from Inferno.XModel.SelectC04; proof by reference.
   This file contains nothing else, so the statement cannot be weakened quietly. *)
From Coq Require Import List ZArith Bool Arith Lia.
From Inferno Require Import Base.Num Gen.Infra C01.Ring.
From Inferno Require C02.Select C04.Synapse.
From Inferno Require Import XModel.XLists XModel.SelectC04.
Import ListNotations.
Theorem c04_time_arithmetic_eq : forall NM : Num,
  Synapse.out_of_range NM = Select.out_of_range NM /\
  Synapse.shift_of NM = Select.shift_of NM /\
  Synapse.on_grid NM = Select.on_grid NM /\
  Synapse.frac1 NM = Select.frac1 NM /\
  Synapse.sample_at NM = Select.sample_at NM /\ Synapse.snapped NM = Select.snapped NM.
Proof. exact (@Inferno.XModel.SelectC04.c04_time_arithmetic_eq). Qed.
Print Assumptions c04_time_arithmetic_eq.
