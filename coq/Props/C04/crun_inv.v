(* Obligation C04/crun_inv.  Statement as printed by Coq from Inferno.C04.ConfigProofs; proof by reference.
   This file contains nothing else, so the statement cannot be weakened quietly. *)
From Coq Require Import List ZArith Bool Arith Lia.
From Inferno Require Import Base.Num Gen.Infra C01.Ring C01.RingProofs C04.Synapse C04.Config C04.HistProofs C04.ConfigProofs.
Import ListNotations.
Theorem crun_inv : forall (NM : Num) (ops : list (cop NM)) (cs : cst NM) (p : past NM),
  CInv NM cs p ->
  Forall (cop_ok NM) ops ->
  let final := fst (crun NM cs ops) in exists p' : past NM, CInv NM final p'.
Proof. exact (@Inferno.C04.ConfigProofs.crun_inv). Qed.
Print Assumptions crun_inv.
