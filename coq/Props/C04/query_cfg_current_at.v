(* Obligation C04/query_cfg_current_at.  Statement as printed by Coq from Inferno.C04.ConfigProofs; proof by reference.
   This file contains nothing else, so the statement cannot be weakened quietly. *)
From Coq Require Import List ZArith Bool Arith Lia.
From Inferno Require Import Base.Num Gen.Infra C01.Ring C01.RingProofs C04.Synapse C04.Config C04.HistProofs C04.ConfigProofs.
Import ListNotations.
Theorem query_cfg_current_at : forall (NM : Num) (cs : cst NM) (ssh : list nat) (sel : list (T NM)),
  ctau_i NM cs = ctau NM (ccfg NM cs) ->
  current_at NM (query_cfg NM cs) (csyn NM cs) ssh sel =
  current_at NM (ccfg NM cs) (csyn NM cs) ssh sel.
Proof. exact (@Inferno.C04.ConfigProofs.query_cfg_current_at). Qed.
Print Assumptions query_cfg_current_at.
