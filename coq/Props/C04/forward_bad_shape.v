(* Obligation C04/forward_bad_shape.  Statement as printed by Coq from Inferno.C04.HistProofs; proof by reference.
   This file contains nothing else, so the statement cannot be weakened quietly. *)
From Coq Require Import List ZArith Bool Arith Lia.
From Inferno Require Import Base.Num Gen.Infra C01.Ring C01.RingProofs C04.Synapse C04.HistProofs.
Import ListNotations.
Theorem forward_bad_shape : forall (NM : Num) (c : cfg NM) (s : syn NM) (p : past NM) (xsh : list nat)
    (xs : list (T NM)) (inj : list (list (T NM))),
  Inv NM c s p -> xsh <> cshape NM c -> forward NM c s xsh xs inj = SErr EValue.
Proof. exact (@Inferno.C04.HistProofs.forward_bad_shape). Qed.
Print Assumptions forward_bad_shape.
