(* Obligation C04/sel_h_on_grid.  Statement as printed by Coq from Inferno.C04.SelectProofs; proof by reference.
   This file contains nothing else, so the statement cannot be weakened quietly. *)
From Coq Require Import List ZArith Bool Arith Lia Reals Lra.
From Flocq Require Import Core.Raux Core.Generic_fmt.
From Inferno Require Import Base.Num Base.NumR Gen.Infra Gen.Interpolation C01.Ring C01.RingProofs C04.Synapse C04.HistProofs C04.SelectProofs.
Import ListNotations.
Open Scope R_scope.
Theorem sel_h_on_grid : forall dt tol : R,
  0 < dt ->
  0 <= tol < dt / 2 ->
  forall (h : Z -> R) (interp : interp_fn RN) (t : R) (k : Z),
  Rabs (IZR k * dt - t) <= tol -> sel_h dt tol h interp t = h (1 + k)%Z.
Proof. exact (@Inferno.C04.SelectProofs.sel_h_on_grid). Qed.
Print Assumptions sel_h_on_grid.
