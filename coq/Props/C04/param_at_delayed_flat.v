(* Obligation C04/param_at_delayed_flat.  Statement as printed by Coq from Inferno.C04.SelectProofs; proof by reference.
   This file contains nothing else, so the statement cannot be weakened quietly. *)
From Coq Require Import List ZArith Bool Arith Lia Reals Lra.
From Flocq Require Import Core.Raux Core.Generic_fmt.
From Inferno Require Import Base.Num Base.NumR Gen.Infra Gen.Interpolation C01.Ring C01.RingProofs C04.Synapse C04.HistProofs C04.SelectProofs.
Import ListNotations.
Open Scope R_scope.
Theorem param_at_delayed_flat : forall (n : nat) (sh : list nat) (peekv : list R) (selv : nat -> R -> R) 
    (dt dur tol : R) (ob : option R),
  0 < dt ->
  0 <= tol ->
  0 <= dur <= dt * IZR (Z.of_nat n - 1) ->
  forall sel : list (T RN),
  n <> 1%nat ->
  param_at RN n sh peekv selv dt dur tol ob sh sel =
  SOk (sh, map (fun e : nat => read_one selv dur tol ob e (nth e sel 0)) (seq 0 (nel sh))).
Proof. exact (@Inferno.C04.SelectProofs.param_at_delayed_flat). Qed.
Print Assumptions param_at_delayed_flat.
