(* Obligation C04/clamped_in_range.  Statement as printed by Coq from Inferno.C04.SelectProofs; proof by reference.
   This file contains nothing else, so the statement cannot be weakened quietly. *)
From Coq Require Import List ZArith Bool Arith Lia Reals Lra.
From Flocq Require Import Core.Raux Core.Generic_fmt.
From Inferno Require Import Base.Num Base.NumR Gen.Infra Gen.Interpolation C01.Ring C01.RingProofs C04.Synapse C04.HistProofs C04.SelectProofs.
Import ListNotations.
Open Scope R_scope.
Theorem clamped_in_range : forall (n : nat) (dt dur tol : R) (t : T RN),
  0 < dt ->
  0 <= tol ->
  0 <= dur ->
  dur <= dt * IZR (Z.of_nat n - 1) -> out_of_range RN n dt tol (clamp_sel RN dur t) = false.
Proof. exact (@Inferno.C04.SelectProofs.clamped_in_range). Qed.
Print Assumptions clamped_in_range.
