(* Obligation C04/sstep_inv.  Statement as printed by Coq from Inferno.C04.HistProofs; proof by reference.
   This file contains nothing else, so the statement cannot be weakened quietly. *)
From Coq Require Import List ZArith Bool Arith Lia.
From Inferno Require Import Base.Num Gen.Infra C01.Ring C01.RingProofs C04.Synapse C04.HistProofs.
Import ListNotations.
Theorem sstep_inv : forall (NM : Num) (c : cfg NM) (s : syn NM) (p : past NM) (o : sop NM),
  Inv NM c s p ->
  op_ok NM o ->
  match sstep NM c s o with
  | SOk (s', _) => Inv NM c s' (spec_step NM c p o)
  | SErr _ => True
  end.
Proof. exact (@Inferno.C04.HistProofs.sstep_inv). Qed.
Print Assumptions sstep_inv.
