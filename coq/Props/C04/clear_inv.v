(* Obligation C04/clear_inv.  Statement as printed by Coq from Inferno.C04.HistProofs; proof by reference.
   This file contains nothing else, so the statement cannot be weakened quietly. *)
From Coq Require Import List ZArith Bool Arith Lia.
From Inferno Require Import Base.Num Gen.Infra C01.Ring C01.RingProofs C04.Synapse C04.HistProofs.
Import ListNotations.
Theorem clear_inv : forall (NM : Num) (c : cfg NM) (s : syn NM) (p : past NM),
  Inv NM c s p -> Inv NM c (clear NM c s) [].
Proof. exact (@Inferno.C04.HistProofs.clear_inv). Qed.
Print Assumptions clear_inv.
