(* Obligation C04/tie_DeltaPlus_forward_current.  Statement as printed by Coq from Inferno.C04.GenTieDeltaPlus; proof by reference.
   This file contains nothing else, so the statement cannot be weakened quietly. *)
From Coq Require Import List ZArith Bool Arith Lia.
From Inferno Require Import Base.Num Gen.Infra Gen.SynapseClasses C01.Ring C04.Synapse C04.HistProofs C04.GenTie C04.GenTieDeltaPlus.
Import ListNotations.
Theorem tie_DeltaPlus_forward_current : forall (NM : Num) (c : cfg NM) (xs : list (T NM)) (inj : list (list (T NM))) (e n : nat),
  length xs = n ->
  Forall (fun i : list (T NM) => length i = n) inj ->
  e < n ->
  nth e (deltaplus_val NM c xs inj) (zero NM) =
  DeltaPlusCurrent_forward_current NM (cdt NM c) (cQ NM c) (nth e xs (zero NM))
    (map (fun i : list (T NM) => nth e i (zero NM)) inj).
Proof. exact (@Inferno.C04.GenTieDeltaPlus.tie_DeltaPlus_forward_current). Qed.
Print Assumptions tie_DeltaPlus_forward_current.
