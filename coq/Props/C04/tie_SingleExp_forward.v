(* Obligation C04/tie_SingleExp_forward.  Statement as printed by Coq from Inferno.C04.GenTieSingleExp; proof by reference.
   This file contains nothing else, so the statement cannot be weakened quietly. *)
From Coq Require Import List ZArith Bool Arith Lia.
From Inferno Require Import Base.Num Gen.Infra Gen.SynapseClasses C01.Ring C04.Synapse C04.HistProofs C04.GenTie C04.GenTieSingleExp.
Import ListNotations.
Theorem tie_SingleExp_forward : forall (NM : Num) (c : cfg NM) (s : syn NM) (xsh : list nat) (xs : list (T NM))
    (inj : list (list (T NM))),
  ckind NM c = KSingleExp ->
  forward NM c s xsh xs inj =
  match
    rpush NM c (spk NM s) xsh
      (map (fun x : T NM => b2t NM (SingleExponentialCurrent_forward_spike NM x)) xs)
  with
  | SOk spk' =>
      match
        rpush NM c (cur NM s) xsh
          (zipw
             (fun i x : T NM =>
              SingleExponentialCurrent_forward_current NM i (cdt NM c) (cQ NM c) (ctau NM c) x)
             (peek_row NM (cur NM s)) xs)
      with
      | SOk cur' =>
          SOk
            ({| spk := spk'; cur := cur'; neg := neg NM s |},
             SOFloat NM (rshape_of NM cur') (peek_row NM cur'))
      | SErr e => SErr e
      end
  | SErr e => SErr e
  end.
Proof. exact (@Inferno.C04.GenTieSingleExp.tie_SingleExp_forward). Qed.
Print Assumptions tie_SingleExp_forward.
