(* Obligation C04/tie_DoubleExp_current_at.  Statement as printed by Coq from Inferno.C04.GenTieDoubleExp; proof by reference.
   This file contains nothing else, so the statement cannot be weakened quietly. *)
From Coq Require Import List ZArith Bool Arith Lia.
From Inferno Require Import Base.Num Gen.Infra Gen.SynapseClasses C01.Ring C04.Synapse C04.HistProofs C04.GenTie C04.GenTieDoubleExp.
Import ListNotations.
Theorem tie_DoubleExp_current_at : forall (NM : Num) (c : cfg NM) (s : syn NM) (ssh : list nat) (sel : list (T NM)),
  ckind NM c = KDoubleExp ->
  current_at NM c s ssh sel =
  match st (cur NM s) with
  | SFull _ sh _ =>
      param_at NM (N (spk NM s)) sh
        (zipw (DoubleExponentialCurrent_current_at_now NM) (peek_row NM (cur NM s))
           (peek_row NM (neg NM s)))
        (fun (e : nat) (b : T NM) =>
         DoubleExponentialCurrent_current_at_selected NM
           (sel_elem NM (cur NM s) (cdt NM c) (ctol NM c) (interp_decay NM (ctau NM c)) e b)
           (sel_elem NM (neg NM s) (cdt NM c) (ctol NM c) (interp_decay NM (ctr NM c)) e b))
        (cdt NM c) (cdelay NM c) (ctol NM c) (ccur_ob NM c) ssh sel
  | _ => SErr ERuntime
  end.
Proof. exact (@Inferno.C04.GenTieDoubleExp.tie_DoubleExp_current_at). Qed.
Print Assumptions tie_DoubleExp_current_at.
