(* Obligation C04/recordsz_spec.  Statement as printed by Coq from Inferno.C04.SelectProofs; proof by reference.
   This file contains nothing else, so the statement cannot be weakened quietly. *)
From Coq Require Import List ZArith Bool Arith Lia Reals Lra.
From Flocq Require Import Core.Raux Core.Generic_fmt.
From Inferno Require Import Base.Num Base.NumR Gen.Infra Gen.Interpolation C01.Ring C01.RingProofs C04.Synapse C04.HistProofs C04.SelectProofs.
Import ListNotations.
Open Scope R_scope.
Theorem recordsz_spec : forall dt delay : R,
  0 < dt ->
  0 <= delay ->
  let n := recordsz RN dt delay in
  (1 <= n)%nat /\
  delay <= dt * IZR (Z.of_nat n - 1) /\
  dt * IZR (Z.of_nat n - 1) < delay + dt /\ (n = 1%nat <-> delay = 0).
Proof. exact (@Inferno.C04.SelectProofs.recordsz_spec). Qed.
Print Assumptions recordsz_spec.
