(* Obligation C04/tie_mixin_records.  Statement as printed by Coq from Inferno.C04.GenTieMixins; proof by reference.
   This file contains nothing else, so the statement cannot be weakened quietly. *)
From Coq Require Import List ZArith Bool Arith Lia.
From Inferno Require Import Base.Num Gen.Infra Gen.SynapseClasses C01.Ring C04.Synapse C04.HistProofs C04.GenTie C04.GenTieMixins.
Import ListNotations.
Theorem tie_mixin_records : CurrentMixin_current_record = 1 /\ SpikeMixin_spike_record = 0.
Proof. exact (@Inferno.C04.GenTieMixins.tie_mixin_records). Qed.
Print Assumptions tie_mixin_records.
