(* Obligation C04/tie_DoubleExp_current_at_pieces.  Statement as printed by Coq from Inferno.C04.GenTieDoubleExp; proof by reference.
   This file contains nothing else, so the statement cannot be weakened quietly. *)
From Coq Require Import List ZArith Bool Arith Lia.
From Inferno Require Import Base.Num Gen.Infra Gen.SynapseClasses C01.Ring C04.Synapse C04.HistProofs C04.GenTie C04.GenTieDoubleExp.
Import ListNotations.
Theorem tie_DoubleExp_current_at_pieces : forall NM : Num,
  (forall z : Z, DoubleExponentialCurrent_current_at_undelayed z = synparam_at_undelayed z) /\
  DoubleExponentialCurrent_current_at_bounded_undelayed NM = synparam_at_bounded_undelayed NM /\
  (forall t d : T NM,
   DoubleExponentialCurrent_current_at_bounded NM t d = synparam_at_bounded NM t d) /\
  (forall (t b tol r : T NM) (ob : option (T NM)),
   DoubleExponentialCurrent_current_at_overbound NM t b tol r ob =
   synparam_at_overbound NM t b tol r ob).
Proof. exact (@Inferno.C04.GenTieDoubleExp.tie_DoubleExp_current_at_pieces). Qed.
Print Assumptions tie_DoubleExp_current_at_pieces.
