(* Obligation C04/tie_param_at_undelayed.  Statement as printed by Coq from Inferno.C04.GenTieMixins; proof by reference.
   This file contains nothing else, so the statement cannot be weakened quietly. *)
From Coq Require Import List ZArith Bool Arith Lia.
From Inferno Require Import Base.Num Gen.Infra Gen.SynapseClasses C01.Ring C04.Synapse C04.HistProofs C04.GenTie C04.GenTieMixins.
Import ListNotations.
Theorem tie_param_at_undelayed : forall (NM : Num) (sh : list nat) (peekv : list (T NM)) (selv : nat -> T NM -> T NM)
    (dt dur tol : T NM) (ob : option (T NM)) (ssh : list nat) (sel : list (T NM)),
  param_at NM 1 sh peekv selv dt dur tol ob ssh sel =
  match
    (if length ssh =? S (length sh)
     then expand_to NM (sh ++ [1]) ssh peekv
     else SOk (sh, peekv))
  with
  | SOk (rsh, rv) =>
      match ob with
      | Some o =>
          where_bc NM ssh
            (map
               (fun t : T NM =>
                leb NM (abs NM (sub NM t (synparam_at_bounded_undelayed NM))) tol) sel) rsh rv
            o
      | None => SOk (rsh, rv)
      end
  | SErr e => SErr e
  end.
Proof. exact (@Inferno.C04.GenTieMixins.tie_param_at_undelayed). Qed.
Print Assumptions tie_param_at_undelayed.
