(* Obligation C04/reachable_read_at_delay.  Statement as printed by Coq from Inferno.C04.SynapseProofs; proof by reference.
   This file contains nothing else, so the statement cannot be weakened quietly. *)
From Coq Require Import List ZArith Bool Arith Lia Reals Lra.
From Flocq Require Import Core.Raux Core.Generic_fmt.
From Inferno Require Import Base.Num Base.NumR Gen.Infra Gen.Interpolation C01.Ring C01.RingProofs C04.Synapse C04.HistProofs C04.ClosedForms C04.SelectProofs C04.SynapseProofs.
Import ListNotations.
Open Scope R_scope.
Theorem reachable_read_at_delay : forall (c : cfgR) (ops : list (sop RN)),
  cfg_ok c ->
  Forall (op_ok RN) ops ->
  forall (e : nat) (b : R) (k : Z),
  0 <= b <= cdelay RN c ->
  Rabs (IZR k * cdt RN c - b) <= ctol RN c ->
  cur_sel c (fst (run RN c (init RN c) ops)) e b =
  value_ago c (fold_left (spec_step RN c) ops []) (Z.to_nat k) e /\
  spk_sel c (fst (run RN c (init RN c) ops)) e b =
  spike_ago c (fold_left (spec_step RN c) ops []) (Z.to_nat k) e.
Proof. exact (@Inferno.C04.SynapseProofs.reachable_read_at_delay). Qed.
Print Assumptions reachable_read_at_delay.
