(* Obligation C04/cinit_inv.  Statement as printed by Coq from Inferno.C04.ConfigProofs; proof by reference.
   This file contains nothing else, so the statement cannot be weakened quietly. *)
From Coq Require Import List ZArith Bool Arith Lia.
From Inferno Require Import Base.Num Gen.Infra C01.Ring C01.RingProofs C04.Synapse C04.Config C04.HistProofs C04.ConfigProofs.
Import ListNotations.
Theorem cinit_inv : forall (NM : Num) (c : cfg NM), CInv NM (cinit NM c) [].
Proof. exact (@Inferno.C04.ConfigProofs.cinit_inv). Qed.
Print Assumptions cinit_inv.
