(* Obligation C04/inplace_eq_outofplace.  Statement as printed by Coq from Inferno.C04.HistProofs; proof by reference.
   This file contains nothing else, so the statement cannot be weakened quietly. *)
From Coq Require Import List ZArith Bool Arith Lia.
From Inferno Require Import Base.Num Gen.Infra C01.Ring C01.RingProofs C04.Synapse C04.HistProofs.
Import ListNotations.
Theorem inplace_eq_outofplace : forall (NM : Num) (c : cfg NM) (b1 b2 : bool) (ops : list (sop NM)) 
    (s : syn NM) (p : past NM),
  Inv NM (with_inplace NM c b1) s p ->
  Forall (op_ok NM) ops ->
  run NM (with_inplace NM c b1) s ops = run NM (with_inplace NM c b2) s ops.
Proof. exact (@Inferno.C04.HistProofs.inplace_eq_outofplace). Qed.
Print Assumptions inplace_eq_outofplace.
