(* Obligation C04/param_at_undelayed_D.  Statement as printed by Coq from Inferno.C04.SelectProofs; proof by reference.
   This file contains nothing else, so the statement cannot be weakened quietly. *)
From Coq Require Import List ZArith Bool Arith Lia Reals Lra.
From Flocq Require Import Core.Raux Core.Generic_fmt.
From Inferno Require Import Base.Num Base.NumR Gen.Infra Gen.Interpolation C01.Ring C01.RingProofs C04.Synapse C04.HistProofs C04.SelectProofs.
Import ListNotations.
Open Scope R_scope.
Theorem param_at_undelayed_D : forall (n : nat) (sh : list nat) (peekv : list R) (selv : nat -> R -> R) 
    (dt dur tol : R) (ob : option R) (d : nat) (sel : list (T RN)),
  n = 1%nat ->
  length sel = (nel sh * d)%nat ->
  param_at RN n sh peekv selv dt dur tol ob (sh ++ [d]) sel =
  SOk
    (sh ++ [d],
     map (fun i : nat => read_now tol ob (nth (i / d) peekv 0) (nth i sel 0))
       (seq 0 (nel sh * d))).
Proof. exact (@Inferno.C04.SelectProofs.param_at_undelayed_D). Qed.
Print Assumptions param_at_undelayed_D.
