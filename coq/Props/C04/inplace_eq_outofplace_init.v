(* Obligation C04/inplace_eq_outofplace_init.  Statement as printed by Coq from Inferno.C04.HistProofs; proof by reference.
   This file contains nothing else, so the statement cannot be weakened quietly. *)
From Coq Require Import List ZArith Bool Arith Lia.
From Inferno Require Import Base.Num Gen.Infra C01.Ring C01.RingProofs C04.Synapse C04.HistProofs.
Import ListNotations.
Theorem inplace_eq_outofplace_init : forall (NM : Num) (c : cfg NM) (ops : list (sop NM)),
  Forall (op_ok NM) ops ->
  run NM (with_inplace NM c true) (init NM (with_inplace NM c true)) ops =
  run NM (with_inplace NM c false) (init NM (with_inplace NM c false)) ops.
Proof. exact (@Inferno.C04.HistProofs.inplace_eq_outofplace_init). Qed.
Print Assumptions inplace_eq_outofplace_init.
