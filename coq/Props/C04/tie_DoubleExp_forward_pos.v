(* Obligation C04/tie_DoubleExp_forward_pos.  Statement as printed by Coq from Inferno.C04.GenTieDoubleExp; proof by reference.
   This file contains nothing else, so the statement cannot be weakened quietly. *)
From Coq Require Import List ZArith Bool Arith Lia.
From Inferno Require Import Base.Num Gen.Infra Gen.SynapseClasses C01.Ring C04.Synapse C04.HistProofs C04.GenTie C04.GenTieDoubleExp.
Import ListNotations.
Theorem tie_DoubleExp_forward_pos : forall (NM : Num) (c : cfg NM) (i x : T NM),
  sexp_step NM (cdt NM c) (ctau NM c) (dexp_k NM c) i x =
  DoubleExponentialCurrent_forward_pos_current NM (cdt NM c) i (cQ NM c) 
    (ctau NM c) (ctr NM c) x.
Proof. exact (@Inferno.C04.GenTieDoubleExp.tie_DoubleExp_forward_pos). Qed.
Print Assumptions tie_DoubleExp_forward_pos.
