(* Obligation C04/sstep_output.  Statement as printed by Coq from Inferno.C04.HistProofs; proof by reference.
   This file contains nothing else, so the statement cannot be weakened quietly. *)
From Coq Require Import List ZArith Bool Arith Lia.
From Inferno Require Import Base.Num Gen.Infra C01.Ring C01.RingProofs C04.Synapse C04.HistProofs.
Import ListNotations.
Theorem sstep_output : forall (NM : Num) (c : cfg NM) (s : syn NM) (p : past NM) (o : sop NM),
  Inv NM c s p ->
  op_ok NM o ->
  match o with
  | OStep _ xsh xs inj =>
      xsh = cshape NM c ->
      exists s' : syn NM,
        sstep NM c s o = SOk (s', SOFloat NM (cshape NM c) (cur_out NM c ((xs, inj) :: p)))
  | OCurrent _ => sstep NM c s o = SOk (s, SOFloat NM (cshape NM c) (cur_out NM c p))
  | OSpike _ => sstep NM c s o = SOk (s, SOBool NM (cshape NM c) (spike_hist NM c p 0))
  | OClear _ => sstep NM c s o = SOk (clear NM c s, SOUnit NM)
  | _ => True
  end.
Proof. exact (@Inferno.C04.HistProofs.sstep_output). Qed.
Print Assumptions sstep_output.
