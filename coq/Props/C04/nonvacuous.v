(* Obligation C04/nonvacuous: the hypotheses of the C04 theorems (cfg_ok, op_ok, Inv, a time within tolerance of a
   step, a time off the grid) are met by a concrete non-trivial configuration and history, on which the theorems
   determine concrete values. *)
From Coq Require Import List ZArith Bool Arith Lia Reals Lra.
From Flocq Require Import Core.Raux.
(* C04.SynapseExec is required so that building the obligations also (re)builds the executable instance the
   correspondence check runs (no float enters the statement below) *)
From Inferno Require Import Base.Num Base.NumR Gen.Infra C01.Ring C04.Synapse C04.SynapseExec
  C04.HistProofs C04.ClosedForms C04.SelectProofs C04.SynapseProofs.
Import ListNotations.
Open Scope R_scope.

(* single exponential synapse, 2 synapses, dt = 1, maximum delay 3, tolerance 1/4 *)
Definition c0 : cfg RN := mkCfg RN KSingleExp [2%nat] 1 3 2 5 1 IPrevious (/ 4) (Some 0) (Some false) false.
Definition ops0 : list (sop RN) :=
  [OStep RN [2%nat] [1; 0] []; OCurrentAt RN [2%nat] [2; 5 / 2]; OStep RN [2%nat] [0; 1] []; OStep RN [3%nat] [0; 0; 0] []].

Theorem nonvacuous :
  kind_of 2%Z = KSingleExp /\ cfg_ok c0 /\ Forall (op_ok RN) ops0 /\
  recordsz RN (cdt RN c0) (cdelay RN c0) = 4%nat /\
  fold_left (spec_step RN c0) ops0 [] = [([0; 1], []); ([1; 0], [])] /\
  Inv RN c0 (fst (run RN c0 (init RN c0) ops0)) [([0; 1], []); ([1; 0], [])] /\
  (* a time on the grid and a time off the grid, both inside [0, delay] *)
  (0 <= 2 <= cdelay RN c0 /\ Rabs (IZR 2 * cdt RN c0 - 2) <= ctol RN c0) /\
  (0 <= 5 / 2 <= cdelay RN c0 /\ forall k : Z, ctol RN c0 < Rabs (IZR k * cdt RN c0 - 5 / 2)) /\
  (* and the theorems say something definite there: 2 ms ago synapse 0 held Q/tau, synapse 1 held 0 *)
  value_ago c0 [([0; 1], []); ([1; 0], [])] 1 0 = 2 / 5 /\ value_ago c0 [([0; 1], []); ([1; 0], [])] 1 1 = 0.
Proof.
  assert (Hok : Forall (op_ok RN) ops0).
  { unfold ops0. repeat constructor. }
  assert (Hp : fold_left (spec_step RN c0) ops0 [] = [([0; 1], []); ([1; 0], [])]) by reflexivity.
  split; [reflexivity|]. split; [unfold cfg_ok, c0; cbn; lra|]. split; [exact Hok|]. split.
  { unfold recordsz, recordsz_expr, c0. cbn [cdt cdelay]. rn_simpl. replace (3 / 1) with (IZR 3) by (cbn; lra).
    rewrite Zceil_IZR. reflexivity. }
  split; [exact Hp|]. split; [rewrite <- Hp; apply run_init_inv; exact Hok|].
  split; [|split; [|split]].
  - unfold c0; cbn. split; [lra|]. replace (2 * 1 - 2) with 0 by lra. rewrite Rabs_R0. lra.
  - unfold c0; cbn [cdt cdelay ctol]. split; [lra|]. intros k.
    destruct (Z_le_gt_dec k 2) as [Hk|Hk].
    + assert (IZR k <= 2) by (apply (IZR_le k 2); lia). rewrite Rabs_left by lra. lra.
    + assert (3 <= IZR k) by (apply (IZR_le 3 k); lia). rewrite Rabs_pos_eq by lra. lra.
  - unfold value_ago, cur_out, c0. cbn [ckind skipn cur_val singleexp_val zipw combine map fst snd nth zrow cshape nel fold_right repeat Nat.mul Nat.add].
    unfold sexp_step. rn_simpl. cbn [cQ ctau cdt]. lra.
  - unfold value_ago, cur_out, c0. cbn [ckind skipn cur_val singleexp_val zipw combine map fst snd nth zrow cshape nel fold_right repeat Nat.mul Nat.add].
    unfold sexp_step. rn_simpl. cbn [cQ ctau cdt]. lra.
Qed.
Print Assumptions nonvacuous.
