(* Obligation C04/Inv_set_inplace.  Statement as printed by Coq from Inferno.C04.ConfigProofs; proof by reference.
   This file contains nothing else, so the statement cannot be weakened quietly. *)
From Coq Require Import List ZArith Bool Arith Lia.
From Inferno Require Import Base.Num Gen.Infra C01.Ring C01.RingProofs C04.Synapse C04.Config C04.HistProofs C04.ConfigProofs.
Import ListNotations.
Theorem Inv_set_inplace : forall (NM : Num) (c : cfg NM) (s : syn NM) (p : past NM) (b : bool),
  Inv NM c s p -> Inv NM (set_inplace NM c b) s p.
Proof. exact (@Inferno.C04.ConfigProofs.Inv_set_inplace). Qed.
Print Assumptions Inv_set_inplace.
