(* Obligation C04/run_init_inv.  Statement as printed by Coq from Inferno.C04.HistProofs; proof by reference.
   This file contains nothing else, so the statement cannot be weakened quietly. *)
From Coq Require Import List ZArith Bool Arith Lia.
From Inferno Require Import Base.Num Gen.Infra C01.Ring C01.RingProofs C04.Synapse C04.HistProofs.
Import ListNotations.
Theorem run_init_inv : forall (NM : Num) (c : cfg NM) (ops : list (sop NM)),
  Forall (op_ok NM) ops ->
  Inv NM c (fst (run NM c (init NM c) ops)) (fold_left (spec_step NM c) ops []).
Proof. exact (@Inferno.C04.HistProofs.run_init_inv). Qed.
Print Assumptions run_init_inv.
