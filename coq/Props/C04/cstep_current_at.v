(* Obligation C04/cstep_current_at.  Statement as printed by Coq from Inferno.C04.ConfigProofs; proof by reference.
   This file contains nothing else, so the statement cannot be weakened quietly. *)
From Coq Require Import List ZArith Bool Arith Lia.
From Inferno Require Import Base.Num Gen.Infra C01.Ring C01.RingProofs C04.Synapse C04.Config C04.HistProofs C04.ConfigProofs.
Import ListNotations.
Theorem cstep_current_at : forall (NM : Num) (cs : cst NM) (p : past NM) (ssh : list nat) (sel : list (T NM)),
  CInv NM cs p ->
  cstep NM cs (CSyn NM (OCurrentAt NM ssh sel)) =
  match current_at NM (ccfg NM cs) (csyn NM cs) ssh sel with
  | SOk (sh, v) => SOk (cs, SOFloat NM sh v)
  | SErr e => SErr e
  end.
Proof. exact (@Inferno.C04.ConfigProofs.cstep_current_at). Qed.
Print Assumptions cstep_current_at.
