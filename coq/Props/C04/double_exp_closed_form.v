(* Obligation C04/double_exp_closed_form.  Statement as printed by Coq from Inferno.C04.ClosedForms; proof by reference.
   This file contains nothing else, so the statement cannot be weakened quietly. *)
From Coq Require Import List ZArith Bool Arith Lia Reals Lra.
From Inferno Require Import Base.Num Base.NumR Gen.Infra C01.Ring C04.Synapse C04.HistProofs C04.ClosedForms.
Import ListNotations.
Open Scope R_scope.
Theorem double_exp_closed_form : forall (c : cfgR) (p : pastR) (e : nat),
  ckind RN c = KDoubleExp ->
  Forall (entry_ok RN c) p ->
  (e < nel (cshape RN c))%nat ->
  nth e (cur_out RN c p) 0 =
  isum (resp_dexp (cQ RN c) (cdt RN c) (ctau RN c) (ctr RN c)) (train p e).
Proof. exact (@Inferno.C04.ClosedForms.double_exp_closed_form). Qed.
Print Assumptions double_exp_closed_form.
