(* Obligation C04/reachable_current_closed_form.  Statement as printed by Coq from Inferno.C04.SynapseProofs; proof by reference.
   This file contains nothing else, so the statement cannot be weakened quietly. *)
From Coq Require Import List ZArith Bool Arith Lia Reals Lra.
From Flocq Require Import Core.Raux Core.Generic_fmt.
From Inferno Require Import Base.Num Base.NumR Gen.Infra Gen.Interpolation C01.Ring C01.RingProofs C04.Synapse C04.HistProofs C04.ClosedForms C04.SelectProofs C04.SynapseProofs.
Import ListNotations.
Open Scope R_scope.
Theorem reachable_current_closed_form : forall (c : cfgR) (ops : list (sop RN)),
  Forall (op_ok RN) ops ->
  forall e : nat,
  (e < nel (cshape RN c))%nat ->
  nth e (current_of RN c (fst (run RN c (init RN c) ops))) 0 =
  value_ago c (fold_left (spec_step RN c) ops []) 0 e /\
  Forall (entry_ok RN c) (fold_left (spec_step RN c) ops []).
Proof. exact (@Inferno.C04.SynapseProofs.reachable_current_closed_form). Qed.
Print Assumptions reachable_current_closed_form.
