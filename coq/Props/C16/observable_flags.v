(* Obligation C16/observable_flags.  Statement as printed by Coq from Inferno.C16.HooksProofs; proof by reference.
   This file contains nothing else, so the statement cannot be weakened quietly. *)
From Coq Require Import List Bool Arith Lia.
From Inferno Require Import C16.Hooks C16.HooksSpec C16.HooksProofs.
Import ListNotations.
Theorem observable_flags : forall (n : nat) (ops : list op) (h : nat) (k : hook),
  forallb safe_op ops = true ->
  let w := fst (run (w0 n) ops) in
  let a := arun (a0 n) ops in
  nth_error (w_hooks w) h = Some k ->
  k_alive k = true ->
  exists ak : ahook,
    nth_error (a_hooks a) h = Some ak /\
    a_alive ak = true /\
    registered k = is_some (a_reg ak) /\
    k_te k = a_te ak /\ k_ee k = a_ee ak /\ k_cfg k = a_cfg ak.
Proof. exact (@Inferno.C16.HooksProofs.observable_flags). Qed.
Print Assumptions observable_flags.
