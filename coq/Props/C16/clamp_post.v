(* Obligation C16/clamp_post.  Statement as printed by Coq from Inferno.C16.NormProofs; proof by reference.
   This file contains nothing else, so the statement cannot be weakened quietly. *)
From Coq Require Import List ZArith Reals Bool Lra Lia.
From Inferno Require Import Base.Num Base.NumR C16.Hooks C16.Norm C16.NormSpec C16.NormProofs.
Import ListNotations.
Open Scope R_scope.
Theorem clamp_post : forall (lo hi : option R) (x : T RN),
  (forall l h : R, lo = Some l -> hi = Some h -> l <= h) ->
  (forall l : R, lo = Some l -> l <= clamp RN lo hi x) /\
  (forall h : R, hi = Some h -> clamp RN lo hi x <= h).
Proof. exact (@Inferno.C16.NormProofs.clamp_post). Qed.
Print Assumptions clamp_post.
