(* Obligation C16/register_twice_rejected.  Statement as printed by Coq from Inferno.C16.HooksProofs; proof by reference.
   This file contains nothing else, so the statement cannot be weakened quietly. *)
From Coq Require Import List Bool Arith Lia.
From Inferno Require Import C16.Hooks C16.HooksSpec C16.HooksProofs.
Import ListNotations.
Theorem register_twice_rejected : forall (w : world) (h : nat) (k : hook) (m : nat),
  nth_error (w_hooks w) h = Some k ->
  k_alive k = true ->
  registered k = true ->
  step w (ORegister h m) =
  (w, [], match c_kind (k_cfg k) with
          | KState => None
          | _ => Some ERuntime
          end).
Proof. exact (@Inferno.C16.HooksProofs.register_twice_rejected). Qed.
Print Assumptions register_twice_rejected.
