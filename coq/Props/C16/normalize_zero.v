(* Obligation C16/normalize_zero.  Statement as printed by Coq from Inferno.C16.NormProofs; proof by reference.
   This file contains nothing else, so the statement cannot be weakened quietly. *)
From Coq Require Import List ZArith Reals Bool Lra Lia.
From Inferno Require Import Base.Num Base.NumR C16.Hooks C16.Norm C16.NormSpec C16.NormProofs.
Import ListNotations.
Open Scope R_scope.
Theorem normalize_zero : forall (o : order RN) (s eps : T RN) (x : list R),
  Forall (fun a : R => a = 0) x -> Forall (fun a : R => a = 0) (normalize_vec RN o s eps x).
Proof. exact (@Inferno.C16.NormProofs.normalize_zero). Qed.
Print Assumptions normalize_zero.
