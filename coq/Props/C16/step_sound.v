(* Obligation C16/step_sound.  Statement as printed by Coq from Inferno.C16.HooksProofs; proof by reference.
   This file contains nothing else, so the statement cannot be weakened quietly. *)
From Coq Require Import List Bool Arith Lia.
From Inferno Require Import C16.Hooks C16.HooksSpec C16.HooksProofs.
Import ListNotations.
Theorem step_sound : forall (w : world) (o : op),
  Inv w ->
  safe_op o = true ->
  Inv (fst (fst (step w o))) /\
  abs (fst (fst (step w o))) = fst (astep (abs w) o) /\ snd (step w o) = snd (astep (abs w) o).
Proof. exact (@Inferno.C16.HooksProofs.step_sound). Qed.
Print Assumptions step_sound.
