(* Obligation C16/pnorm_scale.  Statement as printed by Coq from Inferno.C16.NormProofs; proof by reference.
   This file contains nothing else, so the statement cannot be weakened quietly. *)
From Coq Require Import List ZArith Reals Bool Lra Lia.
From Inferno Require Import Base.Num Base.NumR C16.Hooks C16.Norm C16.NormSpec C16.NormProofs.
Import ListNotations.
Open Scope R_scope.
Theorem pnorm_scale : forall (o : order RN) (c : R) (x : list R),
  ord_ok o -> pnorm RN o (map (Rmult c) x) = Rabs c * pnorm RN o x.
Proof. exact (@Inferno.C16.NormProofs.pnorm_scale). Qed.
Print Assumptions pnorm_scale.
