(* Obligation C16/hook_step_target_ok.  Statement as printed by Coq from Inferno.C16.NormProofs; proof by reference.
   This file contains nothing else, so the statement cannot be weakened quietly. *)
From Coq Require Import List ZArith Reals Bool Lra Lia.
From Inferno Require Import Base.Num Base.NumR C16.Hooks C16.Norm C16.NormSpec C16.NormProofs.
Import ListNotations.
Open Scope R_scope.
Theorem hook_step_target_ok : forall (kernel : list (list (T RN)) -> list (list (T RN))) (fire : bool)
    (data : list (list (T RN))),
  hook_step_target RN false kernel fire data = (hook_step RN kernel fire data, None).
Proof. exact (@Inferno.C16.NormProofs.hook_step_target_ok). Qed.
Print Assumptions hook_step_target_ok.
