(* Obligation C16/bare_parameter_target_refuted.  Statement as printed by Coq from Inferno.C16.NormProofs; proof by reference.
   This file contains nothing else, so the statement cannot be weakened quietly. *)
From Coq Require Import List ZArith Reals Bool Lra Lia.
From Inferno Require Import Base.Num Base.NumR C16.Hooks C16.Norm C16.NormSpec C16.NormProofs.
Import ListNotations.
Open Scope R_scope.
Theorem bare_parameter_target_refuted : exists (lo hi : T RN) (data : list (list (T RN))),
    clamping_new RN (Some lo) (Some hi) = None /\
    (let r := hook_step_target RN true (clamp_kernel RN (Some lo) (Some hi)) true data in
     snd r = Some EType /\
     (exists (row : list (T RN)) (y : T RN), In row (fst r) /\ In y row /\ hi < y)).
Proof. exact (@Inferno.C16.NormProofs.bare_parameter_target_refuted). Qed.
Print Assumptions bare_parameter_target_refuted.
