(* Obligation C16/hook_step_normalize_post.  Statement as printed by Coq from Inferno.C16.NormProofs; proof by reference.
   This file contains nothing else, so the statement cannot be weakened quietly. *)
From Coq Require Import List ZArith Reals Bool Lra Lia.
From Inferno Require Import Base.Num Base.NumR C16.Hooks C16.Norm C16.NormSpec C16.NormProofs.
Import ListNotations.
Open Scope R_scope.
Theorem hook_step_normalize_post : forall (o : order RN) (s : T RN) (eps : R) (data : list (list (T RN))) (f : list (T RN)),
  ord_ok o ->
  0 < eps ->
  In f data ->
  eps <= pnorm RN o f ->
  In (normalize_vec RN o s eps f) (hook_step RN (normalize_fibres RN o s eps) true data) /\
  pnorm RN o (normalize_vec RN o s eps f) = Rabs s.
Proof. exact (@Inferno.C16.NormProofs.hook_step_normalize_post). Qed.
Print Assumptions hook_step_normalize_post.
