(* Obligation C16/pnorm_nat_order.  Statement as printed by Coq from Inferno.C16.NormProofs; proof by reference.
   This file contains nothing else, so the statement cannot be weakened quietly. *)
From Coq Require Import List ZArith Reals Bool Lra Lia.
From Inferno Require Import Base.Num Base.NumR C16.Hooks C16.Norm C16.NormSpec C16.NormProofs.
Import ListNotations.
Open Scope R_scope.
Theorem pnorm_nat_order : forall (n : nat) (x : list (T RN)),
  (0 < n)%nat ->
  pnorm RN (@PReal RN (INR n)) x =
  Rpow' (tsum RN (@map R (T RN) (fun a : R => pown RN (Rabs a) n) x)) (1 / INR n).
Proof. exact (@Inferno.C16.NormProofs.pnorm_nat_order). Qed.
Print Assumptions pnorm_nat_order.
