(* Obligation C16/ostep_sound.  Statement as printed by Coq from Inferno.C16.HooksProofs; proof by reference.
   This file contains nothing else, so the statement cannot be weakened quietly. *)
From Coq Require Import List Bool Arith Lia.
From Inferno Require Import C16.Hooks C16.HooksSpec C16.HooksProofs.
Import ListNotations.
Theorem ostep_sound : forall (w : world) (ow : oworld) (o : op),
  Inv w -> safe_op o = true -> OInv w ow -> OInv (fst (fst (step w o))) (ostep ow o).
Proof. exact (@Inferno.C16.HooksProofs.ostep_sound). Qed.
Print Assumptions ostep_sound.
