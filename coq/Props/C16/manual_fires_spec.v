(* Obligation C16/manual_fires_spec.  Statement as printed by Coq from Inferno.C16.NormProofs; proof by reference.
   This file contains nothing else, so the statement cannot be weakened quietly. *)
From Coq Require Import List ZArith Reals Bool Lra Lia.
From Inferno Require Import Base.Num Base.NumR C16.Hooks C16.Norm C16.NormSpec C16.NormProofs.
Import ListNotations.
Open Scope R_scope.
Theorem manual_fires_spec : forall reg force ignore te ee training : bool,
  manual_fires reg force ignore te ee training =
  (reg || force) && (ignore || te && training || ee && negb training).
Proof. exact (@Inferno.C16.NormProofs.manual_fires_spec). Qed.
Print Assumptions manual_fires_spec.
