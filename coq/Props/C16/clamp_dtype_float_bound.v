(* Obligation C16/clamp_dtype_float_bound.  Statement as printed by Coq from Inferno.C16.NormProofs; proof by reference.
   This file contains nothing else, so the statement cannot be weakened quietly. *)
From Coq Require Import List ZArith Reals Bool Lra Lia.
From Inferno Require Import Base.Num Base.NumR C16.Hooks C16.Norm C16.NormSpec C16.NormProofs.
Import ListNotations.
Open Scope R_scope.
Theorem clamp_dtype_float_bound : forall (dt : nat) (lf hf : option bool),
  (dt < 4)%nat -> lf = Some true \/ hf = Some true -> clamp_dtype dt lf hf = 5%nat.
Proof. exact (@Inferno.C16.NormProofs.clamp_dtype_float_bound). Qed.
Print Assumptions clamp_dtype_float_bound.
