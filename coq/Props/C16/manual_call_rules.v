(* Obligation C16/manual_call_rules.  Statement as printed by Coq from Inferno.C16.HooksProofs; proof by reference.
   This file contains nothing else, so the statement cannot be weakened quietly. *)
From Coq Require Import List Bool Arith Lia.
From Inferno Require Import C16.Hooks C16.HooksSpec C16.HooksProofs.
Import ListNotations.
Theorem manual_call_rules : forall (n : nat) (ops : list op) (h : nat) (ak : ahook) (force ignore : bool),
  forallb safe_op ops = true ->
  let w := fst (run (w0 n) ops) in
  let a := arun (a0 n) ops in
  nth_error (a_hooks a) h = Some ak ->
  a_alive ak = true ->
  c_kind (a_cfg ak) = KState ->
  step w (OManual h force ignore) =
  (w, if a_fires_manual a h force ignore then [EFire h 2] else [], None).
Proof. exact (@Inferno.C16.HooksProofs.manual_call_rules). Qed.
Print Assumptions manual_call_rules.
