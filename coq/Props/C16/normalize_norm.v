(* Obligation C16/normalize_norm.  Statement as printed by Coq from Inferno.C16.NormProofs; proof by reference.
   This file contains nothing else, so the statement cannot be weakened quietly. *)
From Coq Require Import List ZArith Reals Bool Lra Lia.
From Inferno Require Import Base.Num Base.NumR C16.Hooks C16.Norm C16.NormSpec C16.NormProofs.
Import ListNotations.
Open Scope R_scope.
Theorem normalize_norm : forall (o : order RN) (s : T RN) (eps : R) (x : list (T RN)),
  ord_ok o ->
  0 < eps ->
  pnorm RN o (normalize_vec RN o s eps x) = Rabs s * (pnorm RN o x / Rmax (pnorm RN o x) eps).
Proof. exact (@Inferno.C16.NormProofs.normalize_norm). Qed.
Print Assumptions normalize_norm.
