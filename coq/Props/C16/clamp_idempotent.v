(* Obligation C16/clamp_idempotent.  Statement as printed by Coq from Inferno.C16.NormProofs; proof by reference.
   This file contains nothing else, so the statement cannot be weakened quietly. *)
From Coq Require Import List ZArith Reals Bool Lra Lia.
From Inferno Require Import Base.Num Base.NumR C16.Hooks C16.Norm C16.NormSpec C16.NormProofs.
Import ListNotations.
Open Scope R_scope.
Theorem clamp_idempotent : forall (lo hi : option R) (x : T RN),
  (forall l h : R, lo = Some l -> hi = Some h -> l <= h) ->
  clamp RN lo hi (clamp RN lo hi x) = clamp RN lo hi x.
Proof. exact (@Inferno.C16.NormProofs.clamp_idempotent). Qed.
Print Assumptions clamp_idempotent.
