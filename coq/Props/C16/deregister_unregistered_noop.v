(* Obligation C16/deregister_unregistered_noop.  Statement as printed by Coq from Inferno.C16.HooksProofs; proof by reference.
   This file contains nothing else, so the statement cannot be weakened quietly. *)
From Coq Require Import List Bool Arith Lia.
From Inferno Require Import C16.Hooks C16.HooksSpec C16.HooksProofs.
Import ListNotations.
Theorem deregister_unregistered_noop : forall (w : world) (h : nat) (k : hook),
  Inv w ->
  nth_error (w_hooks w) h = Some k ->
  k_alive k = true -> registered k = false -> step w (ODeregister h) = (w, [], None).
Proof. exact (@Inferno.C16.HooksProofs.deregister_unregistered_noop). Qed.
Print Assumptions deregister_unregistered_noop.
