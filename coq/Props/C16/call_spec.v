(* Obligation C16/call_spec.  Statement as printed by Coq from Inferno.C16.HooksProofs; proof by reference.
   This file contains nothing else, so the statement cannot be weakened quietly. *)
From Coq Require Import List Bool Arith Lia.
From Inferno Require Import C16.Hooks C16.HooksSpec C16.HooksProofs.
Import ListNotations.
Theorem call_spec : forall (w : world) (m : nat) (fail : bool),
  Inv w ->
  m < length (w_mods w) ->
  exists pres posts : list event,
    call w m fail = (pres ++ EFwd m :: posts, if fail then Some EValue else None) /\
    (forall h : nat, count_fire h pres = b2n (a_fires_pre (abs w) h m)) /\
    (forall h : nat, count_fire h posts = b2n (a_fires_post (abs w) h m fail)) /\
    (forall x : event, In x pres -> exists h : nat, x = EFire h (a_tag (abs w) h true)) /\
    (forall x : event, In x posts -> exists h : nat, x = EFire h (a_tag (abs w) h false)).
Proof. exact (@Inferno.C16.HooksProofs.call_spec). Qed.
Print Assumptions call_spec.
