(* Obligation C16/partial_register_dangling_refuted.  Statement as printed by Coq from Inferno.C16.HooksProofs; proof by reference.
   This file contains nothing else, so the statement cannot be weakened quietly. *)
From Coq Require Import List Bool Arith Lia.
From Inferno Require Import C16.Hooks C16.HooksSpec C16.HooksProofs.
Import ListNotations.
Theorem partial_register_dangling_refuted : exists ops : list op,
    forallb safe_op ops = false /\
    (let w := fst (run (w0 1) ops) in
     snd (run (w0 1) ops) = [([], None); ([], Some EType); ([], None); ([], Some EAttr)] /\
     (exists e : entry,
        In e (mod_lst (w_mods w) 0 true) /\
        (forall k : hook, nth_error (w_hooks w) (e_hook e) = Some k -> k_alive k = false))).
Proof. exact (@Inferno.C16.HooksProofs.partial_register_dangling_refuted). Qed.
Print Assumptions partial_register_dangling_refuted.
