(* Obligation C16/normalize_direction.  Statement as printed by Coq from Inferno.C16.NormProofs; proof by reference.
   This file contains nothing else, so the statement cannot be weakened quietly. *)
From Coq Require Import List ZArith Reals Bool Lra Lia.
From Inferno Require Import Base.Num Base.NumR C16.Hooks C16.Norm C16.NormSpec C16.NormProofs.
Import ListNotations.
Open Scope R_scope.
Theorem normalize_direction : forall (o : order RN) (s eps : T RN) (x : list (T RN)),
  exists c : R,
    normalize_vec RN o s eps x = map (Rmult c) x /\ c = s / Rmax (pnorm RN o x) eps.
Proof. exact (@Inferno.C16.NormProofs.normalize_direction). Qed.
Print Assumptions normalize_direction.
