(* Obligation C16/normalize_fibres_post.  Statement as printed by Coq from Inferno.C16.NormProofs; proof by reference.
   This file contains nothing else, so the statement cannot be weakened quietly. *)
From Coq Require Import List ZArith Reals Bool Lra Lia.
From Inferno Require Import Base.Num Base.NumR C16.Hooks C16.Norm C16.NormSpec C16.NormProofs.
Import ListNotations.
Open Scope R_scope.
Theorem normalize_fibres_post : forall (o : order RN) (s : T RN) (eps : R) (xs : list (list (T RN))) (f : list (T RN)),
  ord_ok o ->
  0 < eps ->
  In f xs ->
  eps <= pnorm RN o f ->
  In (normalize_vec RN o s eps f) (normalize_fibres RN o s eps xs) /\
  pnorm RN o (normalize_vec RN o s eps f) = Rabs s.
Proof. exact (@Inferno.C16.NormProofs.normalize_fibres_post). Qed.
Print Assumptions normalize_fibres_post.
