(* Obligation C16/no_dangling_handle.  Statement as printed by Coq from Inferno.C16.HooksProofs; proof by reference.
   This file contains nothing else, so the statement cannot be weakened quietly. *)
From Coq Require Import List Bool Arith Lia.
From Inferno Require Import C16.Hooks C16.HooksSpec C16.HooksProofs.
Import ListNotations.
Theorem no_dangling_handle : forall (n : nat) (ops : list op),
  forallb safe_op ops = true ->
  let w := fst (run (w0 n) ops) in
  let a := arun (a0 n) ops in
  (forall (m : nat) (q : bool) (e : entry),
   In e (mod_lst (w_mods w) m q) ->
   exists k : hook,
     nth_error (w_hooks w) (e_hook e) = Some k /\
     k_alive k = true /\ hnd k q = Some {| hd_mod := m; hd_pre := q; hd_id := e_id e |}) /\
  (forall (m : nat) (q : bool), length (mod_lst (w_mods w) m q) = a_count a m q) /\
  (forall (m : nat) (fail : bool), snd (call w m fail) <> Some EAttr).
Proof. exact (@Inferno.C16.HooksProofs.no_dangling_handle). Qed.
Print Assumptions no_dangling_handle.
