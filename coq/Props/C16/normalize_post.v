(* Obligation C16/normalize_post.  Statement as printed by Coq from Inferno.C16.NormProofs; proof by reference.
   This file contains nothing else, so the statement cannot be weakened quietly. *)
From Coq Require Import List ZArith Reals Bool Lra Lia.
From Inferno Require Import Base.Num Base.NumR C16.Hooks C16.Norm C16.NormSpec C16.NormProofs.
Import ListNotations.
Open Scope R_scope.
Theorem normalize_post : forall (o : order RN) (s : T RN) (eps : R) (x : list (T RN)),
  ord_ok o ->
  0 < eps -> eps <= pnorm RN o x -> pnorm RN o (normalize_vec RN o s eps x) = Rabs s.
Proof. exact (@Inferno.C16.NormProofs.normalize_post). Qed.
Print Assumptions normalize_post.
