(* Obligation C16/once_per_call.  Statement as printed by Coq from Inferno.C16.HooksProofs; proof by reference.
   This file contains nothing else, so the statement cannot be weakened quietly. *)
From Coq Require Import List Bool Arith Lia.
From Inferno Require Import C16.Hooks C16.HooksSpec C16.HooksProofs.
Import ListNotations.
Theorem once_per_call : forall (n : nat) (ops : list op) (m : nat) (fail : bool) (h : nat),
  forallb safe_op ops = true ->
  m < n ->
  let w := fst (run (w0 n) ops) in
  let a := arun (a0 n) ops in
  count_fire h (snd (fst (step w (OCall m fail)))) =
  b2n (a_fires_pre a h m) + b2n (a_fires_post a h m fail).
Proof. exact (@Inferno.C16.HooksProofs.once_per_call). Qed.
Print Assumptions once_per_call.
