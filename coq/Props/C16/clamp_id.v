(* Obligation C16/clamp_id.  Statement as printed by Coq from Inferno.C16.NormProofs; proof by reference.
   This file contains nothing else, so the statement cannot be weakened quietly. *)
From Coq Require Import List ZArith Reals Bool Lra Lia.
From Inferno Require Import Base.Num Base.NumR C16.Hooks C16.Norm C16.NormSpec C16.NormProofs.
Import ListNotations.
Open Scope R_scope.
Theorem clamp_id : forall (lo hi : option R) (x : R),
  (forall l : R, lo = Some l -> l <= x) ->
  (forall h : R, hi = Some h -> x <= h) -> clamp RN lo hi x = x.
Proof. exact (@Inferno.C16.NormProofs.clamp_id). Qed.
Print Assumptions clamp_id.
