(* Obligation C16/call_exact_state.  Statement as printed by Coq from Inferno.C16.HooksProofs; proof by reference.
   This file contains nothing else, so the statement cannot be weakened quietly. *)
From Coq Require Import List Bool Arith Lia.
From Inferno Require Import C16.Hooks C16.HooksSpec C16.HooksProofs.
Import ListNotations.
Theorem call_exact_state : forall (w : world) (ow : oworld) (m : nat) (fail : bool),
  Inv w ->
  OInv w ow ->
  m < length (w_mods w) ->
  call w m fail = (spec_call ow m fail, if fail then Some EValue else None).
Proof. exact (@Inferno.C16.HooksProofs.call_exact_state). Qed.
Print Assumptions call_exact_state.
