(* Obligation C16/nonvacuous: the hypotheses of the C16 theorems are met by concrete, non-trivial objects.
   (a) A history with three hook objects of the three classes on two modules (registered, one deregistered and
       registered again elsewhere, one deleted, mode switches) is inside the theorems' domain (safe_op), the
       abstract machine sees two hooks registered on module 0 and one on module 1, and the executable model
       really fires them as the theorem says.
   (b) A vector whose 2-norm (5) exceeds eps satisfies the hypotheses of normalize_post; bounds -1 < 1 satisfy
       those of clamp_post. *)
From Coq Require Import List Bool Arith Lia Reals Lra.
From Inferno Require Import Base.Num Base.NumR C16.Hooks C16.HooksSpec C16.HooksProofs C16.Norm C16.NormSpec C16.NormProofs.
Import ListNotations.
Open Scope nat_scope.

Definition hist : list op :=
  [ONew (mkCfg KHook true true false true true false false 0) true true;
   ONew (mkCfg KState false true false false false false false 0) true false;
   ONew (mkCfg KCtx true false true false false false false 0) false true;
   ORegister 0 0; ORegister 1 0; ORegister 2 1; OCall 0 false;
   ODeregister 0; ORegister 0 1; OSetTrain 1 false; ODelete 2; OSetExec 1 false true; OCall 1 true].

(* two hooks in the same dictionary, the second one prepended: dispatch order is [1; 0] *)
Definition hist2 : list op :=
  [ONew (mkCfg KHook true false false false false false false 0) true true;
   ONew (mkCfg KCtx true false true false false false false 0) true true;
   ORegister 0 0; ORegister 1 0].

Theorem nonvacuous :
  forallb safe_op hist = true /\
  (let a := arun (a0 2) hist in
   a_count a 0 false = 1 /\ a_count a 1 true = 1 /\ a_count a 1 false = 1 /\
   a_fires_pre a 0 1 = true /\ a_fires_post a 0 1 true = true /\ a_fires_post a 1 0 false = true /\
   a_fires_pre a 2 1 = false) /\
  snd (fst (step (fst (run (w0 2) hist)) (OCall 1 true))) = [EFire 0 0; EFwd 1; EFire 0 1] /\
  snd (fst (step (fst (run (w0 2) hist)) (OCall 0 false))) = [EFwd 0; EFire 1 2] /\
  spec_call (orun (o0 2) hist) 1 true = [EFire 0 0; EFwd 1; EFire 0 1] /\
  (forallb safe_op hist2 = true /\ ord_lst (o_ord (orun (o0 1) hist2)) 0 true = [1; 0] /\
   snd (fst (step (fst (run (w0 1) hist2)) (OCall 0 false))) = [EFire 1 0; EFire 0 0; EFwd 0]) /\
  (ord_ok (@PTwo RN) /\ 0 < 1 / 2 /\ 1 / 2 <= pnorm RN PTwo [3; 4; 0])%R /\
  (clamping_new RN (Some (-1)%R) (Some 1%R) = None).
Proof.
  split; [reflexivity|]. split; [vm_compute; repeat split; reflexivity|].
  split; [reflexivity|]. split; [reflexivity|]. split; [reflexivity|].
  split; [repeat split; reflexivity|]. split.
  - split; [exact I|]. split; [lra|]. simpl. rn_simpl.
    replace (3 * 3 + (4 * 4 + (0 * 0 + 0)))%R with (Rsqr 5) by (unfold Rsqr; ring).
    rewrite sqrt_Rsqr by lra. lra.
  - unfold clamping_new. rn_simpl. destruct (Rltb'_spec (-1) 1); auto. lra.
Qed.
Print Assumptions nonvacuous.
