(* Obligation C16/fires_spec.  Statement as printed by Coq from Inferno.C16.NormProofs; proof by reference.
   This file contains nothing else, so the statement cannot be weakened quietly. *)
From Coq Require Import List ZArith Reals Bool Lra Lia.
From Inferno Require Import Base.Num Base.NumR C16.Hooks C16.Norm C16.NormSpec C16.NormProofs.
Import ListNotations.
Open Scope R_scope.
Theorem fires_spec : forall reg te ee training : bool,
  fires reg te ee training = reg && (te && training || ee && negb training).
Proof. exact (@Inferno.C16.NormProofs.fires_spec). Qed.
Print Assumptions fires_spec.
