(* Obligation C16/never_after_deregister_or_delete.  Statement as printed by Coq from Inferno.C16.HooksProofs; proof by reference.
   This file contains nothing else, so the statement cannot be weakened quietly. *)
From Coq Require Import List Bool Arith Lia.
From Inferno Require Import C16.Hooks C16.HooksSpec C16.HooksProofs.
Import ListNotations.
Theorem never_after_deregister_or_delete : forall (n : nat) (ops1 : list op) (o : op) (ops2 : list op) (h m : nat) (fail ignore : bool),
  forallb safe_op (ops1 ++ o :: ops2) = true ->
  o = ODeregister h \/ o = ODelete h ->
  forallb (not_register_of h) ops2 = true ->
  let w := fst (run (w0 n) (ops1 ++ o :: ops2)) in
  count_fire h (snd (fst (step w (OCall m fail)))) = 0 /\
  count_fire h (snd (fst (step w (OManual h false ignore)))) = 0.
Proof. exact (@Inferno.C16.HooksProofs.never_after_deregister_or_delete). Qed.
Print Assumptions never_after_deregister_or_delete.
