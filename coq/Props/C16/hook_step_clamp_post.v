(* Obligation C16/hook_step_clamp_post.  Statement as printed by Coq from Inferno.C16.NormProofs; proof by reference.
   This file contains nothing else, so the statement cannot be weakened quietly. *)
From Coq Require Import List ZArith Reals Bool Lra Lia.
From Inferno Require Import Base.Num Base.NumR C16.Hooks C16.Norm C16.NormSpec C16.NormProofs.
Import ListNotations.
Open Scope R_scope.
Theorem hook_step_clamp_post : forall (lo hi : option R) (data : list (list (T RN))) (row : list (T RN)) (y : T RN),
  (forall l h : R, lo = Some l -> hi = Some h -> l <= h) ->
  In row (hook_step RN (clamp_kernel RN lo hi) true data) ->
  In y row -> (forall l : R, lo = Some l -> l <= y) /\ (forall h : R, hi = Some h -> y <= h).
Proof. exact (@Inferno.C16.NormProofs.hook_step_clamp_post). Qed.
Print Assumptions hook_step_clamp_post.
