(* Obligation C16/clamp_Z_closed.  Statement as printed by Coq from Inferno.C16.NormProofs; proof by reference.
   This file contains nothing else, so the statement cannot be weakened quietly. *)
From Coq Require Import List ZArith Reals Bool Lra Lia.
From Inferno Require Import Base.Num Base.NumR C16.Hooks C16.Norm C16.NormSpec C16.NormProofs.
Import ListNotations.
Open Scope R_scope.
Theorem clamp_Z_closed : forall l h x : Z, exists z : Z, clamp RN (Some (IZR l)) (Some (IZR h)) (IZR x) = IZR z.
Proof. exact (@Inferno.C16.NormProofs.clamp_Z_closed). Qed.
Print Assumptions clamp_Z_closed.
