(* Obligation C16/clamping_new_ok.  Statement as printed by Coq from Inferno.C16.NormProofs; proof by reference.
   This file contains nothing else, so the statement cannot be weakened quietly. *)
From Coq Require Import List ZArith Reals Bool Lra Lia.
From Inferno Require Import Base.Num Base.NumR C16.Hooks C16.Norm C16.NormSpec C16.NormProofs.
Import ListNotations.
Open Scope R_scope.
Theorem clamping_new_ok : forall lo hi : option (T RN),
  clamping_new RN lo hi = None ->
  (lo <> None \/ hi <> None) /\ (forall l h : T RN, lo = Some l -> hi = Some h -> l < h).
Proof. exact (@Inferno.C16.NormProofs.clamping_new_ok). Qed.
Print Assumptions clamping_new_ok.
