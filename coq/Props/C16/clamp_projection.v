(* Obligation C16/clamp_projection.  Statement as printed by Coq from Inferno.C16.NormProofs; proof by reference.
   This file contains nothing else, so the statement cannot be weakened quietly. *)
From Coq Require Import List ZArith Reals Bool Lra Lia.
From Inferno Require Import Base.Num Base.NumR C16.Hooks C16.Norm C16.NormSpec C16.NormProofs.
Import ListNotations.
Open Scope R_scope.
Theorem clamp_projection : forall (l h : R) (x : T RN),
  l <= h ->
  clamp RN (Some l) (Some h) x = (if Rlt_dec x l then l else if Rlt_dec h x then h else x).
Proof. exact (@Inferno.C16.NormProofs.clamp_projection). Qed.
Print Assumptions clamp_projection.
