(* Obligation C16/run_sound.  Statement as printed by Coq from Inferno.C16.HooksProofs; proof by reference.
   This file contains nothing else, so the statement cannot be weakened quietly. *)
From Coq Require Import List Bool Arith Lia.
From Inferno Require Import C16.Hooks C16.HooksSpec C16.HooksProofs.
Import ListNotations.
Theorem run_sound : forall (w : world) (ops : list op),
  Inv w ->
  forallb safe_op ops = true ->
  Inv (fst (run w ops)) /\ abs (fst (run w ops)) = arun (abs w) ops.
Proof. exact (@Inferno.C16.HooksProofs.run_sound). Qed.
Print Assumptions run_sound.
