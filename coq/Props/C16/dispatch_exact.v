(* Obligation C16/dispatch_exact.  Statement as printed by Coq from Inferno.C16.HooksProofs; proof by reference.
   This file contains nothing else, so the statement cannot be weakened quietly. *)
From Coq Require Import List Bool Arith Lia.
From Inferno Require Import C16.Hooks C16.HooksSpec C16.HooksProofs.
Import ListNotations.
Theorem dispatch_exact : forall (n : nat) (ops : list op) (m : nat) (fail : bool),
  forallb safe_op ops = true ->
  m < n ->
  let w := fst (run (w0 n) ops) in
  step w (OCall m fail) =
  (w, spec_call (orun (o0 n) ops) m fail, if fail then Some EValue else None).
Proof. exact (@Inferno.C16.HooksProofs.dispatch_exact). Qed.
Print Assumptions dispatch_exact.
