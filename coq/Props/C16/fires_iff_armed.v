(* Obligation C16/fires_iff_armed.  Statement as printed by Coq from Inferno.C16.HooksProofs; proof by reference.
   This file contains nothing else, so the statement cannot be weakened quietly. *)
From Coq Require Import List Bool Arith Lia.
From Inferno Require Import C16.Hooks C16.HooksSpec C16.HooksProofs.
Import ListNotations.
Theorem fires_iff_armed : forall (n : nat) (ops : list op) (m : nat) (fail : bool),
  forallb safe_op ops = true ->
  m < n ->
  let w := fst (run (w0 n) ops) in
  let a := arun (a0 n) ops in
  exists pres posts : list event,
    step w (OCall m fail) = (w, pres ++ EFwd m :: posts, if fail then Some EValue else None) /\
    (forall h : nat, count_fire h pres = b2n (a_fires_pre a h m)) /\
    (forall h : nat, count_fire h posts = b2n (a_fires_post a h m fail)) /\
    (forall x : event, In x pres -> exists h : nat, x = EFire h (a_tag a h true)) /\
    (forall x : event, In x posts -> exists h : nat, x = EFire h (a_tag a h false)).
Proof. exact (@Inferno.C16.HooksProofs.fires_iff_armed). Qed.
Print Assumptions fires_iff_armed.
