(* Obligation C17/c17_recurrent_new_fresh.  Statement as printed by Coq from Inferno.C17.ComponentsProofs; proof by reference.
   This file contains nothing else, so the statement cannot be weakened quietly. *)
From Coq Require Import List ZArith Bool Arith Lia.
From Inferno Require Import Base.Num Gen.NeuronDynamics Gen.NeuronAdaptation C17.Layers C17.LayersSpec C17.Components C17.LayersProofs C17.ComponentsProofs.
Import ListNotations.
Theorem c17_recurrent_new_fresh : forall (N : Num) (cff clat cfb : dense N) (nff nfb : neuron N)
    (tff tlat tfb : option (tensor N -> tensor N))
    (ilat ifb : option (tensor N -> list (tensor N))) (ffc latc fbc ffn fbn : Z) 
    (tf : bool) (R0 : recurrent (tensor N) (dense N) (neuron N)),
  recurrent_new (tensor N) (dense N) (neuron N) (compat N) (dense_fresh N cff)
    (dense_fresh N clat) (dense_fresh N cfb) (neuron_fresh N nff) 
    (neuron_fresh N nfb) tff tlat tfb ilat ifb ffc latc fbc ffn fbn tf = 
  Ok R0 ->
  (n_acfg N nff <> None -> length (n_adapt N nff) = nsize N nff) ->
  (n_acfg N nfb <> None -> length (n_adapt N nfb) = nsize N nfb) ->
  LIc N (r_layer R0) /\ RFresh N R0 = R0 /\ r_names_ok (tensor N) (dense N) (neuron N) R0.
Proof. exact (@Inferno.C17.ComponentsProofs.c17_recurrent_new_fresh). Qed.
Print Assumptions c17_recurrent_new_fresh.
