(* Obligation C17/c04_c03_biclique_clear_then_run.  Statement as printed by Coq from Inferno.C17.SynapsesC04Proofs; proof by reference.
   This file contains nothing else, so the statement cannot be weakened quietly. *)
From Coq Require Import List ZArith Bool Arith Lia.
From Inferno Require Import Base.Num C17.Layers C17.LayersSpec C17.Components C17.LayersProofs C17.ComponentsProofs C17.NeuronsC03 C17.NeuronsC03Proofs C17.SynapsesC04 C17.SynapsesC04Proofs.
From Inferno Require C01.Ring C04.Synapse C03.Neuron.
Import ListNotations.
Theorem c04_c03_biclique_clear_then_run : forall (N : Num) (B0 : biclique (tensor N) (conn4 N) (nmod N))
    (ops : list (biclique_op (tensor N) (conn4 N) (nmod N) unit nkw (option bool)))
    (Bq : biclique (tensor N) (conn4 N) (nmod N))
    (outs : list (option (list (Z * tensor N) * list (Z * tensor N)))) 
    (xk : option bool)
    (ops2 : list (biclique_op (tensor N) (conn4 N) (nmod N) unit nkw (option bool))),
  LI43 N (b_layer B0) ->
  Forall (bop_ok (tensor N) (conn4 N) (nmod N) unit nkw (option bool) (CI4 N) (NI3 N)) ops ->
  keepk3 xk ->
  run (BStep43 N) B0 ops = Ok (Bq, outs) ->
  run (BStep43 N) Bq (BClear true xk :: ops2) =
  x <- run (BStep43 N) (BFresh43 N Bq) ops2;; (let (B2, o2) := x in Ok (B2, None :: o2)).
Proof. exact (@Inferno.C17.SynapsesC04Proofs.c04_c03_biclique_clear_then_run). Qed.
Print Assumptions c04_c03_biclique_clear_then_run.
