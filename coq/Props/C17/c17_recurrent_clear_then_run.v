(* Obligation C17/c17_recurrent_clear_then_run.  Statement as printed by Coq from Inferno.C17.ComponentsProofs; proof by reference.
   This file contains nothing else, so the statement cannot be weakened quietly. *)
From Coq Require Import List ZArith Bool Arith Lia.
From Inferno Require Import Base.Num Gen.NeuronDynamics Gen.NeuronAdaptation C17.Layers C17.LayersSpec C17.Components C17.LayersProofs C17.ComponentsProofs.
Import ListNotations.
Theorem c17_recurrent_clear_then_run : forall (N : Num) (R0 : recurrent (tensor N) (dense N) (neuron N))
    (ops : list (recurrent_op (tensor N) (dense N) (neuron N) unit nkw (option bool)))
    (R : recurrent (tensor N) (dense N) (neuron N))
    (outs : list (option (tensor N * tensor N * list (Z * tensor N)))) 
    (xk : option bool)
    (ops2 : list (recurrent_op (tensor N) (dense N) (neuron N) unit nkw (option bool))),
  LIc N (r_layer R0) ->
  Forall (rop_ok2 (tensor N) (dense N) (neuron N) unit nkw (option bool) (CI N) (NI N)) ops ->
  keepk xk ->
  run (RStep N) R0 ops = Ok (R, outs) ->
  run (RStep N) R (RClear true true xk :: ops2) =
  x <- run (RStep N) (RFresh N R) ops2;; (let (R2, o2) := x in Ok (R2, None :: o2)).
Proof. exact (@Inferno.C17.ComponentsProofs.c17_recurrent_clear_then_run). Qed.
Print Assumptions c17_recurrent_clear_then_run.
