(* Obligation C17/clear_total.  Statement as printed by Coq from Inferno.C17.LayersProofs; proof by reference.
   This file contains nothing else, so the statement cannot be weakened quietly. *)
From Coq Require Import List ZArith Bool Lia.
From Inferno Require Import C17.Layers C17.LayersSpec C17.LayersProofs.
Import ListNotations.
Theorem clear_total : forall (V CS NS CK NK XK : Type) (ck0 : CK) (nk0 : NK)
    (cstep : CS -> CK -> list V -> res (CS * V)) (nstep : NS -> NK -> V -> res (NS * V))
    (nspike : NS -> V) (cclear : XK -> CS -> CS) (nclear : XK -> NS -> NS)
    (vzeros_like : V -> V) (vadd : V -> V -> res V),
  (forall (S : serial V CS NS) (sub : bool) (xk : XK),
   exists S' : serial V CS NS,
     serial_step V CS NS CK NK XK ck0 nk0 cstep nstep cclear nclear S (SClear sub xk) =
     Ok (S', None)) /\
  (forall (Bq : biclique V CS NS) (sub : bool) (xk : XK),
   exists B' : biclique V CS NS,
     biclique_step V CS NS CK NK XK ck0 nk0 cstep nstep cclear nclear Bq (BClear sub xk) =
     Ok (B', None)) /\
  (forall (R : recurrent V CS NS) (cf sub : bool) (xk : XK),
   exists R' : recurrent V CS NS,
     recurrent_step V CS NS CK NK XK ck0 nk0 cstep nstep nspike cclear nclear vzeros_like vadd
       R (RClear cf sub xk) = Ok (R', None)).
Proof. exact (@Inferno.C17.LayersProofs.clear_total). Qed.
Print Assumptions clear_total.
