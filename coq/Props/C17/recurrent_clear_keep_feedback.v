(* Obligation C17/recurrent_clear_keep_feedback.  Statement as printed by Coq from Inferno.C17.LayersProofs; proof by reference.
   This file contains nothing else, so the statement cannot be weakened quietly. *)
From Coq Require Import List ZArith Bool Lia.
From Inferno Require Import C17.Layers C17.LayersSpec C17.LayersProofs.
Import ListNotations.
Theorem recurrent_clear_keep_feedback : forall (V CS NS CK NK XK : Type) (ck0 : CK) (nk0 : NK)
    (cstep : CS -> CK -> list V -> res (CS * V)) (nstep : NS -> NK -> V -> res (NS * V))
    (nspike : NS -> V) (cclear : XK -> CS -> CS) (nclear : XK -> NS -> NS)
    (vzeros_like : V -> V) (vadd : V -> V -> res V) (cfresh : CS -> CS) 
    (nfresh : NS -> NS) (CI : CS -> Prop) (NI : NS -> Prop) (keepk : XK -> Prop),
  (forall (xk : XK) (c : CS), CI c -> cclear xk c = cfresh c) ->
  (forall (xk : XK) (n : NS), keepk xk -> NI n -> nclear xk n = nfresh n) ->
  forall (R : recurrent V CS NS) (xk : XK),
  LI CS NS CI NI (r_layer R) ->
  keepk xk ->
  recurrent_step V CS NS CK NK XK ck0 nk0 cstep nstep nspike cclear nclear vzeros_like vadd R
    (RClear false true xk) =
  Ok (r_with V CS NS R (layer_fresh CS NS cfresh nfresh (r_layer R)) (r_fbs R), None).
Proof. exact (@Inferno.C17.LayersProofs.recurrent_clear_keep_feedback). Qed.
Print Assumptions recurrent_clear_keep_feedback.
