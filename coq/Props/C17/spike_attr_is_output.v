(* Obligation C17/spike_attr_is_output.  Statement as printed by Coq from Inferno.C17.ComponentsProofsR; proof by reference.
   This file contains nothing else, so the statement cannot be weakened quietly. *)
From Coq Require Import List ZArith Bool Arith Lia Reals Lra.
From Inferno Require Import Base.Num Base.NumR Gen.NeuronDynamics Gen.NeuronAdaptation C17.Layers C17.LayersSpec C17.Components C17.LayersProofs C17.ComponentsProofs C17.ComponentsProofsR.
Import ListNotations.
Open Scope R_scope.
Theorem spike_attr_is_output : forall (n : neuron RN) (kw : nkw) (x : tensor RN) (n' : neuron RN) (z : tensor RN),
  NIs n -> neuron_step RN n kw x = Ok (n', z) -> neuron_spike RN n' = z /\ NIs n'.
Proof. exact (@Inferno.C17.ComponentsProofsR.spike_attr_is_output). Qed.
Print Assumptions spike_attr_is_output.
