(* Obligation C17/serial_stream.  Statement as printed by Coq from Inferno.C17.LayersProofs; proof by reference.
   This file contains nothing else, so the statement cannot be weakened quietly. *)
From Coq Require Import List ZArith Bool Lia.
From Inferno Require Import C17.Layers C17.LayersSpec C17.LayersProofs.
Import ListNotations.
Theorem serial_stream : forall (V CS NS CK NK XK : Type) (ck0 : CK) (nk0 : NK)
    (cstep : CS -> CK -> list V -> res (CS * V)) (nstep : NS -> NK -> V -> res (NS * V))
    (cclear : XK -> CS -> CS) (nclear : XK -> NS -> NS) (tr : V -> V)
    (items : list (list V * option CK * option NK * bool)) (c : CS) 
    (n : NS) (c' : CS) (n' : NS) (outs : list (option (V * V))),
  run (sspec_step V CS NS CK NK XK ck0 nk0 cstep nstep cclear nclear tr) (
    c, n) (map (sfwd_of V CS NS CK NK XK) items) = Ok (c', n', outs) <->
  (exists ys zs : list V,
     run (cstep1 V CS CK ck0 cstep) c
       (map
          (fun i : list V * option CK * option NK * bool =>
           (snd (fst (fst i)), fst (fst (fst i)))) items) = Ok (c', ys) /\
     run (nstep1 V NS NK nk0 nstep) n
       (combine (map (fun i : list V * option CK * option NK * bool => snd (fst i)) items)
          (map tr ys)) = Ok (n', zs) /\ outs = map Some (combine zs ys)).
Proof. exact (@Inferno.C17.LayersProofs.serial_stream). Qed.
Print Assumptions serial_stream.
