(* Obligation C17/c03_biclique_clear_replay.  Statement as printed by Coq from Inferno.C17.NeuronsC03Proofs; proof by reference.
   This file contains nothing else, so the statement cannot be weakened quietly. *)
From Coq Require Import List ZArith Bool Arith Lia.
From Inferno Require Import Base.Num C17.Layers C17.LayersSpec C17.Components C17.LayersProofs C17.ComponentsProofs C17.NeuronsC03 C17.NeuronsC03Proofs.
From Inferno Require C03.Neuron.
Import ListNotations.
Theorem c03_biclique_clear_replay : forall (N : Num) (B0 : biclique (tensor N) (dense N) (nmod N))
    (pre post : list (biclique_op (tensor N) (dense N) (nmod N) unit nkw (option bool)))
    (xk : option bool) (B1 : biclique (tensor N) (dense N) (nmod N))
    (opre : list (option (list (Z * tensor N) * list (Z * tensor N)))),
  LI3p N (b_layer B0) ->
  BFresh3 N B0 = B0 ->
  Forall (bop_frozen (tensor N) (dense N) (nmod N) unit nkw (option bool) anyk3) pre ->
  run (BStep3 N) B0 pre = Ok (B1, opre) ->
  run (BStep3 N) B0 (pre ++ BClear true xk :: post) =
  x <- run (BStep3 N) B0 post;; (let (B2, opost) := x in Ok (B2, opre ++ None :: opost)).
Proof. exact (@Inferno.C17.NeuronsC03Proofs.c03_biclique_clear_replay). Qed.
Print Assumptions c03_biclique_clear_replay.
