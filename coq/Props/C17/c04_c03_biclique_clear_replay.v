(* Obligation C17/c04_c03_biclique_clear_replay.  Statement as printed by Coq from Inferno.C17.SynapsesC04Proofs; proof by reference.
   This file contains nothing else, so the statement cannot be weakened quietly. *)
From Coq Require Import List ZArith Bool Arith Lia.
From Inferno Require Import Base.Num C17.Layers C17.LayersSpec C17.Components C17.LayersProofs C17.ComponentsProofs C17.NeuronsC03 C17.NeuronsC03Proofs C17.SynapsesC04 C17.SynapsesC04Proofs.
From Inferno Require C01.Ring C04.Synapse C03.Neuron.
Import ListNotations.
Theorem c04_c03_biclique_clear_replay : forall (N : Num) (B0 : biclique (tensor N) (conn4 N) (nmod N))
    (pre post : list (biclique_op (tensor N) (conn4 N) (nmod N) unit nkw (option bool)))
    (xk : option bool) (B1 : biclique (tensor N) (conn4 N) (nmod N))
    (opre : list (option (list (Z * tensor N) * list (Z * tensor N)))),
  LI43p N (b_layer B0) ->
  BFresh43 N B0 = B0 ->
  Forall (bop_frozen (tensor N) (conn4 N) (nmod N) unit nkw (option bool) anyk3) pre ->
  run (BStep43 N) B0 pre = Ok (B1, opre) ->
  run (BStep43 N) B0 (pre ++ BClear true xk :: post) =
  x <- run (BStep43 N) B0 post;; (let (B2, opost) := x in Ok (B2, opre ++ None :: opost)).
Proof. exact (@Inferno.C17.SynapsesC04Proofs.c04_c03_biclique_clear_replay). Qed.
Print Assumptions c04_c03_biclique_clear_replay.
