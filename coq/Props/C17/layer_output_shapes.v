(* Obligation C17/layer_output_shapes.  Statement as printed by Coq from Inferno.C17.LayersProofs; proof by reference.
   This file contains nothing else, so the statement cannot be weakened quietly. *)
From Coq Require Import List ZArith Bool Lia.
From Inferno Require Import C17.Layers C17.LayersSpec C17.LayersProofs.
Import ListNotations.
Theorem layer_output_shapes : forall (V CS NS CK NK : Type) (ck0 : CK) (nk0 : NK)
    (cstep : CS -> CK -> list V -> res (CS * V)) (nstep : NS -> NK -> V -> res (NS * V))
    (Sh : Type) (vshape : V -> Sh) (nbshape : NS -> Sh),
  (forall (n : NS) (kw : NK) (x : V) (n' : NS) (z : V),
   nstep n kw x = Ok (n', z) -> vshape z = nbshape n /\ nbshape n' = nbshape n) ->
  forall (wiring : list (Z * V) -> res (list (Z * V))) (L : layer CS NS)
    (ins : list (Z * list V)) (ckw : list (Z * CK)) (nkw : list (Z * NK)) 
    (L' : layer CS NS) (zs ys : list (Z * V)),
  layer_forward V CS NS CK NK ck0 nk0 cstep nstep wiring L ins ckw nkw = Ok (L', (zs, ys)) ->
  Forall (fun p : Z * V => shape_at NS Sh nbshape (neurs L) (fst p) = Some (vshape (snd p)))
    zs /\
  (forall k : Z, shape_at NS Sh nbshape (neurs L') k = shape_at NS Sh nbshape (neurs L) k).
Proof. exact (@Inferno.C17.LayersProofs.layer_output_shapes). Qed.
Print Assumptions layer_output_shapes.
