(* Obligation C17/c17_biclique_clear_restores_dynamic.  Statement as printed by Coq from Inferno.C17.ComponentsProofs; proof by reference.
   This file contains nothing else, so the statement cannot be weakened quietly. *)
From Coq Require Import List ZArith Bool Arith Lia.
From Inferno Require Import Base.Num Gen.NeuronDynamics Gen.NeuronAdaptation C17.Layers C17.LayersSpec C17.Components C17.LayersProofs C17.ComponentsProofs.
Import ListNotations.
Theorem c17_biclique_clear_restores_dynamic : forall (N : Num) (B0 : biclique (tensor N) (dense N) (neuron N))
    (ops : list (biclique_op (tensor N) (dense N) (neuron N) unit nkw (option bool)))
    (Bq : biclique (tensor N) (dense N) (neuron N))
    (outs : list (option (list (Z * tensor N) * list (Z * tensor N)))) 
    (xk : option bool),
  LIc N (b_layer B0) ->
  Forall (bop_ok (tensor N) (dense N) (neuron N) unit nkw (option bool) (CI N) (NI N)) ops ->
  keepk xk ->
  run (BStep N) B0 ops = Ok (Bq, outs) -> BStep N Bq (BClear true xk) = Ok (BFresh N Bq, None).
Proof. exact (@Inferno.C17.ComponentsProofs.c17_biclique_clear_restores_dynamic). Qed.
Print Assumptions c17_biclique_clear_restores_dynamic.
