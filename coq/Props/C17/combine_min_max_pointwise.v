(* Obligation C17/combine_min_max_pointwise.  Statement as printed by Coq from Inferno.C17.ComponentsProofsR; proof by reference.
   This file contains nothing else, so the statement cannot be weakened quietly. *)
From Coq Require Import List ZArith Bool Arith Lia Reals Lra.
From Inferno Require Import Base.Num Base.NumR Gen.NeuronDynamics Gen.NeuronAdaptation C17.Layers C17.LayersSpec C17.Components C17.LayersProofs C17.ComponentsProofs C17.ComponentsProofsR.
Import ListNotations.
Open Scope R_scope.
Theorem combine_min_max_pointwise : forall (m : cmode) (ts : list (Z * tensor RN)) (t : tensor RN) (n i : nat),
  combine_builtin RN m ts = Ok t ->
  Forall (fun p : Z * tensor RN => length (tel (snd p)) = n) ts ->
  (i < n)%nat ->
  match m with
  | CMin =>
      In (nth i (tel t) 0) (column i ts) /\
      Forall (fun x : R => nth i (tel t) 0 <= x) (column i ts)
  | CMax =>
      In (nth i (tel t) 0) (column i ts) /\
      Forall (fun x : R => x <= nth i (tel t) 0) (column i ts)
  | _ => True
  end.
Proof. exact (@Inferno.C17.ComponentsProofsR.combine_min_max_pointwise). Qed.
Print Assumptions combine_min_max_pointwise.
