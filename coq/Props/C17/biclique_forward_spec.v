(* Obligation C17/biclique_forward_spec.  Statement as printed by Coq from Inferno.C17.LayersProofs; proof by reference.
   This file contains nothing else, so the statement cannot be weakened quietly. *)
From Coq Require Import List ZArith Bool Lia.
From Inferno Require Import C17.Layers C17.LayersSpec C17.LayersProofs.
Import ListNotations.
Theorem biclique_forward_spec : forall (V CS NS CK NK : Type) (ck0 : CK) (nk0 : NK)
    (cstep : CS -> CK -> list V -> res (CS * V)) (nstep : NS -> NK -> V -> res (NS * V))
    (Bq : biclique V CS NS) (ins : list (Z * list V)) (ckw : list (Z * CK))
    (nkw : list (Z * NK)),
  b_wf V CS NS Bq ->
  NoDup (keys ins) ->
  biclique_forward V CS NS CK NK ck0 nk0 cstep nstep Bq ins ckw nkw =
  bspec_forward V CS NS CK NK ck0 nk0 cstep nstep Bq ins ckw nkw.
Proof. exact (@Inferno.C17.LayersProofs.biclique_forward_spec). Qed.
Print Assumptions biclique_forward_spec.
