(* Obligation C17/serial_run_spec.  Statement as printed by Coq from Inferno.C17.LayersProofs; proof by reference.
   This file contains nothing else, so the statement cannot be weakened quietly. *)
From Coq Require Import List ZArith Bool Lia.
From Inferno Require Import C17.Layers C17.LayersSpec C17.LayersProofs.
Import ListNotations.
Theorem serial_run_spec : forall (V CS NS CK NK XK : Type) (ck0 : CK) (nk0 : NK)
    (cstep : CS -> CK -> list V -> res (CS * V)) (nstep : NS -> NK -> V -> res (NS * V))
    (cclear : XK -> CS -> CS) (nclear : XK -> NS -> NS) (tr : V -> V) 
    (cn nn : Z) (ops : list (serial_op V CS NS CK NK XK)) (s : CS * NS),
  run (serial_step V CS NS CK NK XK ck0 nk0 cstep nstep cclear nclear)
    (serial_of V CS NS tr cn nn s) ops =
  rmap
    (fun p : CS * NS * list (option (V * V)) => (serial_of V CS NS tr cn nn (fst p), snd p))
    (run (sspec_step V CS NS CK NK XK ck0 nk0 cstep nstep cclear nclear tr) s ops).
Proof. exact (@Inferno.C17.LayersProofs.serial_run_spec). Qed.
Print Assumptions serial_run_spec.
