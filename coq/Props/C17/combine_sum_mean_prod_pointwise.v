(* Obligation C17/combine_sum_mean_prod_pointwise.  Statement as printed by Coq from Inferno.C17.ComponentsProofsR; proof by reference.
   This file contains nothing else, so the statement cannot be weakened quietly. *)
From Coq Require Import List ZArith Bool Arith Lia Reals Lra.
From Inferno Require Import Base.Num Base.NumR Gen.NeuronDynamics Gen.NeuronAdaptation C17.Layers C17.LayersSpec C17.Components C17.LayersProofs C17.ComponentsProofs C17.ComponentsProofsR.
Import ListNotations.
Open Scope R_scope.
Theorem combine_sum_mean_prod_pointwise : forall (m : cmode) (ts : list (Z * tensor RN)) (t : tensor RN) (n i : nat),
  combine_builtin RN m ts = Ok t ->
  Forall (fun p : Z * tensor RN => length (tel (snd p)) = n) ts ->
  (i < n)%nat ->
  match m with
  | CSum => nth i (tel t) 0 = tsum RN (column i ts)
  | CMean => nth i (tel t) 0 = tsum RN (column i ts) / IZR (Z.of_nat (length ts))
  | CProd => nth i (tel t) 0 = tprod (column i ts)
  | _ => True
  end.
Proof. exact (@Inferno.C17.ComponentsProofsR.combine_sum_mean_prod_pointwise). Qed.
Print Assumptions combine_sum_mean_prod_pointwise.
