(* Obligation C17/c17_serial_clear_replay.  Statement as printed by Coq from Inferno.C17.ComponentsProofs; proof by reference.
   This file contains nothing else, so the statement cannot be weakened quietly. *)
From Coq Require Import List ZArith Bool Arith Lia.
From Inferno Require Import Base.Num Gen.NeuronDynamics Gen.NeuronAdaptation C17.Layers C17.LayersSpec C17.Components C17.LayersProofs C17.ComponentsProofs.
Import ListNotations.
Theorem c17_serial_clear_replay : forall (N : Num) (S0 : serial (tensor N) (dense N) (neuron N))
    (pre post : list (serial_op (tensor N) (dense N) (neuron N) unit nkw (option bool)))
    (xk : option bool) (S1 : serial (tensor N) (dense N) (neuron N))
    (opre : list (option (tensor N * tensor N))),
  LIl N (s_layer S0) ->
  SFresh N S0 = S0 ->
  Forall (sop_frozen (tensor N) (dense N) (neuron N) unit nkw (option bool) anyk) pre ->
  run (SStep N) S0 pre = Ok (S1, opre) ->
  run (SStep N) S0 (pre ++ SClear true xk :: post) =
  x <- run (SStep N) S0 post;; (let (S2, opost) := x in Ok (S2, opre ++ None :: opost)).
Proof. exact (@Inferno.C17.ComponentsProofs.c17_serial_clear_replay). Qed.
Print Assumptions c17_serial_clear_replay.
