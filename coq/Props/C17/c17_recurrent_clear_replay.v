(* Obligation C17/c17_recurrent_clear_replay.  Statement as printed by Coq from Inferno.C17.ComponentsProofs; proof by reference.
   This file contains nothing else, so the statement cannot be weakened quietly. *)
From Coq Require Import List ZArith Bool Arith Lia.
From Inferno Require Import Base.Num Gen.NeuronDynamics Gen.NeuronAdaptation C17.Layers C17.LayersSpec C17.Components C17.LayersProofs C17.ComponentsProofs.
Import ListNotations.
Theorem c17_recurrent_clear_replay : forall (N : Num) (R0 : recurrent (tensor N) (dense N) (neuron N))
    (pre post : list (recurrent_op (tensor N) (dense N) (neuron N) unit nkw (option bool)))
    (xk : option bool) (R1 : recurrent (tensor N) (dense N) (neuron N))
    (opre : list (option (tensor N * tensor N * list (Z * tensor N)))),
  LIl N (r_layer R0) ->
  RFresh N R0 = R0 ->
  Forall (rop_frozen (tensor N) (dense N) (neuron N) unit nkw (option bool) anyk) pre ->
  run (RStep N) R0 pre = Ok (R1, opre) ->
  run (RStep N) R0 (pre ++ RClear true true xk :: post) =
  x <- run (RStep N) R0 post;; (let (R2, opost) := x in Ok (R2, opre ++ None :: opost)).
Proof. exact (@Inferno.C17.ComponentsProofs.c17_recurrent_clear_replay). Qed.
Print Assumptions c17_recurrent_clear_replay.
