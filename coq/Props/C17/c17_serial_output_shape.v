(* Obligation C17/c17_serial_output_shape.  Statement as printed by Coq from Inferno.C17.ComponentsProofs; proof by reference.
   This file contains nothing else, so the statement cannot be weakened quietly. *)
From Coq Require Import List ZArith Bool Arith Lia.
From Inferno Require Import Base.Num Gen.NeuronDynamics Gen.NeuronAdaptation C17.Layers C17.LayersSpec C17.Components C17.LayersProofs C17.ComponentsProofs.
Import ListNotations.
Theorem c17_serial_output_shape : forall (N : Num) (S : serial (tensor N) (dense N) (neuron N)) (xs : list (tensor N))
    (kc : option unit) (kn : option nkw) (S' : serial (tensor N) (dense N) (neuron N))
    (z y : tensor N),
  serial_forward (tensor N) (dense N) (neuron N) unit nkw tt nkw0 
    (dense_step N) (neuron_step N) S xs kc kn = Ok (S', (z, y)) ->
  shape_at (neuron N) (list nat) (nbshape N) (neurs (s_layer S)) (s_nn S) = Some (tsh z).
Proof. exact (@Inferno.C17.ComponentsProofs.c17_serial_output_shape). Qed.
Print Assumptions c17_serial_output_shape.
