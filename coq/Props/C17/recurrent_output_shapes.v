(* Obligation C17/recurrent_output_shapes.  Statement as printed by Coq from Inferno.C17.LayersProofs; proof by reference.
   This file contains nothing else, so the statement cannot be weakened quietly. *)
From Coq Require Import List ZArith Bool Lia.
From Inferno Require Import C17.Layers C17.LayersSpec C17.LayersProofs.
Import ListNotations.
Theorem recurrent_output_shapes : forall (V CS NS CK NK : Type) (ck0 : CK) (nk0 : NK)
    (cstep : CS -> CK -> list V -> res (CS * V)) (nstep : NS -> NK -> V -> res (NS * V))
    (nspike : NS -> V) (vzeros_like : V -> V) (vadd : V -> V -> res V) 
    (Sh : Type) (vshape : V -> Sh) (nbshape : NS -> Sh),
  (forall (n : NS) (kw : NK) (x : V) (n' : NS) (z : V),
   nstep n kw x = Ok (n', z) -> vshape z = nbshape n /\ nbshape n' = nbshape n) ->
  forall (R : recurrent V CS NS) (xs la fa : list V) (kff klat kfb : option CK)
    (nkff nkfb : option NK) (R' : recurrent V CS NS) (zff zfb : V) 
    (ys : list (Z * V)),
  recurrent_forward V CS NS CK NK ck0 nk0 cstep nstep nspike vzeros_like vadd R xs la fa kff
    klat kfb nkff nkfb = Ok (R', (zff, zfb, ys)) ->
  shape_at NS Sh nbshape (neurs (r_layer R)) (r_ffn R) = Some (vshape zff) /\
  shape_at NS Sh nbshape (neurs (r_layer R)) (r_fbn R) = Some (vshape zfb).
Proof. exact (@Inferno.C17.LayersProofs.recurrent_output_shapes). Qed.
Print Assumptions recurrent_output_shapes.
