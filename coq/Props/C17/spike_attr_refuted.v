(* Obligation C17/spike_attr_refuted.  Statement as printed by Coq from Inferno.C17.ComponentsProofsR; proof by reference.
   This file contains nothing else, so the statement cannot be weakened quietly. *)
From Coq Require Import List ZArith Bool Arith Lia Reals Lra.
From Inferno Require Import Base.Num Base.NumR Gen.NeuronDynamics Gen.NeuronAdaptation C17.Layers C17.LayersSpec C17.Components C17.LayersProofs C17.ComponentsProofs C17.ComponentsProofsR.
Import ListNotations.
Open Scope R_scope.
Theorem spike_attr_refuted : exists (n' : neuron RN) (z : tensor RN),
    NI RN n0 /\
    n_refrac_t RN n0 = 0 /\
    neuron_step RN n0 nkw0 x0 = Ok (n', z) /\ tel z = [0] /\ tel (neuron_spike RN n') = [1].
Proof. exact (@Inferno.C17.ComponentsProofsR.spike_attr_refuted). Qed.
Print Assumptions spike_attr_refuted.
