(* Obligation C17/c04_c03_biclique_clear_restores_dynamic.  Statement as printed by Coq from Inferno.C17.SynapsesC04Proofs; proof by reference.
   This file contains nothing else, so the statement cannot be weakened quietly. *)
From Coq Require Import List ZArith Bool Arith Lia.
From Inferno Require Import Base.Num C17.Layers C17.LayersSpec C17.Components C17.LayersProofs C17.ComponentsProofs C17.NeuronsC03 C17.NeuronsC03Proofs C17.SynapsesC04 C17.SynapsesC04Proofs.
From Inferno Require C01.Ring C04.Synapse C03.Neuron.
Import ListNotations.
Theorem c04_c03_biclique_clear_restores_dynamic : forall (N : Num) (B0 : biclique (tensor N) (conn4 N) (nmod N))
    (ops : list (biclique_op (tensor N) (conn4 N) (nmod N) unit nkw (option bool)))
    (Bq : biclique (tensor N) (conn4 N) (nmod N))
    (outs : list (option (list (Z * tensor N) * list (Z * tensor N)))) 
    (xk : option bool),
  LI43 N (b_layer B0) ->
  Forall (bop_ok (tensor N) (conn4 N) (nmod N) unit nkw (option bool) (CI4 N) (NI3 N)) ops ->
  keepk3 xk ->
  run (BStep43 N) B0 ops = Ok (Bq, outs) ->
  BStep43 N Bq (BClear true xk) = Ok (BFresh43 N Bq, None).
Proof. exact (@Inferno.C17.SynapsesC04Proofs.c04_c03_biclique_clear_restores_dynamic). Qed.
Print Assumptions c04_c03_biclique_clear_restores_dynamic.
