(* Obligation C17/c03_serial_clear_then_run.  Statement as printed by Coq from Inferno.C17.NeuronsC03Proofs; proof by reference.
   This file contains nothing else, so the statement cannot be weakened quietly. *)
From Coq Require Import List ZArith Bool Arith Lia.
From Inferno Require Import Base.Num C17.Layers C17.LayersSpec C17.Components C17.LayersProofs C17.ComponentsProofs C17.NeuronsC03 C17.NeuronsC03Proofs.
From Inferno Require C03.Neuron.
Import ListNotations.
Theorem c03_serial_clear_then_run : forall (N : Num) (S0 : serial (tensor N) (dense N) (nmod N))
    (ops : list (serial_op (tensor N) (dense N) (nmod N) unit nkw (option bool)))
    (S : serial (tensor N) (dense N) (nmod N)) (outs : list (option (tensor N * tensor N)))
    (xk : option bool)
    (ops2 : list (serial_op (tensor N) (dense N) (nmod N) unit nkw (option bool))),
  LI3 N (s_layer S0) ->
  Forall (sop_ok (tensor N) (dense N) (nmod N) unit nkw (option bool) (CI N) (NI3 N)) ops ->
  keepk3 xk ->
  run (SStep3 N) S0 ops = Ok (S, outs) ->
  run (SStep3 N) S (SClear true xk :: ops2) =
  x <- run (SStep3 N) (SFresh3 N S) ops2;; (let (S2, o2) := x in Ok (S2, None :: o2)).
Proof. exact (@Inferno.C17.NeuronsC03Proofs.c03_serial_clear_then_run). Qed.
Print Assumptions c03_serial_clear_then_run.
