(* Obligation C17/c17_biclique_output_shapes.  Statement as printed by Coq from Inferno.C17.ComponentsProofs; proof by reference.
   This file contains nothing else, so the statement cannot be weakened quietly. *)
From Coq Require Import List ZArith Bool Arith Lia.
From Inferno Require Import Base.Num Gen.NeuronDynamics Gen.NeuronAdaptation C17.Layers C17.LayersSpec C17.Components C17.LayersProofs C17.ComponentsProofs.
Import ListNotations.
Theorem c17_biclique_output_shapes : forall (N : Num) (Bq : biclique (tensor N) (dense N) (neuron N))
    (ins : list (Z * list (tensor N))) (kc : list (Z * unit)) (kn : list (Z * nkw))
    (B' : biclique (tensor N) (dense N) (neuron N)) (zs ys : list (Z * tensor N)),
  biclique_forward (tensor N) (dense N) (neuron N) unit nkw tt nkw0 
    (dense_step N) (neuron_step N) Bq ins kc kn = Ok (B', (zs, ys)) ->
  Forall
    (fun p : Z * tensor N =>
     shape_at (neuron N) (list nat) (nbshape N) (neurs (b_layer Bq)) (fst p) =
     Some (tsh (snd p))) zs.
Proof. exact (@Inferno.C17.ComponentsProofs.c17_biclique_output_shapes). Qed.
Print Assumptions c17_biclique_output_shapes.
