(* Obligation C17/c03_recurrent_clear_replay.  Statement as printed by Coq from Inferno.C17.NeuronsC03Proofs; proof by reference.
   This file contains nothing else, so the statement cannot be weakened quietly. *)
From Coq Require Import List ZArith Bool Arith Lia.
From Inferno Require Import Base.Num C17.Layers C17.LayersSpec C17.Components C17.LayersProofs C17.ComponentsProofs C17.NeuronsC03 C17.NeuronsC03Proofs.
From Inferno Require C03.Neuron.
Import ListNotations.
Theorem c03_recurrent_clear_replay : forall (N : Num) (R0 : recurrent (tensor N) (dense N) (nmod N))
    (pre post : list (recurrent_op (tensor N) (dense N) (nmod N) unit nkw (option bool)))
    (xk : option bool) (R1 : recurrent (tensor N) (dense N) (nmod N))
    (opre : list (option (tensor N * tensor N * list (Z * tensor N)))),
  LI3p N (r_layer R0) ->
  RFresh3 N R0 = R0 ->
  Forall (rop_frozen (tensor N) (dense N) (nmod N) unit nkw (option bool) anyk3) pre ->
  run (RStep3 N) R0 pre = Ok (R1, opre) ->
  run (RStep3 N) R0 (pre ++ RClear true true xk :: post) =
  x <- run (RStep3 N) R0 post;; (let (R2, opost) := x in Ok (R2, opre ++ None :: opost)).
Proof. exact (@Inferno.C17.NeuronsC03Proofs.c03_recurrent_clear_replay). Qed.
Print Assumptions c03_recurrent_clear_replay.
