(* Obligation C17/c04_c03_serial_clear_then_run.  Statement as printed by Coq from Inferno.C17.SynapsesC04Proofs; proof by reference.
   This file contains nothing else, so the statement cannot be weakened quietly. *)
From Coq Require Import List ZArith Bool Arith Lia.
From Inferno Require Import Base.Num C17.Layers C17.LayersSpec C17.Components C17.LayersProofs C17.ComponentsProofs C17.NeuronsC03 C17.NeuronsC03Proofs C17.SynapsesC04 C17.SynapsesC04Proofs.
From Inferno Require C01.Ring C04.Synapse C03.Neuron.
Import ListNotations.
Theorem c04_c03_serial_clear_then_run : forall (N : Num) (S0 : serial (tensor N) (conn4 N) (nmod N))
    (ops : list (serial_op (tensor N) (conn4 N) (nmod N) unit nkw (option bool)))
    (S : serial (tensor N) (conn4 N) (nmod N)) (outs : list (option (tensor N * tensor N)))
    (xk : option bool)
    (ops2 : list (serial_op (tensor N) (conn4 N) (nmod N) unit nkw (option bool))),
  LI43 N (s_layer S0) ->
  Forall (sop_ok (tensor N) (conn4 N) (nmod N) unit nkw (option bool) (CI4 N) (NI3 N)) ops ->
  keepk3 xk ->
  run (SStep43 N) S0 ops = Ok (S, outs) ->
  run (SStep43 N) S (SClear true xk :: ops2) =
  x <- run (SStep43 N) (SFresh43 N S) ops2;; (let (S2, o2) := x in Ok (S2, None :: o2)).
Proof. exact (@Inferno.C17.SynapsesC04Proofs.c04_c03_serial_clear_then_run). Qed.
Print Assumptions c04_c03_serial_clear_then_run.
