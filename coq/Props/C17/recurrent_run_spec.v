(* Obligation C17/recurrent_run_spec.  Statement as printed by Coq from Inferno.C17.LayersProofs; proof by reference.
   This file contains nothing else, so the statement cannot be weakened quietly. *)
From Coq Require Import List ZArith Bool Lia.
From Inferno Require Import C17.Layers C17.LayersSpec C17.LayersProofs.
Import ListNotations.
Theorem recurrent_run_spec : forall (V CS NS CK NK XK : Type) (ck0 : CK) (nk0 : NK)
    (cstep : CS -> CK -> list V -> res (CS * V)) (nstep : NS -> NK -> V -> res (NS * V))
    (nspike : NS -> V) (cclear : XK -> CS -> CS) (nclear : XK -> NS -> NS)
    (vzeros_like : V -> V) (vadd : V -> V -> res V) (R : recurrent V CS NS)
    (ops : list (recurrent_op V CS NS CK NK XK)) (q : rstate V CS NS),
  r_names_ok V CS NS R ->
  run
    (recurrent_step V CS NS CK NK XK ck0 nk0 cstep nstep nspike cclear nclear vzeros_like vadd)
    (r_of V CS NS R q) ops =
  rmap
    (fun p : rstate V CS NS * list (option (V * V * list (Z * V))) =>
     (r_of V CS NS R (fst p), snd p))
    (run
       (rspec_step V CS NS CK NK XK ck0 nk0 cstep nstep nspike cclear nclear vzeros_like vadd
          true R) q ops).
Proof. exact (@Inferno.C17.LayersProofs.recurrent_run_spec). Qed.
Print Assumptions recurrent_run_spec.
