(* Obligation C17/c03_serial_clear_replay.  Statement as printed by Coq from Inferno.C17.NeuronsC03Proofs; proof by reference.
   This file contains nothing else, so the statement cannot be weakened quietly. *)
From Coq Require Import List ZArith Bool Arith Lia.
From Inferno Require Import Base.Num C17.Layers C17.LayersSpec C17.Components C17.LayersProofs C17.ComponentsProofs C17.NeuronsC03 C17.NeuronsC03Proofs.
From Inferno Require C03.Neuron.
Import ListNotations.
Theorem c03_serial_clear_replay : forall (N : Num) (S0 : serial (tensor N) (dense N) (nmod N))
    (pre post : list (serial_op (tensor N) (dense N) (nmod N) unit nkw (option bool)))
    (xk : option bool) (S1 : serial (tensor N) (dense N) (nmod N))
    (opre : list (option (tensor N * tensor N))),
  LI3p N (s_layer S0) ->
  SFresh3 N S0 = S0 ->
  Forall (sop_frozen (tensor N) (dense N) (nmod N) unit nkw (option bool) anyk3) pre ->
  run (SStep3 N) S0 pre = Ok (S1, opre) ->
  run (SStep3 N) S0 (pre ++ SClear true xk :: post) =
  x <- run (SStep3 N) S0 post;; (let (S2, opost) := x in Ok (S2, opre ++ None :: opost)).
Proof. exact (@Inferno.C17.NeuronsC03Proofs.c03_serial_clear_replay). Qed.
Print Assumptions c03_serial_clear_replay.
