(* Obligation C17/clear_keeps_learned.  Statement as printed by Coq from Inferno.C17.ComponentsProofs; proof by reference.
   This file contains nothing else, so the statement cannot be weakened quietly. *)
From Coq Require Import List ZArith Bool Arith Lia.
From Inferno Require Import Base.Num Gen.NeuronDynamics Gen.NeuronAdaptation C17.Layers C17.LayersSpec C17.Components C17.LayersProofs C17.ComponentsProofs.
Import ListNotations.
Theorem clear_keeps_learned : forall (N : Num) (xk : option bool) (c : dense N) (n : neuron N),
  d_W N (dense_clear N xk c) = d_W N c /\
  d_bias N (dense_clear N xk c) = d_bias N c /\
  d_delay N (dense_clear N xk c) = d_delay N c /\
  (keepk xk -> n_adapt N (neuron_clear N xk n) = n_adapt N n) /\
  (n_acfg N n <> None ->
   n_adapt N (neuron_clear N (Some false) n) = map (map (fun _ : T N => zero N)) (n_adapt N n)).
Proof. exact (@Inferno.C17.ComponentsProofs.clear_keeps_learned). Qed.
Print Assumptions clear_keeps_learned.
