(* Obligation C17/c03_biclique_clear_then_run.  Statement as printed by Coq from Inferno.C17.NeuronsC03Proofs; proof by reference.
   This file contains nothing else, so the statement cannot be weakened quietly. *)
From Coq Require Import List ZArith Bool Arith Lia.
From Inferno Require Import Base.Num C17.Layers C17.LayersSpec C17.Components C17.LayersProofs C17.ComponentsProofs C17.NeuronsC03 C17.NeuronsC03Proofs.
From Inferno Require C03.Neuron.
Import ListNotations.
Theorem c03_biclique_clear_then_run : forall (N : Num) (B0 : biclique (tensor N) (dense N) (nmod N))
    (ops : list (biclique_op (tensor N) (dense N) (nmod N) unit nkw (option bool)))
    (Bq : biclique (tensor N) (dense N) (nmod N))
    (outs : list (option (list (Z * tensor N) * list (Z * tensor N)))) 
    (xk : option bool)
    (ops2 : list (biclique_op (tensor N) (dense N) (nmod N) unit nkw (option bool))),
  LI3 N (b_layer B0) ->
  Forall (bop_ok (tensor N) (dense N) (nmod N) unit nkw (option bool) (CI N) (NI3 N)) ops ->
  keepk3 xk ->
  run (BStep3 N) B0 ops = Ok (Bq, outs) ->
  run (BStep3 N) Bq (BClear true xk :: ops2) =
  x <- run (BStep3 N) (BFresh3 N Bq) ops2;; (let (B2, o2) := x in Ok (B2, None :: o2)).
Proof. exact (@Inferno.C17.NeuronsC03Proofs.c03_biclique_clear_then_run). Qed.
Print Assumptions c03_biclique_clear_then_run.
