(* Obligation C17/c03_clear_default_is_fresh.  Statement as printed by Coq from Inferno.C17.NeuronsC03Proofs; proof by reference.
   This file contains nothing else, so the statement cannot be weakened quietly. *)
From Coq Require Import List ZArith Bool Arith Lia.
From Inferno Require Import Base.Num C17.Layers C17.LayersSpec C17.Components C17.LayersProofs C17.ComponentsProofs C17.NeuronsC03 C17.NeuronsC03Proofs.
From Inferno Require C03.Neuron.
Import ListNotations.
Theorem c03_clear_default_is_fresh : forall (N : Num) (xk : option bool) (m : nmod N),
  keep_of xk = true -> NI3 N m -> nclear3 N xk m = nfresh3 N m.
Proof. exact (@Inferno.C17.NeuronsC03Proofs.c03_clear_default_is_fresh). Qed.
Print Assumptions c03_clear_default_is_fresh.
