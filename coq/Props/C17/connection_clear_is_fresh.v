(* Obligation C17/connection_clear_is_fresh.  Statement as printed by Coq from Inferno.C17.ComponentsProofs; proof by reference.
   This file contains nothing else, so the statement cannot be weakened quietly. *)
From Coq Require Import List ZArith Bool Arith Lia.
From Inferno Require Import Base.Num Gen.NeuronDynamics Gen.NeuronAdaptation C17.Layers C17.LayersSpec C17.Components C17.LayersProofs C17.ComponentsProofs.
Import ListNotations.
Theorem connection_clear_is_fresh : forall (N : Num) (xk : option bool) (c : dense N),
  CI N c -> dense_clear N xk c = dense_fresh N c.
Proof. exact (@Inferno.C17.ComponentsProofs.connection_clear_is_fresh). Qed.
Print Assumptions connection_clear_is_fresh.
