(* Obligation C17/c17_biclique_clear_then_run.  Statement as printed by Coq from Inferno.C17.ComponentsProofs; proof by reference.
   This file contains nothing else, so the statement cannot be weakened quietly. *)
From Coq Require Import List ZArith Bool Arith Lia.
From Inferno Require Import Base.Num Gen.NeuronDynamics Gen.NeuronAdaptation C17.Layers C17.LayersSpec C17.Components C17.LayersProofs C17.ComponentsProofs.
Import ListNotations.
Theorem c17_biclique_clear_then_run : forall (N : Num) (B0 : biclique (tensor N) (dense N) (neuron N))
    (ops : list (biclique_op (tensor N) (dense N) (neuron N) unit nkw (option bool)))
    (Bq : biclique (tensor N) (dense N) (neuron N))
    (outs : list (option (list (Z * tensor N) * list (Z * tensor N)))) 
    (xk : option bool)
    (ops2 : list (biclique_op (tensor N) (dense N) (neuron N) unit nkw (option bool))),
  LIc N (b_layer B0) ->
  Forall (bop_ok (tensor N) (dense N) (neuron N) unit nkw (option bool) (CI N) (NI N)) ops ->
  keepk xk ->
  run (BStep N) B0 ops = Ok (Bq, outs) ->
  run (BStep N) Bq (BClear true xk :: ops2) =
  x <- run (BStep N) (BFresh N Bq) ops2;; (let (B2, o2) := x in Ok (B2, None :: o2)).
Proof. exact (@Inferno.C17.ComponentsProofs.c17_biclique_clear_then_run). Qed.
Print Assumptions c17_biclique_clear_then_run.
