(* Obligation C17/c04_clear_is_fresh.  Statement as printed by Coq from Inferno.C17.SynapsesC04Proofs; proof by reference.
   This file contains nothing else, so the statement cannot be weakened quietly. *)
From Coq Require Import List ZArith Bool Arith Lia.
From Inferno Require Import Base.Num C17.Layers C17.LayersSpec C17.Components C17.LayersProofs C17.ComponentsProofs C17.NeuronsC03 C17.NeuronsC03Proofs C17.SynapsesC04 C17.SynapsesC04Proofs.
From Inferno Require C01.Ring C04.Synapse C03.Neuron.
Import ListNotations.
Theorem c04_clear_is_fresh : forall (N : Num) (xk : option bool) (c : conn4 N), CI4 N c -> cclear4 N xk c = cfresh4 N c.
Proof. exact (@Inferno.C17.SynapsesC04Proofs.c04_clear_is_fresh). Qed.
Print Assumptions c04_clear_is_fresh.
