(* Obligation C17/recurrent_forward_spec.  Statement as printed by Coq from Inferno.C17.LayersProofs; proof by reference.
   This file contains nothing else, so the statement cannot be weakened quietly. *)
From Coq Require Import List ZArith Bool Lia.
From Inferno Require Import C17.Layers C17.LayersSpec C17.LayersProofs.
Import ListNotations.
Theorem recurrent_forward_spec : forall (V CS NS CK NK : Type) (ck0 : CK) (nk0 : NK)
    (cstep : CS -> CK -> list V -> res (CS * V)) (nstep : NS -> NK -> V -> res (NS * V))
    (nspike : NS -> V) (vzeros_like : V -> V) (vadd : V -> V -> res V) 
    (R : recurrent V CS NS) (q : rstate V CS NS) (xs la fa : list V)
    (kff klat kfb : option CK) (nkff nkfb : option NK),
  r_names_ok V CS NS R ->
  recurrent_forward V CS NS CK NK ck0 nk0 cstep nstep nspike vzeros_like vadd
    (r_of V CS NS R q) xs la fa kff klat kfb nkff nkfb =
  rmap (fun p : rstate V CS NS * (V * V * list (Z * V)) => (r_of V CS NS R (fst p), snd p))
    (rspec_forward V CS NS CK NK ck0 nk0 cstep nstep nspike vzeros_like vadd true R q xs la fa
       kff klat kfb nkff nkfb).
Proof. exact (@Inferno.C17.LayersProofs.recurrent_forward_spec). Qed.
Print Assumptions recurrent_forward_spec.
