(* Obligation C17/nonvacuous: the hypotheses of the C17 theorems are met by concrete, non-trivial layers, and the
   model really runs on them: a Serial layer of a LinearDense/DeltaCurrent connection and a LIF group with
   refrac_t = 2 > 0 satisfies the invariants (LIl, hence LIc), is "freshly built" (SFresh S1 = S1), and a run
   forward ; clear ; forward succeeds on it with three outputs; the LIF group satisfies the spike-attribute
   invariant NIs; the recurrent specification state built from such groups satisfies q_ok and the names are
   distinct (r_names_ok); a Biclique built by the constructor from two connections and two groups exists (so b_wf
   is inhabited). *)
From Coq Require Import List ZArith Bool Arith Lia Reals Lra.
From Inferno Require Import Base.Num Base.NumR Gen.NeuronDynamics Gen.NeuronAdaptation
     C17.Layers C17.LayersSpec C17.Components C17.LayersProofs C17.ComponentsProofs C17.ComponentsProofsR.
Import ListNotations.
Open Scope R_scope.

Definition n1 : neuron RN := mkNeuron RN [1%nat] 1%nat 1 0 (-1) 1 2 1 1 None true [0] [0] [].
Definition S1 : serial (tensor RN) (dense RN) (neuron RN) :=
  serial_of (tensor RN) (dense RN) (neuron RN) (fun y => y) 1%Z 1%Z (c0, n1).
Definition q1 := mkRstate (tensor RN) (dense RN) (neuron RN) c0 c0 c0 n1 n1 None.

Theorem nonvacuous :
  LIl RN (s_layer S1) /\ LIc RN (s_layer S1) /\ SFresh RN S1 = S1 /\
  (exists S outs, run (SStep RN) S1 [SFwd [x0] None None true; SClear true None; SFwd [x0] None None false]
                  = Ok (S, outs) /\ length outs = 3%nat) /\
  NIs n1 /\ q_ok (tensor RN) (dense RN) (neuron RN) NIs q1 /\
  r_names_ok (tensor RN) (dense RN) (neuron RN) R0 /\
  (exists Bq, biclique_new (tensor RN) (dense RN) (neuron RN) (compat RN)
                [(1%Z, c0, None); (2%Z, c0, Some (fun y => y))] [(1%Z, n1, None); (5%Z, n1, None)]
                (combine_builtin RN CSum) = Ok Bq /\
              b_wf (tensor RN) (dense RN) (neuron RN) Bq).
Proof.
  assert (Hc : CI RN c0) by (unfold CI; simpl; repeat constructor).
  assert (Hn : NI RN n1) by (unfold NI; simpl; repeat split; auto; congruence).
  assert (Hs : NIs n1).
  { split; auto. simpl. repeat split; try lra. repeat constructor; simpl; lra. }
  split; [|split; [|split; [|split; [|split; [|split; [|split]]]]]].
  - split; simpl; [constructor; [exact Hc|constructor]|constructor; [split; [exact Hn|reflexivity]|constructor]].
  - split; simpl; [constructor; [exact Hc|constructor]|constructor; [exact Hn|constructor]].
  - reflexivity.
  - unfold SStep. cbn -[lif_elem nz to_current dot]. eexists; eexists; split; reflexivity.
  - exact Hs.
  - split; exact Hs.
  - unfold r_names_ok; simpl; repeat split; discriminate.
  - match goal with |- exists Bq, ?t = Ok Bq /\ _ => destruct t as [Bq|e] eqn:E end.
    + exists Bq. split; [reflexivity|]. eapply biclique_new_wf. exact E.
    + cbn in E. discriminate.
Qed.
Print Assumptions nonvacuous.
