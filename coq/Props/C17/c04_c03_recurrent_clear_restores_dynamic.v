(* Obligation C17/c04_c03_recurrent_clear_restores_dynamic.  Statement as printed by Coq from Inferno.C17.SynapsesC04Proofs; proof by reference.
   This file contains nothing else, so the statement cannot be weakened quietly. *)
From Coq Require Import List ZArith Bool Arith Lia.
From Inferno Require Import Base.Num C17.Layers C17.LayersSpec C17.Components C17.LayersProofs C17.ComponentsProofs C17.NeuronsC03 C17.NeuronsC03Proofs C17.SynapsesC04 C17.SynapsesC04Proofs.
From Inferno Require C01.Ring C04.Synapse C03.Neuron.
Import ListNotations.
Theorem c04_c03_recurrent_clear_restores_dynamic : forall (N : Num) (R0 : recurrent (tensor N) (conn4 N) (nmod N))
    (ops : list (recurrent_op (tensor N) (conn4 N) (nmod N) unit nkw (option bool)))
    (R : recurrent (tensor N) (conn4 N) (nmod N))
    (outs : list (option (tensor N * tensor N * list (Z * tensor N)))) 
    (xk : option bool),
  LI43 N (r_layer R0) ->
  Forall (rop_ok2 (tensor N) (conn4 N) (nmod N) unit nkw (option bool) (CI4 N) (NI3 N)) ops ->
  keepk3 xk ->
  run (RStep43 N) R0 ops = Ok (R, outs) ->
  RStep43 N R (RClear true true xk) = Ok (RFresh43 N R, None).
Proof. exact (@Inferno.C17.SynapsesC04Proofs.c04_c03_recurrent_clear_restores_dynamic). Qed.
Print Assumptions c04_c03_recurrent_clear_restores_dynamic.
