(* Obligation C17/c17_serial_new_fresh.  Statement as printed by Coq from Inferno.C17.ComponentsProofs; proof by reference.
   This file contains nothing else, so the statement cannot be weakened quietly. *)
From Coq Require Import List ZArith Bool Arith Lia.
From Inferno Require Import Base.Num Gen.NeuronDynamics Gen.NeuronAdaptation C17.Layers C17.LayersSpec C17.Components C17.LayersProofs C17.ComponentsProofs.
Import ListNotations.
Theorem c17_serial_new_fresh : forall (N : Num) (c : dense N) (n : neuron N) (tr : option (tensor N -> tensor N))
    (cn nn : Z) (S0 : serial (tensor N) (dense N) (neuron N)),
  serial_new (tensor N) (dense N) (neuron N) (compat N) (dense_fresh N c) 
    (neuron_fresh N n) tr cn nn = Ok S0 ->
  (n_acfg N n <> None -> length (n_adapt N n) = nsize N n) ->
  LIc N (s_layer S0) /\ SFresh N S0 = S0.
Proof. exact (@Inferno.C17.ComponentsProofs.c17_serial_new_fresh). Qed.
Print Assumptions c17_serial_new_fresh.
