(* Obligation C17/c03_spike_attr_is_output.  Statement as printed by Coq from Inferno.C17.NeuronsC03ProofsR; proof by reference.
   This file contains nothing else, so the statement cannot be weakened quietly. *)
From Coq Require Import List ZArith Bool Arith Lia Reals Lra.
From Inferno Require Import Base.Num Base.NumR C17.Layers C17.LayersSpec C17.Components C17.LayersProofs C17.ComponentsProofs C17.NeuronsC03 C17.NeuronsC03Proofs C17.NeuronsC03ProofsR.
From Inferno Require C03.Neuron C03.NeuronSpec C03.NeuronProofs.
Import ListNotations.
Open Scope R_scope.
Theorem c03_spike_attr_is_output : forall (m : nmod RN) (kw : nkw) (x : tensor RN) (m' : nmod RN) (z : tensor RN),
  NIs3 m -> nstep3 RN m kw x = Ok (m', z) -> nspike3 RN m' = z /\ NIs3 m'.
Proof. exact (@Inferno.C17.NeuronsC03ProofsR.c03_spike_attr_is_output). Qed.
Print Assumptions c03_spike_attr_is_output.
