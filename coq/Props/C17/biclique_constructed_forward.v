(* Obligation C17/biclique_constructed_forward.  Statement as printed by Coq from Inferno.C17.LayersProofs; proof by reference.
   This file contains nothing else, so the statement cannot be weakened quietly. *)
From Coq Require Import List ZArith Bool Lia.
From Inferno Require Import C17.Layers C17.LayersSpec C17.LayersProofs.
Import ListNotations.
Theorem biclique_constructed_forward : forall (V CS NS CK NK : Type) (ck0 : CK) (nk0 : NK)
    (cstep : CS -> CK -> list V -> res (CS * V)) (nstep : NS -> NK -> V -> res (NS * V))
    (compat : CS -> NS -> bool) (cs : list (Z * CS * option (V -> V)))
    (ns : list (Z * NS * option (V -> V))) (combine : list (Z * V) -> res V)
    (Bq : biclique V CS NS) (ins : list (Z * list V)) (ckw : list (Z * CK))
    (nkw : list (Z * NK)),
  biclique_new V CS NS compat cs ns combine = Ok Bq ->
  NoDup (keys ins) ->
  biclique_forward V CS NS CK NK ck0 nk0 cstep nstep Bq ins ckw nkw =
  bspec_forward V CS NS CK NK ck0 nk0 cstep nstep Bq ins ckw nkw.
Proof. exact (@Inferno.C17.LayersProofs.biclique_constructed_forward). Qed.
Print Assumptions biclique_constructed_forward.
