(* Obligation C17/c03_recurrent_output_shapes.  Statement as printed by Coq from Inferno.C17.NeuronsC03Proofs; proof by reference.
   This file contains nothing else, so the statement cannot be weakened quietly. *)
From Coq Require Import List ZArith Bool Arith Lia.
From Inferno Require Import Base.Num C17.Layers C17.LayersSpec C17.Components C17.LayersProofs C17.ComponentsProofs C17.NeuronsC03 C17.NeuronsC03Proofs.
From Inferno Require C03.Neuron.
Import ListNotations.
Theorem c03_recurrent_output_shapes : forall (N : Num) (R : recurrent (tensor N) (dense N) (nmod N)) (xs la fa : list (tensor N))
    (kff klat kfb : option unit) (nkff nkfb : option nkw)
    (R' : recurrent (tensor N) (dense N) (nmod N)) (zff zfb : tensor N)
    (ys : list (Z * tensor N)),
  recurrent_forward (tensor N) (dense N) (nmod N) unit nkw tt nkw0 
    (dense_step N) (nstep3 N) (nspike3 N) (tzeros_like N) (tadd N) R xs la fa kff klat kfb
    nkff nkfb = Ok (R', (zff, zfb, ys)) ->
  shape_at (nmod N) (list nat) (nbshape3 N) (neurs (r_layer R)) (r_ffn R) = Some (tsh zff) /\
  shape_at (nmod N) (list nat) (nbshape3 N) (neurs (r_layer R)) (r_fbn R) = Some (tsh zfb).
Proof. exact (@Inferno.C17.NeuronsC03Proofs.c03_recurrent_output_shapes). Qed.
Print Assumptions c03_recurrent_output_shapes.
