(* Obligation C17/serial_forward_spec.  Statement as printed by Coq from Inferno.C17.LayersProofs; proof by reference.
   This file contains nothing else, so the statement cannot be weakened quietly. *)
From Coq Require Import List ZArith Bool Lia.
From Inferno Require Import C17.Layers C17.LayersSpec C17.LayersProofs.
Import ListNotations.
Theorem serial_forward_spec : forall (V CS NS CK NK : Type) (ck0 : CK) (nk0 : NK)
    (cstep : CS -> CK -> list V -> res (CS * V)) (nstep : NS -> NK -> V -> res (NS * V))
    (tr : V -> V) (cn nn : Z) (s : CS * NS) (xs : list V) (ckw : option CK) 
    (nkw : option NK),
  serial_forward V CS NS CK NK ck0 nk0 cstep nstep (serial_of V CS NS tr cn nn s) xs ckw nkw =
  rmap (fun p : CS * NS * (V * V) => (serial_of V CS NS tr cn nn (fst p), snd p))
    (sspec_forward V CS NS CK NK ck0 nk0 cstep nstep tr s xs ckw nkw).
Proof. exact (@Inferno.C17.LayersProofs.serial_forward_spec). Qed.
Print Assumptions serial_forward_spec.
