(* Obligation C17/c03_biclique_output_shapes.  Statement as printed by Coq from Inferno.C17.NeuronsC03Proofs; proof by reference.
   This file contains nothing else, so the statement cannot be weakened quietly. *)
From Coq Require Import List ZArith Bool Arith Lia.
From Inferno Require Import Base.Num C17.Layers C17.LayersSpec C17.Components C17.LayersProofs C17.ComponentsProofs C17.NeuronsC03 C17.NeuronsC03Proofs.
From Inferno Require C03.Neuron.
Import ListNotations.
Theorem c03_biclique_output_shapes : forall (N : Num) (Bq : biclique (tensor N) (dense N) (nmod N))
    (ins : list (Z * list (tensor N))) (kc : list (Z * unit)) (kn : list (Z * nkw))
    (B' : biclique (tensor N) (dense N) (nmod N)) (zs ys : list (Z * tensor N)),
  biclique_forward (tensor N) (dense N) (nmod N) unit nkw tt nkw0 
    (dense_step N) (nstep3 N) Bq ins kc kn = Ok (B', (zs, ys)) ->
  Forall
    (fun p : Z * tensor N =>
     shape_at (nmod N) (list nat) (nbshape3 N) (neurs (b_layer Bq)) (fst p) =
     Some (tsh (snd p))) zs.
Proof. exact (@Inferno.C17.NeuronsC03Proofs.c03_biclique_output_shapes). Qed.
Print Assumptions c03_biclique_output_shapes.
