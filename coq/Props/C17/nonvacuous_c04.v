(* Obligation C17/nonvacuous_c04: the hypotheses of the C17 theorems instantiated with the C04 synapse model and the C03
   neuron model are met by a concrete layer: a Serial layer of a DOUBLE-EXPONENTIAL synapse (delay 3 ms at dt 1 ms,
   batched shape (1, 1)) under a 1x1 LinearDense map, feeding the Izhikevich group of nonvacuous_c03 (non-zero
   adaptations).  It satisfies LI43 and the default clear() on it gives the freshly constructed layer. *)
From Coq Require Import List ZArith Bool Arith Lia Reals Lra.
From Inferno Require Import Base.Num Base.NumR C17.Layers C17.LayersSpec C17.Components C17.LayersProofs
     C17.ComponentsProofs C17.NeuronsC03 C17.NeuronsC03Proofs C17.SynapsesC04 C17.SynapsesC04Proofs.
From Inferno Require C03.Neuron C04.Synapse.
Import ListNotations.
Open Scope R_scope.

Definition p_izh : N3.params RN :=
  @N3.mkParams RN 1 (-60) (-65) 0 0 (-30) 2 1 1 (-50) (4/100) 0 0 [50; 100] [2/10; 1/10] [2; 1].
Definition m_izh : nmod RN :=
  mkNmod RN N3.Izhikevich p_izh [1%nat] 1%nat
    (N3.mkState true (N3.set_adapt RN (N3.cols RN (N3.init RN N3.Izhikevich p_izh 1 1)) [[2; 1]])).
Definition cfg_dexp : S4.cfg RN :=
  S4.mkCfg RN S4.KDoubleExp [1%nat; 1%nat] 1 3 10 8 2 S4.IPrevious 0 (Some 0) (Some false) false.
Definition k_dexp : conn4 RN := cfresh4 RN (mkConn4 RN cfg_dexp (S4.init RN cfg_dexp) [1%nat] [[1]] None).
Definition S43 : serial (tensor RN) (conn4 RN) (nmod RN) :=
  serial_of (tensor RN) (conn4 RN) (nmod RN) (fun y => y) 1%Z 1%Z (k_dexp, m_izh).

Theorem nonvacuous_c04 :
  LI43 RN (s_layer S43) /\ SStep43 RN S43 (SClear true None) = Ok (SFresh43 RN S43, None) /\
  map (N3.ad RN) (m_cols RN (nfresh3 RN m_izh)) = [[2; 1]].
Proof.
  assert (Hc : CI4 RN k_dexp) by apply c04_constructor_invariant.
  assert (Hn : NI3 RN m_izh) by (unfold NI3; simpl; repeat constructor).
  assert (HL : LI43 RN (s_layer S43)).
  { split; simpl; [constructor; [exact Hc|constructor]|constructor; [exact Hn|constructor]]. }
  split; [exact HL|]. split; [|reflexivity].
  apply (c04_c03_serial_clear_restores_dynamic RN S43 [] S43 [] None); auto. reflexivity.
Qed.
Print Assumptions nonvacuous_c04.
