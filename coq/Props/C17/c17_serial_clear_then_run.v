(* Obligation C17/c17_serial_clear_then_run.  Statement as printed by Coq from Inferno.C17.ComponentsProofs; proof by reference.
   This file contains nothing else, so the statement cannot be weakened quietly. *)
From Coq Require Import List ZArith Bool Arith Lia.
From Inferno Require Import Base.Num Gen.NeuronDynamics Gen.NeuronAdaptation C17.Layers C17.LayersSpec C17.Components C17.LayersProofs C17.ComponentsProofs.
Import ListNotations.
Theorem c17_serial_clear_then_run : forall (N : Num) (S0 : serial (tensor N) (dense N) (neuron N))
    (ops : list (serial_op (tensor N) (dense N) (neuron N) unit nkw (option bool)))
    (S : serial (tensor N) (dense N) (neuron N)) (outs : list (option (tensor N * tensor N)))
    (xk : option bool)
    (ops2 : list (serial_op (tensor N) (dense N) (neuron N) unit nkw (option bool))),
  LIc N (s_layer S0) ->
  Forall (sop_ok (tensor N) (dense N) (neuron N) unit nkw (option bool) (CI N) (NI N)) ops ->
  keepk xk ->
  run (SStep N) S0 ops = Ok (S, outs) ->
  run (SStep N) S (SClear true xk :: ops2) =
  x <- run (SStep N) (SFresh N S) ops2;; (let (S2, o2) := x in Ok (S2, None :: o2)).
Proof. exact (@Inferno.C17.ComponentsProofs.c17_serial_clear_then_run). Qed.
Print Assumptions c17_serial_clear_then_run.
