(* Obligation C17/c03_biclique_clear_restores_dynamic.  Statement as printed by Coq from Inferno.C17.NeuronsC03Proofs; proof by reference.
   This file contains nothing else, so the statement cannot be weakened quietly. *)
From Coq Require Import List ZArith Bool Arith Lia.
From Inferno Require Import Base.Num C17.Layers C17.LayersSpec C17.Components C17.LayersProofs C17.ComponentsProofs C17.NeuronsC03 C17.NeuronsC03Proofs.
From Inferno Require C03.Neuron.
Import ListNotations.
Theorem c03_biclique_clear_restores_dynamic : forall (N : Num) (B0 : biclique (tensor N) (dense N) (nmod N))
    (ops : list (biclique_op (tensor N) (dense N) (nmod N) unit nkw (option bool)))
    (Bq : biclique (tensor N) (dense N) (nmod N))
    (outs : list (option (list (Z * tensor N) * list (Z * tensor N)))) 
    (xk : option bool),
  LI3 N (b_layer B0) ->
  Forall (bop_ok (tensor N) (dense N) (nmod N) unit nkw (option bool) (CI N) (NI3 N)) ops ->
  keepk3 xk ->
  run (BStep3 N) B0 ops = Ok (Bq, outs) ->
  BStep3 N Bq (BClear true xk) = Ok (BFresh3 N Bq, None).
Proof. exact (@Inferno.C17.NeuronsC03Proofs.c03_biclique_clear_restores_dynamic). Qed.
Print Assumptions c03_biclique_clear_restores_dynamic.
