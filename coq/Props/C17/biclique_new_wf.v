(* Obligation C17/biclique_new_wf.  Statement as printed by Coq from Inferno.C17.LayersProofs; proof by reference.
   This file contains nothing else, so the statement cannot be weakened quietly. *)
From Coq Require Import List ZArith Bool Lia.
From Inferno Require Import C17.Layers C17.LayersSpec C17.LayersProofs.
Import ListNotations.
Theorem biclique_new_wf : forall (V CS NS : Type) (compat : CS -> NS -> bool) (cs : list (Z * CS * option (V -> V)))
    (ns : list (Z * NS * option (V -> V))) (combine : list (Z * V) -> res V)
    (Bq : biclique V CS NS),
  biclique_new V CS NS compat cs ns combine = Ok Bq -> b_wf V CS NS Bq.
Proof. exact (@Inferno.C17.LayersProofs.biclique_new_wf). Qed.
Print Assumptions biclique_new_wf.
