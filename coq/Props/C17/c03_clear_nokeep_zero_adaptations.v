(* Obligation C17/c03_clear_nokeep_zero_adaptations.  Statement as printed by Coq from Inferno.C17.NeuronsC03Proofs; proof by reference.
   This file contains nothing else, so the statement cannot be weakened quietly. *)
From Coq Require Import List ZArith Bool Arith Lia.
From Inferno Require Import Base.Num C17.Layers C17.LayersSpec C17.Components C17.LayersProofs C17.ComponentsProofs C17.NeuronsC03 C17.NeuronsC03Proofs.
From Inferno Require C03.Neuron.
Import ListNotations.
Theorem c03_clear_nokeep_zero_adaptations : forall (N : Num) (m : nmod N),
  N3.has_adaptation (m_cls N m) = true ->
  Forall (fun col : N3.column N => Forall (fun a : T N => a = zero N) (N3.ad N col))
    (m_cols N (nclear3 N (Some false) m)).
Proof. exact (@Inferno.C17.NeuronsC03Proofs.c03_clear_nokeep_zero_adaptations). Qed.
Print Assumptions c03_clear_nokeep_zero_adaptations.
