(* Obligation C17/c03_recurrent_clear_then_run.  Statement as printed by Coq from Inferno.C17.NeuronsC03Proofs; proof by reference.
   This file contains nothing else, so the statement cannot be weakened quietly. *)
From Coq Require Import List ZArith Bool Arith Lia.
From Inferno Require Import Base.Num C17.Layers C17.LayersSpec C17.Components C17.LayersProofs C17.ComponentsProofs C17.NeuronsC03 C17.NeuronsC03Proofs.
From Inferno Require C03.Neuron.
Import ListNotations.
Theorem c03_recurrent_clear_then_run : forall (N : Num) (R0 : recurrent (tensor N) (dense N) (nmod N))
    (ops : list (recurrent_op (tensor N) (dense N) (nmod N) unit nkw (option bool)))
    (R : recurrent (tensor N) (dense N) (nmod N))
    (outs : list (option (tensor N * tensor N * list (Z * tensor N)))) 
    (xk : option bool)
    (ops2 : list (recurrent_op (tensor N) (dense N) (nmod N) unit nkw (option bool))),
  LI3 N (r_layer R0) ->
  Forall (rop_ok2 (tensor N) (dense N) (nmod N) unit nkw (option bool) (CI N) (NI3 N)) ops ->
  keepk3 xk ->
  run (RStep3 N) R0 ops = Ok (R, outs) ->
  run (RStep3 N) R (RClear true true xk :: ops2) =
  x <- run (RStep3 N) (RFresh3 N R) ops2;; (let (R2, o2) := x in Ok (R2, None :: o2)).
Proof. exact (@Inferno.C17.NeuronsC03Proofs.c03_recurrent_clear_then_run). Qed.
Print Assumptions c03_recurrent_clear_then_run.
