(* Obligation C17/c04_c03_recurrent_clear_replay.  Statement as printed by Coq from Inferno.C17.SynapsesC04Proofs; proof by reference.
   This file contains nothing else, so the statement cannot be weakened quietly. *)
From Coq Require Import List ZArith Bool Arith Lia.
From Inferno Require Import Base.Num C17.Layers C17.LayersSpec C17.Components C17.LayersProofs C17.ComponentsProofs C17.NeuronsC03 C17.NeuronsC03Proofs C17.SynapsesC04 C17.SynapsesC04Proofs.
From Inferno Require C01.Ring C04.Synapse C03.Neuron.
Import ListNotations.
Theorem c04_c03_recurrent_clear_replay : forall (N : Num) (R0 : recurrent (tensor N) (conn4 N) (nmod N))
    (pre post : list (recurrent_op (tensor N) (conn4 N) (nmod N) unit nkw (option bool)))
    (xk : option bool) (R1 : recurrent (tensor N) (conn4 N) (nmod N))
    (opre : list (option (tensor N * tensor N * list (Z * tensor N)))),
  LI43p N (r_layer R0) ->
  RFresh43 N R0 = R0 ->
  Forall (rop_frozen (tensor N) (conn4 N) (nmod N) unit nkw (option bool) anyk3) pre ->
  run (RStep43 N) R0 pre = Ok (R1, opre) ->
  run (RStep43 N) R0 (pre ++ RClear true true xk :: post) =
  x <- run (RStep43 N) R0 post;; (let (R2, opost) := x in Ok (R2, opre ++ None :: opost)).
Proof. exact (@Inferno.C17.SynapsesC04Proofs.c04_c03_recurrent_clear_replay). Qed.
Print Assumptions c04_c03_recurrent_clear_replay.
