(* Obligation C17/c03_serial_output_shape.  Statement as printed by Coq from Inferno.C17.NeuronsC03Proofs; proof by reference.
   This file contains nothing else, so the statement cannot be weakened quietly. *)
From Coq Require Import List ZArith Bool Arith Lia.
From Inferno Require Import Base.Num C17.Layers C17.LayersSpec C17.Components C17.LayersProofs C17.ComponentsProofs C17.NeuronsC03 C17.NeuronsC03Proofs.
From Inferno Require C03.Neuron.
Import ListNotations.
Theorem c03_serial_output_shape : forall (N : Num) (S : serial (tensor N) (dense N) (nmod N)) (xs : list (tensor N))
    (kc : option unit) (kn : option nkw) (S' : serial (tensor N) (dense N) (nmod N))
    (z y : tensor N),
  serial_forward (tensor N) (dense N) (nmod N) unit nkw tt nkw0 (dense_step N) 
    (nstep3 N) S xs kc kn = Ok (S', (z, y)) ->
  shape_at (nmod N) (list nat) (nbshape3 N) (neurs (s_layer S)) (s_nn S) = Some (tsh z).
Proof. exact (@Inferno.C17.NeuronsC03Proofs.c03_serial_output_shape). Qed.
Print Assumptions c03_serial_output_shape.
