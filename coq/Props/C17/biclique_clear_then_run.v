(* Obligation C17/biclique_clear_then_run.  Statement as printed by Coq from Inferno.C17.LayersProofs; proof by reference.
   This file contains nothing else, so the statement cannot be weakened quietly. *)
From Coq Require Import List ZArith Bool Lia.
From Inferno Require Import C17.Layers C17.LayersSpec C17.LayersProofs.
Import ListNotations.
Theorem biclique_clear_then_run : forall (V CS NS CK NK XK : Type) (ck0 : CK) (nk0 : NK)
    (cstep : CS -> CK -> list V -> res (CS * V)) (nstep : NS -> NK -> V -> res (NS * V))
    (cclear : XK -> CS -> CS) (nclear : XK -> NS -> NS) (cfresh : CS -> CS)
    (nfresh : NS -> NS) (CI : CS -> Prop) (NI : NS -> Prop) (keepk : XK -> Prop),
  (forall (xk : XK) (c : CS), CI c -> cclear xk c = cfresh c) ->
  (forall (xk : XK) (n : NS), keepk xk -> NI n -> nclear xk n = nfresh n) ->
  (forall (c : CS) (kw : CK) (x : list V) (c' : CS) (y : V),
   CI c -> cstep c kw x = Ok (c', y) -> CI c') ->
  (forall (n : NS) (kw : NK) (x : V) (n' : NS) (z : V),
   NI n -> nstep n kw x = Ok (n', z) -> NI n') ->
  (forall (xk : XK) (c : CS), CI c -> CI (cclear xk c)) ->
  (forall (xk : XK) (n : NS), NI n -> NI (nclear xk n)) ->
  forall (B0 : biclique V CS NS) (ops : list (biclique_op V CS NS CK NK XK))
    (Bq : biclique V CS NS) (outs : list (option (list (Z * V) * list (Z * V)))) 
    (xk : XK) (ops2 : list (biclique_op V CS NS CK NK XK)),
  LI CS NS CI NI (b_layer B0) ->
  Forall (bop_ok V CS NS CK NK XK CI NI) ops ->
  keepk xk ->
  run (biclique_step V CS NS CK NK XK ck0 nk0 cstep nstep cclear nclear) B0 ops =
  Ok (Bq, outs) ->
  run (biclique_step V CS NS CK NK XK ck0 nk0 cstep nstep cclear nclear) Bq
    (BClear true xk :: ops2) =
  x <-
  run (biclique_step V CS NS CK NK XK ck0 nk0 cstep nstep cclear nclear)
    (biclique_fresh V CS NS cfresh nfresh Bq) ops2;;
  (let (B2, o2) := x in Ok (B2, None :: o2)).
Proof. exact (@Inferno.C17.LayersProofs.biclique_clear_then_run). Qed.
Print Assumptions biclique_clear_then_run.
