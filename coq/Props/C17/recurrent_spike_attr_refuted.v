(* Obligation C17/recurrent_spike_attr_refuted.  Statement as printed by Coq from Inferno.C17.ComponentsProofsR; proof by reference.
   This file contains nothing else, so the statement cannot be weakened quietly. *)
From Coq Require Import List ZArith Bool Arith Lia Reals Lra.
From Inferno Require Import Base.Num Base.NumR Gen.NeuronDynamics Gen.NeuronAdaptation C17.Layers C17.LayersSpec C17.Components C17.LayersProofs C17.ComponentsProofs C17.ComponentsProofsR.
Import ListNotations.
Open Scope R_scope.
Theorem recurrent_spike_attr_refuted : r_names_ok (tensor RN) (dense RN) (neuron RN) R0 /\
  (exists
     (q_doc : rstate (tensor RN) (dense RN) (neuron RN)) (out_doc : 
                                                          tensor RN * tensor RN *
                                                          list (Z * tensor RN)),
     fwd_spec false = Ok (q_doc, out_doc) /\
     fwd_layer <> Ok (r_of (tensor RN) (dense RN) (neuron RN) R0 q_doc, out_doc)).
Proof. exact (@Inferno.C17.ComponentsProofsR.recurrent_spike_attr_refuted). Qed.
Print Assumptions recurrent_spike_attr_refuted.
