(* Obligation C17/serial_output_shape.  Statement as printed by Coq from Inferno.C17.LayersProofs; proof by reference.
   This file contains nothing else, so the statement cannot be weakened quietly. *)
From Coq Require Import List ZArith Bool Lia.
From Inferno Require Import C17.Layers C17.LayersSpec C17.LayersProofs.
Import ListNotations.
Theorem serial_output_shape : forall (V CS NS CK NK : Type) (ck0 : CK) (nk0 : NK)
    (cstep : CS -> CK -> list V -> res (CS * V)) (nstep : NS -> NK -> V -> res (NS * V))
    (Sh : Type) (vshape : V -> Sh) (nbshape : NS -> Sh),
  (forall (n : NS) (kw : NK) (x : V) (n' : NS) (z : V),
   nstep n kw x = Ok (n', z) -> vshape z = nbshape n /\ nbshape n' = nbshape n) ->
  forall (S : serial V CS NS) (xs : list V) (ckw : option CK) (nkw : option NK)
    (S' : serial V CS NS) (z y : V),
  serial_forward V CS NS CK NK ck0 nk0 cstep nstep S xs ckw nkw = Ok (S', (z, y)) ->
  shape_at NS Sh nbshape (neurs (s_layer S)) (s_nn S) = Some (vshape z).
Proof. exact (@Inferno.C17.LayersProofs.serial_output_shape). Qed.
Print Assumptions serial_output_shape.
