(* Obligation C17/c17_biclique_new_fresh.  Statement as printed by Coq from Inferno.C17.ComponentsProofs; proof by reference.
   This file contains nothing else, so the statement cannot be weakened quietly. *)
From Coq Require Import List ZArith Bool Arith Lia.
From Inferno Require Import Base.Num Gen.NeuronDynamics Gen.NeuronAdaptation C17.Layers C17.LayersSpec C17.Components C17.LayersProofs C17.ComponentsProofs.
Import ListNotations.
Theorem c17_biclique_new_fresh : forall (N : Num) (cs : list (Z * dense N * option (tensor N -> tensor N)))
    (ns : list (Z * neuron N * option (tensor N -> tensor N)))
    (combine : list (Z * tensor N) -> res (tensor N))
    (B0 : biclique (tensor N) (dense N) (neuron N)),
  biclique_new (tensor N) (dense N) (neuron N) (compat N) cs ns combine = Ok B0 ->
  Forall
    (fun p : Z * dense N * option (tensor N -> tensor N) =>
     exists c : dense N, snd (fst p) = dense_fresh N c) cs ->
  Forall
    (fun p : Z * neuron N * option (tensor N -> tensor N) =>
     exists n : neuron N,
       snd (fst p) = neuron_fresh N n /\
       (n_acfg N n <> None -> length (n_adapt N n) = nsize N n)) ns ->
  LIc N (b_layer B0) /\ BFresh N B0 = B0 /\ b_wf (tensor N) (dense N) (neuron N) B0.
Proof. exact (@Inferno.C17.ComponentsProofs.c17_biclique_new_fresh). Qed.
Print Assumptions c17_biclique_new_fresh.
