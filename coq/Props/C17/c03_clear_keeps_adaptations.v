(* Obligation C17/c03_clear_keeps_adaptations.  Statement as printed by Coq from Inferno.C17.NeuronsC03Proofs; proof by reference.
   This file contains nothing else, so the statement cannot be weakened quietly. *)
From Coq Require Import List ZArith Bool Arith Lia.
From Inferno Require Import Base.Num C17.Layers C17.LayersSpec C17.Components C17.LayersProofs C17.ComponentsProofs C17.NeuronsC03 C17.NeuronsC03Proofs.
From Inferno Require C03.Neuron.
Import ListNotations.
Theorem c03_clear_keeps_adaptations : forall (N : Num) (xk : option bool) (m : nmod N),
  keep_of xk = true -> map (N3.ad N) (m_cols N (nclear3 N xk m)) = map (N3.ad N) (m_cols N m).
Proof. exact (@Inferno.C17.NeuronsC03Proofs.c03_clear_keeps_adaptations). Qed.
Print Assumptions c03_clear_keeps_adaptations.
