(* Obligation C17/neuron_clear_is_fresh.  Statement as printed by Coq from Inferno.C17.ComponentsProofs; proof by reference.
   This file contains nothing else, so the statement cannot be weakened quietly. *)
From Coq Require Import List ZArith Bool Arith Lia.
From Inferno Require Import Base.Num Gen.NeuronDynamics Gen.NeuronAdaptation C17.Layers C17.LayersSpec C17.Components C17.LayersProofs C17.ComponentsProofs.
Import ListNotations.
Theorem neuron_clear_is_fresh : forall (N : Num) (xk : option bool) (n : neuron N),
  keepk xk -> NI N n -> neuron_clear N xk n = neuron_fresh N n.
Proof. exact (@Inferno.C17.ComponentsProofs.neuron_clear_is_fresh). Qed.
Print Assumptions neuron_clear_is_fresh.
