(* Obligation C17/biclique_run_spec.  Statement as printed by Coq from Inferno.C17.LayersProofs; proof by reference.
   This file contains nothing else, so the statement cannot be weakened quietly. *)
From Coq Require Import List ZArith Bool Lia.
From Inferno Require Import C17.Layers C17.LayersSpec C17.LayersProofs.
Import ListNotations.
Theorem biclique_run_spec : forall (V CS NS CK NK XK : Type) (ck0 : CK) (nk0 : NK)
    (cstep : CS -> CK -> list V -> res (CS * V)) (nstep : NS -> NK -> V -> res (NS * V))
    (cclear : XK -> CS -> CS) (nclear : XK -> NS -> NS)
    (ops : list (biclique_op V CS NS CK NK XK)) (Bq : biclique V CS NS),
  b_wf V CS NS Bq ->
  Forall (bop_nodup V CS NS CK NK XK) ops ->
  run (biclique_step V CS NS CK NK XK ck0 nk0 cstep nstep cclear nclear) Bq ops =
  run (bspec_step V CS NS CK NK XK ck0 nk0 cstep nstep cclear nclear) Bq ops.
Proof. exact (@Inferno.C17.LayersProofs.biclique_run_spec). Qed.
Print Assumptions biclique_run_spec.
