(* Obligation C17/c17_biclique_clear_replay.  Statement as printed by Coq from Inferno.C17.ComponentsProofs; proof by reference.
   This file contains nothing else, so the statement cannot be weakened quietly. *)
From Coq Require Import List ZArith Bool Arith Lia.
From Inferno Require Import Base.Num Gen.NeuronDynamics Gen.NeuronAdaptation C17.Layers C17.LayersSpec C17.Components C17.LayersProofs C17.ComponentsProofs.
Import ListNotations.
Theorem c17_biclique_clear_replay : forall (N : Num) (B0 : biclique (tensor N) (dense N) (neuron N))
    (pre post : list (biclique_op (tensor N) (dense N) (neuron N) unit nkw (option bool)))
    (xk : option bool) (B1 : biclique (tensor N) (dense N) (neuron N))
    (opre : list (option (list (Z * tensor N) * list (Z * tensor N)))),
  LIl N (b_layer B0) ->
  BFresh N B0 = B0 ->
  Forall (bop_frozen (tensor N) (dense N) (neuron N) unit nkw (option bool) anyk) pre ->
  run (BStep N) B0 pre = Ok (B1, opre) ->
  run (BStep N) B0 (pre ++ BClear true xk :: post) =
  x <- run (BStep N) B0 post;; (let (B2, opost) := x in Ok (B2, opre ++ None :: opost)).
Proof. exact (@Inferno.C17.ComponentsProofs.c17_biclique_clear_replay). Qed.
Print Assumptions c17_biclique_clear_replay.
