(* Obligation C17/biclique_output_shapes.  Statement as printed by Coq from Inferno.C17.LayersProofs; proof by reference.
   This file contains nothing else, so the statement cannot be weakened quietly. *)
From Coq Require Import List ZArith Bool Lia.
From Inferno Require Import C17.Layers C17.LayersSpec C17.LayersProofs.
Import ListNotations.
Theorem biclique_output_shapes : forall (V CS NS CK NK : Type) (ck0 : CK) (nk0 : NK)
    (cstep : CS -> CK -> list V -> res (CS * V)) (nstep : NS -> NK -> V -> res (NS * V))
    (Sh : Type) (vshape : V -> Sh) (nbshape : NS -> Sh),
  (forall (n : NS) (kw : NK) (x : V) (n' : NS) (z : V),
   nstep n kw x = Ok (n', z) -> vshape z = nbshape n /\ nbshape n' = nbshape n) ->
  forall (Bq : biclique V CS NS) (ins : list (Z * list V)) (ckw : list (Z * CK))
    (nkw : list (Z * NK)) (B' : biclique V CS NS) (zs ys : list (Z * V)),
  biclique_forward V CS NS CK NK ck0 nk0 cstep nstep Bq ins ckw nkw = Ok (B', (zs, ys)) ->
  Forall
    (fun p : Z * V =>
     shape_at NS Sh nbshape (neurs (b_layer Bq)) (fst p) = Some (vshape (snd p))) zs.
Proof. exact (@Inferno.C17.LayersProofs.biclique_output_shapes). Qed.
Print Assumptions biclique_output_shapes.
