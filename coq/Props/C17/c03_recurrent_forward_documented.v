(* Obligation C17/c03_recurrent_forward_documented.  Statement as printed by Coq from Inferno.C17.NeuronsC03ProofsR; proof by reference.
   This file contains nothing else, so the statement cannot be weakened quietly. *)
From Coq Require Import List ZArith Bool Arith Lia Reals Lra.
From Inferno Require Import Base.Num Base.NumR C17.Layers C17.LayersSpec C17.Components C17.LayersProofs C17.ComponentsProofs C17.NeuronsC03 C17.NeuronsC03Proofs C17.NeuronsC03ProofsR.
From Inferno Require C03.Neuron C03.NeuronSpec C03.NeuronProofs.
Import ListNotations.
Open Scope R_scope.
Theorem c03_recurrent_forward_documented : forall (R : recurrent (tensor RN) (dense RN) (nmod RN))
    (ops : list (recurrent_op (tensor RN) (dense RN) (nmod RN) unit nkw (option bool)))
    (q : rstate (tensor RN) (dense RN) (nmod RN)),
  r_names_ok (tensor RN) (dense RN) (nmod RN) R ->
  q_ok (tensor RN) (dense RN) (nmod RN) NIs3 q ->
  Forall (rop_ok (tensor RN) (dense RN) (nmod RN) unit nkw (option bool) NIs3) ops ->
  run (RStep3 RN) (r_of (tensor RN) (dense RN) (nmod RN) R q) ops =
  rmap
    (fun
       p : rstate (tensor RN) (dense RN) (nmod RN) *
           list (option (tensor RN * tensor RN * list (Z * tensor RN))) =>
     (r_of (tensor RN) (dense RN) (nmod RN) R (fst p), snd p))
    (run
       (rspec_step (tensor RN) (dense RN) (nmod RN) unit nkw (option bool) tt nkw0
          (dense_step RN) (nstep3 RN) (nspike3 RN) (dense_clear RN) 
          (nclear3 RN) (tzeros_like RN) (tadd RN) false R) q ops).
Proof. exact (@Inferno.C17.NeuronsC03ProofsR.c03_recurrent_forward_documented). Qed.
Print Assumptions c03_recurrent_forward_documented.
