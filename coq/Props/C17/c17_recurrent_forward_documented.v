(* Obligation C17/c17_recurrent_forward_documented.  Statement as printed by Coq from Inferno.C17.ComponentsProofsR; proof by reference.
   This file contains nothing else, so the statement cannot be weakened quietly. *)
From Coq Require Import List ZArith Bool Arith Lia Reals Lra.
From Inferno Require Import Base.Num Base.NumR Gen.NeuronDynamics Gen.NeuronAdaptation C17.Layers C17.LayersSpec C17.Components C17.LayersProofs C17.ComponentsProofs C17.ComponentsProofsR.
Import ListNotations.
Open Scope R_scope.
Theorem c17_recurrent_forward_documented : forall (R : recurrent (tensor RN) (dense RN) (neuron RN))
    (ops : list (recurrent_op (tensor RN) (dense RN) (neuron RN) unit nkw (option bool)))
    (q : rstate (tensor RN) (dense RN) (neuron RN)),
  r_names_ok (tensor RN) (dense RN) (neuron RN) R ->
  q_ok (tensor RN) (dense RN) (neuron RN) NIs q ->
  Forall (rop_ok (tensor RN) (dense RN) (neuron RN) unit nkw (option bool) NIs) ops ->
  run (RStep RN) (r_of (tensor RN) (dense RN) (neuron RN) R q) ops =
  rmap
    (fun
       p : rstate (tensor RN) (dense RN) (neuron RN) *
           list (option (tensor RN * tensor RN * list (Z * tensor RN))) =>
     (r_of (tensor RN) (dense RN) (neuron RN) R (fst p), snd p))
    (run
       (rspec_step (tensor RN) (dense RN) (neuron RN) unit nkw (option bool) tt nkw0
          (dense_step RN) (neuron_step RN) (neuron_spike RN) (dense_clear RN)
          (neuron_clear RN) (tzeros_like RN) (tadd RN) false R) q ops).
Proof. exact (@Inferno.C17.ComponentsProofsR.c17_recurrent_forward_documented). Qed.
Print Assumptions c17_recurrent_forward_documented.
