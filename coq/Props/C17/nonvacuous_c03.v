(* Obligation C17/nonvacuous_c03: the hypotheses of the C17 theorems instantiated with the C03 neuron model are met by a
   concrete, non-trivial layer: a Serial layer whose group is an IZHIKEVICH population (one neuron, batch 1) carrying
   NON-ZERO learned current adaptations (2, 1).  It satisfies the invariant LI3; the default clear() on it succeeds and
   gives the freshly constructed layer, in which the adaptations are still (2, 1); clear(keep_adaptations=False) zeroes
   them; the group satisfies the spike-attribute invariant NIs3 (refrac_t = 2 > 0, constructor domain ctor_ok). *)
From Coq Require Import List ZArith Bool Arith Lia Reals Lra.
From Inferno Require Import Base.Num Base.NumR C17.Layers C17.LayersSpec C17.Components C17.LayersProofs
     C17.ComponentsProofs C17.ComponentsProofsR C17.NeuronsC03 C17.NeuronsC03Proofs C17.NeuronsC03ProofsR.
From Inferno Require C03.Neuron C03.NeuronSpec.
Import ListNotations.
Open Scope R_scope.

Definition p_izh : N3.params RN :=
  @N3.mkParams RN 1 (-60) (-65) 0 0 (-30) 2 1 1 (-50) (4/100) 0 0 [50; 100] [2/10; 1/10] [2; 1].
Definition m_izh : nmod RN :=
  mkNmod RN N3.Izhikevich p_izh [1%nat] 1%nat
    (N3.mkState true (N3.set_adapt RN (N3.cols RN (N3.init RN N3.Izhikevich p_izh 1 1)) [[2; 1]])).
Definition S_izh : serial (tensor RN) (dense RN) (nmod RN) :=
  serial_of (tensor RN) (dense RN) (nmod RN) (fun y => y) 1%Z 1%Z (c0, m_izh).

Theorem nonvacuous_c03 :
  LI3 RN (s_layer S_izh) /\
  SStep3 RN S_izh (SClear true None) = Ok (SFresh3 RN S_izh, None) /\
  map (N3.ad RN) (m_cols RN (nfresh3 RN m_izh)) = [[2; 1]] /\
  map (N3.ad RN) (m_cols RN (nclear3 RN (Some false) m_izh)) = [[0; 0]] /\
  NIs3 m_izh.
Proof.
  assert (Hc : CI RN c0) by (unfold CI; simpl; repeat constructor).
  assert (Hn : NI3 RN m_izh) by (unfold NI3; simpl; repeat constructor).
  assert (HL : LI3 RN (s_layer S_izh)).
  { split; simpl; [constructor; [exact Hc|constructor]|constructor; [exact Hn|constructor]]. }
  split; [exact HL|]. split.
  - apply (c03_serial_clear_restores_dynamic RN S_izh [] S_izh [] None); auto. reflexivity.
  - split; [reflexivity|]. split; [reflexivity|].
    split; [exact Hn|]. split.
    + unfold N3.ctor_ok, N3.ctor_common, N3.all_pos. simpl. rn_unfold.
      repeat match goal with
             | |- context [Rltb' ?a ?b] => destruct (Rltb'_spec a b); [|exfalso; lra]
             | |- context [Rleb' ?a ?b] => destruct (Rleb'_spec a b); [|exfalso; lra]
             | |- context [Reqb' ?a ?b] => destruct (Reqb'_spec a b); [exfalso; lra|]
             end. reflexivity.
    + split; [simpl; lra|]. unfold S3.all_cells. simpl. repeat constructor; simpl; lra.
Qed.
Print Assumptions nonvacuous_c03.
