(* Obligation C09/h_run_v_const.  Statement as printed by Coq from Inferno.C09.HomeoProofs; proof by reference.
   This file contains nothing else, so the statement cannot be weakened quietly. *)
From Coq Require Import List ZArith Bool Reals Lra Lia.
From Inferno Require Import Base.Num Base.NumR Gen.Bounding C18.DelayAdj C18.DelayAdjProofs C09.Split C09.HomeoProofs.
Import ListNotations.
Open Scope R_scope.
Theorem h_run_v_const : forall (rk : hred) (p : hparam) (lam : T RN) (targets : list (list (T RN)))
    (steps : list (list (list bool))) (st : hstate RN),
  h_run_v RN rk p lam st (map (fun s : list (list bool) => (targets, s)) steps) =
  h_run RN rk p lam targets st steps.
Proof. exact (@Inferno.C09.HomeoProofs.h_run_v_const). Qed.
Print Assumptions h_run_v_const.
