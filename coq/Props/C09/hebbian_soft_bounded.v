(* Obligation C09/hebbian_soft_bounded.  Statement as printed by Coq from Inferno.C09.ComposeProofs; proof by reference.
   This file contains nothing else, so the statement cannot be weakened quietly. *)
From Coq Require Import List ZArith Bool Reals Lra Lia.
From Inferno Require Import Base.Num Base.NumR Gen.Trace Gen.Infra Gen.Interpolation Gen.Bounding C08.Stdp C08.StdpSpec C08.StdpProofs C09.Split C09.HomeoProofs C09.StdpSplitProofs C09.ComposeProofs.
Import ListNotations.
Open Scope R_scope.
Theorem hebbian_soft_bounded : forall (c : config RN) (k : nat) (h : list (bool * bool)) (w mx mn : T RN),
  grid_ok c k ->
  c_trainer RN c = STDP \/ c_trainer RN c = StableSTDP ->
  0 <= c_lr_post RN c ->
  c_lr_pre RN c < 0 ->
  pv
    (bind_update RN (BHalf RN (SBound RN (HMulU RN) mx) (SBound RN (HMulL RN) mn)) w
       (final_acc RN (run RN c k (init_batch RN 1) (inps1 (nosig h))))) =
  (mx - w) *
  (c_lr_post RN c *
   pairsum (c_mode RN c) (c_dt RN c) (c_tc_pre RN c) (fun _ : nat => 1) 
     (post_train h) (pre_train c k h)) -
  (w - mn) *
  (Rabs (c_lr_pre RN c) *
   pairsum (c_mode RN c) (c_dt RN c) (c_tc_post RN c) (fun _ : nat => 1) 
     (pre_train c k h) (post_train h)).
Proof. exact (@Inferno.C09.ComposeProofs.hebbian_soft_bounded). Qed.
Print Assumptions hebbian_soft_bounded.
