(* Obligation C09/parts_nonneg.  Statement as printed by Coq from Inferno.C18.DelayAdjProofs; proof by reference.
   This file contains nothing else, so the statement cannot be weakened quietly. *)
From Coq Require Import List ZArith Bool Reals Lra Lia.
From Inferno Require Import Base.Num Base.NumR Gen.Stdkernels C18.DelayAdj C18.EventProofs C18.DelayAdjProofs.
Import ListNotations.
Open Scope R_scope.
Theorem parts_nonneg : forall (red : list R -> R) (tr : trainer RN) (sg : signal RN) (tds : list (list nvR)),
  sign_red red ->
  0 <= part_val RN (fst (fwd RN red tr sg tds)) /\
  0 <= part_val RN (snd (fwd RN red tr sg tds)).
Proof. exact (@Inferno.C18.DelayAdjProofs.parts_nonneg). Qed.
Print Assumptions parts_nonneg.
