(* Obligation C09/triplet_parts_run.  Statement as printed by Coq from Inferno.C09.ComposeProofs; proof by reference.
   This file contains nothing else, so the statement cannot be weakened quietly. *)
From Coq Require Import List ZArith Bool Reals Lra Lia.
From Inferno Require Import Base.Num Base.NumR Gen.Trace Gen.Infra Gen.Interpolation Gen.Bounding C08.Stdp C08.StdpSpec C08.StdpProofs C09.Split C09.HomeoProofs C09.StdpSplitProofs C09.ComposeProofs.
Import ListNotations.
Open Scope R_scope.
Theorem triplet_parts_run : forall (c : config RN) (k : nat),
  grid_ok c k ->
  c_trainer RN c = TripletSTDP \/ c_trainer RN c = StableTripletSTDP ->
  c_lr_post RN c <> 0 ->
  c_lr_pre RN c <> 0 ->
  forall h : list (bool * bool),
  let a := final_acc RN (run RN c k (init_batch RN 1) (inps1 (nosig h))) in
  ov (fst a) = sum_steps (length h) (tpos_t c k h) /\
  ov (snd a) = sum_steps (length h) (tneg_t c k h).
Proof. exact (@Inferno.C09.ComposeProofs.triplet_parts_run). Qed.
Print Assumptions triplet_parts_run.
