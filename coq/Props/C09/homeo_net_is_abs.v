(* Obligation C09/homeo_net_is_abs.  Statement as printed by Coq from Inferno.C09.HomeoProofs; proof by reference.
   This file contains nothing else, so the statement cannot be weakened quietly. *)
From Coq Require Import List ZArith Bool Reals Lra Lia.
From Inferno Require Import Base.Num Base.NumR Gen.Bounding C18.DelayAdj C18.DelayAdjProofs C09.Split C09.HomeoProofs.
Import ListNotations.
Open Scope R_scope.
Theorem homeo_net_is_abs : forall (rk : hred) (p : hparam) (lam : R) (targets rates : list (list R)),
  linear_kind rk ->
  pv (fst (h_forward RN rk p lam targets rates)) -
  pv (snd (h_forward RN rk p lam targets rates)) =
  hreduce RN rk (map Rabs (h_ks RN p lam targets rates)).
Proof. exact (@Inferno.C09.HomeoProofs.homeo_net_is_abs). Qed.
Print Assumptions homeo_net_is_abs.
