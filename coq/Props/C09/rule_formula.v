(* Obligation C09/rule_formula.  Statement as printed by Coq from Inferno.C18.DelayAdjProofs; proof by reference.
   This file contains nothing else, so the statement cannot be weakened quietly. *)
From Coq Require Import List ZArith Bool Reals Lra Lia.
From Inferno Require Import Base.Num Base.NumR Gen.Stdkernels C18.DelayAdj C18.EventProofs C18.DelayAdjProofs.
Import ListNotations.
Open Scope R_scope.
Theorem rule_formula : forall (red : list R -> R) (tr : trainer RN) (sg : signal RN) (tds : list (list nvR))
    (v : R),
  documented_net red tr sg tds = Some v ->
  tcs_nonzero tr -> red_ok red sg -> net RN (fwd RN red tr sg tds) = v.
Proof. exact (@Inferno.C18.DelayAdjProofs.rule_formula). Qed.
Print Assumptions rule_formula.
