(* Obligation C09/homeo_bias_is_weight.  Statement as printed by Coq from Inferno.C09.HomeoProofs; proof by reference.
   This file contains nothing else, so the statement cannot be weakened quietly. *)
From Coq Require Import List ZArith Bool Reals Lra Lia.
From Inferno Require Import Base.Num Base.NumR Gen.Bounding C18.DelayAdj C18.DelayAdjProofs C09.Split C09.HomeoProofs.
Import ListNotations.
Open Scope R_scope.
Theorem homeo_bias_is_weight : forall (rk : hred) (lam : T RN) (targets rates : list (list (T RN))),
  h_forward RN rk PBias lam targets rates = h_forward RN rk PWeight lam targets rates.
Proof. exact (@Inferno.C09.HomeoProofs.homeo_bias_is_weight). Qed.
Print Assumptions homeo_bias_is_weight.
