(* Obligation C09/sum_sign_red.  Statement as printed by Coq from Inferno.C18.DelayAdjProofs; proof by reference.
   This file contains nothing else, so the statement cannot be weakened quietly. *)
From Coq Require Import List ZArith Bool Reals Lra Lia.
From Inferno Require Import Base.Num Base.NumR Gen.Stdkernels C18.DelayAdj C18.EventProofs C18.DelayAdjProofs.
Import ListNotations.
Open Scope R_scope.
Theorem sum_sign_red : sign_red (reduce RN RSum).
Proof. exact (@Inferno.C18.DelayAdjProofs.sum_sign_red). Qed.
Print Assumptions sum_sign_red.
