(* Obligation C09/homeo_rates_below_target_ok.  Statement as printed by Coq from Inferno.C09.HomeoProofs; proof by reference.
   This file contains nothing else, so the statement cannot be weakened quietly. *)
From Coq Require Import List ZArith Bool Reals Lra Lia.
From Inferno Require Import Base.Num Base.NumR Gen.Bounding C18.DelayAdj C18.DelayAdjProofs C09.Split C09.HomeoProofs.
Import ListNotations.
Open Scope R_scope.
Theorem homeo_rates_below_target_ok : forall (rk : hred) (lam : R) (targets rates : list (list R)),
  0 <= lam ->
  Forall2 (Forall2 (fun t x : R => 0 <= x <= t /\ 0 < t)) targets rates ->
  let out := h_forward RN rk PWeight lam targets rates in
  pv (snd out) = 0 /\
  pv (fst out) - pv (snd out) = hreduce RN rk (zip2 (doc_term PWeight lam) targets rates).
Proof. exact (@Inferno.C09.HomeoProofs.homeo_rates_below_target_ok). Qed.
Print Assumptions homeo_rates_below_target_ok.
