(* Obligation C09/mstdpet_parts_run.  Statement as printed by Coq from Inferno.C09.ComposeProofs; proof by reference.
   This file contains nothing else, so the statement cannot be weakened quietly. *)
From Coq Require Import List ZArith Bool Reals Lra Lia.
From Inferno Require Import Base.Num Base.NumR Gen.Trace Gen.Infra Gen.Interpolation Gen.Bounding C08.Stdp C08.StdpSpec C08.StdpProofs C09.Split C09.HomeoProofs C09.StdpSplitProofs C09.ComposeProofs.
Import ListNotations.
Open Scope R_scope.
Theorem mstdpet_parts_run : forall (c : config RN) (k : nat),
  grid_ok c k ->
  c_trainer RN c = MSTDPET ->
  forall hx : list (bool * bool * (R * R)),
  let a := final_acc RN (run RN c k (init_batch RN 1) (inps1 (withsig hx))) in
  ov (fst a) = sum_steps (length hx) (epos c k hx) /\
  ov (snd a) = sum_steps (length hx) (eneg c k hx).
Proof. exact (@Inferno.C09.ComposeProofs.mstdpet_parts_run). Qed.
Print Assumptions mstdpet_parts_run.
