(* Obligation C09/da_mstdpd_tensor_rule.  Statement as printed by Coq from Inferno.C18.DelayAdjProofs; proof by reference.
   This file contains nothing else, so the statement cannot be weakened quietly. *)
From Coq Require Import List ZArith Bool Reals Lra Lia.
From Inferno Require Import Base.Num Base.NumR Gen.Stdkernels C18.DelayAdj C18.EventProofs C18.DelayAdjProofs.
Import ListNotations.
Open Scope R_scope.
Theorem da_mstdpd_tensor_rule : forall (lr_neg lr_pos : T RN) (tc_neg tc_pos : R) (ss : list (T RN)) 
    (scale : T RN) (tds : list (list nvR)),
  tc_pos <> 0 ->
  tc_neg <> 0 ->
  net RN (da_mstdpd_tensor RN (reduce RN RSum) lr_neg lr_pos tc_neg tc_pos ss scale tds) =
  tsum RN
    (map2
       (fun (row : list nvR) (s : R) =>
        Rabs scale * s * rule_row lr_neg tc_neg lr_pos tc_pos row) tds ss).
Proof. exact (@Inferno.C18.DelayAdjProofs.da_mstdpd_tensor_rule). Qed.
Print Assumptions da_mstdpd_tensor_rule.
