(* Obligation C09/da_stdp_parts.  Statement as printed by Coq from Inferno.C18.DelayAdjProofs; proof by reference.
   This file contains nothing else, so the statement cannot be weakened quietly. *)
From Coq Require Import List ZArith Bool Reals Lra Lia.
From Inferno Require Import Base.Num Base.NumR Gen.Stdkernels C18.DelayAdj C18.EventProofs C18.DelayAdjProofs.
Import ListNotations.
Open Scope R_scope.
Theorem da_stdp_parts : forall (red : list R -> R) (lr_pos lr_neg : T RN) (tc_pos tc_neg : R)
    (tds : list (list nvR)),
  homog red ->
  tc_pos <> 0 ->
  tc_neg <> 0 ->
  let d := da_stdp RN red lr_pos lr_neg tc_pos tc_neg tds in
  part_val RN (fst d) =
  pospart lr_pos * wsum red true tc_pos tds + pospart lr_neg * wsum red false tc_neg tds /\
  part_val RN (snd d) =
  - (negpart lr_pos * wsum red true tc_pos tds + negpart lr_neg * wsum red false tc_neg tds).
Proof. exact (@Inferno.C18.DelayAdjProofs.da_stdp_parts). Qed.
Print Assumptions da_stdp_parts.
