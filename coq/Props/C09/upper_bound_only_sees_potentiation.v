(* Obligation C09/upper_bound_only_sees_potentiation.  Statement as printed by Coq from Inferno.C09.HomeoProofs; proof by reference.
   This file contains nothing else, so the statement cannot be weakened quietly. *)
From Coq Require Import List ZArith Bool Reals Lra Lia.
From Inferno Require Import Base.Num Base.NumR Gen.Bounding C18.DelayAdj C18.DelayAdjProofs C09.Split C09.HomeoProofs.
Import ListNotations.
Open Scope R_scope.
Theorem upper_bound_only_sees_potentiation : forall (ub lb : R -> R -> R) (x : R) (ub' : R -> R -> R) (n : option (T RN)),
  update_list RN ub lb x (None, n) = update_list RN ub' lb x (None, n).
Proof. exact (@Inferno.C09.HomeoProofs.upper_bound_only_sees_potentiation). Qed.
Print Assumptions upper_bound_only_sees_potentiation.
