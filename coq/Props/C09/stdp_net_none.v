(* Obligation C09/stdp_net_none.  Statement as printed by Coq from Inferno.C09.StdpSplitProofs; proof by reference.
   This file contains nothing else, so the statement cannot be weakened quietly. *)
From Coq Require Import List ZArith Bool Reals Lra Lia.
From Inferno Require Import Base.Num Base.NumR Gen.Trace Gen.Infra Gen.Interpolation C08.Stdp C08.StdpSpec C08.StdpProofs C09.StdpSplitProofs.
Import ListNotations.
Open Scope R_scope.
Theorem stdp_net_none : forall (c : config RN) (k : nat) (ss : list (sstate RN)),
  net (forward RN c k (SigNone RN) ss) =
  sgn (c_lr_post RN c) * reduce RN (c_red RN c) (map fst (map (partials RN c k) ss)) +
  sgn (c_lr_pre RN c) * reduce RN (c_red RN c) (map snd (map (partials RN c k) ss)).
Proof. exact (@Inferno.C09.StdpSplitProofs.stdp_net_none). Qed.
Print Assumptions stdp_net_none.
