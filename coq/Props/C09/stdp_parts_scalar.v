(* Obligation C09/stdp_parts_scalar.  Statement as printed by Coq from Inferno.C09.StdpSplitProofs; proof by reference.
   This file contains nothing else, so the statement cannot be weakened quietly. *)
From Coq Require Import List ZArith Bool Reals Lra Lia.
From Inferno Require Import Base.Num Base.NumR Gen.Trace Gen.Infra Gen.Interpolation C08.Stdp C08.StdpSpec C08.StdpProofs C09.StdpSplitProofs.
Import ListNotations.
Open Scope R_scope.
Theorem stdp_parts_scalar : forall (c : config RN) (k : nat) (sv scale : T RN) (ss : list (sstate RN)),
  let o := forward RN c k (SigScalar RN sv scale) ss in
  ov (fst o) =
  ind (nonneg RN (c_lr_post RN c * sv)) *
  (reduce RN (c_red RN c) (map fst (map (partials RN c k) ss)) * Rabs (sv * scale)) +
  ind (nonneg RN (c_lr_pre RN c * sv)) *
  (reduce RN (c_red RN c) (map snd (map (partials RN c k) ss)) * Rabs (sv * scale)) /\
  ov (snd o) =
  ind (negb (nonneg RN (c_lr_post RN c * sv))) *
  (reduce RN (c_red RN c) (map fst (map (partials RN c k) ss)) * Rabs (sv * scale)) +
  ind (negb (nonneg RN (c_lr_pre RN c * sv))) *
  (reduce RN (c_red RN c) (map snd (map (partials RN c k) ss)) * Rabs (sv * scale)).
Proof. exact (@Inferno.C09.StdpSplitProofs.stdp_parts_scalar). Qed.
Print Assumptions stdp_parts_scalar.
