(* Obligation C09/da_mstdp_tensor_rule.  Statement as printed by Coq from Inferno.C18.DelayAdjProofs; proof by reference.
   This file contains nothing else, so the statement cannot be weakened quietly. *)
From Coq Require Import List ZArith Bool Reals Lra Lia.
From Inferno Require Import Base.Num Base.NumR Gen.Stdkernels C18.DelayAdj C18.EventProofs C18.DelayAdjProofs.
Import ListNotations.
Open Scope R_scope.
Theorem da_mstdp_tensor_rule : forall (lr_pos lr_neg : T RN) (tc_pos tc_neg : R) (ss : list (T RN)) 
    (scale : T RN) (tds : list (list nvR)),
  tc_pos <> 0 ->
  tc_neg <> 0 ->
  net RN (da_mstdp_tensor RN (reduce RN RSum) lr_pos lr_neg tc_pos tc_neg ss scale tds) =
  tsum RN
    (map2
       (fun (row : list nvR) (s : R) =>
        Rabs scale * s * rule_row lr_pos tc_pos lr_neg tc_neg row) tds ss).
Proof. exact (@Inferno.C18.DelayAdjProofs.da_mstdp_tensor_rule). Qed.
Print Assumptions da_mstdp_tensor_rule.
