(* Obligation C09/homeostasis_refuted.  Statement as printed by Coq from Inferno.C09.HomeoProofs; proof by reference.
   This file contains nothing else, so the statement cannot be weakened quietly. *)
From Coq Require Import List ZArith Bool Reals Lra Lia.
From Inferno Require Import Base.Num Base.NumR Gen.Bounding C18.DelayAdj C18.DelayAdjProofs C09.Split C09.HomeoProofs.
Import ListNotations.
Open Scope R_scope.
Theorem homeostasis_refuted : exists (rk : hred) (lam target w : R) (steps : list (list (list bool))),
    0 < lam /\
    0 < target /\
    (let r :=
       last (h_run RN rk PWeight lam [[target]] (h_init RN) steps) (h_init RN, (None, None))
       in
     h_rate RN (fst r) = Some [[1]] /\
     target < 1 /\
     doc_term PWeight lam [target] [1] < 0 /\
     snd r = (Some 0, Some (-1)) /\ bind_forward RN BDefault w (snd r) = w + 1).
Proof. exact (@Inferno.C09.HomeoProofs.homeostasis_refuted). Qed.
Print Assumptions homeostasis_refuted.
