(* Obligation C09/h_run_rate_is_mean.  Statement as printed by Coq from Inferno.C09.ComposeProofs; proof by reference.
   This file contains nothing else, so the statement cannot be weakened quietly. *)
From Coq Require Import List ZArith Bool Reals Lra Lia.
From Inferno Require Import Base.Num Base.NumR Gen.Trace Gen.Infra Gen.Interpolation Gen.Bounding C08.Stdp C08.StdpSpec C08.StdpProofs C09.Split C09.HomeoProofs C09.StdpSplitProofs C09.ComposeProofs.
Import ListNotations.
Open Scope R_scope.
Theorem h_run_rate_is_mean : forall (B U : nat) (steps : list (list (list bool))) (b u : nat),
  Forall (shaped B U) steps ->
  steps <> [] ->
  (b < B)%nat ->
  (u < U)%nat ->
  rate_at (h_after steps) b u = INR (count_true (column b u steps)) / INR (length steps).
Proof. exact (@Inferno.C09.ComposeProofs.h_run_rate_is_mean). Qed.
Print Assumptions h_run_rate_is_mean.
