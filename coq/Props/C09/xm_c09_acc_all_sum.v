(* Obligation XM/c09_acc_all_sum.  Statement as printed by Coq from Inferno.XModel.AccC09R; proof by reference.
   This file contains nothing else, so the statement cannot be weakened quietly. *)
From Coq Require Import List ZArith Bool Arith Lia Reals Lra.
From Inferno Require Import Base.Num Base.NumR Gen.Bounding.
From Inferno Require C08.Stdp C09.Split C10.Updater.
From Inferno Require Import XModel.AccC09 XModel.AccC09R.
Import ListNotations.
Local Open Scope R_scope.
Theorem c09_acc_all_sum : forall xs : list (Split.uparts RN),
  Split.acc_all RN xs = (sumopt (vals (map fst xs)), sumopt (vals (map snd xs))).
Proof. exact (@Inferno.XModel.AccC09R.c09_acc_all_sum). Qed.
Print Assumptions c09_acc_all_sum.
