(* Obligation C09/bind_update_default.  Statement as printed by Coq from Inferno.C09.HomeoProofs; proof by reference.
   This file contains nothing else, so the statement cannot be weakened quietly. *)
From Coq Require Import List ZArith Bool Reals Lra Lia.
From Inferno Require Import Base.Num Base.NumR Gen.Bounding C18.DelayAdj C18.DelayAdjProofs C09.Split C09.HomeoProofs.
Import ListNotations.
Open Scope R_scope.
Theorem bind_update_default : forall (x : T RN) (a : uparts RN),
  pv (bind_update RN BDefault x a) = pv (fst a) - pv (snd a).
Proof. exact (@Inferno.C09.HomeoProofs.bind_update_default). Qed.
Print Assumptions bind_update_default.
