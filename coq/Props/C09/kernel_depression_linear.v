(* Obligation C09/kernel_depression_linear.  Statement as printed by Coq from Inferno.C09.KernelSplitProofs; proof by reference.
   This file contains nothing else, so the statement cannot be weakened quietly. *)
From Coq Require Import List ZArith Bool Reals Lra Lia.
From Inferno Require Import Base.Num Base.NumR C18.DelayAdj C18.EventProofs C18.DelayAdjProofs C09.Split C09.KernelSplitProofs.
Import ListNotations.
Open Scope R_scope.
Theorem kernel_depression_linear : forall (red : list R -> R) (kpost kpre : R -> R) (tds : list (list nvR)),
  homog red ->
  part_val RN (snd (kernel_fwd RN red kpost kpre tds)) =
  red (map (fsum (fun x : R => negc (kpost x))) tds) +
  red (map (fsum (fun x : R => negc (kpre x))) tds).
Proof. exact (@Inferno.C09.KernelSplitProofs.kernel_depression_linear). Qed.
Print Assumptions kernel_depression_linear.
