(* Obligation C09/homeo_sum_is_rule.  Statement as printed by Coq from Inferno.C09.HomeoProofs; proof by reference.
   This file contains nothing else, so the statement cannot be weakened quietly. *)
From Coq Require Import List ZArith Bool Reals Lra Lia.
From Inferno Require Import Base.Num Base.NumR Gen.Bounding C18.DelayAdj C18.DelayAdjProofs C09.Split C09.HomeoProofs.
Import ListNotations.
Open Scope R_scope.
Theorem homeo_sum_is_rule : forall (rk : hred) (p : hparam) (lam : R) (targets rates : list (list R)),
  linear_kind rk ->
  pv (fst (h_forward RN rk p lam targets rates)) +
  pv (snd (h_forward RN rk p lam targets rates)) = hreduce RN rk (h_ks RN p lam targets rates).
Proof. exact (@Inferno.C09.HomeoProofs.homeo_sum_is_rule). Qed.
Print Assumptions homeo_sum_is_rule.
