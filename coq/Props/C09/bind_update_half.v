(* Obligation C09/bind_update_half.  Statement as printed by Coq from Inferno.C09.HomeoProofs; proof by reference.
   This file contains nothing else, so the statement cannot be weakened quietly. *)
From Coq Require Import List ZArith Bool Reals Lra Lia.
From Inferno Require Import Base.Num Base.NumR Gen.Bounding C18.DelayAdj C18.DelayAdjProofs C09.Split C09.HomeoProofs.
Import ListNotations.
Open Scope R_scope.
Theorem bind_update_half : forall (u l : slot RN) (x : T RN) (a : uparts RN),
  pv (bind_update RN (BHalf RN u l) x a) =
  slot_apply RN u x (pv (fst a)) - slot_apply RN l x (pv (snd a)).
Proof. exact (@Inferno.C09.HomeoProofs.bind_update_half). Qed.
Print Assumptions bind_update_half.
