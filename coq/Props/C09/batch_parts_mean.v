(* Obligation C09/batch_parts_mean.  Statement as printed by Coq from Inferno.C09.StdpSplitProofs; proof by reference.
   This file contains nothing else, so the statement cannot be weakened quietly. *)
From Coq Require Import List ZArith Bool Reals Lra Lia.
From Inferno Require Import Base.Num Base.NumR Gen.Trace Gen.Infra Gen.Interpolation C08.Stdp C08.StdpSpec C08.StdpProofs C09.StdpSplitProofs.
Import ListNotations.
Open Scope R_scope.
Theorem batch_parts_mean : forall (c : config RN) (k : nat) (sg : signal RN) (ss : list (sstate RN)),
  c_red RN c = RMean ->
  batch_signal sg ->
  ss <> [] ->
  ov (fst (forward RN c k sg ss)) =
  rsum (map (fun s : sstate RN => ov (fst (forward RN c k sg [s]))) ss) / INR (length ss) /\
  ov (snd (forward RN c k sg ss)) =
  rsum (map (fun s : sstate RN => ov (snd (forward RN c k sg [s]))) ss) / INR (length ss).
Proof. exact (@Inferno.C09.StdpSplitProofs.batch_parts_mean). Qed.
Print Assumptions batch_parts_mean.
