(* Obligation C09/stdp_run_parts_nonneg.  Statement as printed by Coq from Inferno.C09.StdpSplitProofs; proof by reference.
   This file contains nothing else, so the statement cannot be weakened quietly. *)
From Coq Require Import List ZArith Bool Reals Lra Lia.
From Inferno Require Import Base.Num Base.NumR Gen.Trace Gen.Infra Gen.Interpolation C08.Stdp C08.StdpSpec C08.StdpProofs C09.StdpSplitProofs.
Import ListNotations.
Open Scope R_scope.
Theorem stdp_run_parts_nonneg : forall (c : config RN) (k B : nat) (inps : list (list (bool * bool) * signal RN)),
  elig_ok c -> Forall parts_nn (run RN c k (init_batch RN B) inps).
Proof. exact (@Inferno.C09.StdpSplitProofs.stdp_run_parts_nonneg). Qed.
Print Assumptions stdp_run_parts_nonneg.
