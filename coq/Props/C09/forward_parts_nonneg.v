(* Obligation C09/forward_parts_nonneg.  Statement as printed by Coq from Inferno.C09.StdpSplitProofs; proof by reference.
   This file contains nothing else, so the statement cannot be weakened quietly. *)
From Coq Require Import List ZArith Bool Reals Lra Lia.
From Inferno Require Import Base.Num Base.NumR Gen.Trace Gen.Infra Gen.Interpolation C08.Stdp C08.StdpSpec C08.StdpProofs C09.StdpSplitProofs.
Import ListNotations.
Open Scope R_scope.
Theorem forward_parts_nonneg : forall (c : config RN) (k : nat) (sg : signal RN) (ss : list (sstate RN)),
  Forall state_nn ss -> parts_nn (forward RN c k sg ss).
Proof. exact (@Inferno.C09.StdpSplitProofs.forward_parts_nonneg). Qed.
Print Assumptions forward_parts_nonneg.
