(* Obligation C09/old_target_carryover_refuted.  Statement as printed by Coq from Inferno.C09.HomeoProofs; proof by reference.
   This file contains nothing else, so the statement cannot be weakened quietly. *)
From Coq Require Import List ZArith Bool Reals Lra Lia.
From Inferno Require Import Base.Num Base.NumR Gen.Bounding C18.DelayAdj C18.DelayAdjProofs C09.Split C09.HomeoProofs.
Import ListNotations.
Open Scope R_scope.
Theorem old_target_carryover_refuted : exists dflts : list (option R),
    targets_used_old RN None dflts <> targets_doc RN None dflts /\
    targets_used_old RN None dflts = [Some (1 / 4); Some (1 / 4)] /\
    targets_doc RN None dflts = [Some (1 / 4); Some (3 / 4)] /\
    targets_used RN None dflts = targets_doc RN None dflts.
Proof. exact (@Inferno.C09.HomeoProofs.old_target_carryover_refuted). Qed.
Print Assumptions old_target_carryover_refuted.
