(* Obligation C09/kernel_parts_contract.  Statement as printed by Coq from Inferno.C09.KernelSplitProofs; proof by reference.
   This file contains nothing else, so the statement cannot be weakened quietly. *)
From Coq Require Import List ZArith Bool Reals Lra Lia.
From Inferno Require Import Base.Num Base.NumR C18.DelayAdj C18.EventProofs C18.DelayAdjProofs C09.Split C09.KernelSplitProofs.
Import ListNotations.
Open Scope R_scope.
Theorem kernel_parts_contract : forall (red : list R -> R) (kpost kpre : R -> R) (tds : list (list nvR)),
  kernel_fwd RN red kpost kpre tds =
  (Some
     (red (map (fsum (fun x : R => posc (kpost x))) tds) +
      red (map (fsum (fun x : R => posc (kpre x))) tds)),
   Some
     (-
      (red (map (fun row : list nvR => - fsum (fun x : R => negc (kpost x)) row) tds) +
       red (map (fun row : list nvR => - fsum (fun x : R => negc (kpre x)) row) tds)))).
Proof. exact (@Inferno.C09.KernelSplitProofs.kernel_parts_contract). Qed.
Print Assumptions kernel_parts_contract.
