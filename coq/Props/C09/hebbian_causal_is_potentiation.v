(* Obligation C09/hebbian_causal_is_potentiation.  Statement as printed by Coq from Inferno.C09.StdpSplitProofs; proof by reference.
   This file contains nothing else, so the statement cannot be weakened quietly. *)
From Coq Require Import List ZArith Bool Reals Lra Lia.
From Inferno Require Import Base.Num Base.NumR Gen.Trace Gen.Infra Gen.Interpolation C08.Stdp C08.StdpSpec C08.StdpProofs C09.StdpSplitProofs.
Import ListNotations.
Open Scope R_scope.
Theorem hebbian_causal_is_potentiation : forall (c : config RN) (k : nat) (ss : list (sstate RN)),
  0 <= c_lr_post RN c ->
  c_lr_pre RN c < 0 ->
  forward RN c k (SigNone RN) ss =
  (Some (reduce RN (c_red RN c) (map fst (map (partials RN c k) ss))),
   Some (reduce RN (c_red RN c) (map snd (map (partials RN c k) ss)))).
Proof. exact (@Inferno.C09.StdpSplitProofs.hebbian_causal_is_potentiation). Qed.
Print Assumptions hebbian_causal_is_potentiation.
