(* Obligation C09/bind_update_sharp_at_upper.  Statement as printed by Coq from Inferno.C09.HomeoProofs; proof by reference.
   This file contains nothing else, so the statement cannot be weakened quietly. *)
From Coq Require Import List ZArith Bool Reals Lra Lia.
From Inferno Require Import Base.Num Base.NumR Gen.Bounding C18.DelayAdj C18.DelayAdjProofs C09.Split C09.HomeoProofs.
Import ListNotations.
Open Scope R_scope.
Theorem bind_update_sharp_at_upper : forall (mn x : R) (a : uparts RN),
  mn < x ->
  pv (bind_update RN (BHalf RN (SBound RN (HSharpU RN) x) (SBound RN (HSharpL RN) mn)) x a) =
  - pv (snd a).
Proof. exact (@Inferno.C09.HomeoProofs.bind_update_sharp_at_upper). Qed.
Print Assumptions bind_update_sharp_at_upper.
