(* Obligation C09/nonvacuous: the hypotheses of the C09 theorems are met by concrete non-trivial instances, and the
   model computes the expected values on them:
   - an MSTDPET configuration satisfies elig_ok, a delayed STDP configuration satisfies grid_ok (delay of 1 step, maximum 2);
   - Hebbian STDP (lr_post = 1, lr_pre = -1/2, tc_pre = 15, tc_post = 20, dt = 1) on the causal history "pre at step 0, post
     at step 1": the accumulated potentiating part is exp(-1/15), the depressing part is 0, and with soft bounds
     [0, 1] at w = 1/4 the applied change is (1 - 1/4) exp(-1/15);
   - the reductions of LinearHomeostasis are sign preserving / linear; a run of shape 1 x 1 is `shaped`. *)
From Coq Require Import List ZArith Bool Reals Lra Lia.
From Inferno Require Import Base.Num Base.NumR Gen.Trace Gen.Infra Gen.Interpolation Gen.Bounding
     C08.Stdp C08.StdpSpec C08.StdpProofs C18.DelayAdjProofs C09.Split C09.HomeoProofs C09.StdpSplitProofs C09.ComposeProofs.
Import ListNotations.
Open Scope R_scope.

Definition cfg (tr : trainer) (dby : option R) : config RN :=
  mkConfig RN tr Cumulative 1 1 (-1/2) 20 15 0 0 40 30 25 true dby RSum None.
Definition hist : list (bool * bool) := [(true, false); (false, true)].

Theorem nonvacuous :
  elig_ok (cfg MSTDPET None) /\ grid_ok (cfg STDP (Some (INR 2 * 1))) 1 /\ grid_ok (cfg STDP None) 0 /\
  (let a := final_acc RN (run RN (cfg STDP None) 0 (init_batch RN 1) (inps1 (nosig hist))) in
   ov (fst a) = Rtrigo_def.exp (- 1 / 15) /\ ov (snd a) = 0 /\
   pv (bind_update RN (BHalf RN (SBound RN (HMulU RN) 1) (SBound RN (HMulL RN) 0)) (1/4) a)
   = (1 - 1/4) * Rtrigo_def.exp (- 1 / 15)) /\
  linear_kind HMean /\ sign_red (hreduce RN HAmax) /\ shaped 1 1 [[true]] /\
  Forall parts_nn (run RN (cfg MSTDPET None) 0 (init_batch RN 2) [([(true, true); (false, true)], SigTensor RN [1; -2] 1)]).
Proof.
  assert (G0 : grid_ok (cfg STDP None) 0) by (split; [reflexivity|]; split; [cbn; lra | left; reflexivity]).
  split; [intros _; cbn; lra|].
  split; [split; [reflexivity|]; split; [cbn; lra | right; exists 2%nat; split; [reflexivity | lia]]|].
  split; [exact G0|].
  assert (P : let a := final_acc RN (run RN (cfg STDP None) 0 (init_batch RN 1) (inps1 (nosig hist))) in
              ov (fst a) = Rtrigo_def.exp (- 1 / 15) /\ ov (snd a) = 0).
  { assert (H1 : 0 <= c_lr_post RN (cfg STDP None)) by (cbn; lra).
    assert (H2 : c_lr_pre RN (cfg STDP None) < 0) by (cbn; lra).
    destruct (hebbian_parts_pairsum (cfg STDP None) 0 hist G0 (or_introl eq_refl) H1 H2) as [E1 E2].
    cbv zeta in *.
    split; [etransitivity; [exact E1|] | etransitivity; [exact E2|]];
      unfold pre_train, post_train, hist; cbn [has_delay cfg c_delayedby map fst snd]; rewrite shift_0;
      unfold pairsum, spike_times, partner_sum, partners_le, spike_times;
      cbn [c_mode cfg length seq filter nth Nat.leb sum_over];
      unfold pairw; cbn [c_lr_post c_lr_pre c_dt c_tc_pre c_tc_post cfg INR].
    - replace (- ((1 - 0) * 1) / 15) with (- 1 / 15) by lra. lra.
    - rewrite Rabs_left by lra. lra. }
  split.
  - cbv zeta in *. destruct P as [P1 P2]. split; [exact P1|]. split; [exact P2|].
    rewrite bind_update_soft_half.
    transitivity ((1 - 1/4) * Rtrigo_def.exp (- 1 / 15) - (1/4 - 0) * 0); [|lra].
    apply f_equal2; apply f_equal2; try reflexivity; [exact P1 | exact P2].
  - split; [right; reflexivity|]. split; [apply hreduce_sign|]. split; [split; [reflexivity | repeat constructor]|].
    apply stdp_run_parts_nonneg. intros _. cbn. lra.
Qed.
Print Assumptions nonvacuous.
