(* Obligation C09/persample_split.  Statement as printed by Coq from Inferno.C09.StdpSplitProofs; proof by reference.
   This file contains nothing else, so the statement cannot be weakened quietly. *)
From Coq Require Import List ZArith Bool Reals Lra Lia.
From Inferno Require Import Base.Num Base.NumR Gen.Trace Gen.Infra Gen.Interpolation C08.Stdp C08.StdpSpec C08.StdpProofs C09.StdpSplitProofs.
Import ListNotations.
Open Scope R_scope.
Theorem persample_split : forall (c : config RN) (k : nat),
  c_red RN c = RSum ->
  c_lr_post RN c <> 0 ->
  c_lr_pre RN c <> 0 ->
  forall (sv : list (T RN)) (g : T RN) (ss : list (sstate RN)),
  ov (fst (forward RN c k (SigTensor RN sv g) ss)) =
  rsum
    (map
       (fun z : sstate RN * T RN => ov (fst (forward RN c k (SigScalar RN (snd z) g) [fst z])))
       (combine ss sv)) /\
  ov (snd (forward RN c k (SigTensor RN sv g) ss)) =
  rsum
    (map
       (fun z : sstate RN * T RN => ov (snd (forward RN c k (SigScalar RN (snd z) g) [fst z])))
       (combine ss sv)).
Proof. exact (@Inferno.C09.StdpSplitProofs.persample_split). Qed.
Print Assumptions persample_split.
