(* Obligation XM/c09_full_apply_eq.  Statement as printed by Coq from Inferno.XModel.AccC09; proof by reference.
   This file contains nothing else, so the statement cannot be weakened quietly. *)
From Coq Require Import List ZArith Bool Arith Lia.
From Inferno Require Import Base.Num Gen.Bounding.
From Inferno Require C09.Split C10.Updater.
From Inferno Require Import XModel.AccC09.
Import ListNotations.
Theorem c09_full_apply_eq : forall (N : Num) (k : Split.fullk) (mx mn : option (T N)) (x p n : T N),
  Updater.full_val N (emb_full N k) mx mn x p n = Split.full_apply N k mx mn x p n.
Proof. exact (@Inferno.XModel.AccC09.c09_full_apply_eq). Qed.
Print Assumptions c09_full_apply_eq.
