(* Obligation C09/targets_used_first.  Statement as printed by Coq from Inferno.C09.HomeoProofs; proof by reference.
   This file contains nothing else, so the statement cannot be weakened quietly. *)
From Coq Require Import List ZArith Bool Reals Lra Lia.
From Inferno Require Import Base.Num Base.NumR Gen.Bounding C18.DelayAdj C18.DelayAdjProofs C09.Split C09.HomeoProofs.
Import ListNotations.
Open Scope R_scope.
Theorem targets_used_first : forall (d : option (T RN)) (tl : list (option (T RN))),
  hd None (targets_used RN None (d :: tl)) = hd None (targets_doc RN None (d :: tl)).
Proof. exact (@Inferno.C09.HomeoProofs.targets_used_first). Qed.
Print Assumptions targets_used_first.
