(* Obligation C09/stdp_parts_pairsum.  Statement as printed by Coq from Inferno.C09.StdpSplitProofs; proof by reference.
   This file contains nothing else, so the statement cannot be weakened quietly. *)
From Coq Require Import List ZArith Bool Reals Lra Lia.
From Inferno Require Import Base.Num Base.NumR Gen.Trace Gen.Infra Gen.Interpolation C08.Stdp C08.StdpSpec C08.StdpProofs C09.StdpSplitProofs.
Import ListNotations.
Open Scope R_scope.
Theorem stdp_parts_pairsum : forall (c : config RN) (k : nat),
  grid_ok c k ->
  c_trainer RN c = STDP \/ c_trainer RN c = StableSTDP ->
  forall h : list (bool * bool),
  let a := final_acc RN (run RN c k (init_batch RN 1) (inps1 (nosig h))) in
  ov (fst a) =
  pospart (c_lr_post RN c) *
  pairsum (c_mode RN c) (c_dt RN c) (c_tc_pre RN c) (fun _ : nat => 1) 
    (post_train h) (pre_train c k h) +
  pospart (c_lr_pre RN c) *
  pairsum (c_mode RN c) (c_dt RN c) (c_tc_post RN c) (fun _ : nat => 1) 
    (pre_train c k h) (post_train h) /\
  ov (snd a) =
  - negpart (c_lr_post RN c) *
  pairsum (c_mode RN c) (c_dt RN c) (c_tc_pre RN c) (fun _ : nat => 1) 
    (post_train h) (pre_train c k h) +
  - negpart (c_lr_pre RN c) *
  pairsum (c_mode RN c) (c_dt RN c) (c_tc_post RN c) (fun _ : nat => 1) 
    (pre_train c k h) (post_train h).
Proof. exact (@Inferno.C09.StdpSplitProofs.stdp_parts_pairsum). Qed.
Print Assumptions stdp_parts_pairsum.
