(* Obligation C09/soft_bounds_respect_direction.  Statement as printed by Coq from Inferno.C09.HomeoProofs; proof by reference.
   This file contains nothing else, so the statement cannot be weakened quietly. *)
From Coq Require Import List ZArith Bool Reals Lra Lia.
From Inferno Require Import Base.Num Base.NumR Gen.Bounding C18.DelayAdj C18.DelayAdjProofs C09.Split C09.HomeoProofs.
Import ListNotations.
Open Scope R_scope.
Theorem soft_bounds_respect_direction : forall mx mn x p n : R,
  mn <= x <= mx ->
  0 <= p ->
  0 <= n ->
  0 <=
  pv
    (bind_update RN (BHalf RN (SBound RN (HMulU RN) mx) (SBound RN (HMulL RN) mn)) x
       (Some p, None)) /\
  pv
    (bind_update RN (BHalf RN (SBound RN (HMulU RN) mx) (SBound RN (HMulL RN) mn)) x
       (None, Some n)) <= 0.
Proof. exact (@Inferno.C09.HomeoProofs.soft_bounds_respect_direction). Qed.
Print Assumptions soft_bounds_respect_direction.
