(* Obligation C09/da_stdpd_parts.  Statement as printed by Coq from Inferno.C18.DelayAdjProofs; proof by reference.
   This file contains nothing else, so the statement cannot be weakened quietly. *)
From Coq Require Import List ZArith Bool Reals Lra Lia.
From Inferno Require Import Base.Num Base.NumR Gen.Stdkernels C18.DelayAdj C18.EventProofs C18.DelayAdjProofs.
Import ListNotations.
Open Scope R_scope.
Theorem da_stdpd_parts : forall (red : list R -> R) (lr_neg lr_pos : T RN) (tc_neg tc_pos : R)
    (tds : list (list nvR)),
  homog red ->
  tc_pos <> 0 ->
  tc_neg <> 0 ->
  let d := da_stdpd RN red lr_neg lr_pos tc_neg tc_pos tds in
  part_val RN (fst d) =
  pospart lr_neg * wsum red true tc_neg tds + pospart lr_pos * wsum red false tc_pos tds /\
  part_val RN (snd d) =
  - (negpart lr_neg * wsum red true tc_neg tds + negpart lr_pos * wsum red false tc_pos tds).
Proof. exact (@Inferno.C18.DelayAdjProofs.da_stdpd_parts). Qed.
Print Assumptions da_stdpd_parts.
