(* Obligation C09/bind_update_soft_full.  Statement as printed by Coq from Inferno.C09.HomeoProofs; proof by reference.
   This file contains nothing else, so the statement cannot be weakened quietly. *)
From Coq Require Import List ZArith Bool Reals Lra Lia.
From Inferno Require Import Base.Num Base.NumR Gen.Bounding C18.DelayAdj C18.DelayAdjProofs C09.Split C09.HomeoProofs.
Import ListNotations.
Open Scope R_scope.
Theorem bind_update_soft_full : forall (mx mn x : T RN) (a : uparts RN),
  pv (bind_update RN (BFull RN FMul (Some mx) (Some mn)) x a) =
  (mx - x) * pv (fst a) - (x - mn) * pv (snd a).
Proof. exact (@Inferno.C09.HomeoProofs.bind_update_soft_full). Qed.
Print Assumptions bind_update_soft_full.
