(* Obligation C09/clamp_split.  Statement as printed by Coq from Inferno.C09.HomeoProofs; proof by reference.
   This file contains nothing else, so the statement cannot be weakened quietly. *)
From Coq Require Import List ZArith Bool Reals Lra Lia.
From Inferno Require Import Base.Num Base.NumR Gen.Bounding C18.DelayAdj C18.DelayAdjProofs C09.Split C09.HomeoProofs.
Import ListNotations.
Open Scope R_scope.
Theorem clamp_split : forall k : T RN,
  0 <= hclamp_min RN k /\ 0 <= - hclamp_max RN k /\ hclamp_min RN k - - hclamp_max RN k = k.
Proof. exact (@Inferno.C09.HomeoProofs.clamp_split). Qed.
Print Assumptions clamp_split.
