(* Obligation C09/homeo_rates_above_target_moves_away.  Statement as printed by Coq from Inferno.C09.HomeoProofs; proof by reference.
   This file contains nothing else, so the statement cannot be weakened quietly. *)
From Coq Require Import List ZArith Bool Reals Lra Lia.
From Inferno Require Import Base.Num Base.NumR Gen.Bounding C18.DelayAdj C18.DelayAdjProofs C09.Split C09.HomeoProofs.
Import ListNotations.
Open Scope R_scope.
Theorem homeo_rates_above_target_moves_away : forall (rk : hred) (lam : R) (targets rates : list (list R)),
  linear_kind rk ->
  0 <= lam ->
  Forall2 (Forall2 (fun t x : R => 0 < t <= x)) targets rates ->
  let out := h_forward RN rk PWeight lam targets rates in
  let documented := hreduce RN rk (zip2 (doc_term PWeight lam) targets rates) in
  documented <= 0 /\
  pv (fst out) = 0 /\ pv (snd out) = documented /\ pv (fst out) - pv (snd out) = - documented.
Proof. exact (@Inferno.C09.HomeoProofs.homeo_rates_above_target_moves_away). Qed.
Print Assumptions homeo_rates_above_target_moves_away.
