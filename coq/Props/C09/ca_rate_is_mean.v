(* Obligation C09/ca_rate_is_mean.  Statement as printed by Coq from Inferno.C09.HomeoProofs; proof by reference.
   This file contains nothing else, so the statement cannot be weakened quietly. *)
From Coq Require Import List ZArith Bool Reals Lra Lia.
From Inferno Require Import Base.Num Base.NumR Gen.Bounding C18.DelayAdj C18.DelayAdjProofs C09.Split C09.HomeoProofs.
Import ListNotations.
Open Scope R_scope.
Theorem ca_rate_is_mean : forall l : list bool,
  l <> [] -> ca_run l = (Z.of_nat (length l), Some (INR (count_true l) / INR (length l))).
Proof. exact (@Inferno.C09.HomeoProofs.ca_rate_is_mean). Qed.
Print Assumptions ca_rate_is_mean.
