(* Obligation C09/partials_triplet.  Statement as printed by Coq from Inferno.C09.ComposeProofs; proof by reference.
   This file contains nothing else, so the statement cannot be weakened quietly. *)
From Coq Require Import List ZArith Bool Reals Lra Lia.
From Inferno Require Import Base.Num Base.NumR Gen.Trace Gen.Infra Gen.Interpolation Gen.Bounding C08.Stdp C08.StdpSpec C08.StdpProofs C09.Split C09.HomeoProofs C09.StdpSplitProofs C09.ComposeProofs.
Import ListNotations.
Open Scope R_scope.
Theorem partials_triplet : forall (c : config RN) (k : nat),
  grid_ok c k ->
  c_trainer RN c = TripletSTDP \/ c_trainer RN c = StableTripletSTDP ->
  c_lr_post RN c <> 0 ->
  c_lr_pre RN c <> 0 ->
  forall (h0 : list (bool * bool)) (pq : bool * bool),
  let h := h0 ++ [pq] in
  partials RN c k (state_of c k (rev h)) = (triA c k h (length h0), triD c k h (length h0)).
Proof. exact (@Inferno.C09.ComposeProofs.partials_triplet). Qed.
Print Assumptions partials_triplet.
