(* Obligation XM/c09_accumulate_update_eq.  Statement as printed by Coq from Inferno.XModel.AccC09R; proof by reference.
   This file contains nothing else, so the statement cannot be weakened quietly. *)
From Coq Require Import List ZArith Bool Arith Lia Reals Lra.
From Inferno Require Import Base.Num Base.NumR Gen.Bounding.
From Inferno Require C08.Stdp C09.Split C10.Updater.
From Inferno Require Import XModel.AccC09 XModel.AccC09R.
Import ListNotations.
Local Open Scope R_scope.
Theorem c09_accumulate_update_eq : forall (b : Split.bindT RN) (xs : list uparts) (x : R),
  let a := fold_left feed xs (Updater.set_bind RN (Updater.acc_new RN) (emb_bind RN b)) in
  snd (Updater.acc_update RN a [x]) =
  Updater.Ok (single RN (Split.bind_update RN b x (Split.acc_all RN xs))).
Proof. exact (@Inferno.XModel.AccC09R.c09_accumulate_update_eq). Qed.
Print Assumptions c09_accumulate_update_eq.
