(* Obligation C09/kernel_amax_depression_refuted.  Statement as printed by Coq from Inferno.C09.KernelSplitProofs; proof by reference.
   This file contains nothing else, so the statement cannot be weakened quietly. *)
From Coq Require Import List ZArith Bool Reals Lra Lia.
From Inferno Require Import Base.Num Base.NumR C18.DelayAdj C18.EventProofs C18.DelayAdjProofs C09.Split C09.KernelSplitProofs.
Import ListNotations.
Open Scope R_scope.
Theorem kernel_amax_depression_refuted : exists (k : R -> R) (tds : list (list nvR)),
    let red := kreduce RN KAmax in
    part_val RN (snd (kernel_fwd RN red k (fun _ : T RN => 0) tds)) = 1 /\
    red (map (fsum (fun x : R => negc (k x))) tds) = 3 /\
    part_val RN (fst (kernel_fwd RN red (fun x : T RN => - k x) (fun _ : T RN => 0) tds)) = 3.
Proof. exact (@Inferno.C09.KernelSplitProofs.kernel_amax_depression_refuted). Qed.
Print Assumptions kernel_amax_depression_refuted.
