(* Obligation C09/kernel_fwd_net.  Statement as printed by Coq from Inferno.C18.DelayAdjProofs; proof by reference.
   This file contains nothing else, so the statement cannot be weakened quietly. *)
From Coq Require Import List ZArith Bool Reals Lra Lia.
From Inferno Require Import Base.Num Base.NumR Gen.Stdkernels C18.DelayAdj C18.EventProofs C18.DelayAdjProofs.
Import ListNotations.
Open Scope R_scope.
Theorem kernel_fwd_net : forall (red : list R -> R) (kpost kpre : R -> R) (tds : list (list nvR)),
  linear_red red ->
  net RN (kernel_fwd RN red kpost kpre tds) =
  red
    (map
       (fun row : list (option R) =>
        nansum RN (map (option_map (fun td : R => kpost td + kpre td)) row)) tds).
Proof. exact (@Inferno.C18.DelayAdjProofs.kernel_fwd_net). Qed.
Print Assumptions kernel_fwd_net.
