(* Obligation C09/update_list_routing.  Statement as printed by Coq from Inferno.C09.HomeoProofs; proof by reference.
   This file contains nothing else, so the statement cannot be weakened quietly. *)
From Coq Require Import List ZArith Bool Reals Lra Lia.
From Inferno Require Import Base.Num Base.NumR Gen.Bounding C18.DelayAdj C18.DelayAdjProofs C09.Split C09.HomeoProofs.
Import ListNotations.
Open Scope R_scope.
Theorem update_list_routing : forall (ub lb : R -> R -> R) (x : R) (a : uparts RN),
  update_list RN ub lb x a =
  (let (o, o0) := a in
   match o with
   | Some p => match o0 with
               | Some n => Some (ub x p - lb x n)
               | None => Some (ub x p)
               end
   | None => match o0 with
             | Some n => Some (- lb x n)
             | None => None
             end
   end).
Proof. exact (@Inferno.C09.HomeoProofs.update_list_routing). Qed.
Print Assumptions update_list_routing.
