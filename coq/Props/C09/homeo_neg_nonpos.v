(* Obligation C09/homeo_neg_nonpos.  Statement as printed by Coq from Inferno.C09.HomeoProofs; proof by reference.
   This file contains nothing else, so the statement cannot be weakened quietly. *)
From Coq Require Import List ZArith Bool Reals Lra Lia.
From Inferno Require Import Base.Num Base.NumR Gen.Bounding C18.DelayAdj C18.DelayAdjProofs C09.Split C09.HomeoProofs.
Import ListNotations.
Open Scope R_scope.
Theorem homeo_neg_nonpos : forall (rk : hred) (p : hparam) (lam : R) (targets rates : list (list R)),
  pv (snd (h_forward RN rk p lam targets rates)) <= 0.
Proof. exact (@Inferno.C09.HomeoProofs.homeo_neg_nonpos). Qed.
Print Assumptions homeo_neg_nonpos.
