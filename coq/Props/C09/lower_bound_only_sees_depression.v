(* Obligation C09/lower_bound_only_sees_depression.  Statement as printed by Coq from Inferno.C09.HomeoProofs; proof by reference.
   This file contains nothing else, so the statement cannot be weakened quietly. *)
From Coq Require Import List ZArith Bool Reals Lra Lia.
From Inferno Require Import Base.Num Base.NumR Gen.Bounding C18.DelayAdj C18.DelayAdjProofs C09.Split C09.HomeoProofs.
Import ListNotations.
Open Scope R_scope.
Theorem lower_bound_only_sees_depression : forall (ub lb : R -> R -> R) (x : R) (lb' : R -> R -> R) (p : option (T RN)),
  update_list RN ub lb x (p, None) = update_list RN ub lb' x (p, None).
Proof. exact (@Inferno.C09.HomeoProofs.lower_bound_only_sees_depression). Qed.
Print Assumptions lower_bound_only_sees_depression.
