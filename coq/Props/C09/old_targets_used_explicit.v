(* Obligation C09/old_targets_used_explicit.  Statement as printed by Coq from Inferno.C09.HomeoProofs; proof by reference.
   This file contains nothing else, so the statement cannot be weakened quietly. *)
From Coq Require Import List ZArith Bool Reals Lra Lia.
From Inferno Require Import Base.Num Base.NumR Gen.Bounding C18.DelayAdj C18.DelayAdjProofs C09.Split C09.HomeoProofs.
Import ListNotations.
Open Scope R_scope.
Theorem old_targets_used_explicit : forall (v : T RN) (dflts : list (option (T RN))),
  targets_used_old RN (Some v) dflts = targets_doc RN (Some v) dflts.
Proof. exact (@Inferno.C09.HomeoProofs.old_targets_used_explicit). Qed.
Print Assumptions old_targets_used_explicit.
