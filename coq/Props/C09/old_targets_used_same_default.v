(* Obligation C09/old_targets_used_same_default.  Statement as printed by Coq from Inferno.C09.HomeoProofs; proof by reference.
   This file contains nothing else, so the statement cannot be weakened quietly. *)
From Coq Require Import List ZArith Bool Reals Lra Lia.
From Inferno Require Import Base.Num Base.NumR Gen.Bounding C18.DelayAdj C18.DelayAdjProofs C09.Split C09.HomeoProofs.
Import ListNotations.
Open Scope R_scope.
Theorem old_targets_used_same_default : forall (d : T RN) (n : nat),
  targets_used_old RN None (repeat (Some d) n) = targets_doc RN None (repeat (Some d) n).
Proof. exact (@Inferno.C09.HomeoProofs.old_targets_used_same_default). Qed.
Print Assumptions old_targets_used_same_default.
