(* Obligation C09/update_list_value.  Statement as printed by Coq from Inferno.C09.HomeoProofs; proof by reference.
   This file contains nothing else, so the statement cannot be weakened quietly. *)
From Coq Require Import List ZArith Bool Reals Lra Lia.
From Inferno Require Import Base.Num Base.NumR Gen.Bounding C18.DelayAdj C18.DelayAdjProofs C09.Split C09.HomeoProofs.
Import ListNotations.
Open Scope R_scope.
Theorem update_list_value : forall (ub lb : R -> R -> R) (x : R) (a : uparts RN),
  ub x 0 = 0 ->
  lb x 0 = 0 -> pv (update_list RN ub lb x a) = ub x (pv (fst a)) - lb x (pv (snd a)).
Proof. exact (@Inferno.C09.HomeoProofs.update_list_value). Qed.
Print Assumptions update_list_value.
