(* Obligation C09/hp_ok_elig_ok.  Statement as printed by Coq from Inferno.C09.StdpSplitProofs; proof by reference.
   This file contains nothing else, so the statement cannot be weakened quietly. *)
From Coq Require Import List ZArith Bool Reals Lra Lia.
From Inferno Require Import Base.Num Base.NumR Gen.Trace Gen.Infra Gen.Interpolation C08.Stdp C08.StdpSpec C08.StdpProofs C09.StdpSplitProofs.
Import ListNotations.
Open Scope R_scope.
Theorem hp_ok_elig_ok : forall c : config RN, hp_ok RN c = true -> elig_ok c.
Proof. exact (@Inferno.C09.StdpSplitProofs.hp_ok_elig_ok). Qed.
Print Assumptions hp_ok_elig_ok.
