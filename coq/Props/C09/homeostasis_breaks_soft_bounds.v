(* Obligation C09/homeostasis_breaks_soft_bounds.  Statement as printed by Coq from Inferno.C09.HomeoProofs; proof by reference.
   This file contains nothing else, so the statement cannot be weakened quietly. *)
From Coq Require Import List ZArith Bool Reals Lra Lia.
From Inferno Require Import Base.Num Base.NumR Gen.Bounding C18.DelayAdj C18.DelayAdjProofs C09.Split C09.HomeoProofs.
Import ListNotations.
Open Scope R_scope.
Theorem homeostasis_breaks_soft_bounds : exists (mx mn x : R) (a : uparts RN),
    mn <= x <= mx /\
    a = (Some 0, Some (-3)) /\
    mx <
    x + pv (bind_update RN (BHalf RN (SBound RN (HMulU RN) mx) (SBound RN (HMulL RN) mn)) x a).
Proof. exact (@Inferno.C09.HomeoProofs.homeostasis_breaks_soft_bounds). Qed.
Print Assumptions homeostasis_breaks_soft_bounds.
