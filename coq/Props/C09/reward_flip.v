(* Obligation C09/reward_flip.  Statement as printed by Coq from Inferno.C09.StdpSplitProofs; proof by reference.
   This file contains nothing else, so the statement cannot be weakened quietly. *)
From Coq Require Import List ZArith Bool Reals Lra Lia.
From Inferno Require Import Base.Num Base.NumR Gen.Trace Gen.Infra Gen.Interpolation C08.Stdp C08.StdpSpec C08.StdpProofs C09.StdpSplitProofs.
Import ListNotations.
Open Scope R_scope.
Theorem reward_flip : forall (c : config RN) (k : nat) (sv : R) (scale : T RN) (ss : list (sstate RN)),
  c_lr_post RN c <> 0 ->
  c_lr_pre RN c <> 0 ->
  sv <> 0 ->
  ov (fst (forward RN c k (SigScalar RN (- sv) scale) ss)) =
  ov (snd (forward RN c k (SigScalar RN sv scale) ss)) /\
  ov (snd (forward RN c k (SigScalar RN (- sv) scale) ss)) =
  ov (fst (forward RN c k (SigScalar RN sv scale) ss)).
Proof. exact (@Inferno.C09.StdpSplitProofs.reward_flip). Qed.
Print Assumptions reward_flip.
