(* Obligation C09/h_run_last_state.  Statement as printed by Coq from Inferno.C09.ComposeProofs; proof by reference.
   This file contains nothing else, so the statement cannot be weakened quietly. *)
From Coq Require Import List ZArith Bool Reals Lra Lia.
From Inferno Require Import Base.Num Base.NumR Gen.Trace Gen.Infra Gen.Interpolation Gen.Bounding C08.Stdp C08.StdpSpec C08.StdpProofs C09.Split C09.HomeoProofs C09.StdpSplitProofs C09.ComposeProofs.
Import ListNotations.
Open Scope R_scope.
Theorem h_run_last_state : forall (rk : hred) (p : hparam) (lam : T RN) (tg : list (list (T RN)))
    (steps : list (list (list bool))) (st : hstate RN) (d : uparts RN),
  fst (last (h_run RN rk p lam tg st steps) (st, d)) = fold_left (h_observe RN) steps st.
Proof. exact (@Inferno.C09.ComposeProofs.h_run_last_state). Qed.
Print Assumptions h_run_last_state.
