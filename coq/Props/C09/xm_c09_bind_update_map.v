(* Obligation XM/c09_bind_update_map.  Statement as printed by Coq from Inferno.XModel.AccC09; proof by reference.
   This file contains nothing else, so the statement cannot be weakened quietly. *)
From Coq Require Import List ZArith Bool Arith Lia.
From Inferno Require Import Base.Num Gen.Bounding.
From Inferno Require C09.Split C10.Updater.
From Inferno Require Import XModel.AccC09.
Import ListNotations.
Theorem c09_bind_update_map : forall (N : Num) (b : Split.bindT N) (xs ps ns : list (T N)),
  length xs = length ps ->
  length ps = length ns ->
  exists us : Updater.tensor N,
    Updater.bind_apply N (emb_bind N b) xs (Some ps) (Some ns) = Updater.Ok (Some us) /\
    map Some us =
    Updater.map3 (fun x p n : T N => Split.bind_update N b x (Some p, Some n)) xs ps ns.
Proof. exact (@Inferno.XModel.AccC09.c09_bind_update_map). Qed.
Print Assumptions c09_bind_update_map.
