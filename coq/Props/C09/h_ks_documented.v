(* Obligation C09/h_ks_documented.  Statement as printed by Coq from Inferno.C09.HomeoProofs; proof by reference.
   This file contains nothing else, so the statement cannot be weakened quietly. *)
From Coq Require Import List ZArith Bool Reals Lra Lia.
From Inferno Require Import Base.Num Base.NumR Gen.Bounding C18.DelayAdj C18.DelayAdjProofs C09.Split C09.HomeoProofs.
Import ListNotations.
Open Scope R_scope.
Theorem h_ks_documented : forall (p : hparam) (lam : T RN) (targets rates : list (list (T RN))),
  h_ks RN p lam targets rates = zip2 (doc_term p lam) targets rates.
Proof. exact (@Inferno.C09.HomeoProofs.h_ks_documented). Qed.
Print Assumptions h_ks_documented.
