(* Obligation XM/c09_half_apply_eq.  Statement as printed by Coq from Inferno.XModel.AccC09; proof by reference.
   This file contains nothing else, so the statement cannot be weakened quietly. *)
From Coq Require Import List ZArith Bool Arith Lia.
From Inferno Require Import Base.Num Gen.Bounding.
From Inferno Require C09.Split C10.Updater.
From Inferno Require Import XModel.AccC09.
Import ListNotations.
Theorem c09_half_apply_eq : forall (N : Num) (k : Split.halfk N) (lim x u : T N),
  Updater.half_apply N (emb_half N k) lim x u = Split.half_apply N k lim x u.
Proof. exact (@Inferno.XModel.AccC09.c09_half_apply_eq). Qed.
Print Assumptions c09_half_apply_eq.
