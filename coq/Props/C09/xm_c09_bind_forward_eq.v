(* Obligation XM/c09_bind_forward_eq.  Statement as printed by Coq from Inferno.XModel.AccC09; proof by reference.
   This file contains nothing else, so the statement cannot be weakened quietly. *)
From Coq Require Import List ZArith Bool Arith Lia.
From Inferno Require Import Base.Num Gen.Bounding.
From Inferno Require C09.Split C10.Updater.
From Inferno Require Import XModel.AccC09.
Import ListNotations.
Theorem c09_bind_forward_eq : forall (N : Num) (b : Split.bindT N) (x : T N) (p n : option (T N)),
  match Updater.bind_apply N (emb_bind N b) [x] (single N p) (single N n) with
  | Updater.Ok (Some u) => Updater.map2e N (add N) [x] u
  | Updater.Ok None => Updater.Ok [x]
  | Updater.Err e => Updater.Err e
  end = Updater.Ok [Split.bind_forward N b x (p, n)].
Proof. exact (@Inferno.XModel.AccC09.c09_bind_forward_eq). Qed.
Print Assumptions c09_bind_forward_eq.
