(* Obligation C09/homeostasis_always_spiking_raises_weight.  Statement as printed by Coq from Inferno.C09.ComposeProofs; proof by reference.
   This file contains nothing else, so the statement cannot be weakened quietly. *)
From Coq Require Import List ZArith Bool Reals Lra Lia.
From Inferno Require Import Base.Num Base.NumR Gen.Trace Gen.Infra Gen.Interpolation Gen.Bounding C08.Stdp C08.StdpSpec C08.StdpProofs C09.Split C09.HomeoProofs C09.StdpSplitProofs C09.ComposeProofs.
Import ListNotations.
Open Scope R_scope.
Theorem homeostasis_always_spiking_raises_weight : forall (rk : hred) (lam target : R) (w : T RN) (steps : list (list (list bool))),
  steps <> [] ->
  Forall (fun s : list (list bool) => s = [[true]]) steps ->
  0 < lam ->
  0 < target < 1 ->
  let r :=
    last (h_run RN rk PWeight lam [[target]] (h_init RN) steps) (h_init RN, (None, None)) in
  rate_at (fst r) 0 0 = 1 /\
  doc_term PWeight lam [target] [1] = lam * (target - 1) / target /\
  doc_term PWeight lam [target] [1] < 0 /\
  snd r = (Some 0, Some (lam * (target - 1) / target)) /\
  bind_forward RN BDefault w (snd r) = w + lam * (1 - target) / target /\
  w < bind_forward RN BDefault w (snd r).
Proof. exact (@Inferno.C09.ComposeProofs.homeostasis_always_spiking_raises_weight). Qed.
Print Assumptions homeostasis_always_spiking_raises_weight.
