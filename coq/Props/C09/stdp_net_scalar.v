(* Obligation C09/stdp_net_scalar.  Statement as printed by Coq from Inferno.C09.StdpSplitProofs; proof by reference.
   This file contains nothing else, so the statement cannot be weakened quietly. *)
From Coq Require Import List ZArith Bool Reals Lra Lia.
From Inferno Require Import Base.Num Base.NumR Gen.Trace Gen.Infra Gen.Interpolation C08.Stdp C08.StdpSpec C08.StdpProofs C09.StdpSplitProofs.
Import ListNotations.
Open Scope R_scope.
Theorem stdp_net_scalar : forall (c : config RN) (k : nat) (sv scale : T RN) (ss : list (sstate RN)),
  net (forward RN c k (SigScalar RN sv scale) ss) =
  sgn (c_lr_post RN c * sv) *
  (reduce RN (c_red RN c) (map fst (map (partials RN c k) ss)) * Rabs (sv * scale)) +
  sgn (c_lr_pre RN c * sv) *
  (reduce RN (c_red RN c) (map snd (map (partials RN c k) ss)) * Rabs (sv * scale)).
Proof. exact (@Inferno.C09.StdpSplitProofs.stdp_net_scalar). Qed.
Print Assumptions stdp_net_scalar.
