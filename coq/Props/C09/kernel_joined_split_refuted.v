(* Obligation C09/kernel_joined_split_refuted.  Statement as printed by Coq from Inferno.C09.KernelSplitProofs; proof by reference.
   This file contains nothing else, so the statement cannot be weakened quietly. *)
From Coq Require Import List ZArith Bool Reals Lra Lia.
From Inferno Require Import Base.Num Base.NumR C18.DelayAdj C18.EventProofs C18.DelayAdjProofs C09.Split C09.KernelSplitProofs.
Import ListNotations.
Open Scope R_scope.
Theorem kernel_joined_split_refuted : exists (kpost kpre : R -> R) (tds : list (list nvR)),
    let red := reduce RN RSum in
    kernel_fwd RN red kpost kpre tds = (Some 1, Some 1) /\
    kernel_fwd_joined red kpost kpre tds = (Some 0, Some 0) /\
    net RN (kernel_fwd RN red kpost kpre tds) = net RN (kernel_fwd_joined red kpost kpre tds).
Proof. exact (@Inferno.C09.KernelSplitProofs.kernel_joined_split_refuted). Qed.
Print Assumptions kernel_joined_split_refuted.
