(* Obligation C09/soft_bounded_stays_in_range.  Statement as printed by Coq from Inferno.C09.ComposeProofs; proof by reference.
   This file contains nothing else, so the statement cannot be weakened quietly. *)
From Coq Require Import List ZArith Bool Reals Lra Lia.
From Inferno Require Import Base.Num Base.NumR Gen.Trace Gen.Infra Gen.Interpolation Gen.Bounding C08.Stdp C08.StdpSpec C08.StdpProofs C09.Split C09.HomeoProofs C09.StdpSplitProofs C09.ComposeProofs.
Import ListNotations.
Open Scope R_scope.
Theorem soft_bounded_stays_in_range : forall (c : config RN) (k B : nat) (inps : list (list (bool * bool) * signal RN))
    (w mx mn : R),
  elig_ok c ->
  mn <= w <= mx ->
  let a := final_acc RN (run RN c k (init_batch RN B) inps) in
  ov (fst a) <= 1 ->
  ov (snd a) <= 1 ->
  mn <= bind_forward RN (BHalf RN (SBound RN (HMulU RN) mx) (SBound RN (HMulL RN) mn)) w a <=
  mx.
Proof. exact (@Inferno.C09.ComposeProofs.soft_bounded_stays_in_range). Qed.
Print Assumptions soft_bounded_stays_in_range.
