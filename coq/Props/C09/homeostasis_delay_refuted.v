(* Obligation C09/homeostasis_delay_refuted.  Statement as printed by Coq from Inferno.C09.HomeoProofs; proof by reference.
   This file contains nothing else, so the statement cannot be weakened quietly. *)
From Coq Require Import List ZArith Bool Reals Lra Lia.
From Inferno Require Import Base.Num Base.NumR Gen.Bounding C18.DelayAdj C18.DelayAdjProofs C09.Split C09.HomeoProofs.
Import ListNotations.
Open Scope R_scope.
Theorem homeostasis_delay_refuted : exists (lam target d : R) (steps : list (list (list bool))),
    0 < lam /\
    0 < target /\
    (let r :=
       last (h_run RN HMean PDelay lam [[target]] (h_init RN) steps) (h_init RN, (None, None))
       in
     h_rate RN (fst r) = Some [[0]] /\
     doc_term PDelay lam [target] [0] < 0 /\
     snd r = (Some 0, Some (-1)) /\ bind_forward RN BDefault d (snd r) = d + 1).
Proof. exact (@Inferno.C09.HomeoProofs.homeostasis_delay_refuted). Qed.
Print Assumptions homeostasis_delay_refuted.
