(* Obligation C14/tred_setters_ok.  Statement as printed by Coq from Inferno.C14.ConfigProofs; proof by reference.
   This file contains nothing else, so the statement cannot be weakened quietly. *)
From Coq Require Import List ZArith Bool Reals Lra Lia.
From Inferno Require Import Base.Num Base.NumR Gen.Infra C14.Config C14.ConfigProofs.
Import ListNotations.
Theorem tred_setters_ok : forall (r : tred RN) (v : T RN),
  tred_ok r -> tred_ok (tred_set_dt RN v r) /\ tred_ok (tred_set_dur RN v r).
Proof. exact (@Inferno.C14.ConfigProofs.tred_setters_ok). Qed.
Print Assumptions tred_setters_ok.
