(* Obligation C14/record_setters_eq_ctor_from.  Statement as printed by Coq from Inferno.C14.RecordCfgProofs; proof by reference.
   This file contains nothing else, so the statement cannot be weakened quietly. *)
From Coq Require Import List ZArith Bool Arith Lia.
From Inferno Require Import Base.Num Gen.Infra C01.Ring C01.RingProofs C13.Shaped C13.Lists C13.ShapedProofs C13.Resize C13.ResizeProofs C14.RecordCfg C14.RecordCfgProofs.
Import ListNotations.
Theorem record_setters_eq_ctor_from : forall (Nm : Num) (A D : Type) (cast : D -> A -> A),
  (D -> D -> D) ->
  (D -> D -> bool) ->
  forall zeroA : A,
  D ->
  forall (r0 : rec Nm) (value : option tensor) (ops : list (rset Nm)),
  Inv Nm r0 ->
  value_matches Nm r0 value ->
  let r := fold_left (rapply Nm zeroA) ops r0 in
  let
  '(dt', dur', incl') := fold_left (rexpect Nm) ops (rdt Nm r0, rdur Nm r0, rincl Nm r0) in
   exists rf : rec Nm,
     rcreate Nm (rstrict Nm r0) (rlive Nm r0) (rparam Nm r0) (user_cons Nm r0) dt' dur' incl'
       value = inl rf /\
     (rdt Nm r, rdur Nm r, rincl Nm r) = (dt', dur', incl') /\
     N (rg Nm r) = Z.to_nat (recordsz_expr Nm dur' dt' incl') /\
     N (rg Nm r) = N (rg Nm rf) /\
     rcons Nm r = rcons Nm rf /\
     user_cons Nm r = user_cons Nm r0 /\
     (forall f : A, rclear Nm cast r f = rclear Nm cast rf f).
Proof. exact (@Inferno.C14.RecordCfgProofs.record_setters_eq_ctor_from). Qed.
Print Assumptions record_setters_eq_ctor_from.
