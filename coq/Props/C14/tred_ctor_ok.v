(* Obligation C14/tred_ctor_ok.  Statement as printed by Coq from Inferno.C14.ConfigProofs; proof by reference.
   This file contains nothing else, so the statement cannot be weakened quietly. *)
From Coq Require Import List ZArith Bool Reals Lra Lia.
From Inferno Require Import Base.Num Base.NumR Gen.Infra C14.Config C14.ConfigProofs.
Import ListNotations.
Theorem tred_ctor_ok : forall (dt tc dur : T RN) (incl : bool), tred_ok (tred_ctor RN dt tc dur incl).
Proof. exact (@Inferno.C14.ConfigProofs.tred_ctor_ok). Qed.
Print Assumptions tred_ctor_ok.
