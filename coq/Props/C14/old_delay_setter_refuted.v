(* Obligation C14/old_delay_setter_refuted.  Statement as printed by Coq from Inferno.C14.ConfigProofs; proof by reference.
   This file contains nothing else, so the statement cannot be weakened quietly. *)
From Coq Require Import List ZArith Bool Reals Lra Lia.
From Inferno Require Import Base.Num Base.NumR Gen.Infra C14.Config C14.ConfigProofs.
Import ListNotations.
Theorem old_delay_setter_refuted : exists (c : comp) (v : T RN), comp_ok c /\ ~ comp_ok (set_delay_old RN v c).
Proof. exact (@Inferno.C14.ConfigProofs.old_delay_setter_refuted). Qed.
Print Assumptions old_delay_setter_refuted.
