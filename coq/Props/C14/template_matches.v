(* Obligation C14/template_matches.  Statement as printed by Coq from Inferno.C14.RecordCfgProofs; proof by reference.
   This file contains nothing else, so the statement cannot be weakened quietly. *)
From Coq Require Import List ZArith Bool Arith Lia.
From Inferno Require Import Base.Num Gen.Infra C01.Ring C01.RingProofs C13.Shaped C13.Lists C13.ShapedProofs C13.Resize C13.ResizeProofs C14.RecordCfg C14.RecordCfgProofs.
Import ListNotations.
Theorem template_matches : forall (Nm : Num) (A D : Type) (zeroA : A) (r : rec Nm),
  (forall (d : D) (rws : list (list A)), st (rg Nm r) <> SFull d [0] rws) ->
  value_matches Nm r (template Nm zeroA r).
Proof. exact (@Inferno.C14.RecordCfgProofs.template_matches). Qed.
Print Assumptions template_matches.
