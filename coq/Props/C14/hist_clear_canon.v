(* Obligation C14/hist_clear_canon.  Statement as printed by Coq from Inferno.C14.BatchProofs; proof by reference.
   This file contains nothing else, so the statement cannot be weakened quietly. *)
From Coq Require Import List ZArith Bool Arith Lia.
From Inferno Require Import Base.Num Gen.Infra C01.Ring C01.RingProofs C13.Shaped C13.Lists C13.ShapedProofs C13.Resize C13.ResizeProofs C14.RecordCfg C14.RecordCfgProofs C14.Batch C14.BatchProofs.
Import ListNotations.
Theorem hist_clear_canon : forall (Nm : Num) (A D : Type) (cast : D -> A -> A) (d : D) (shp : list nat)
    (dt delay : T Nm) (b : nat) (r : rec Nm) (f : A),
  hist_ok Nm d shp dt delay b r -> rclear Nm cast r f = hist_canon Nm cast d shp dt delay b f.
Proof. exact (@Inferno.C14.BatchProofs.hist_clear_canon). Qed.
Print Assumptions hist_clear_canon.
