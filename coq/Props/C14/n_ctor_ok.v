(* Obligation C14/n_ctor_ok.  Statement as printed by Coq from Inferno.C14.BatchProofs; proof by reference.
   This file contains nothing else, so the statement cannot be weakened quietly. *)
From Coq Require Import List ZArith Bool Arith Lia.
From Inferno Require Import Base.Num Gen.Infra C01.Ring C01.RingProofs C13.Shaped C13.Lists C13.ShapedProofs C13.Resize C13.ResizeProofs C14.RecordCfg C14.RecordCfgProofs C14.Batch C14.BatchProofs.
Import ListNotations.
Theorem n_ctor_ok : forall (A D : Type) (cast : D -> A -> A) (zeroA : A) (specs : list (D * A)) 
    (shp : list nat) (b : Z) (n : nstate),
  n_ctor cast zeroA specs shp b = Some n -> n_ok specs shp (Z.to_nat b) n.
Proof. exact (@Inferno.C14.BatchProofs.n_ctor_ok). Qed.
Print Assumptions n_ctor_ok.
