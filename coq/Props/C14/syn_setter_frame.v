(* Obligation C14/syn_setter_frame.  Statement as printed by Coq from Inferno.C14.SynProofs; proof by reference.
   This file contains nothing else, so the statement cannot be weakened quietly. *)
From Coq Require Import List ZArith Bool Arith Lia Reals.
From Inferno Require Import Base.Num Base.NumR Gen.Infra C01.Ring C01.RingProofs C13.Shaped C13.Lists C13.ShapedProofs C13.Resize C13.ResizeProofs C14.RecordCfg C14.RecordCfgProofs C14.Batch C14.BatchProofs C14.SynProofs.
Import ListNotations.
Open Scope nat_scope.
Theorem syn_setter_frame : forall (A D : Type) (cast : D -> A -> A) (zeroA : A) (c : scomp RN) (o : s_op RN),
  match o with
  | SDt _ _ =>
      s_delay RN (s_apply RN cast zeroA c o) = s_delay RN c /\
      s_batch RN (s_apply RN cast zeroA c o) = s_batch RN c /\
      s_inplace RN (s_apply RN cast zeroA c o) = s_inplace RN c
  | SDelay _ _ =>
      s_dt RN (s_apply RN cast zeroA c o) = s_dt RN c /\
      s_batch RN (s_apply RN cast zeroA c o) = s_batch RN c /\
      s_inplace RN (s_apply RN cast zeroA c o) = s_inplace RN c
  | SBatch _ _ =>
      s_dt RN (s_apply RN cast zeroA c o) = s_dt RN c /\
      s_delay RN (s_apply RN cast zeroA c o) = s_delay RN c /\
      s_inplace RN (s_apply RN cast zeroA c o) = s_inplace RN c
  | SInplace _ _ =>
      s_dt RN (s_apply RN cast zeroA c o) = s_dt RN c /\
      s_delay RN (s_apply RN cast zeroA c o) = s_delay RN c /\
      s_batch RN (s_apply RN cast zeroA c o) = s_batch RN c
  end.
Proof. exact (@Inferno.C14.SynProofs.syn_setter_frame). Qed.
Print Assumptions syn_setter_frame.
