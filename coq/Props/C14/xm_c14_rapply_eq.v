(* Obligation XM/c14_rapply_eq.  Statement as printed by Coq from Inferno.XModel.RecSize; proof by reference.
   This file contains nothing else, so the statement cannot be weakened quietly. *)
From Coq Require Import List ZArith Bool Arith Lia.
From Inferno Require Import Base.Num Gen.Infra C01.Ring C01.RingProofs.
From Inferno Require C13.Shaped C13.Resize C13.ResizeProofs C14.Config C14.RecordCfg C14.RecordCfgProofs.
From Inferno Require C04.Synapse C07.Reducer C08.Stdp.
From Inferno Require Import XModel.RecSize.
Import ListNotations.
Theorem c14_rapply_eq : forall (Nm : Num) (A D : Type),
  (D -> A -> A) ->
  (D -> D -> D) ->
  (D -> D -> bool) ->
  forall zeroA : A,
  D ->
  forall (r : @Resize.rec Nm A D) (s : RecordCfg.rset Nm),
  @ResizeProofs.Inv Nm A D r ->
  @cfg14 Nm A D (@RecordCfg.rapply Nm A D zeroA r s) = c14_rapply Nm (@cfg14 Nm A D r) s.
Proof. exact (@Inferno.XModel.RecSize.c14_rapply_eq). Qed.
Print Assumptions c14_rapply_eq.
