(* Obligation C14/ctor_reaches.  Statement as printed by Coq from Inferno.C14.RecordCfgProofs; proof by reference.
   This file contains nothing else, so the statement cannot be weakened quietly. *)
From Coq Require Import List ZArith Bool Arith Lia.
From Inferno Require Import Base.Num Gen.Infra C01.Ring C01.RingProofs C13.Shaped C13.Lists C13.ShapedProofs C13.Resize C13.ResizeProofs C14.RecordCfg C14.RecordCfgProofs.
Import ListNotations.
Theorem ctor_reaches : forall (Nm : Num) (A D : Type) (cast : D -> A -> A),
  (D -> D -> D) ->
  (D -> D -> bool) ->
  A ->
  D ->
  forall (r : rec Nm) (value : option tensor),
  Inv Nm r ->
  value_matches Nm r value ->
  exists rf : rec Nm,
    rcreate Nm (rstrict Nm r) (rlive Nm r) (rparam Nm r) (user_cons Nm r) 
      (rdt Nm r) (rdur Nm r) (rincl Nm r) value = inl rf /\
    cfg_of Nm rf = cfg_of Nm r /\
    N (rg Nm rf) = N (rg Nm r) /\
    rcons Nm rf = rcons Nm r /\ (forall f : A, rclear Nm cast rf f = rclear Nm cast r f).
Proof. exact (@Inferno.C14.RecordCfgProofs.ctor_reaches). Qed.
Print Assumptions ctor_reaches.
