(* Obligation C14/setter_frame.  Statement as printed by Coq from Inferno.C14.ConfigProofs; proof by reference.
   This file contains nothing else, so the statement cannot be weakened quietly. *)
From Coq Require Import List ZArith Bool Reals Lra Lia.
From Inferno Require Import Base.Num Base.NumR Gen.Infra C14.Config C14.ConfigProofs.
Import ListNotations.
Theorem setter_frame : forall (c : comp) (o : sop RN),
  match o with
  | SetDt _ _ =>
      c_delay RN (apply RN c o) = c_delay RN c /\ c_batch RN (apply RN c o) = c_batch RN c
  | SetDelay _ _ =>
      c_dt RN (apply RN c o) = c_dt RN c /\ c_batch RN (apply RN c o) = c_batch RN c
  | SetBatch _ _ =>
      c_dt RN (apply RN c o) = c_dt RN c /\ c_delay RN (apply RN c o) = c_delay RN c
  end.
Proof. exact (@Inferno.C14.ConfigProofs.setter_frame). Qed.
Print Assumptions setter_frame.
