(* Obligation C14/red_reachable_consistent.  Statement as printed by Coq from Inferno.C14.ReducerProofs; proof by reference.
   This file contains nothing else, so the statement cannot be weakened quietly. *)
From Coq Require Import List ZArith Bool Arith Lia Reals.
From Inferno Require Import Base.Num Base.NumR Gen.Infra C01.Ring C01.RingProofs C13.Shaped C13.Lists C13.ShapedProofs C13.Resize C13.ResizeProofs C14.RecordCfg C14.RecordCfgProofs C14.Batch C14.BatchProofs C14.SynProofs C14.Reducer C14.ReducerProofs.
Import ListNotations.
Open Scope nat_scope.
Theorem red_reachable_consistent : forall (A D : Type) (cast : D -> A -> A) (promote : D -> D -> D) 
    (D_eqb : D -> D -> bool) (zeroA : A) (default_d : D) (dt dur : T RN) 
    (incl ip : bool) (tc : T RN) (R0 : red RN) (ops : list (red_op RN)),
  red_ctor RN zeroA default_d dt dur incl ip tc = Some R0 ->
  Forall red_op_wf ops ->
  let R := fold_left (red_apply RN cast promote D_eqb zeroA default_d) ops R0 in
  cfg_of RN (d_rec RN R) = (d_dt RN R, d_dur RN R, incl) /\
  N (rg RN (d_rec RN R)) = Z.to_nat (recordsz_expr RN (d_dur RN R) (d_dt RN R) incl) /\
  d_decay RN R = Rtrigo_def.exp (- d_dt RN R / tc).
Proof. exact (@Inferno.C14.ReducerProofs.red_reachable_consistent). Qed.
Print Assumptions red_reachable_consistent.
