(* Obligation C14/rapply_spec.  Statement as printed by Coq from Inferno.C14.RecordCfgProofs; proof by reference.
   This file contains nothing else, so the statement cannot be weakened quietly. *)
From Coq Require Import List ZArith Bool Arith Lia.
From Inferno Require Import Base.Num Gen.Infra C01.Ring C01.RingProofs C13.Shaped C13.Lists C13.ShapedProofs C13.Resize C13.ResizeProofs C14.RecordCfg C14.RecordCfgProofs.
Import ListNotations.
Theorem rapply_spec : forall (Nm : Num) (A D : Type),
  (D -> A -> A) ->
  (D -> D -> D) ->
  (D -> D -> bool) ->
  forall zeroA : A,
  D ->
  forall (r : @rec Nm A D) (s : rset Nm),
  @Inv Nm A D r ->
  @Inv Nm A D (@rapply Nm A D zeroA r s) /\
  @cfg_of Nm A D (@rapply Nm A D zeroA r s) = rexpect Nm (@cfg_of Nm A D r) s /\
  @same_frame Nm A D r (@rapply Nm A D zeroA r s).
Proof. exact (@Inferno.C14.RecordCfgProofs.rapply_spec). Qed.
Print Assumptions rapply_spec.
