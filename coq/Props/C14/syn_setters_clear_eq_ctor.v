(* Obligation C14/syn_setters_clear_eq_ctor.  Statement as printed by Coq from Inferno.C14.SynProofs; proof by reference.
   This file contains nothing else, so the statement cannot be weakened quietly. *)
From Coq Require Import List ZArith Bool Arith Lia Reals.
From Inferno Require Import Base.Num Base.NumR Gen.Infra C01.Ring C01.RingProofs C13.Shaped C13.Lists C13.ShapedProofs C13.Resize C13.ResizeProofs C14.RecordCfg C14.RecordCfgProofs C14.Batch C14.BatchProofs C14.SynProofs.
Import ListNotations.
Open Scope nat_scope.
Theorem syn_setters_clear_eq_ctor : forall (A D : Type) (cast : D -> A -> A),
  (D -> D -> D) ->
  (D -> D -> bool) ->
  forall zeroA : A,
  D ->
  forall (ds : list D) (shp : list nat) (dt delay : T RN) (b : Z) 
    (ip : bool) (c0 : scomp RN) (ops : list (s_op RN)),
  s_ctor RN zeroA ds shp dt delay b ip = Some c0 ->
  let
  '(dt', dl', b', ip') := fold_left (s_expect RN) ops (dt, delay, b, ip) in
   exists cf : scomp RN,
     s_ctor RN zeroA ds shp dt' dl' b' ip' = Some cf /\
     s_cfg (fold_left (s_apply RN cast zeroA) ops c0) = (dt', dl', b', ip') /\
     s_clear RN cast zeroA (fold_left (s_apply RN cast zeroA) ops c0) =
     s_clear RN cast zeroA cf.
Proof. exact (@Inferno.C14.SynProofs.syn_setters_clear_eq_ctor). Qed.
Print Assumptions syn_setters_clear_eq_ctor.
