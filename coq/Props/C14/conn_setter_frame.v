(* Obligation C14/conn_setter_frame.  Statement as printed by Coq from Inferno.C14.ConnProofs; proof by reference.
   This file contains nothing else, so the statement cannot be weakened quietly. *)
From Coq Require Import List ZArith Bool Arith Lia Reals.
From Inferno Require Import Base.Num Base.NumR Gen.Infra C01.Ring C01.RingProofs C13.Shaped C13.Lists C13.ShapedProofs C13.Resize C13.ResizeProofs C14.RecordCfg C14.RecordCfgProofs C14.Batch C14.BatchProofs C14.SynProofs C14.Conn C14.ConnProofs.
Import ListNotations.
Open Scope nat_scope.
Theorem conn_setter_frame : forall (A D : Type) (cast : D -> A -> A) (zeroA : A) (shp : list nat) 
    (c : conn RN) (o : conn_op RN),
  match o with
  | KDt _ _ | KOnSyn _ (SDt _ _) =>
      conn_batch RN (conn_apply RN cast zeroA shp c o) = conn_batch RN c /\
      conn_delayedby RN (conn_apply RN cast zeroA shp c o) = conn_delayedby RN c
  | KOnSyn _ (SDelay _ _) =>
      conn_dt RN (conn_apply RN cast zeroA shp c o) = conn_dt RN c /\
      conn_batch RN (conn_apply RN cast zeroA shp c o) = conn_batch RN c
  | KOnSyn _ (SInplace _ _) =>
      conn_dt RN (conn_apply RN cast zeroA shp c o) = conn_dt RN c /\
      conn_batch RN (conn_apply RN cast zeroA shp c o) = conn_batch RN c /\
      conn_delayedby RN (conn_apply RN cast zeroA shp c o) = conn_delayedby RN c
  | KSyn _ _ _ _ _ _ => True
  | _ =>
      conn_dt RN (conn_apply RN cast zeroA shp c o) = conn_dt RN c /\
      conn_delayedby RN (conn_apply RN cast zeroA shp c o) = conn_delayedby RN c
  end.
Proof. exact (@Inferno.C14.ConnProofs.conn_setter_frame). Qed.
Print Assumptions conn_setter_frame.
