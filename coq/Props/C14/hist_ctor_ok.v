(* Obligation C14/hist_ctor_ok.  Statement as printed by Coq from Inferno.C14.BatchProofs; proof by reference.
   This file contains nothing else, so the statement cannot be weakened quietly. *)
From Coq Require Import List ZArith Bool Arith Lia.
From Inferno Require Import Base.Num Gen.Infra C01.Ring C01.RingProofs C13.Shaped C13.Lists C13.ShapedProofs C13.Resize C13.ResizeProofs C14.RecordCfg C14.RecordCfgProofs C14.Batch C14.BatchProofs.
Import ListNotations.
Theorem hist_ctor_ok : forall (Nm : Num) (A D : Type),
  (D -> A -> A) ->
  (D -> D -> D) ->
  (D -> D -> bool) ->
  forall zeroA : A,
  D ->
  forall (d : D) (shp : list nat) (b : Z) (dt delay : T Nm),
  (0 < b)%Z ->
  gtb Nm dt (zero Nm) = true ->
  geb Nm delay (zero Nm) = true ->
  exists r : rec Nm,
    hist_ctor Nm zeroA d shp b dt delay = inl r /\ hist_ok Nm d shp dt delay (Z.to_nat b) r.
Proof. exact (@Inferno.C14.BatchProofs.hist_ctor_ok). Qed.
Print Assumptions hist_ctor_ok.
