(* Obligation C14/conn_forwards.  Statement as printed by Coq from Inferno.C14.ConnProofs; proof by reference.
   This file contains nothing else, so the statement cannot be weakened quietly. *)
From Coq Require Import List ZArith Bool Arith Lia Reals.
From Inferno Require Import Base.Num Base.NumR Gen.Infra C01.Ring C01.RingProofs C13.Shaped C13.Lists C13.ShapedProofs C13.Resize C13.ResizeProofs C14.RecordCfg C14.RecordCfgProofs C14.Batch C14.BatchProofs C14.SynProofs C14.Conn C14.ConnProofs.
Import ListNotations.
Open Scope nat_scope.
Theorem conn_forwards : forall (A D : Type) (cast : D -> A -> A) (zeroA : A) (shp : list nat) 
    (c : conn RN) (o : conn_op RN),
  match o with
  | KDt _ v =>
      conn_synapse RN (conn_apply RN cast zeroA shp c o) =
      s_apply RN cast zeroA (conn_synapse RN c) (SDt RN v)
  | KBatch _ v =>
      conn_synapse RN (conn_apply RN cast zeroA shp c o) =
      s_apply RN cast zeroA (conn_synapse RN c) (SBatch RN v)
  | KOnSyn _ o' =>
      conn_synapse RN (conn_apply RN cast zeroA shp c o) =
      s_apply RN cast zeroA (conn_synapse RN c) o'
  | KSyn _ ds dt dl b ip =>
      match s_ctor RN zeroA ds shp dt dl b ip with
      | Some s => conn_synapse RN (conn_apply RN cast zeroA shp c o) = s
      | None => conn_apply RN cast zeroA shp c o = c
      end
  end /\
  k_delayed RN (conn_apply RN cast zeroA shp c o) = k_delayed RN c /\
  k_stray RN (conn_apply RN cast zeroA shp c o) = k_stray RN c /\
  (let c' := conn_apply RN cast zeroA shp c o in
   conn_dt RN c' = s_dt RN (conn_synapse RN c') /\
   conn_batch RN c' = s_batch RN (conn_synapse RN c') /\
   conn_delayedby RN c' =
   (if k_delayed RN c then Some (s_delay RN (conn_synapse RN c')) else None)).
Proof. exact (@Inferno.C14.ConnProofs.conn_forwards). Qed.
Print Assumptions conn_forwards.
