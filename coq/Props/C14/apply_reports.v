(* Obligation C14/apply_reports.  Statement as printed by Coq from Inferno.C14.ConfigProofs; proof by reference.
   This file contains nothing else, so the statement cannot be weakened quietly. *)
From Coq Require Import List ZArith Bool Reals Lra Lia.
From Inferno Require Import Base.Num Base.NumR Gen.Infra C14.Config C14.ConfigProofs.
Import ListNotations.
Theorem apply_reports : forall (c : comp) (o : sop RN),
  let
  '(dt, dl, b) := expect RN (c_dt RN c, c_delay RN c, c_batch RN c) o in
   c_dt RN (apply RN c o) = dt /\
   c_delay RN (apply RN c o) = dl /\ c_batch RN (apply RN c o) = b.
Proof. exact (@Inferno.C14.ConfigProofs.apply_reports). Qed.
Print Assumptions apply_reports.
