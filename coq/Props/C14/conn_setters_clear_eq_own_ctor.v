(* Obligation C14/conn_setters_clear_eq_own_ctor.  Statement as printed by Coq from Inferno.C14.ConnProofs; proof by reference.
   This file contains nothing else, so the statement cannot be weakened quietly. *)
From Coq Require Import List ZArith Bool Arith Lia Reals.
From Inferno Require Import Base.Num Base.NumR Gen.Infra C01.Ring C01.RingProofs C13.Shaped C13.Lists C13.ShapedProofs C13.Resize C13.ResizeProofs C14.RecordCfg C14.RecordCfgProofs C14.Batch C14.BatchProofs C14.SynProofs C14.Conn C14.ConnProofs.
Import ListNotations.
Open Scope nat_scope.
Theorem conn_setters_clear_eq_own_ctor : forall (A D : Type) (cast : D -> A -> A),
  (D -> D -> D) ->
  (D -> D -> bool) ->
  forall zeroA : A,
  D ->
  forall (ds : list D) (shp : list nat) (dt : T RN) (delay : option (T RN)) 
    (b : Z) (ip : bool) (c0 : conn RN) (ops : list (conn_op RN)),
  conn_ctor RN zeroA ds shp dt delay b ip = Some c0 ->
  forallb (dt_batch_op RN) ops = true ->
  let c := fold_left (conn_apply RN cast zeroA shp) ops c0 in
  exists cf : conn RN,
    conn_ctor RN zeroA ds shp (conn_dt RN c) delay (conn_batch RN c) ip = Some cf /\
    conn_clear RN cast zeroA c = conn_clear RN cast zeroA cf.
Proof. exact (@Inferno.C14.ConnProofs.conn_setters_clear_eq_own_ctor). Qed.
Print Assumptions conn_setters_clear_eq_own_ctor.
