(* Obligation C14/red_setters_clear_eq_ctor.  Statement as printed by Coq from Inferno.C14.ReducerProofs; proof by reference.
   This file contains nothing else, so the statement cannot be weakened quietly. *)
From Coq Require Import List ZArith Bool Arith Lia Reals.
From Inferno Require Import Base.Num Base.NumR Gen.Infra C01.Ring C01.RingProofs C13.Shaped C13.Lists C13.ShapedProofs C13.Resize C13.ResizeProofs C14.RecordCfg C14.RecordCfgProofs C14.Batch C14.BatchProofs C14.SynProofs C14.Reducer C14.ReducerProofs.
Import ListNotations.
Open Scope nat_scope.
Theorem red_setters_clear_eq_ctor : forall (A D : Type) (cast : D -> A -> A) (promote : D -> D -> D) 
    (D_eqb : D -> D -> bool) (zeroA : A) (default_d : D) (dt dur : T RN) 
    (incl ip : bool) (tc : T RN) (R0 : red RN) (ops : list (red_op RN)),
  red_ctor RN zeroA default_d dt dur incl ip tc = Some R0 ->
  Forall red_op_wf ops ->
  let
  '(dt', dur', ip') := fold_left (red_expect RN) ops (dt, dur, ip) in
   red_cfg (fold_left (red_apply RN cast promote D_eqb zeroA default_d) ops R0) =
   (dt', dur', ip') /\
   red_ctor RN zeroA default_d dt' dur' incl ip' tc =
   Some
     (red_clear RN cast zeroA default_d
        (fold_left (red_apply RN cast promote D_eqb zeroA default_d) ops R0) false).
Proof. exact (@Inferno.C14.ReducerProofs.red_setters_clear_eq_ctor). Qed.
Print Assumptions red_setters_clear_eq_ctor.
