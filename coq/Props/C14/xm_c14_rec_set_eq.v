(* Obligation XM/c14_rec_set_eq.  Statement as printed by Coq from Inferno.XModel.RecSize; proof by reference.
   This file contains nothing else, so the statement cannot be weakened quietly. *)
From Coq Require Import List ZArith Bool Arith Lia.
From Inferno Require Import Base.Num Gen.Infra C01.Ring C01.RingProofs.
From Inferno Require C13.Shaped C13.Resize C13.ResizeProofs C14.Config C14.RecordCfg C14.RecordCfgProofs.
From Inferno Require C04.Synapse C07.Reducer C08.Stdp.
From Inferno Require Import XModel.RecSize.
Import ListNotations.
Theorem c14_rec_set_eq : forall (Nm : Num) (A D : Type),
  (D -> A -> A) ->
  (D -> D -> D) ->
  (D -> D -> bool) ->
  forall zeroA : A,
  D ->
  forall (r : @Resize.rec Nm A D) (s : ResizeProofs.setter Nm),
  @ResizeProofs.rwf Nm A D r ->
  @Resize.rvalid Nm A D r = true ->
  @ResizeProofs.no_alias0 Nm A D r ->
  @ResizeProofs.setter_ok Nm A D r s ->
  @snd (@Resize.rec Nm A D) (option Shaped.xerr) (@ResizeProofs.apply_setter Nm A D zeroA r s) =
  @None Shaped.xerr /\
  @cfg14 Nm A D
    (@fst (@Resize.rec Nm A D) (option Shaped.xerr)
       (@ResizeProofs.apply_setter Nm A D zeroA r s)) = c14_setter Nm s (@cfg14 Nm A D r).
Proof. exact (@Inferno.XModel.RecSize.c14_rec_set_eq). Qed.
Print Assumptions c14_rec_set_eq.
