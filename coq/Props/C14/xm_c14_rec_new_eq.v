(* Obligation XM/c14_rec_new_eq.  Statement as printed by Coq from Inferno.XModel.RecSize; proof by reference.
   This file contains nothing else, so the statement cannot be weakened quietly. *)
From Coq Require Import List ZArith Bool Arith Lia.
From Inferno Require Import Base.Num Gen.Infra C01.Ring C01.RingProofs.
From Inferno Require C13.Shaped C13.Resize C13.ResizeProofs C14.Config C14.RecordCfg C14.RecordCfgProofs.
From Inferno Require C04.Synapse C07.Reducer C08.Stdp.
From Inferno Require Import XModel.RecSize.
Import ListNotations.
Theorem c14_rec_new_eq : forall (Nm : Num) (A D : Type),
  (D -> A -> A) ->
  (D -> D -> D) ->
  (D -> D -> bool) ->
  A ->
  D ->
  forall (strict live param : bool) (ucons : Shaped.cons_t) (dt dur : T Nm) 
    (incl : bool) (value : option (@Shaped.tensor A D)) (r : @Resize.rec Nm A D),
  @Resize.rcreate Nm A D strict live param ucons dt dur incl value =
  @inl (@Resize.rec Nm A D) Shaped.xerr r -> @cfg14 Nm A D r = Config.rec_new Nm dt dur incl.
Proof. exact (@Inferno.XModel.RecSize.c14_rec_new_eq). Qed.
Print Assumptions c14_rec_new_eq.
