(* Obligation C14/red_setter_frame.  Statement as printed by Coq from Inferno.C14.ReducerProofs; proof by reference.
   This file contains nothing else, so the statement cannot be weakened quietly. *)
From Coq Require Import List ZArith Bool Arith Lia Reals.
From Inferno Require Import Base.Num Base.NumR Gen.Infra C01.Ring C01.RingProofs C13.Shaped C13.Lists C13.ShapedProofs C13.Resize C13.ResizeProofs C14.RecordCfg C14.RecordCfgProofs C14.Batch C14.BatchProofs C14.SynProofs C14.Reducer C14.ReducerProofs.
Import ListNotations.
Open Scope nat_scope.
Theorem red_setter_frame : forall (A D : Type) (cast : D -> A -> A) (promote : D -> D -> D) 
    (D_eqb : D -> D -> bool) (zeroA : A) (default_d : D) (R : red RN) 
    (o : red_op RN),
  match o with
  | RdDt _ _ =>
      d_dur RN (red_apply RN cast promote D_eqb zeroA default_d R o) = d_dur RN R /\
      d_inplace RN (red_apply RN cast promote D_eqb zeroA default_d R o) = d_inplace RN R
  | RdDur _ _ =>
      d_dt RN (red_apply RN cast promote D_eqb zeroA default_d R o) = d_dt RN R /\
      d_inplace RN (red_apply RN cast promote D_eqb zeroA default_d R o) = d_inplace RN R /\
      d_decay RN (red_apply RN cast promote D_eqb zeroA default_d R o) = d_decay RN R
  | RdInplace _ _ =>
      d_dt RN (red_apply RN cast promote D_eqb zeroA default_d R o) = d_dt RN R /\
      d_dur RN (red_apply RN cast promote D_eqb zeroA default_d R o) = d_dur RN R /\
      d_decay RN (red_apply RN cast promote D_eqb zeroA default_d R o) = d_decay RN R
  | _ =>
      red_cfg (red_apply RN cast promote D_eqb zeroA default_d R o) = red_cfg R /\
      d_decay RN (red_apply RN cast promote D_eqb zeroA default_d R o) = d_decay RN R
  end /\
  d_incl RN (red_apply RN cast promote D_eqb zeroA default_d R o) = d_incl RN R /\
  d_tc RN (red_apply RN cast promote D_eqb zeroA default_d R o) = d_tc RN R.
Proof. exact (@Inferno.C14.ReducerProofs.red_setter_frame). Qed.
Print Assumptions red_setter_frame.
