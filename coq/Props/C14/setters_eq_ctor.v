(* Obligation C14/setters_eq_ctor.  Statement as printed by Coq from Inferno.C14.ConfigProofs; proof by reference.
   This file contains nothing else, so the statement cannot be weakened quietly. *)
From Coq Require Import List ZArith Bool Reals Lra Lia.
From Inferno Require Import Base.Num Base.NumR Gen.Infra C14.Config C14.ConfigProofs.
Import ListNotations.
Theorem setters_eq_ctor : forall (ops : list (sop RN)) (k : nat) (dt delay : T RN) (b : Z) 
    (dt0 dur0 : T RN) (incl0 : bool),
  let c := fold_left (apply RN) ops (ctor RN k dt delay b dt0 dur0 incl0) in
  let
  '(dt', dl', b') := fold_left (expect RN) ops (dt, delay, b) in
   c = ctor RN k dt' dl' b' dt0 dur0 incl0.
Proof. exact (@Inferno.C14.ConfigProofs.setters_eq_ctor). Qed.
Print Assumptions setters_eq_ctor.
