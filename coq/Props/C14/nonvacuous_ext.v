(* Obligation C14/nonvacuous_ext.  Statement as printed by Coq from Inferno.C14.WitnessExt; proof by reference.
   This file contains nothing else, so the statement cannot be weakened quietly. *)
From Coq Require Import List ZArith Bool Arith Lia Reals Lra.
From Inferno Require Import Base.Num Base.NumR Gen.Infra C01.Ring C01.RingProofs C13.Shaped C13.Lists C13.ShapedProofs C13.Resize C13.ResizeProofs C13.Witness C14.RecordCfg C14.RecordCfgProofs C14.Batch C14.BatchProofs C14.SynProofs C14.Reducer C14.ReducerProofs C14.Conn C14.ConnProofs C14.WitnessExt.
Import ListNotations.
Open Scope Z_scope.
Theorem nonvacuous_ext : (exists r0 : rec ZN,
     rec_w = inl r0 /\
     Inv ZN r0 /\
     N (rg ZN r0) = 3%nat /\
     N (rg ZN (fold_left (rapply ZN 0) ops_w r0)) = 7%nat /\
     fold_left (rexpect ZN) ops_w (1, 3, false) = (1, 6, true) /\
     st (rg ZN (rclear ZN castI (fold_left (rapply ZN 0) ops_w r0) 0)) =
     SFull 2 [2%nat] (repeat [0; 0] 7)) /\
  (exists r : rec ZN,
     hist_w = inl r /\
     hist_ok ZN 2 [3%nat] 1 2 2 r /\
     N (rg ZN r) = 3%nat /\
     (exists rows : list (list Z),
        st (rg ZN (hist_set_batch ZN 0 r 4)) = SFull 2 [4%nat; 3%nat] rows /\
        length rows = 3%nat)) /\
  (exists n : nstate,
     neuron_w = Some n /\
     n_ok [(2, 0); (2, -120)] [3%nat] 2 n /\
     map (fun sf : shaped * Z => sdat (fst sf)) (n_tensors (n_set_batch castI 0 n 3)) =
     [DTensor {| tdt := 2; tshape := [3%nat; 3%nat]; tflat := repeat 0 9 |};
      DTensor {| tdt := 2; tshape := [3%nat; 3%nat]; tflat := repeat (-120) 9 |}]) /\
  (exists R0 : red RN, red_ctor RN 0 2 1%R 2%R true false 20%R = Some R0 /\ red_ok 2 R0) /\
  (exists c0 : scomp RN,
     s_ctor RN 0 [2; 0] [3%nat] 1%R 2%R 2 false = Some c0 /\ scomp_ok [2; 0] [3%nat] c0) /\
  (exists k0 : conn RN,
     conn_ctor RN 0 [0] [3%nat] 1%R (Some 2%R) 2 false = Some k0 /\
     conn_delayedby RN k0 = Some 2%R).
Proof. exact (@Inferno.C14.WitnessExt.nonvacuous_ext). Qed.
Print Assumptions nonvacuous_ext.
