(* Obligation C14/record_setters_eq_ctor.  Statement as printed by Coq from Inferno.C14.RecordCfgProofs; proof by reference.
   This file contains nothing else, so the statement cannot be weakened quietly. *)
From Coq Require Import List ZArith Bool Arith Lia.
From Inferno Require Import Base.Num Gen.Infra C01.Ring C01.RingProofs C13.Shaped C13.Lists C13.ShapedProofs C13.Resize C13.ResizeProofs C14.RecordCfg C14.RecordCfgProofs.
Import ListNotations.
Theorem record_setters_eq_ctor : forall (Nm : Num) (A D : Type) (cast : D -> A -> A),
  (D -> D -> D) ->
  (D -> D -> bool) ->
  forall zeroA : A,
  D ->
  forall (strict live param : bool) (ucons : cons_t) (dt0 dur0 : T Nm) 
    (incl0 : bool) (value : option tensor) (r0 : rec Nm) (ops : list (rset Nm)),
  rcreate Nm strict live param ucons dt0 dur0 incl0 value = inl r0 ->
  NoDup (keys ucons) ->
  match value with
  | Some t => length (tflat t) = nel (tshape t)
  | None => True
  end ->
  strict = true \/
  match value with
  | Some t =>
      forall (dd : Z) (s : nat),
      In (dd, s) (shift_cons ucons) -> pyidx (S (length (tshape t))) dd <> 0
  | None => True
  end ->
  let r := fold_left (rapply Nm zeroA) ops r0 in
  let
  '(dt', dur', incl') := fold_left (rexpect Nm) ops (dt0, dur0, incl0) in
   exists rf : rec Nm,
     rcreate Nm strict live param ucons dt' dur' incl' value = inl rf /\
     (rdt Nm r, rdur Nm r, rincl Nm r) = (dt', dur', incl') /\
     N (rg Nm r) = Z.to_nat (recordsz_expr Nm dur' dt' incl') /\
     N (rg Nm r) = N (rg Nm rf) /\
     rcons Nm r = rcons Nm rf /\
     user_cons Nm r = ucons /\ (forall f : A, rclear Nm cast r f = rclear Nm cast rf f).
Proof. exact (@Inferno.C14.RecordCfgProofs.record_setters_eq_ctor). Qed.
Print Assumptions record_setters_eq_ctor.
