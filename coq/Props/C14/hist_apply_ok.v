(* Obligation C14/hist_apply_ok.  Statement as printed by Coq from Inferno.C14.BatchProofs; proof by reference.
   This file contains nothing else, so the statement cannot be weakened quietly. *)
From Coq Require Import List ZArith Bool Arith Lia.
From Inferno Require Import Base.Num Gen.Infra C01.Ring C01.RingProofs C13.Shaped C13.Lists C13.ShapedProofs C13.Resize C13.ResizeProofs C14.RecordCfg C14.RecordCfgProofs C14.Batch C14.BatchProofs.
Import ListNotations.
Theorem hist_apply_ok : forall (Nm : Num) (A D : Type),
  (D -> A -> A) ->
  (D -> D -> D) ->
  (D -> D -> bool) ->
  forall zeroA : A,
  D ->
  forall (d : D) (shp : list nat) (dt delay : T Nm) (b : nat) (r : rec Nm) (s : rset Nm),
  hist_ok Nm d shp dt delay b r ->
  let
  '(dt', dl', incl') := rexpect Nm (dt, delay, true) s in
   incl' = true -> hist_ok Nm d shp dt' dl' b (rapply Nm zeroA r s).
Proof. exact (@Inferno.C14.BatchProofs.hist_apply_ok). Qed.
Print Assumptions hist_apply_ok.
