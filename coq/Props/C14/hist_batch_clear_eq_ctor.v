(* Obligation C14/hist_batch_clear_eq_ctor.  Statement as printed by Coq from Inferno.C14.BatchProofs; proof by reference.
   This file contains nothing else, so the statement cannot be weakened quietly. *)
From Coq Require Import List ZArith Bool Arith Lia.
From Inferno Require Import Base.Num Gen.Infra C01.Ring C01.RingProofs C13.Shaped C13.Lists C13.ShapedProofs C13.Resize C13.ResizeProofs C14.RecordCfg C14.RecordCfgProofs C14.Batch C14.BatchProofs.
Import ListNotations.
Theorem hist_batch_clear_eq_ctor : forall (Nm : Num) (A D : Type) (cast : D -> A -> A),
  (D -> D -> D) ->
  (D -> D -> bool) ->
  forall zeroA : A,
  D ->
  forall (d : D) (shp : list nat) (dt delay : T Nm) (b : nat) (r : rec Nm) (v : Z) (f : A),
  hist_ok Nm d shp dt delay b r ->
  (0 < v)%Z ->
  exists rf : rec Nm,
    hist_ctor Nm zeroA d shp v dt delay = inl rf /\
    rclear Nm cast (hist_set_batch Nm zeroA r v) f = rclear Nm cast rf f.
Proof. exact (@Inferno.C14.BatchProofs.hist_batch_clear_eq_ctor). Qed.
Print Assumptions hist_batch_clear_eq_ctor.
