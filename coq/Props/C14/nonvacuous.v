(* Obligation C14/nonvacuous: a concrete constructed component satisfies the invariant used by the C14 theorems and a
   concrete setter sequence really changes its history sizes (3 slots -> 7 slots). *)
From Coq Require Import List ZArith Bool Reals Lra Lia.
From Flocq Require Import Core.Raux.
From Inferno Require Import Base.Num Base.NumR Gen.Infra C14.Config C14.ConfigProofs.
Import ListNotations.
Open Scope R_scope.
Theorem nonvacuous :
  comp_ok (ctor RN 2 1 2 4%Z 1 0 false) /\
  map (r_size RN) (c_recs RN (ctor RN 2 1 2 4%Z 1 0 false)) = [3; 3]%Z /\
  map (r_size RN) (c_recs RN (fold_left (apply RN) [SetDelay RN 3; SetDt RN (/ 2)] (ctor RN 2 1 2 4%Z 1 0 false))) = [7; 7]%Z.
Proof.
  split; [apply ctor_ok|].
  assert (C1 : Zceil (2 / 1) = 2%Z) by (replace (2 / 1) with (IZR 2) by lra; apply Zceil_IZR).
  assert (C2 : Zceil (3 / / 2) = 6%Z) by (replace (3 / / 2) with (IZR 6) by lra; apply Zceil_IZR).
  split.
  - cbn. unfold recordsz_expr. rn_simpl. rewrite C1. reflexivity.
  - cbn [fold_left apply]. unfold set_delay, neb, ctor. rn_simpl. cbn [c_delay c_dt].
    destruct (Reqb'_spec 3 2) as [E|E]; [lra|]. cbn [negb]. unfold set_dt, neb. rn_simpl. cbn [c_dt].
    destruct (Reqb'_spec (/ 2) 1) as [E'|E']; [lra|]. cbn. unfold recordsz_expr. rn_simpl. rewrite C2. reflexivity.
Qed.
Print Assumptions nonvacuous.
