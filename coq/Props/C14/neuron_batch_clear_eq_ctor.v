(* Obligation C14/neuron_batch_clear_eq_ctor.  Statement as printed by Coq from Inferno.C14.BatchProofs; proof by reference.
   This file contains nothing else, so the statement cannot be weakened quietly. *)
From Coq Require Import List ZArith Bool Arith Lia.
From Inferno Require Import Base.Num Gen.Infra C01.Ring C01.RingProofs C13.Shaped C13.Lists C13.ShapedProofs C13.Resize C13.ResizeProofs C14.RecordCfg C14.RecordCfgProofs C14.Batch C14.BatchProofs.
Import ListNotations.
Theorem neuron_batch_clear_eq_ctor : forall (A D : Type) (cast : D -> A -> A) (zeroA : A) (specs : list (D * A)) 
    (shp : list nat) (b : nat) (n : nstate) (vs : list Z),
  n_ok specs shp b n ->
  n_ctor cast zeroA specs shp (fold_left n_expect vs (Z.of_nat b)) =
  Some (n_clear cast (fold_left (n_set_batch cast zeroA) vs n)).
Proof. exact (@Inferno.C14.BatchProofs.neuron_batch_clear_eq_ctor). Qed.
Print Assumptions neuron_batch_clear_eq_ctor.
