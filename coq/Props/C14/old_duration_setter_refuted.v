(* Obligation C14/old_duration_setter_refuted.  Statement as printed by Coq from Inferno.C14.ReducerProofs; proof by reference.
   This file contains nothing else, so the statement cannot be weakened quietly. *)
From Coq Require Import List ZArith Bool Arith Lia Reals.
From Inferno Require Import Base.Num Base.NumR Gen.Infra C01.Ring C01.RingProofs C13.Shaped C13.Lists C13.ShapedProofs C13.Resize C13.ResizeProofs C14.RecordCfg C14.RecordCfgProofs C14.Batch C14.BatchProofs C14.SynProofs C14.Reducer C14.ReducerProofs.
Import ListNotations.
Open Scope nat_scope.
Theorem old_duration_setter_refuted : forall A D : Type,
  (D -> A -> A) ->
  (D -> D -> D) ->
  (D -> D -> bool) ->
  forall (zeroA : A) (default_d : D),
  exists (R : red RN) (v : T RN),
    red_ok default_d R /\
    gtb RN v (zero RN) = true /\
    d_dur RN (red_set_dur_old RN zeroA R v) <> v /\
    d_dt RN (red_set_dur_old RN zeroA R v) <> d_dt RN R /\
    ~ red_ok default_d (red_set_dur_old RN zeroA R v) /\
    red_ctor RN zeroA default_d (d_dt RN R) 0%R false false 1%R <> None /\
    d_dur RN (red_set_dur_old RN zeroA R 0%R) <> 0%R.
Proof. exact (@Inferno.C14.ReducerProofs.old_duration_setter_refuted). Qed.
Print Assumptions old_duration_setter_refuted.
