(* Obligation C14/old_synapse_setter_refuted.  Statement as printed by Coq from Inferno.C14.ConnProofs; proof by reference.
   This file contains nothing else, so the statement cannot be weakened quietly. *)
From Coq Require Import List ZArith Bool Arith Lia Reals.
From Inferno Require Import Base.Num Base.NumR Gen.Infra C01.Ring C01.RingProofs C13.Shaped C13.Lists C13.ShapedProofs C13.Resize C13.ResizeProofs C14.RecordCfg C14.RecordCfgProofs C14.Batch C14.BatchProofs C14.SynProofs C14.Conn C14.ConnProofs.
Import ListNotations.
Open Scope nat_scope.
Theorem old_synapse_setter_refuted : forall A D : Type,
  exists (c : @conn RN A D) (s : @scomp RN A D),
    @conn_synapse RN A D (@conn_set_syn_old RN A D c s) <> s /\
    @conn_synapse RN A D (@conn_set_syn_old RN A D c s) = @conn_synapse RN A D c /\
    @conn_dt RN A D (@conn_set_syn_old RN A D c s) <> @s_dt RN A D s.
Proof. exact (@Inferno.C14.ConnProofs.old_synapse_setter_refuted). Qed.
Print Assumptions old_synapse_setter_refuted.
