(* Obligation XM/c14_rrun_eq.  Statement as printed by Coq from Inferno.XModel.RecSize; proof by reference.
   This file contains nothing else, so the statement cannot be weakened quietly. *)
From Coq Require Import List ZArith Bool Arith Lia.
From Inferno Require Import Base.Num Gen.Infra C01.Ring C01.RingProofs.
From Inferno Require C13.Shaped C13.Resize C13.ResizeProofs C14.Config C14.RecordCfg C14.RecordCfgProofs.
From Inferno Require C04.Synapse C07.Reducer C08.Stdp.
From Inferno Require Import XModel.RecSize.
Import ListNotations.
Theorem c14_rrun_eq : forall (Nm : Num) (A D : Type),
  (D -> A -> A) ->
  (D -> D -> D) ->
  (D -> D -> bool) ->
  forall zeroA : A,
  D ->
  forall (ops : list (RecordCfg.rset Nm)) (r : @Resize.rec Nm A D),
  @ResizeProofs.Inv Nm A D r ->
  @cfg14 Nm A D
    (@fold_left (@Resize.rec Nm A D) (RecordCfg.rset Nm) (@RecordCfg.rapply Nm A D zeroA) ops
       r) =
  @fold_left (Config.rec Nm) (RecordCfg.rset Nm) (c14_rapply Nm) ops (@cfg14 Nm A D r).
Proof. exact (@Inferno.XModel.RecSize.c14_rrun_eq). Qed.
Print Assumptions c14_rrun_eq.
