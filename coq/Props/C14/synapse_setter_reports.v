(* Obligation C14/synapse_setter_reports.  Statement as printed by Coq from Inferno.C14.ConnProofs; proof by reference.
   This file contains nothing else, so the statement cannot be weakened quietly. *)
From Coq Require Import List ZArith Bool Arith Lia Reals.
From Inferno Require Import Base.Num Base.NumR Gen.Infra C01.Ring C01.RingProofs C13.Shaped C13.Lists C13.ShapedProofs C13.Resize C13.ResizeProofs C14.RecordCfg C14.RecordCfgProofs C14.Batch C14.BatchProofs C14.SynProofs C14.Conn C14.ConnProofs.
Import ListNotations.
Open Scope nat_scope.
Theorem synapse_setter_reports : forall (A D : Type) (c : @conn RN A D) (s : @scomp RN A D),
  @conn_synapse RN A D (@conn_set_syn RN A D c s) = s.
Proof. exact (@Inferno.C14.ConnProofs.synapse_setter_reports). Qed.
Print Assumptions synapse_setter_reports.
