(* Obligation C14/nst_set_batch_ok.  Statement as printed by Coq from Inferno.C14.BatchProofs; proof by reference.
   This file contains nothing else, so the statement cannot be weakened quietly. *)
From Coq Require Import List ZArith Bool Arith Lia.
From Inferno Require Import Base.Num Gen.Infra C01.Ring C01.RingProofs C13.Shaped C13.Lists C13.ShapedProofs C13.Resize C13.ResizeProofs C14.RecordCfg C14.RecordCfgProofs C14.Batch C14.BatchProofs.
Import ListNotations.
Theorem nst_set_batch_ok : forall A D : Type,
  (D -> A -> A) ->
  forall (zeroA : A) (d : D) (shp : list nat) (b : nat) (s : shaped) (v : Z),
  nst_ok d shp b s -> (0 < v)%Z -> nst_ok d shp (Z.to_nat v) (nst_set_batch zeroA s v).
Proof. exact (@Inferno.C14.BatchProofs.nst_set_batch_ok). Qed.
Print Assumptions nst_set_batch_ok.
