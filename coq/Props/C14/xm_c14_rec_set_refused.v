(* Obligation XM/c14_rec_set_refused.  Statement as printed by Coq from Inferno.XModel.RecSize; proof by reference.
   This file contains nothing else, so the statement cannot be weakened quietly. *)
From Coq Require Import List ZArith Bool Arith Lia.
From Inferno Require Import Base.Num Gen.Infra C01.Ring C01.RingProofs.
From Inferno Require C13.Shaped C13.Resize C13.ResizeProofs C14.Config C14.RecordCfg C14.RecordCfgProofs.
From Inferno Require C04.Synapse C07.Reducer C08.Stdp.
From Inferno Require Import XModel.RecSize.
Import ListNotations.
Theorem c14_rec_set_refused : forall (Nm : Num) (A D : Type) (zeroA : A) (r : @Resize.rec Nm A D)
    (s : ResizeProofs.setter Nm),
  (forall b : bool, s <> ResizeProofs.SetIncl Nm b) ->
  ~ @ResizeProofs.setter_ok Nm A D r s ->
  @ResizeProofs.apply_setter Nm A D zeroA r s = (r, @Some Shaped.xerr Shaped.XValue).
Proof. exact (@Inferno.XModel.RecSize.c14_rec_set_refused). Qed.
Print Assumptions c14_rec_set_refused.
