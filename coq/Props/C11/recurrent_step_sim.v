(* Obligation C11/recurrent_step_sim.  Statement as printed by Coq from Inferno.C11.LayerBatch; proof by reference.
   This file contains nothing else, so the statement cannot be weakened quietly. *)
From Coq Require Import List ZArith Bool.
From Inferno Require Import C17.Layers C11.LayerBatch.
Import ListNotations.
Theorem recurrent_step_sim : forall (V CS NS CK NK XK : Type) (ck0 : CK) (nk0 : NK)
    (cstep : CS -> CK -> list V -> res (CS * V)) (nstep : NS -> NK -> V -> res (NS * V))
    (nspike : NS -> V) (cclear : XK -> CS -> CS) (nclear : XK -> NS -> NS)
    (vzeros_like : V -> V) (vadd : V -> V -> res V) (V' CS' NS' CK' NK' XK' : Type)
    (ck0' : CK') (nk0' : NK') (cstep' : CS' -> CK' -> list V' -> res (CS' * V'))
    (nstep' : NS' -> NK' -> V' -> res (NS' * V')) (nspike' : NS' -> V')
    (cclear' : XK' -> CS' -> CS') (nclear' : XK' -> NS' -> NS') (vzeros_like' : V' -> V')
    (vadd' : V' -> V' -> res V') (Rv : V -> V' -> Prop) (Rc : CS -> CS' -> Prop)
    (Rn : NS -> NS' -> Prop) (Rck : CK -> CK' -> Prop) (Rnk : NK -> NK' -> Prop)
    (Rxk : XK -> XK' -> Prop),
  Rck ck0 ck0' ->
  Rnk nk0 nk0' ->
  (forall (c : CS) (c1 : CS') (k : CK) (k1 : CK') (xs : list V) (xs1 : list V') 
     (c' : CS) (y : V),
   Rc c c1 ->
   Rck k k1 ->
   Forall2 Rv xs xs1 ->
   cstep c k xs = Ok (c', y) ->
   exists (c1' : CS') (y1 : V'), cstep' c1 k1 xs1 = Ok (c1', y1) /\ Rc c' c1' /\ Rv y y1) ->
  (forall (n : NS) (n1 : NS') (k : NK) (k1 : NK') (x : V) (x1 : V') (n' : NS) (z : V),
   Rn n n1 ->
   Rnk k k1 ->
   Rv x x1 ->
   nstep n k x = Ok (n', z) ->
   exists (n1' : NS') (z1 : V'), nstep' n1 k1 x1 = Ok (n1', z1) /\ Rn n' n1' /\ Rv z z1) ->
  (forall (n : NS) (n1 : NS'), Rn n n1 -> Rv (nspike n) (nspike' n1)) ->
  (forall (x : XK) (x1 : XK') (c : CS) (c1 : CS'),
   Rxk x x1 -> Rc c c1 -> Rc (cclear x c) (cclear' x1 c1)) ->
  (forall (x : XK) (x1 : XK') (n : NS) (n1 : NS'),
   Rxk x x1 -> Rn n n1 -> Rn (nclear x n) (nclear' x1 n1)) ->
  (forall (v : V) (v1 : V'), Rv v v1 -> Rv (vzeros_like v) (vzeros_like' v1)) ->
  (forall (a : V) (a1 : V') (b : V) (b1 : V') (r : V),
   Rv a a1 -> Rv b b1 -> vadd a b = Ok r -> exists r1 : V', vadd' a1 b1 = Ok r1 /\ Rv r r1) ->
  forall (R : recurrent V CS NS) (R1 : recurrent V' CS' NS')
    (o : recurrent_op V CS NS CK NK XK) (o1 : recurrent_op V' CS' NS' CK' NK' XK')
    (R' : recurrent V CS NS) (out : option (V * V * list (Z * V))),
  recurrent_rel V CS NS V' CS' NS' Rv Rc Rn R R1 ->
  recurrent_op_rel V CS NS CK NK XK V' CS' NS' CK' NK' XK' Rv Rc Rn Rck Rnk Rxk o o1 ->
  recurrent_step V CS NS CK NK XK ck0 nk0 cstep nstep nspike cclear nclear vzeros_like vadd R
    o = Ok (R', out) ->
  exists (R1' : recurrent V' CS' NS') (out1 : option (V' * V' * list (Z * V'))),
    recurrent_step V' CS' NS' CK' NK' XK' ck0' nk0' cstep' nstep' nspike' cclear' nclear'
      vzeros_like' vadd' R1 o1 = Ok (R1', out1) /\
    recurrent_rel V CS NS V' CS' NS' Rv Rc Rn R' R1' /\ recurrent_out_rel V V' Rv out out1.
Proof. exact (@Inferno.C11.LayerBatch.recurrent_step_sim). Qed.
Print Assumptions recurrent_step_sim.
