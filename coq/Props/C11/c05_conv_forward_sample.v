(* Obligation C11/c05_conv_forward_sample.  Statement as printed by Coq from Inferno.C11.ConnBatchC05; proof by reference.
   This file contains nothing else, so the statement cannot be weakened quietly. *)
From Coq Require Import List ZArith Bool Arith Lia.
From Inferno Require Import Base.Num C05.Conn C11.Samp C11.ConnBatchC05.
Import ListNotations.
Theorem c05_conv_forward_sample : forall (N : Num) (c : conv N) (xshape : list nat) (xs : list (image N))
    (ys : list (list (list (list (T N))))) (b : nat),
  b < length xs ->
  conv_forward N c xshape xs = Ok ys ->
  conv_forward N (conv_B N c 1) (1 :: tl xshape) [nth b xs []] = Ok [nth b ys []].
Proof. exact (@Inferno.C11.ConnBatchC05.c05_conv_forward_sample). Qed.
Print Assumptions c05_conv_forward_sample.
