(* Obligation C11/nonvacuous_synapse.  Statement as printed by Coq from Inferno.C11.Nonvacuous; proof by reference.
   This file contains nothing else, so the statement cannot be weakened quietly. *)
From Coq Require Import List ZArith Bool Arith Lia.
From Inferno Require Import Base.Num Gen.Infra Gen.Interpolation C01.Ring C04.Synapse.
From Inferno Require C05.Conn C03.Neuron.
From Inferno Require Import C06.Delay C11.Samp C11.SynapseBatch C11.ConnBatch.
From Inferno Require C11.NeuronBatch.
From Inferno Require Import C11.Nonvacuous.
Import ListNotations.
Open Scope Z_scope.
Theorem nonvacuous_synapse : cshape ZN sc0 = [2%nat; 2%nat] /\
  Forall (sop_ok ZN 2 [2%nat]) sops0 /\
  no_raise ZN (snd (run ZN sc0 (init ZN sc0) sops0)) /\
  map ser_sout (firstn 1 (skipn 2 (snd (run ZN sc0 (init ZN sc0) sops0)))) =
  [[[1]; [2; 2]; [2; 0; 2; 2]]] /\
  ser_srun
    (run ZN (with_shape ZN sc0 [1%nat; 2%nat]) (init ZN (with_shape ZN sc0 [1%nat; 2%nat]))
       (map (psop ZN 1) sops0)) =
  ser_srun
    (psyn ZN 1 (fst (run ZN sc0 (init ZN sc0) sops0)),
     map (pres ZN 1) (snd (run ZN sc0 (init ZN sc0) sops0))).
Proof. exact (@Inferno.C11.Nonvacuous.nonvacuous_synapse). Qed.
Print Assumptions nonvacuous_synapse.
