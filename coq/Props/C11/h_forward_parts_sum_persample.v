(* Obligation C11/h_forward_parts_sum_persample.  Statement as printed by Coq from Inferno.C11.TrainerBatchHomeo; proof by reference.
   This file contains nothing else, so the statement cannot be weakened quietly. *)
From Coq Require Import List ZArith Bool Reals Lra Lia Arith.
From Inferno Require Import Base.Num Base.NumR C09.Split C09.HomeoProofs.
From Inferno Require C08.StdpSpec C08.StdpProofs.
From Inferno Require Import C11.TrainerBatchHomeo.
Import ListNotations.
Open Scope R_scope.
Theorem h_forward_parts_sum_persample : forall (p : hparam) (lam : T RN) (targets rates : list (list (T RN))) (B : nat),
  length targets = B ->
  length rates = B ->
  pv (fst (h_forward RN HSum p lam targets rates)) =
  StdpSpec.sum_steps B
    (fun b : nat => pv (fst (h_forward RN HSum p lam (row b targets) (row b rates)))) /\
  pv (snd (h_forward RN HSum p lam targets rates)) =
  StdpSpec.sum_steps B
    (fun b : nat => pv (snd (h_forward RN HSum p lam (row b targets) (row b rates)))).
Proof. exact (@Inferno.C11.TrainerBatchHomeo.h_forward_parts_sum_persample). Qed.
Print Assumptions h_forward_parts_sum_persample.
