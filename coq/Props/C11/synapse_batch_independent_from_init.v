(* Obligation C11/synapse_batch_independent_from_init.  Statement as printed by Coq from Inferno.C11.SynapseBatch; proof by reference.
   This file contains nothing else, so the statement cannot be weakened quietly. *)
From Coq Require Import List ZArith Bool Arith Lia.
From Inferno Require Import Base.Num Gen.Infra Gen.Interpolation C01.Ring C04.Synapse C04.HistProofs C11.Samp C11.SynapseBatch.
Import ListNotations.
Theorem synapse_batch_independent_from_init : forall (NM : Num) (c : cfg NM) (B : nat) (sh : list nat) (b : nat) 
    (ops : list (sop NM)) (sf : syn NM) (outs : list (sout NM + err)),
  b < B ->
  cshape NM c = B :: sh ->
  Forall (sop_ok NM B sh) ops ->
  run NM c (init NM c) ops = (sf, outs) ->
  no_raise NM outs ->
  run NM (with_shape NM c (1 :: sh)) (init NM (with_shape NM c (1 :: sh)))
    (map (psop NM b) ops) = (psyn NM b sf, map (pres NM b) outs).
Proof. exact (@Inferno.C11.SynapseBatch.synapse_batch_independent_from_init). Qed.
Print Assumptions synapse_batch_independent_from_init.
