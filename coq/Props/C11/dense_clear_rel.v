(* Obligation C11/dense_clear_rel.  Statement as printed by Coq from Inferno.C11.LayerBatchC17; proof by reference.
   This file contains nothing else, so the statement cannot be weakened quietly. *)
From Coq Require Import List ZArith Bool Arith Lia.
From Inferno Require Import Base.Num Gen.NeuronDynamics Gen.NeuronAdaptation C17.Layers C17.Components C11.Samp C11.LayerBatch C11.LayerBatchC17.
Import ListNotations.
Theorem dense_clear_rel : forall (N : Num) (B b : nat) (x x1 : option bool) (c c1 : dense N),
  Rxk x x1 -> Rc N B b c c1 -> Rc N B b (dense_clear N x c) (dense_clear N x1 c1).
Proof. exact (@Inferno.C11.LayerBatchC17.dense_clear_rel). Qed.
Print Assumptions dense_clear_rel.
