(* Obligation C11/h_observe_per_sample.  Statement as printed by Coq from Inferno.C11.TrainerBatchHomeo; proof by reference.
   This file contains nothing else, so the statement cannot be weakened quietly. *)
From Coq Require Import List ZArith Bool Reals Lra Lia Arith.
From Inferno Require Import Base.Num Base.NumR C09.Split C09.HomeoProofs.
From Inferno Require C08.StdpSpec C08.StdpProofs.
From Inferno Require Import C11.TrainerBatchHomeo.
Import ListNotations.
Open Scope R_scope.
Theorem h_observe_per_sample : forall (b : nat) (st : hstate RN) (spikes : list (list bool)),
  h_observe RN (row_st b st) (row b spikes) = row_st b (h_observe RN st spikes).
Proof. exact (@Inferno.C11.TrainerBatchHomeo.h_observe_per_sample). Qed.
Print Assumptions h_observe_per_sample.
