(* Obligation C11/synapse_batch_independent.  Statement as printed by Coq from Inferno.C11.SynapseBatch; proof by reference.
   This file contains nothing else, so the statement cannot be weakened quietly. *)
From Coq Require Import List ZArith Bool Arith Lia.
From Inferno Require Import Base.Num Gen.Infra Gen.Interpolation C01.Ring C04.Synapse C04.HistProofs C11.Samp C11.SynapseBatch.
Import ListNotations.
Theorem synapse_batch_independent : forall (NM : Num) (B : nat) (sh : list nat) (b : nat),
  b < B ->
  forall (c : cfg NM) (ops : list (sop NM)) (s sf : syn NM) (outs : list (sout NM + err)),
  bsyn NM B sh s ->
  Forall (sop_ok NM B sh) ops ->
  run NM c s ops = (sf, outs) ->
  no_raise NM outs ->
  run NM c (psyn NM b s) (map (psop NM b) ops) = (psyn NM b sf, map (pres NM b) outs) /\
  bsyn NM B sh sf.
Proof. exact (@Inferno.C11.SynapseBatch.synapse_batch_independent). Qed.
Print Assumptions synapse_batch_independent.
