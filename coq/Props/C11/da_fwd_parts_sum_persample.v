(* Obligation C11/da_fwd_parts_sum_persample.  Statement as printed by Coq from Inferno.C11.TrainerBatchDelayAdj; proof by reference.
   This file contains nothing else, so the statement cannot be weakened quietly. *)
From Coq Require Import List ZArith Bool Reals Lra Lia Arith.
From Inferno Require Import Base.Num Base.NumR C18.DelayAdj C18.EventProofs C18.DelayAdjProofs C11.Samp.
From Inferno Require C08.StdpSpec C08.StdpProofs.
From Inferno Require Import C11.TrainerBatchDelayAdj.
Import ListNotations.
Open Scope R_scope.
Theorem da_fwd_parts_sum_persample : forall (tr : trainer RN) (sg : signal RN) (tds : list (list nvR)),
  sig_ok (length tds) sg ->
  part_val RN (fst (fwd RN (reduce RN RSum) tr sg tds)) =
  StdpSpec.sum_steps (length tds)
    (fun b : nat => part_val RN (fst (fwd RN (reduce RN RSum) tr (sig_b b sg) [nth b tds []]))) /\
  part_val RN (snd (fwd RN (reduce RN RSum) tr sg tds)) =
  StdpSpec.sum_steps (length tds)
    (fun b : nat => part_val RN (snd (fwd RN (reduce RN RSum) tr (sig_b b sg) [nth b tds []]))).
Proof. exact (@Inferno.C11.TrainerBatchDelayAdj.da_fwd_parts_sum_persample). Qed.
Print Assumptions da_fwd_parts_sum_persample.
