(* Obligation C11/neuron_batch_independent_from_init.  Statement as printed by Coq from Inferno.C11.NeuronBatch; proof by reference.
   This file contains nothing else, so the statement cannot be weakened quietly. *)
From Coq Require Import List ZArith Bool Arith Lia.
From Inferno Require Import Base.Num Gen.NeuronDynamics Gen.NeuronAdaptation C03.Neuron C11.NeuronBatch.
Import ListNotations.
Theorem neuron_batch_independent_from_init : forall (N : Num) (c : cls) (p : params N) (ops : list (op N)) (n b B : nat),
  b < B ->
  Forall (op_shaped N B) ops ->
  frozen N c true ops ->
  run N c p (init N c p n 1) (map (pop N b) ops) =
  map (pres N b) (run N c p (init N c p n B) ops).
Proof. exact (@Inferno.C11.NeuronBatch.neuron_batch_independent_from_init). Qed.
Print Assumptions neuron_batch_independent_from_init.
