(* Obligation C11/neuron_step_rel.  Statement as printed by Coq from Inferno.C11.LayerBatchC17; proof by reference.
   This file contains nothing else, so the statement cannot be weakened quietly. *)
From Coq Require Import List ZArith Bool Arith Lia.
From Inferno Require Import Base.Num Gen.NeuronDynamics Gen.NeuronAdaptation C17.Layers C17.Components C11.Samp C11.LayerBatch C11.LayerBatchC17.
Import ListNotations.
Theorem neuron_step_rel : forall (N : Num) (B b : nat),
  b < B ->
  forall (n n1 : neuron N) (k k1 : nkw) (x x1 : tensor N) (n' : neuron N) (z : tensor N),
  Rn N B b n n1 ->
  Rnk k k1 ->
  Rv N B b x x1 ->
  neuron_step N n k x = Ok (n', z) ->
  exists (n1' : neuron N) (z1 : tensor N),
    neuron_step N n1 k1 x1 = Ok (n1', z1) /\ Rn N B b n' n1' /\ Rv N B b z z1.
Proof. exact (@Inferno.C11.LayerBatchC17.neuron_step_rel). Qed.
Print Assumptions neuron_step_rel.
