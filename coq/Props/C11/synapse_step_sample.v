(* Obligation C11/synapse_step_sample.  Statement as printed by Coq from Inferno.C11.SynapseBatch; proof by reference.
   This file contains nothing else, so the statement cannot be weakened quietly. *)
From Coq Require Import List ZArith Bool Arith Lia.
From Inferno Require Import Base.Num Gen.Infra Gen.Interpolation C01.Ring C04.Synapse C04.HistProofs C11.Samp C11.SynapseBatch.
Import ListNotations.
Theorem synapse_step_sample : forall (NM : Num) (B : nat) (sh : list nat) (b : nat),
  b < B ->
  forall (c : cfg NM) (s : syn NM) (o : sop NM) (s' : syn NM) (out : sout NM),
  bsyn NM B sh s ->
  sop_ok NM B sh o ->
  sstep NM c s o = SOk (s', out) ->
  sstep NM c (psyn NM b s) (psop NM b o) = SOk (psyn NM b s', psout NM b out) /\
  bsyn NM B sh s'.
Proof. exact (@Inferno.C11.SynapseBatch.synapse_step_sample). Qed.
Print Assumptions synapse_step_sample.
