(* Obligation C11/conn_forward_sample.  Statement as printed by Coq from Inferno.C11.ConnBatch; proof by reference.
   This file contains nothing else, so the statement cannot be weakened quietly. *)
From Coq Require Import List ZArith Bool Arith Lia.
From Inferno Require Import Base.Num Gen.Infra Gen.Interpolation C01.Ring C04.Synapse C04.HistProofs.
From Inferno Require C05.Conn.
From Inferno Require Import C06.Delay C11.Samp C11.SynapseBatch C11.ConnBatch.
Import ListNotations.
Theorem conn_forward_sample : forall (NM : Num) (B b : nat),
  b < B ->
  forall (k : conn NM) (c : cfg NM) (s : syn NM) (xsh : list nat) 
    (xs : list (T NM)) (inj : list (list (T NM))) (s' : syn NM) (out : view NM),
  conn_wf NM B k ->
  bsyn NM B (conn_sh NM k) s ->
  length xs = nel xsh ->
  Forall (fun i : list (T NM) => length i = nel xsh) inj ->
  conn_forward NM k c s xsh xs inj = (s', SOk out) ->
  conn_forward NM (conn_B1 NM k) c (psyn NM b s) (pshape xsh) (pvals NM b xsh xs)
    (map (pvals NM b xsh) inj) = (psyn NM b s', SOk (pview NM b out)) /\
  bsyn NM B (conn_sh NM k) s'.
Proof. exact (@Inferno.C11.ConnBatch.conn_forward_sample). Qed.
Print Assumptions conn_forward_sample.
