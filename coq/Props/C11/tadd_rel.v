(* Obligation C11/tadd_rel.  Statement as printed by Coq from Inferno.C11.LayerBatchC17; proof by reference.
   This file contains nothing else, so the statement cannot be weakened quietly. *)
From Coq Require Import List ZArith Bool Arith Lia.
From Inferno Require Import Base.Num Gen.NeuronDynamics Gen.NeuronAdaptation C17.Layers C17.Components C11.Samp C11.LayerBatch C11.LayerBatchC17.
Import ListNotations.
Theorem tadd_rel : forall (N : Num) (B b : nat),
  b < B ->
  forall a a1 c c1 r : tensor N,
  Rv N B b a a1 ->
  Rv N B b c c1 ->
  tadd N a c = Ok r -> exists r1 : tensor N, tadd N a1 c1 = Ok r1 /\ Rv N B b r r1.
Proof. exact (@Inferno.C11.LayerBatchC17.tadd_rel). Qed.
Print Assumptions tadd_rel.
