(* Obligation C11/nonvacuous_connection.  Statement as printed by Coq from Inferno.C11.Nonvacuous; proof by reference.
   This file contains nothing else, so the statement cannot be weakened quietly. *)
From Coq Require Import List ZArith Bool Arith Lia.
From Inferno Require Import Base.Num Gen.Infra Gen.Interpolation C01.Ring C04.Synapse.
From Inferno Require C05.Conn C03.Neuron.
From Inferno Require Import C06.Delay C11.Samp C11.SynapseBatch C11.ConnBatch.
From Inferno Require C11.NeuronBatch.
From Inferno Require Import C11.Nonvacuous.
Import ListNotations.
Open Scope Z_scope.
Theorem nonvacuous_connection : conn_wf ZN 2 kd0 /\
  cshape ZN kc0 = 2%nat :: conn_sh ZN kd0 /\
  Forall (cop_ok ZN) kops0 /\
  takes_delayed ZN kc0 (conn_hasdelay ZN kd0) = true /\
  Forall (fun o : cout ZN => ~ raises ZN o) (snd (crun ZN kc0 (kd0, init ZN kc0) kops0)) /\
  map ser_cout (firstn 1 (skipn 5 (snd (crun ZN kc0 (kd0, init ZN kc0) kops0)))) =
  [[[1]; [2; 2]; [13; 27; 12; 20]]] /\
  ser_crun
    (crun ZN (with_shape ZN kc0 [1%nat; 2%nat])
       (conn_B1 ZN kd0, init ZN (with_shape ZN kc0 [1%nat; 2%nat])) 
       (map (pcop ZN 1) kops0)) =
  ser_crun
    (conn_B1 ZN (fst (fst (crun ZN kc0 (kd0, init ZN kc0) kops0))),
     psyn ZN 1 (snd (fst (crun ZN kc0 (kd0, init ZN kc0) kops0))),
     map (pcout ZN 1) (snd (crun ZN kc0 (kd0, init ZN kc0) kops0))).
Proof. exact (@Inferno.C11.Nonvacuous.nonvacuous_connection). Qed.
Print Assumptions nonvacuous_connection.
