(* Obligation C11/neuron_adaptation_is_batch_mean.  Statement as printed by Coq from Inferno.C11.NeuronCoupling; proof by reference.
   This file contains nothing else, so the statement cannot be weakened quietly. *)
From Coq Require Import List ZArith Bool Arith Lia Reals Lra.
From Inferno Require Import Base.Num Base.NumR Gen.NeuronDynamics Gen.NeuronAdaptation C03.Neuron C11.NeuronBatch C11.NeuronCoupling.
Import ListNotations.
Open Scope R_scope.
Theorem neuron_adaptation_is_batch_mean : forall (c : cls) (p : params RN) (lock : bool) (col : column RN) 
    (xs : list (T RN)) (B : nat),
  length (cells RN col) = B ->
  length xs = B ->
  has_adaptation c = true ->
  let a' := ad RN (snd (col_forward RN c p true lock col xs)) in
  (forall b : nat, (b < B)%nat -> length (ad1 c p lock col xs b) = length a') /\
  (forall k : nat,
   (k < length a')%nat ->
   nth k a' 0 = batch_mean RN (map (fun b : nat => nth k (ad1 c p lock col xs b) 0) (seq 0 B))).
Proof. exact (@Inferno.C11.NeuronCoupling.neuron_adaptation_is_batch_mean). Qed.
Print Assumptions neuron_adaptation_is_batch_mean.
