(* Obligation C11/dense_step_rel.  Statement as printed by Coq from Inferno.C11.LayerBatchC17; proof by reference.
   This file contains nothing else, so the statement cannot be weakened quietly. *)
From Coq Require Import List ZArith Bool Arith Lia.
From Inferno Require Import Base.Num Gen.NeuronDynamics Gen.NeuronAdaptation C17.Layers C17.Components C11.Samp C11.LayerBatch C11.LayerBatchC17.
Import ListNotations.
Theorem dense_step_rel : forall (N : Num) (B b : nat),
  b < B ->
  forall (c c1 : dense N) (k k1 : unit) (xs xs1 : list (tensor N)) 
    (c' : dense N) (y : tensor N),
  Rc N B b c c1 ->
  Rck k k1 ->
  Forall2 (Rv N B b) xs xs1 ->
  dense_step N c k xs = Ok (c', y) ->
  exists (c1' : dense N) (y1 : tensor N),
    dense_step N c1 k1 xs1 = Ok (c1', y1) /\ Rc N B b c' c1' /\ Rv N B b y y1.
Proof. exact (@Inferno.C11.LayerBatchC17.dense_step_rel). Qed.
Print Assumptions dense_step_rel.
