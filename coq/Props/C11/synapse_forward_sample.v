(* Obligation C11/synapse_forward_sample.  Statement as printed by Coq from Inferno.C11.SynapseBatch; proof by reference.
   This file contains nothing else, so the statement cannot be weakened quietly. *)
From Coq Require Import List ZArith Bool Arith Lia.
From Inferno Require Import Base.Num Gen.Infra Gen.Interpolation C01.Ring C04.Synapse C04.HistProofs C11.Samp C11.SynapseBatch.
Import ListNotations.
Theorem synapse_forward_sample : forall (NM : Num) (B : nat) (sh : list nat) (b : nat),
  b < B ->
  forall (c : cfg NM) (s : syn NM) (xs : list (T NM)) (inj : list (list (T NM))) 
    (s' : syn NM) (out : sout NM),
  bsyn NM B sh s ->
  length xs = B * nel sh ->
  Forall (fun i : list (T NM) => length i = B * nel sh) inj ->
  forward NM c s (B :: sh) xs inj = SOk (s', out) ->
  forward NM c (psyn NM b s) (1 :: sh) (samp (nel sh) b xs) (map (samp (nel sh) b) inj) =
  SOk (psyn NM b s', psout NM b out) /\ bsyn NM B sh s'.
Proof. exact (@Inferno.C11.SynapseBatch.synapse_forward_sample). Qed.
Print Assumptions synapse_forward_sample.
