(* Obligation C11/direct_forward_sample.  Statement as printed by Coq from Inferno.C11.ConnBatch; proof by reference.
   This file contains nothing else, so the statement cannot be weakened quietly. *)
From Coq Require Import List ZArith Bool Arith Lia.
From Inferno Require Import Base.Num Gen.Infra Gen.Interpolation C01.Ring C04.Synapse C04.HistProofs.
From Inferno Require C05.Conn.
From Inferno Require Import C06.Delay C11.Samp C11.SynapseBatch C11.ConnBatch.
Import ListNotations.
Theorem direct_forward_sample : forall (NM : Num) (B b : nat),
  b < B ->
  forall (d : direct NM) (c : cfg NM) (s : syn NM) (xsh : list nat) 
    (xs : list (T NM)) (inj : list (list (T NM))) (s' : syn NM) (out : view NM),
  conn_wf NM B (CDirect NM d) ->
  bsyn NM B [dr_n NM d] s ->
  length xs = nel xsh ->
  Forall (fun i : list (T NM) => length i = nel xsh) inj ->
  direct_forward NM d c s xsh xs inj = (s', SOk out) ->
  direct_forward NM (direct_B1 NM d) c (psyn NM b s) (pshape xsh) 
    (pvals NM b xsh xs) (map (pvals NM b xsh) inj) = (psyn NM b s', SOk (pview NM b out)) /\
  bsyn NM B [dr_n NM d] s'.
Proof. exact (@Inferno.C11.ConnBatch.direct_forward_sample). Qed.
Print Assumptions direct_forward_sample.
