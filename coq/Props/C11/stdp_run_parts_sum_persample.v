(* Obligation C11/stdp_run_parts_sum_persample.  Statement as printed by Coq from Inferno.C11.TrainerBatchStdp; proof by reference.
   This file contains nothing else, so the statement cannot be weakened quietly. *)
From Coq Require Import List ZArith Bool Reals Lra Lia Arith.
From Inferno Require Import Base.Num Base.NumR C08.Stdp C08.StdpSpec C08.StdpProofs C09.StdpSplitProofs C11.TrainerBatchStdp.
Import ListNotations.
Open Scope R_scope.
Theorem stdp_run_parts_sum_persample : forall (c : config RN) (k B : nat) (inps : list (list (bool * bool) * signal RN)) (t : nat),
  c_red RN c = RSum ->
  inputs_ok_ps B inps ->
  (t < length inps)%nat ->
  ov (fst (nth t (run RN c k (init_batch RN B) inps) part0)) =
  sum_steps B
    (fun b : nat =>
     ov (fst (nth t (run RN c k (init_batch RN 1) (inps1 (sample_ps b inps))) part0))) /\
  ov (snd (nth t (run RN c k (init_batch RN B) inps) part0)) =
  sum_steps B
    (fun b : nat =>
     ov (snd (nth t (run RN c k (init_batch RN 1) (inps1 (sample_ps b inps))) part0))).
Proof. exact (@Inferno.C11.TrainerBatchStdp.stdp_run_parts_sum_persample). Qed.
Print Assumptions stdp_run_parts_sum_persample.
