(* Obligation C11/h_run_states_per_sample.  Statement as printed by Coq from Inferno.C11.TrainerBatchHomeo; proof by reference.
   This file contains nothing else, so the statement cannot be weakened quietly. *)
From Coq Require Import List ZArith Bool Reals Lra Lia Arith.
From Inferno Require Import Base.Num Base.NumR C09.Split C09.HomeoProofs.
From Inferno Require C08.StdpSpec C08.StdpProofs.
From Inferno Require Import C11.TrainerBatchHomeo.
Import ListNotations.
Open Scope R_scope.
Theorem h_run_states_per_sample : forall (rk : hred) (p : hparam) (lam : T RN) (targets : list (list (T RN))) 
    (b : nat) (steps : list (list (list bool))) (st : hstate RN),
  map fst (h_run RN rk p lam (row b targets) (row_st b st) (map (row b) steps)) =
  map (row_st b) (map fst (h_run RN rk p lam targets st steps)).
Proof. exact (@Inferno.C11.TrainerBatchHomeo.h_run_states_per_sample). Qed.
Print Assumptions h_run_states_per_sample.
