(* Obligation C11/neuron_step_coupling_only_adaptation.  Statement as printed by Coq from Inferno.C11.LayerBatchC17; proof by reference.
   This file contains nothing else, so the statement cannot be weakened quietly. *)
From Coq Require Import List ZArith Bool Arith Lia.
From Inferno Require Import Base.Num Gen.NeuronDynamics Gen.NeuronAdaptation C17.Layers C17.Components C11.Samp C11.LayerBatch C11.LayerBatchC17.
Import ListNotations.
Theorem neuron_step_coupling_only_adaptation : forall (N : Num) (B b : nat),
  b < B ->
  forall (n : neuron N) (kw : nkw) (x x1 : tensor N) (n' : neuron N) (z : tensor N),
  nwf N B n ->
  Rv N B b x x1 ->
  neuron_step N n kw x = Ok (n', z) ->
  exists (n1' : neuron N) (z1 : tensor N),
    neuron_step N (nsamp N b n) kw x1 = Ok (n1', z1) /\
    Rv N B b z z1 /\
    n_volt N n1' = samp (nsize N n') b (n_volt N n') /\
    n_refr N n1' = samp (nsize N n') b (n_refr N n') /\
    n1' =
    set_dyn N (nsamp N b n') (n_volt N (nsamp N b n')) (n_refr N (nsamp N b n'))
      (n_adapt N n1').
Proof. exact (@Inferno.C11.LayerBatchC17.neuron_step_coupling_only_adaptation). Qed.
Print Assumptions neuron_step_coupling_only_adaptation.
