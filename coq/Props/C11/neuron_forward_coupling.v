(* Obligation C11/neuron_forward_coupling.  Statement as printed by Coq from Inferno.C11.NeuronCoupling; proof by reference.
   This file contains nothing else, so the statement cannot be weakened quietly. *)
From Coq Require Import List ZArith Bool Arith Lia Reals Lra.
From Inferno Require Import Base.Num Base.NumR Gen.NeuronDynamics Gen.NeuronAdaptation C03.Neuron C11.NeuronBatch C11.NeuronCoupling.
Import ListNotations.
Open Scope R_scope.
Theorem neuron_forward_coupling : forall (c : cls) (p : params RN) (lock : bool) (cs : list (column RN))
    (xs : list (list (T RN))) (B : nat),
  shaped RN B cs ->
  rows RN B xs ->
  has_adaptation c = true ->
  let r := forward RN c p true lock cs xs in
  (forall b : nat,
   (b < B)%nat ->
   let r1 := forward RN c p true lock (map (pcol RN b) cs) (map (prow RN b) xs) in
   fst r1 = map (pbrow b) (fst r) /\
   map (cells RN) (snd r1) =
   map (fun col : column RN => [nth b (cells RN col) (d_cell RN)]) (snd r)) /\
  (forall (i : nat) (col : column RN) (row : list (T RN)),
   nth_error cs i = Some col ->
   nth_error xs i = Some row ->
   exists col' : column RN,
     nth_error (snd r) i = Some col' /\
     (forall k : nat,
      (k < length (ad RN col'))%nat ->
      nth k (ad RN col') 0 =
      batch_mean RN (map (fun b : nat => nth k (ad1 c p lock col row b) 0) (seq 0 B)))).
Proof. exact (@Inferno.C11.NeuronCoupling.neuron_forward_coupling). Qed.
Print Assumptions neuron_forward_coupling.
