(* Obligation C11/recurrent_c17_outputs_are_samples.  Statement as printed by Coq from Inferno.C11.LayerBatchC17; proof by reference.
   This file contains nothing else, so the statement cannot be weakened quietly. *)
From Coq Require Import List ZArith Bool Arith Lia.
From Inferno Require Import Base.Num Gen.NeuronDynamics Gen.NeuronAdaptation C17.Layers C17.Components C11.Samp C11.LayerBatch C11.LayerBatchC17.
Import ListNotations.
Theorem recurrent_c17_outputs_are_samples : forall (N : Num) (B b : nat),
  b < B ->
  forall
    (ops ops1 : list (recurrent_op (tensor N) (dense N) (neuron N) unit nkw (option bool)))
    (R R1 R' : recurrent (tensor N) (dense N) (neuron N))
    (outs : list (option (tensor N * tensor N * list (Z * tensor N)))),
  RRel N B b R R1 ->
  Forall2 (ROpRel N B b) ops ops1 ->
  run (RStep N) R ops = Ok (R', outs) ->
  exists R1' : recurrent (tensor N) (dense N) (neuron N),
    run (RStep N) R1 ops1 = Ok (R1', map (recurrent_osamp N b) outs) /\ RRel N B b R' R1'.
Proof. exact (@Inferno.C11.LayerBatchC17.recurrent_c17_outputs_are_samples). Qed.
Print Assumptions recurrent_c17_outputs_are_samples.
