(* Obligation C11/sum_reduction_additive.  Statement as printed by Coq from Inferno.C11.Batch; proof by reference.
   This file contains nothing else, so the statement cannot be weakened quietly. *)
From Coq Require Import List Reals Lra Lia.
From Inferno Require Import Base.Num Base.NumR C11.Batch.
Import ListNotations.
Theorem sum_reduction_additive : forall posts1 pres1 posts2 pres2 : list R,
  length posts1 = length pres1 ->
  part_batched_sum (posts1 ++ posts2) (pres1 ++ pres2) =
  part_batched_sum posts1 pres1 + part_batched_sum posts2 pres2.
Proof. exact (@Inferno.C11.Batch.sum_reduction_additive). Qed.
Print Assumptions sum_reduction_additive.
