(* Obligation C11/connection_step_sample.  Statement as printed by Coq from Inferno.C11.ConnBatch; proof by reference.
   This file contains nothing else, so the statement cannot be weakened quietly. *)
From Coq Require Import List ZArith Bool Arith Lia.
From Inferno Require Import Base.Num Gen.Infra Gen.Interpolation C01.Ring C04.Synapse C04.HistProofs.
From Inferno Require C05.Conn.
From Inferno Require Import C06.Delay C11.Samp C11.SynapseBatch C11.ConnBatch.
Import ListNotations.
Theorem connection_step_sample : forall (NM : Num) (B b : nat),
  b < B ->
  forall (c : cfg NM) (k : conn NM) (s : syn NM) (o : cop NM) (k' : conn NM) 
    (s' : syn NM) (out : cout NM),
  conn_wf NM B k ->
  bsyn NM B (conn_sh NM k) s ->
  cop_ok NM o ->
  cstep NM c (k, s) o = (k', s', out) ->
  ~ raises NM out ->
  cstep NM c (conn_B1 NM k, psyn NM b s) (pcop NM b o) =
  (conn_B1 NM k', psyn NM b s', pcout NM b out) /\
  conn_wf NM B k' /\ conn_sh NM k' = conn_sh NM k /\ bsyn NM B (conn_sh NM k) s'.
Proof. exact (@Inferno.C11.ConnBatch.connection_step_sample). Qed.
Print Assumptions connection_step_sample.
