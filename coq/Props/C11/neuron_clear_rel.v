(* Obligation C11/neuron_clear_rel.  Statement as printed by Coq from Inferno.C11.LayerBatchC17; proof by reference.
   This file contains nothing else, so the statement cannot be weakened quietly. *)
From Coq Require Import List ZArith Bool Arith Lia.
From Inferno Require Import Base.Num Gen.NeuronDynamics Gen.NeuronAdaptation C17.Layers C17.Components C11.Samp C11.LayerBatch C11.LayerBatchC17.
Import ListNotations.
Theorem neuron_clear_rel : forall (N : Num) (B b : nat) (x x1 : option bool) (n n1 : neuron N),
  Rxk x x1 -> Rn N B b n n1 -> Rn N B b (neuron_clear N x n) (neuron_clear N x1 n1).
Proof. exact (@Inferno.C11.LayerBatchC17.neuron_clear_rel). Qed.
Print Assumptions neuron_clear_rel.
