(* Obligation C11/stdp_step_parts_sum_persample.  Statement as printed by Coq from Inferno.C11.TrainerBatchStdp; proof by reference.
   This file contains nothing else, so the statement cannot be weakened quietly. *)
From Coq Require Import List ZArith Bool Reals Lra Lia Arith.
From Inferno Require Import Base.Num Base.NumR C08.Stdp C08.StdpSpec C08.StdpProofs C09.StdpSplitProofs C11.TrainerBatchStdp.
Import ListNotations.
Open Scope R_scope.
Theorem stdp_step_parts_sum_persample : forall (c : config RN) (k B : nat) (sg : signal RN) (ss : list (sstate RN)),
  c_red RN c = RSum ->
  sig_ok B sg ->
  length ss = B ->
  ov (fst (forward RN c k sg ss)) =
  sum_steps B
    (fun b : nat => ov (fst (forward RN c k (signal_of_sample b sg) [nth b ss (s_init RN)]))) /\
  ov (snd (forward RN c k sg ss)) =
  sum_steps B
    (fun b : nat => ov (snd (forward RN c k (signal_of_sample b sg) [nth b ss (s_init RN)]))).
Proof. exact (@Inferno.C11.TrainerBatchStdp.stdp_step_parts_sum_persample). Qed.
Print Assumptions stdp_step_parts_sum_persample.
