(* Obligation C11/c05_dense_forward_sample.  Statement as printed by Coq from Inferno.C11.ConnBatchC05; proof by reference.
   This file contains nothing else, so the statement cannot be weakened quietly. *)
From Coq Require Import List ZArith Bool Arith Lia.
From Inferno Require Import Base.Num C05.Conn C11.Samp C11.ConnBatchC05.
Import ListNotations.
Theorem c05_dense_forward_sample : forall (N : Num) (c : dense N) (x y : tensor N) (b : nat),
  dense_sized N c ->
  b < d_B N c ->
  dense_forward N c x = Ok y ->
  exists rest : list nat,
    tshape x = d_B N c :: rest /\
    dense_forward N (dense_B N c 1)
      {| tshape := 1 :: rest; tdata := samp (prodn (d_in N c)) b (tdata x) |} =
    Ok
      {|
        tshape := view_shape (1 * prodn (d_out N c)) (d_out N c);
        tdata := samp (prodn (d_out N c)) b (tdata y)
      |}.
Proof. exact (@Inferno.C11.ConnBatchC05.c05_dense_forward_sample). Qed.
Print Assumptions c05_dense_forward_sample.
