(* Obligation C11/dense_fresh_rel.  Statement as printed by Coq from Inferno.C11.LayerBatchC17; proof by reference.
   This file contains nothing else, so the statement cannot be weakened quietly. *)
From Coq Require Import List ZArith Bool Arith Lia.
From Inferno Require Import Base.Num Gen.NeuronDynamics Gen.NeuronAdaptation C17.Layers C17.Components C11.Samp C11.LayerBatch C11.LayerBatchC17.
Import ListNotations.
Theorem dense_fresh_rel : forall (N : Num) (B b : nat),
  b < B ->
  forall c : dense N, d_B N c = B -> Rc N B b (dense_fresh N c) (dense_fresh N (dsamp N b c)).
Proof. exact (@Inferno.C11.LayerBatchC17.dense_fresh_rel). Qed.
Print Assumptions dense_fresh_rel.
