(* Obligation C11/da_cell_run_sum_persample.  Statement as printed by Coq from Inferno.C11.TrainerBatchDelayAdj; proof by reference.
   This file contains nothing else, so the statement cannot be weakened quietly. *)
From Coq Require Import List ZArith Bool Reals Lra Lia Arith.
From Inferno Require Import Base.Num Base.NumR C18.DelayAdj C18.EventProofs C18.DelayAdjProofs C11.Samp.
From Inferno Require C08.StdpSpec C08.StdpProofs.
From Inferno Require Import C11.TrainerBatchDelayAdj.
Import ListNotations.
Open Scope R_scope.
Theorem da_cell_run_sum_persample : forall (c : cellcfg RN) (is : list (stepin RN)) (st : cellstate RN),
  syn_ok c ->
  Forall (fun i : stepin RN => sig_ok (c_B RN c) (si_sig RN i)) is ->
  (forall b : nat,
   map fst (cell_run RN (reduce RN RSum) (cfg1 c) (samp_st c b st) (map (samp_in c b) is)) =
   map (samp_st c b) (map fst (cell_run RN (reduce RN RSum) c st is))) /\
  (forall t j : nat,
   part_val RN
     (fst (nth j (snd (nth t (cell_run RN (reduce RN RSum) c st is) no_step)) no_parts)) =
   StdpSpec.sum_steps (c_B RN c)
     (fun b : nat =>
      part_val RN
        (fst
           (nth j
              (snd
                 (nth t
                    (cell_run RN (reduce RN RSum) (cfg1 c) (samp_st c b st)
                       (map (samp_in c b) is)) no_step)) no_parts))) /\
   part_val RN
     (snd (nth j (snd (nth t (cell_run RN (reduce RN RSum) c st is) no_step)) no_parts)) =
   StdpSpec.sum_steps (c_B RN c)
     (fun b : nat =>
      part_val RN
        (snd
           (nth j
              (snd
                 (nth t
                    (cell_run RN (reduce RN RSum) (cfg1 c) (samp_st c b st)
                       (map (samp_in c b) is)) no_step)) no_parts)))).
Proof. exact (@Inferno.C11.TrainerBatchDelayAdj.da_cell_run_sum_persample). Qed.
Print Assumptions da_cell_run_sum_persample.
