(* Obligation C11/neuron_forward_sample_dynamics.  Statement as printed by Coq from Inferno.C11.NeuronBatch; proof by reference.
   This file contains nothing else, so the statement cannot be weakened quietly. *)
From Coq Require Import List ZArith Bool Arith Lia.
From Inferno Require Import Base.Num Gen.NeuronDynamics Gen.NeuronAdaptation C03.Neuron C11.NeuronBatch.
Import ListNotations.
Theorem neuron_forward_sample_dynamics : forall (N : Num) (c : cls) (p : params N) (b B : nat) (adapt lock : bool)
    (cs : list (column N)) (xs : list (list (T N))),
  b < B ->
  shaped N B cs ->
  rows N B xs ->
  let r := forward N c p adapt lock cs xs in
  let r1 := forward N c p adapt lock (map (pcol N b) cs) (map (prow N b) xs) in
  fst r1 = map (pbrow b) (fst r) /\
  map (cells N) (snd r1) =
  map (fun col : column N => [nth b (cells N col) (d_cell N)]) (snd r).
Proof. exact (@Inferno.C11.NeuronBatch.neuron_forward_sample_dynamics). Qed.
Print Assumptions neuron_forward_sample_dynamics.
