(* Obligation C11/neuron_fresh_rel.  Statement as printed by Coq from Inferno.C11.LayerBatchC17; proof by reference.
   This file contains nothing else, so the statement cannot be weakened quietly. *)
From Coq Require Import List ZArith Bool Arith Lia.
From Inferno Require Import Base.Num Gen.NeuronDynamics Gen.NeuronAdaptation C17.Layers C17.Components C11.Samp C11.LayerBatch C11.LayerBatchC17.
Import ListNotations.
Theorem neuron_fresh_rel : forall (N : Num) (B b : nat),
  b < B ->
  forall n : neuron N,
  n_B N n = B ->
  nfrozen N n ->
  (n_acfg N n <> None -> length (n_adapt N n) = nsize N n) ->
  Rn N B b (neuron_fresh N n) (neuron_fresh N (nsamp N b n)).
Proof. exact (@Inferno.C11.LayerBatchC17.neuron_fresh_rel). Qed.
Print Assumptions neuron_fresh_rel.
