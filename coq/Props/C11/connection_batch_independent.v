(* Obligation C11/connection_batch_independent.  Statement as printed by Coq from Inferno.C11.ConnBatch; proof by reference.
   This file contains nothing else, so the statement cannot be weakened quietly. *)
From Coq Require Import List ZArith Bool Arith Lia.
From Inferno Require Import Base.Num Gen.Infra Gen.Interpolation C01.Ring C04.Synapse C04.HistProofs.
From Inferno Require C05.Conn.
From Inferno Require Import C06.Delay C11.Samp C11.SynapseBatch C11.ConnBatch.
Import ListNotations.
Theorem connection_batch_independent : forall (NM : Num) (B b : nat),
  b < B ->
  forall (c : cfg NM) (ops : list (cop NM)) (k : conn NM) (s : syn NM) 
    (kf : conn NM) (sf : syn NM) (outs : list (cout NM)),
  conn_wf NM B k ->
  bsyn NM B (conn_sh NM k) s ->
  Forall (cop_ok NM) ops ->
  crun NM c (k, s) ops = (kf, sf, outs) ->
  Forall (fun o : cout NM => ~ raises NM o) outs ->
  crun NM c (conn_B1 NM k, psyn NM b s) (map (pcop NM b) ops) =
  (conn_B1 NM kf, psyn NM b sf, map (pcout NM b) outs).
Proof. exact (@Inferno.C11.ConnBatch.connection_batch_independent). Qed.
Print Assumptions connection_batch_independent.
