(* Obligation C11/da_monitor_per_sample.  Statement as printed by Coq from Inferno.C11.TrainerBatchDelayAdj; proof by reference.
   This file contains nothing else, so the statement cannot be weakened quietly. *)
From Coq Require Import List ZArith Bool Reals Lra Lia Arith.
From Inferno Require Import Base.Num Base.NumR C18.DelayAdj C18.EventProofs C18.DelayAdjProofs C11.Samp.
From Inferno Require C08.StdpSpec C08.StdpProofs.
From Inferno Require Import C11.TrainerBatchDelayAdj.
Import ListNotations.
Open Scope R_scope.
Theorem da_monitor_per_sample : forall (dt : R) (n b : nat) (obs : list bool) (st : option (list nvR)),
  samp n b (ev_fold_t RN dt obs st) =
  ev_fold_t RN dt (samp n b obs) (option_map (samp n b) st).
Proof. exact (@Inferno.C11.TrainerBatchDelayAdj.da_monitor_per_sample). Qed.
Print Assumptions da_monitor_per_sample.
