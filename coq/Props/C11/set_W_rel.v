(* Obligation C11/set_W_rel.  Statement as printed by Coq from Inferno.C11.LayerBatchC17; proof by reference.
   This file contains nothing else, so the statement cannot be weakened quietly. *)
From Coq Require Import List ZArith Bool Arith Lia.
From Inferno Require Import Base.Num Gen.NeuronDynamics Gen.NeuronAdaptation C17.Layers C17.Components C11.Samp C11.LayerBatch C11.LayerBatchC17.
Import ListNotations.
Theorem set_W_rel : forall (N : Num) (B b : nat) (W : list (list (T N))) (bias : option (list (T N))),
  lcrel (dense N) (dense N) (Rc N B b) (set_W N W bias) (set_W N W bias).
Proof. exact (@Inferno.C11.LayerBatchC17.set_W_rel). Qed.
Print Assumptions set_W_rel.
