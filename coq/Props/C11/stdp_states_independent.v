(* Obligation C11/stdp_states_independent.  Statement as printed by Coq from Inferno.C11.TrainerBatchStdp; proof by reference.
   This file contains nothing else, so the statement cannot be weakened quietly. *)
From Coq Require Import List ZArith Bool Reals Lra Lia Arith.
From Inferno Require Import Base.Num Base.NumR C08.Stdp C08.StdpSpec C08.StdpProofs C09.StdpSplitProofs C11.TrainerBatchStdp.
Import ListNotations.
Open Scope R_scope.
Theorem stdp_states_independent : forall (c : config RN) (k B b : nat) (inps inps' : list (list (bool * bool) * signal RN))
    (ss ss' : list (sstate RN)),
  length ss = B ->
  length ss' = B ->
  (b < B)%nat ->
  Forall (fun i : list (bool * bool) * signal RN => length (fst i) = B) inps ->
  Forall (fun i : list (bool * bool) * signal RN => length (fst i) = B) inps' ->
  nth b ss (s_init RN) = nth b ss' (s_init RN) ->
  map (fun i : list (bool * bool) * signal RN => nth b (fst i) (false, false)) inps =
  map (fun i : list (bool * bool) * signal RN => nth b (fst i) (false, false)) inps' ->
  map (fun sl : list (sstate RN) => nth b sl (s_init RN)) (states c k ss inps) =
  map (fun sl : list (sstate RN) => nth b sl (s_init RN)) (states c k ss' inps').
Proof. exact (@Inferno.C11.TrainerBatchStdp.stdp_states_independent). Qed.
Print Assumptions stdp_states_independent.
