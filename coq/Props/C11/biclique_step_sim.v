(* Obligation C11/biclique_step_sim.  Statement as printed by Coq from Inferno.C11.LayerBatch; proof by reference.
   This file contains nothing else, so the statement cannot be weakened quietly. *)
From Coq Require Import List ZArith Bool.
From Inferno Require Import C17.Layers C11.LayerBatch.
Import ListNotations.
Theorem biclique_step_sim : forall (V CS NS CK NK XK : Type) (ck0 : CK) (nk0 : NK)
    (cstep : CS -> CK -> list V -> res (CS * V)) (nstep : NS -> NK -> V -> res (NS * V))
    (cclear : XK -> CS -> CS) (nclear : XK -> NS -> NS) (V' CS' NS' CK' NK' XK' : Type)
    (ck0' : CK') (nk0' : NK') (cstep' : CS' -> CK' -> list V' -> res (CS' * V'))
    (nstep' : NS' -> NK' -> V' -> res (NS' * V')) (cclear' : XK' -> CS' -> CS')
    (nclear' : XK' -> NS' -> NS') (Rv : V -> V' -> Prop) (Rc : CS -> CS' -> Prop)
    (Rn : NS -> NS' -> Prop) (Rck : CK -> CK' -> Prop) (Rnk : NK -> NK' -> Prop)
    (Rxk : XK -> XK' -> Prop),
  Rck ck0 ck0' ->
  Rnk nk0 nk0' ->
  (forall (c : CS) (c1 : CS') (k : CK) (k1 : CK') (xs : list V) (xs1 : list V') 
     (c' : CS) (y : V),
   Rc c c1 ->
   Rck k k1 ->
   Forall2 Rv xs xs1 ->
   cstep c k xs = Ok (c', y) ->
   exists (c1' : CS') (y1 : V'), cstep' c1 k1 xs1 = Ok (c1', y1) /\ Rc c' c1' /\ Rv y y1) ->
  (forall (n : NS) (n1 : NS') (k : NK) (k1 : NK') (x : V) (x1 : V') (n' : NS) (z : V),
   Rn n n1 ->
   Rnk k k1 ->
   Rv x x1 ->
   nstep n k x = Ok (n', z) ->
   exists (n1' : NS') (z1 : V'), nstep' n1 k1 x1 = Ok (n1', z1) /\ Rn n' n1' /\ Rv z z1) ->
  (forall (x : XK) (x1 : XK') (c : CS) (c1 : CS'),
   Rxk x x1 -> Rc c c1 -> Rc (cclear x c) (cclear' x1 c1)) ->
  (forall (x : XK) (x1 : XK') (n : NS) (n1 : NS'),
   Rxk x x1 -> Rn n n1 -> Rn (nclear x n) (nclear' x1 n1)) ->
  forall (Bq : biclique V CS NS) (Bq1 : biclique V' CS' NS')
    (o : biclique_op V CS NS CK NK XK) (o1 : biclique_op V' CS' NS' CK' NK' XK')
    (B' : biclique V CS NS) (out : option (list (Z * V) * list (Z * V))),
  biclique_rel V CS NS V' CS' NS' Rv Rc Rn Bq Bq1 ->
  biclique_op_rel V CS NS CK NK XK V' CS' NS' CK' NK' XK' Rv Rc Rn Rck Rnk Rxk o o1 ->
  biclique_step V CS NS CK NK XK ck0 nk0 cstep nstep cclear nclear Bq o = Ok (B', out) ->
  exists (B1' : biclique V' CS' NS') (out1 : option (list (Z * V') * list (Z * V'))),
    biclique_step V' CS' NS' CK' NK' XK' ck0' nk0' cstep' nstep' cclear' nclear' Bq1 o1 =
    Ok (B1', out1) /\
    biclique_rel V CS NS V' CS' NS' Rv Rc Rn B' B1' /\ biclique_out_rel V V' Rv out out1.
Proof. exact (@Inferno.C11.LayerBatch.biclique_step_sim). Qed.
Print Assumptions biclique_step_sim.
