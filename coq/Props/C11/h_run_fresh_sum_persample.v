(* Obligation C11/h_run_fresh_sum_persample.  Statement as printed by Coq from Inferno.C11.TrainerBatchHomeo; proof by reference.
   This file contains nothing else, so the statement cannot be weakened quietly. *)
From Coq Require Import List ZArith Bool Reals Lra Lia Arith.
From Inferno Require Import Base.Num Base.NumR C09.Split C09.HomeoProofs.
From Inferno Require C08.StdpSpec C08.StdpProofs.
From Inferno Require Import C11.TrainerBatchHomeo.
Import ListNotations.
Open Scope R_scope.
Theorem h_run_fresh_sum_persample : forall (p : hparam) (lam : T RN) (targets : list (list (T RN))) 
    (B : nat) (steps : list (list (list bool))) (t : nat),
  length targets = B ->
  Forall (fun s : list (list bool) => length s = B) steps ->
  (forall b : nat,
   map fst (h_run RN HSum p lam (row b targets) (h_init RN) (map (row b) steps)) =
   map (row_st b) (map fst (h_run RN HSum p lam targets (h_init RN) steps))) /\
  pv (fst (snd (nth t (h_run RN HSum p lam targets (h_init RN) steps) no_hstep))) =
  StdpSpec.sum_steps B
    (fun b : nat =>
     pv
       (fst
          (snd
             (nth t (h_run RN HSum p lam (row b targets) (h_init RN) (map (row b) steps))
                no_hstep)))) /\
  pv (snd (snd (nth t (h_run RN HSum p lam targets (h_init RN) steps) no_hstep))) =
  StdpSpec.sum_steps B
    (fun b : nat =>
     pv
       (snd
          (snd
             (nth t (h_run RN HSum p lam (row b targets) (h_init RN) (map (row b) steps))
                no_hstep)))).
Proof. exact (@Inferno.C11.TrainerBatchHomeo.h_run_fresh_sum_persample). Qed.
Print Assumptions h_run_fresh_sum_persample.
