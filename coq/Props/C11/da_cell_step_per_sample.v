(* Obligation C11/da_cell_step_per_sample.  Statement as printed by Coq from Inferno.C11.TrainerBatchDelayAdj; proof by reference.
   This file contains nothing else, so the statement cannot be weakened quietly. *)
From Coq Require Import List ZArith Bool Reals Lra Lia Arith.
From Inferno Require Import Base.Num Base.NumR C18.DelayAdj C18.EventProofs C18.DelayAdjProofs C11.Samp.
From Inferno Require C08.StdpSpec C08.StdpProofs.
From Inferno Require Import C11.TrainerBatchDelayAdj.
Import ListNotations.
Open Scope R_scope.
Theorem da_cell_step_per_sample : forall (c : cellcfg RN) (st : cellstate RN) (i : stepin RN),
  syn_ok c ->
  sig_ok (c_B RN c) (si_sig RN i) ->
  (forall b : nat,
   fst (cell_step RN (reduce RN RSum) (cfg1 c) (samp_st c b st) (samp_in c b i)) =
   samp_st c b (fst (cell_step RN (reduce RN RSum) c st i))) /\
  (forall j : nat,
   part_val RN (fst (nth j (snd (cell_step RN (reduce RN RSum) c st i)) no_parts)) =
   StdpSpec.sum_steps (c_B RN c)
     (fun b : nat =>
      part_val RN
        (fst
           (nth j
              (snd (cell_step RN (reduce RN RSum) (cfg1 c) (samp_st c b st) (samp_in c b i)))
              no_parts))) /\
   part_val RN (snd (nth j (snd (cell_step RN (reduce RN RSum) c st i)) no_parts)) =
   StdpSpec.sum_steps (c_B RN c)
     (fun b : nat =>
      part_val RN
        (snd
           (nth j
              (snd (cell_step RN (reduce RN RSum) (cfg1 c) (samp_st c b st) (samp_in c b i)))
              no_parts)))).
Proof. exact (@Inferno.C11.TrainerBatchDelayAdj.da_cell_step_per_sample). Qed.
Print Assumptions da_cell_step_per_sample.
