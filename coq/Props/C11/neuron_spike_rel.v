(* Obligation C11/neuron_spike_rel.  Statement as printed by Coq from Inferno.C11.LayerBatchC17; proof by reference.
   This file contains nothing else, so the statement cannot be weakened quietly. *)
From Coq Require Import List ZArith Bool Arith Lia.
From Inferno Require Import Base.Num Gen.NeuronDynamics Gen.NeuronAdaptation C17.Layers C17.Components C11.Samp C11.LayerBatch C11.LayerBatchC17.
Import ListNotations.
Theorem neuron_spike_rel : forall (N : Num) (B b : nat) (n n1 : neuron N),
  Rn N B b n n1 -> Rv N B b (neuron_spike N n) (neuron_spike N n1).
Proof. exact (@Inferno.C11.LayerBatchC17.neuron_spike_rel). Qed.
Print Assumptions neuron_spike_rel.
