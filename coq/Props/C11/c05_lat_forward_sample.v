(* Obligation C11/c05_lat_forward_sample.  Statement as printed by Coq from Inferno.C11.ConnBatchC05; proof by reference.
   This file contains nothing else, so the statement cannot be weakened quietly. *)
From Coq Require Import List ZArith Bool Arith Lia.
From Inferno Require Import Base.Num C05.Conn C11.Samp C11.ConnBatchC05.
Import ListNotations.
Theorem c05_lat_forward_sample : forall (N : Num) (s : lat N) (x y : tensor N) (b : nat),
  length (l_w N s) = prodn (l_shape N s) ->
  (forall bv : list (T N), l_b N s = Some bv -> length bv = prodn (l_shape N s)) ->
  b < l_B N s ->
  lat_forward N s x = Ok y ->
  exists rest : list nat,
    tshape x = l_B N s :: rest /\
    lat_forward N (lat_B N s 1)
      {| tshape := 1 :: rest; tdata := samp (prodn (l_shape N s)) b (tdata x) |} =
    Ok
      {|
        tshape := view_shape (1 * prodn (l_shape N s)) (l_shape N s);
        tdata := samp (prodn (l_shape N s)) b (tdata y)
      |}.
Proof. exact (@Inferno.C11.ConnBatchC05.c05_lat_forward_sample). Qed.
Print Assumptions c05_lat_forward_sample.
