(* Obligation C11/c05_direct_forward_sample.  Statement as printed by Coq from Inferno.C11.ConnBatchC05; proof by reference.
   This file contains nothing else, so the statement cannot be weakened quietly. *)
From Coq Require Import List ZArith Bool Arith Lia.
From Inferno Require Import Base.Num C05.Conn C11.Samp C11.ConnBatchC05.
Import ListNotations.
Theorem c05_direct_forward_sample : forall (N : Num) (c : direct N) (x y : tensor N) (b : nat),
  direct_sized N c ->
  b < r_B N c ->
  length (tdata x) = prodn (tshape x) ->
  direct_forward N c x = Ok y ->
  exists rest : list nat,
    tshape x = r_B N c :: rest /\
    direct_forward N (direct_B N c 1)
      {| tshape := 1 :: rest; tdata := samp (prodn (r_shape N c)) b (tdata x) |} =
    Ok
      {|
        tshape := view_shape (1 * prodn (r_shape N c)) (r_shape N c);
        tdata := samp (prodn (r_shape N c)) b (tdata y)
      |}.
Proof. exact (@Inferno.C11.ConnBatchC05.c05_direct_forward_sample). Qed.
Print Assumptions c05_direct_forward_sample.
