(* Obligation C11/batch_run_is_per_sample_run.  Statement as printed by Coq from Inferno.C11.Batch; proof by reference.
   This file contains nothing else, so the statement cannot be weakened quietly. *)
From Coq Require Import List Reals Lra Lia.
From Inferno Require Import Base.Num Base.NumR C11.Batch.
Import ListNotations.
Theorem batch_run_is_per_sample_run : forall (S I O : Type) (step : S -> I -> S * O) (xss : list (list I)) 
    (ss : list S) (b : nat) (s ds : S) (d_o : O),
  Forall (fun xs : list I => length xs = length ss) xss ->
  nth_error ss b = Some s ->
  forall dx : I,
  nth b (fst (brun step ss xss)) ds =
  fst (run1 step s (map (fun xs : list I => nth b xs dx) xss)) /\
  map (fun os : list O => nth b os d_o) (snd (brun step ss xss)) =
  snd (run1 step s (map (fun xs : list I => nth b xs dx) xss)).
Proof. exact (@Inferno.C11.Batch.batch_run_is_per_sample_run). Qed.
Print Assumptions batch_run_is_per_sample_run.
