(* Obligation C11/itr_fn_rel.  Statement as printed by Coq from Inferno.C11.LayerBatchC17; proof by reference.
   This file contains nothing else, so the statement cannot be weakened quietly. *)
From Coq Require Import List ZArith Bool Arith Lia.
From Inferno Require Import Base.Num Gen.NeuronDynamics Gen.NeuronAdaptation C17.Layers C17.Components C11.Samp C11.LayerBatch C11.LayerBatchC17.
Import ListNotations.
Theorem itr_fn_rel : forall (N : Num) (B b : nat) (t : itr),
  itrel (tensor N) (tensor N) (Rv N B b) (itr_fn N t) (itr_fn N t).
Proof. exact (@Inferno.C11.LayerBatchC17.itr_fn_rel). Qed.
Print Assumptions itr_fn_rel.
