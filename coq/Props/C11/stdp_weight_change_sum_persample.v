(* Obligation C11/stdp_weight_change_sum_persample.  Statement as printed by Coq from Inferno.C11.TrainerBatchStdp; proof by reference.
   This file contains nothing else, so the statement cannot be weakened quietly. *)
From Coq Require Import List ZArith Bool Reals Lra Lia Arith.
From Inferno Require Import Base.Num Base.NumR C08.Stdp C08.StdpSpec C08.StdpProofs C09.StdpSplitProofs C11.TrainerBatchStdp.
Import ListNotations.
Open Scope R_scope.
Theorem stdp_weight_change_sum_persample : forall (c : config RN) (k B : nat) (inps : list (list (bool * bool) * signal RN)),
  c_red RN c = RSum ->
  inputs_ok_ps B inps ->
  weight_change_batch c k B inps =
  sum_steps B (fun b : nat => weight_change c k (sample_ps b inps)).
Proof. exact (@Inferno.C11.TrainerBatchStdp.stdp_weight_change_sum_persample). Qed.
Print Assumptions stdp_weight_change_sum_persample.
