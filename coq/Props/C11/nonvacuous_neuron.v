(* Obligation C11/nonvacuous_neuron.  Statement as printed by Coq from Inferno.C11.Nonvacuous; proof by reference.
   This file contains nothing else, so the statement cannot be weakened quietly. *)
From Coq Require Import List ZArith Bool Arith Lia.
From Inferno Require Import Base.Num Gen.Infra Gen.Interpolation C01.Ring C04.Synapse.
From Inferno Require C05.Conn C03.Neuron.
From Inferno Require Import C06.Delay C11.Samp C11.SynapseBatch C11.ConnBatch.
From Inferno Require C11.NeuronBatch.
From Inferno Require Import C11.Nonvacuous.
Import ListNotations.
Open Scope Z_scope.
Theorem nonvacuous_neuron : Neuron.has_adaptation Neuron.ALIF = true /\
  Forall (NeuronBatch.op_shaped ZN 3) nops0 /\ NeuronBatch.frozen ZN Neuron.ALIF true nops0.
Proof. exact (@Inferno.C11.Nonvacuous.nonvacuous_neuron). Qed.
Print Assumptions nonvacuous_neuron.
