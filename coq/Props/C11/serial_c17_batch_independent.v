(* Obligation C11/serial_c17_batch_independent.  Statement as printed by Coq from Inferno.C11.LayerBatchC17; proof by reference.
   This file contains nothing else, so the statement cannot be weakened quietly. *)
From Coq Require Import List ZArith Bool Arith Lia.
From Inferno Require Import Base.Num Gen.NeuronDynamics Gen.NeuronAdaptation C17.Layers C17.Components C11.Samp C11.LayerBatch C11.LayerBatchC17.
Import ListNotations.
Theorem serial_c17_batch_independent : forall (N : Num) (B b : nat),
  b < B ->
  forall (ops ops1 : list (serial_op (tensor N) (dense N) (neuron N) unit nkw (option bool)))
    (S S1 S' : serial (tensor N) (dense N) (neuron N))
    (outs : list (option (tensor N * tensor N))),
  SRel N B b S S1 ->
  Forall2 (SOpRel N B b) ops ops1 ->
  run (SStep N) S ops = Ok (S', outs) ->
  exists
    (S1' : serial (tensor N) (dense N) (neuron N)) (outs1 : list
                                                              (option (tensor N * tensor N))),
    run (SStep N) S1 ops1 = Ok (S1', outs1) /\
    SRel N B b S' S1' /\ Forall2 (serial_out_rel (tensor N) (tensor N) (Rv N B b)) outs outs1.
Proof. exact (@Inferno.C11.LayerBatchC17.serial_c17_batch_independent). Qed.
Print Assumptions serial_c17_batch_independent.
