(* Obligation C11/combine_builtin_rel.  Statement as printed by Coq from Inferno.C11.LayerBatchC17; proof by reference.
   This file contains nothing else, so the statement cannot be weakened quietly. *)
From Coq Require Import List ZArith Bool Arith Lia.
From Inferno Require Import Base.Num Gen.NeuronDynamics Gen.NeuronAdaptation C17.Layers C17.Components C11.Samp C11.LayerBatch C11.LayerBatchC17.
Import ListNotations.
Theorem combine_builtin_rel : forall (N : Num) (B b : nat),
  b < B ->
  forall m : cmode,
  crel (tensor N) (tensor N) (Rv N B b) (combine_builtin N m) (combine_builtin N m).
Proof. exact (@Inferno.C11.LayerBatchC17.combine_builtin_rel). Qed.
Print Assumptions combine_builtin_rel.
