(* Obligation C11/tr_fn_rel.  Statement as printed by Coq from Inferno.C11.LayerBatchC17; proof by reference.
   This file contains nothing else, so the statement cannot be weakened quietly. *)
From Coq Require Import List ZArith Bool Arith Lia.
From Inferno Require Import Base.Num Gen.NeuronDynamics Gen.NeuronAdaptation C17.Layers C17.Components C11.Samp C11.LayerBatch C11.LayerBatchC17.
Import ListNotations.
Theorem tr_fn_rel : forall (N : Num) (B b : nat) (t : tr N),
  trel (tensor N) (tensor N) (Rv N B b) (tr_fn N t) (tr_fn N t).
Proof. exact (@Inferno.C11.LayerBatchC17.tr_fn_rel). Qed.
Print Assumptions tr_fn_rel.
