(* Obligation C11/neuron_batch_independent.  Statement as printed by Coq from Inferno.C11.NeuronBatch; proof by reference.
   This file contains nothing else, so the statement cannot be weakened quietly. *)
From Coq Require Import List ZArith Bool Arith Lia.
From Inferno Require Import Base.Num Gen.NeuronDynamics Gen.NeuronAdaptation C03.Neuron C11.NeuronBatch.
Import ListNotations.
Theorem neuron_batch_independent : forall (N : Num) (c : cls) (p : params N) (ops : list (op N)) (s : nstate N) (b B : nat),
  b < B ->
  shaped N B (cols N s) ->
  Forall (op_shaped N B) ops ->
  frozen N c (training N s) ops ->
  run N c p (pstate N b s) (map (pop N b) ops) = map (pres N b) (run N c p s ops).
Proof. exact (@Inferno.C11.NeuronBatch.neuron_batch_independent). Qed.
Print Assumptions neuron_batch_independent.
