(* Obligation C11/serial_new_sim.  Statement as printed by Coq from Inferno.C11.LayerBatch; proof by reference.
   This file contains nothing else, so the statement cannot be weakened quietly. *)
From Coq Require Import List ZArith Bool.
From Inferno Require Import C17.Layers C11.LayerBatch.
Import ListNotations.
Theorem serial_new_sim : forall (V CS NS : Type) (compat : CS -> NS -> bool) (V' CS' NS' : Type)
    (compat' : CS' -> NS' -> bool) (Rv : V -> V' -> Prop) (Rc : CS -> CS' -> Prop)
    (Rn : NS -> NS' -> Prop),
  (forall (c : CS) (c1 : CS') (n : NS) (n1 : NS'),
   Rc c c1 -> Rn n n1 -> compat c n = compat' c1 n1) ->
  forall (c : CS) (c1 : CS') (n : NS) (n1 : NS') (tr : option (V -> V))
    (tr1 : option (V' -> V')) (cn nn : Z) (S : serial V CS NS),
  Rc c c1 ->
  Rn n n1 ->
  orel (trel V V' Rv) tr tr1 ->
  serial_new V CS NS compat c n tr cn nn = Ok S ->
  exists S1 : serial V' CS' NS',
    serial_new V' CS' NS' compat' c1 n1 tr1 cn nn = Ok S1 /\
    serial_rel V CS NS V' CS' NS' Rv Rc Rn S S1.
Proof. exact (@Inferno.C11.LayerBatch.serial_new_sim). Qed.
Print Assumptions serial_new_sim.
