(* Obligation C11/recurrent_new_sim.  Statement as printed by Coq from Inferno.C11.LayerBatch; proof by reference.
   This file contains nothing else, so the statement cannot be weakened quietly. *)
From Coq Require Import List ZArith Bool.
From Inferno Require Import C17.Layers C11.LayerBatch.
Import ListNotations.
Theorem recurrent_new_sim : forall (V CS NS : Type) (compat : CS -> NS -> bool) (V' CS' NS' : Type)
    (compat' : CS' -> NS' -> bool) (Rv : V -> V' -> Prop) (Rc : CS -> CS' -> Prop)
    (Rn : NS -> NS' -> Prop),
  (forall (c : CS) (c1 : CS') (n : NS) (n1 : NS'),
   Rc c c1 -> Rn n n1 -> compat c n = compat' c1 n1) ->
  forall (cff : CS) (cff1 : CS') (clat : CS) (clat1 : CS') (cfb : CS) 
    (cfb1 : CS') (nff : NS) (nff1 : NS') (nfb : NS) (nfb1 : NS') (tff : option (V -> V))
    (tff1 : option (V' -> V')) (tlat : option (V -> V)) (tlat1 : option (V' -> V'))
    (tfb : option (V -> V)) (tfb1 : option (V' -> V')) (ilat : option (V -> list V))
    (ilat1 : option (V' -> list V')) (ifb : option (V -> list V))
    (ifb1 : option (V' -> list V')) (ffc latc fbc ffn fbn : Z) (tf : bool)
    (R : recurrent V CS NS),
  Rc cff cff1 ->
  Rc clat clat1 ->
  Rc cfb cfb1 ->
  Rn nff nff1 ->
  Rn nfb nfb1 ->
  orel (trel V V' Rv) tff tff1 ->
  orel (trel V V' Rv) tlat tlat1 ->
  orel (trel V V' Rv) tfb tfb1 ->
  orel (itrel V V' Rv) ilat ilat1 ->
  orel (itrel V V' Rv) ifb ifb1 ->
  recurrent_new V CS NS compat cff clat cfb nff nfb tff tlat tfb ilat ifb ffc latc fbc ffn fbn
    tf = Ok R ->
  exists R1 : recurrent V' CS' NS',
    recurrent_new V' CS' NS' compat' cff1 clat1 cfb1 nff1 nfb1 tff1 tlat1 tfb1 ilat1 ifb1 ffc
      latc fbc ffn fbn tf = Ok R1 /\ recurrent_rel V CS NS V' CS' NS' Rv Rc Rn R R1.
Proof. exact (@Inferno.C11.LayerBatch.recurrent_new_sim). Qed.
Print Assumptions recurrent_new_sim.
