(* Obligation C11/biclique_c17_batch_independent.  Statement as printed by Coq from Inferno.C11.LayerBatchC17; proof by reference.
   This file contains nothing else, so the statement cannot be weakened quietly. *)
From Coq Require Import List ZArith Bool Arith Lia.
From Inferno Require Import Base.Num Gen.NeuronDynamics Gen.NeuronAdaptation C17.Layers C17.Components C11.Samp C11.LayerBatch C11.LayerBatchC17.
Import ListNotations.
Theorem biclique_c17_batch_independent : forall (N : Num) (B b : nat),
  b < B ->
  forall
    (ops ops1 : list (biclique_op (tensor N) (dense N) (neuron N) unit nkw (option bool)))
    (Bq Bq1 B' : biclique (tensor N) (dense N) (neuron N))
    (outs : list (option (list (Z * tensor N) * list (Z * tensor N)))),
  BRel N B b Bq Bq1 ->
  Forall2 (BOpRel N B b) ops ops1 ->
  run (BStep N) Bq ops = Ok (B', outs) ->
  exists
    (B1' : biclique (tensor N) (dense N) (neuron N)) (outs1 : list
                                                                (option
                                                                 (list (Z * tensor N) *
                                                                 list (Z * tensor N)))),
    run (BStep N) Bq1 ops1 = Ok (B1', outs1) /\
    BRel N B b B' B1' /\
    Forall2 (biclique_out_rel (tensor N) (tensor N) (Rv N B b)) outs outs1.
Proof. exact (@Inferno.C11.LayerBatchC17.biclique_c17_batch_independent). Qed.
Print Assumptions biclique_c17_batch_independent.
