(* Obligation C11/param_at_sample.  Statement as printed by Coq from Inferno.C11.SynapseBatch; proof by reference.
   This file contains nothing else, so the statement cannot be weakened quietly. *)
From Coq Require Import List ZArith Bool Arith Lia.
From Inferno Require Import Base.Num Gen.Infra Gen.Interpolation C01.Ring C04.Synapse C04.HistProofs C11.Samp C11.SynapseBatch.
Import ListNotations.
Theorem param_at_sample : forall (NM : Num) (B : nat) (sh : list nat) (b : nat),
  b < B ->
  forall (Nrec : nat) (peekv : list (T NM)) (selv selv1 : nat -> T NM -> T NM)
    (dt dur tol : T NM) (ob : option (T NM)),
  (forall (e : nat) (t : T NM), e < nel sh -> selv1 e t = selv (b * nel sh + e) t) ->
  forall (ssh : list nat) (sel : list (T NM)) (osh : list nat) (v : list (T NM)),
  sel_ok NM B sh ssh sel ->
  param_at NM Nrec (B :: sh) peekv selv dt dur tol ob ssh sel = SOk (osh, v) ->
  param_at NM Nrec (1 :: sh) (samp (nel sh) b peekv) selv1 dt dur tol ob 
    (pshape ssh) (pvals NM b ssh sel) = SOk (pshape osh, pvals NM b osh v).
Proof. exact (@Inferno.C11.SynapseBatch.param_at_sample). Qed.
Print Assumptions param_at_sample.
