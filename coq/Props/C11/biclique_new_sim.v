(* Obligation C11/biclique_new_sim.  Statement as printed by Coq from Inferno.C11.LayerBatch; proof by reference.
   This file contains nothing else, so the statement cannot be weakened quietly. *)
From Coq Require Import List ZArith Bool.
From Inferno Require Import C17.Layers C11.LayerBatch.
Import ListNotations.
Theorem biclique_new_sim : forall (V CS NS : Type) (compat : CS -> NS -> bool) (V' CS' NS' : Type)
    (compat' : CS' -> NS' -> bool) (Rv : V -> V' -> Prop) (Rc : CS -> CS' -> Prop)
    (Rn : NS -> NS' -> Prop),
  (forall (c : CS) (c1 : CS') (n : NS) (n1 : NS'),
   Rc c c1 -> Rn n n1 -> compat c n = compat' c1 n1) ->
  forall (cs : list (Z * CS * option (V -> V))) (cs1 : list (Z * CS' * option (V' -> V')))
    (ns : list (Z * NS * option (V -> V))) (ns1 : list (Z * NS' * option (V' -> V')))
    (comb : list (Z * V) -> res V) (comb1 : list (Z * V') -> res V') 
    (Bq : biclique V CS NS),
  erel V V' Rv Rc cs cs1 ->
  erel V V' Rv Rn ns ns1 ->
  crel V V' Rv comb comb1 ->
  biclique_new V CS NS compat cs ns comb = Ok Bq ->
  exists Bq1 : biclique V' CS' NS',
    biclique_new V' CS' NS' compat' cs1 ns1 comb1 = Ok Bq1 /\
    biclique_rel V CS NS V' CS' NS' Rv Rc Rn Bq Bq1.
Proof. exact (@Inferno.C11.LayerBatch.biclique_new_sim). Qed.
Print Assumptions biclique_new_sim.
