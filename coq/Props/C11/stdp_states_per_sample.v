(* Obligation C11/stdp_states_per_sample.  Statement as printed by Coq from Inferno.C11.TrainerBatchStdp; proof by reference.
   This file contains nothing else, so the statement cannot be weakened quietly. *)
From Coq Require Import List ZArith Bool Reals Lra Lia Arith.
From Inferno Require Import Base.Num Base.NumR C08.Stdp C08.StdpSpec C08.StdpProofs C09.StdpSplitProofs C11.TrainerBatchStdp.
Import ListNotations.
Open Scope R_scope.
Theorem stdp_states_per_sample : forall (c : config RN) (k B b : nat) (inps : list (list (bool * bool) * signal RN))
    (ss : list (sstate RN)),
  length ss = B ->
  Forall (fun i : list (bool * bool) * signal RN => length (fst i) = B) inps ->
  (b < B)%nat ->
  states c k [nth b ss (s_init RN)] (col_ps b inps) =
  map (fun sl : list (sstate RN) => [nth b sl (s_init RN)]) (states c k ss inps).
Proof. exact (@Inferno.C11.TrainerBatchStdp.stdp_states_per_sample). Qed.
Print Assumptions stdp_states_per_sample.
