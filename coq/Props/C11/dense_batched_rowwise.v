(* Obligation C11/dense_batched_rowwise.  Statement as printed by Coq from Inferno.C11.Batch; proof by reference.
   This file contains nothing else, so the statement cannot be weakened quietly. *)
From Coq Require Import List Reals Lra Lia.
From Inferno Require Import Base.Num Base.NumR C11.Batch.
Import ListNotations.
Theorem dense_batched_rowwise : forall (W xs : list (list R)) (b : nat),
  nth b (linear_batched W xs) [] = (if b <? length xs then matvec W (nth b xs []) else []).
Proof. exact (@Inferno.C11.Batch.dense_batched_rowwise). Qed.
Print Assumptions dense_batched_rowwise.
