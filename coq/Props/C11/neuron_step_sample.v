(* Obligation C11/neuron_step_sample.  Statement as printed by Coq from Inferno.C11.NeuronBatch; proof by reference.
   This file contains nothing else, so the statement cannot be weakened quietly. *)
From Coq Require Import List ZArith Bool Arith Lia.
From Inferno Require Import Base.Num Gen.NeuronDynamics Gen.NeuronAdaptation C03.Neuron C11.NeuronBatch.
Import ListNotations.
Theorem neuron_step_sample : forall (N : Num) (c : cls) (p : params N) (b B : nat) (s : nstate N) (o : op N),
  b < B ->
  shaped N B (cols N s) ->
  op_shaped N B o ->
  no_update N c (training N s) o ->
  step N c p (pstate N b s) (pop N b o) = pres N b (step N c p s o).
Proof. exact (@Inferno.C11.NeuronBatch.neuron_step_sample). Qed.
Print Assumptions neuron_step_sample.
