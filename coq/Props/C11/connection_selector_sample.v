(* Obligation C11/connection_selector_sample.  Statement as printed by Coq from Inferno.C11.ConnBatch; proof by reference.
   This file contains nothing else, so the statement cannot be weakened quietly. *)
From Coq Require Import List ZArith Bool Arith Lia.
From Inferno Require Import Base.Num Gen.Infra Gen.Interpolation C01.Ring C04.Synapse C04.HistProofs.
From Inferno Require C05.Conn.
From Inferno Require Import C06.Delay C11.Samp C11.SynapseBatch C11.ConnBatch.
Import ListNotations.
Theorem connection_selector_sample : forall (NM : Num) (B b : nat),
  b < B ->
  forall k : conn NM,
  conn_wf NM B k ->
  conn_selector NM (conn_B1 NM k) = pview NM b (conn_selector NM k) /\
  sel_ok NM B (conn_sh NM k) (fst (conn_selector NM k)) (snd (conn_selector NM k)).
Proof. exact (@Inferno.C11.ConnBatch.connection_selector_sample). Qed.
Print Assumptions connection_selector_sample.
