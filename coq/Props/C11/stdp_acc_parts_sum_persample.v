(* Obligation C11/stdp_acc_parts_sum_persample.  Statement as printed by Coq from Inferno.C11.TrainerBatchStdp; proof by reference.
   This file contains nothing else, so the statement cannot be weakened quietly. *)
From Coq Require Import List ZArith Bool Reals Lra Lia Arith.
From Inferno Require Import Base.Num Base.NumR C08.Stdp C08.StdpSpec C08.StdpProofs C09.StdpSplitProofs C11.TrainerBatchStdp.
Import ListNotations.
Open Scope R_scope.
Theorem stdp_acc_parts_sum_persample : forall (c : config RN) (k B : nat) (inps : list (list (bool * bool) * signal RN)),
  c_red RN c = RSum ->
  inputs_ok_ps B inps ->
  ov (fst (final_acc RN (run RN c k (init_batch RN B) inps))) =
  sum_steps B
    (fun b : nat =>
     ov (fst (final_acc RN (run RN c k (init_batch RN 1) (inps1 (sample_ps b inps)))))) /\
  ov (snd (final_acc RN (run RN c k (init_batch RN B) inps))) =
  sum_steps B
    (fun b : nat =>
     ov (snd (final_acc RN (run RN c k (init_batch RN 1) (inps1 (sample_ps b inps)))))).
Proof. exact (@Inferno.C11.TrainerBatchStdp.stdp_acc_parts_sum_persample). Qed.
Print Assumptions stdp_acc_parts_sum_persample.
