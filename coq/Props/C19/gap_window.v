(* Obligation C19/gap_window.  Statement as printed by Coq from Inferno.C19.EncodersLists; proof by reference.
   This file contains nothing else, so the statement cannot be weakened quietly. *)
From Coq Require Import List ZArith Bool Arith Lia.
From Inferno Require Import C19.Encoders C19.EncodersLists C19.EncodersPoisson.
Import ListNotations.
Theorem gap_window : forall (l : list bool) (g : nat),
  (forall t1 t2 : nat,
   (t1 < t2)%nat -> nth t1 l false = true -> nth t2 l false = true -> (g <= t2 - t1)%nat) ->
  forall a : nat, (count_true (firstn g (skipn a l)) <= 1)%nat.
Proof. exact (@Inferno.C19.EncodersLists.gap_window). Qed.
Print Assumptions gap_window.
