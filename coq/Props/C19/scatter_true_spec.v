(* Obligation C19/scatter_true_spec.  Statement as printed by Coq from Inferno.C19.EncodersLists; proof by reference.
   This file contains nothing else, so the statement cannot be weakened quietly. *)
From Coq Require Import List ZArith Bool Arith Lia.
From Inferno Require Import C19.Encoders C19.EncodersLists C19.EncodersPoisson.
Import ListNotations.
Theorem scatter_true_spec : forall (size : nat) (idxs : list Z) (l : list bool),
  scatter_true size idxs = Some l ->
  length l = size /\
  Forall (fun i : Z => 0 <= i < Z.of_nat size) idxs /\
  (forall t : nat, nth t l false = true <-> (t < size)%nat /\ In (Z.of_nat t) idxs) /\
  (count_true l <= length idxs)%nat.
Proof. exact (@Inferno.C19.EncodersLists.scatter_true_spec). Qed.
Print Assumptions scatter_true_spec.
