(* Obligation C19/hpa_zero_silent.  Statement as printed by Coq from Inferno.C19.EncodersProofs; proof by reference.
   This file contains nothing else, so the statement cannot be weakened quietly. *)
From Coq Require Import List ZArith Bool Arith Lia Reals.
From Flocq Require Import Core.Raux.
From Inferno Require Import Base.Num Base.NumR C19.Encoders C19.EncodersLists C19.EncodersPoisson C19.EncodersProofs.
Import ListNotations.
Open Scope R_scope.
Theorem hpa_zero_silent : forall (c : config RN) (xs : list (T RN)) (us : list (list (T RN))) 
    (out : list (list bool)) (t j : nat),
  hpa_forward RN c xs us = Ok out ->
  nth j xs 0 = 0 ->
  Forall (Forall (fun u : R => 0 <= u)) us -> nth j (nth t out []) false = false.
Proof. exact (@Inferno.C19.EncodersProofs.hpa_zero_silent). Qed.
Print Assumptions hpa_zero_silent.
