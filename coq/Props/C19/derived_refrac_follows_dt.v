(* Obligation C19/derived_refrac_follows_dt.  Statement as printed by Coq from Inferno.C19.EncodersProofs; proof by reference.
   This file contains nothing else, so the statement cannot be weakened quietly. *)
From Coq Require Import List ZArith Bool Arith Lia Reals.
From Flocq Require Import Core.Raux.
From Inferno Require Import Base.Num Base.NumR C19.Encoders C19.EncodersLists C19.EncodersPoisson C19.EncodersProofs.
Import ListNotations.
Open Scope R_scope.
Theorem derived_refrac_follows_dt : forall (s0 s1 : estate RN) (l : list (assignment RN)),
  tracks_dt s0 ->
  assign RN KHpe s0 (ARefrac RN None) = (s1, None) ->
  forallb (fun a : assignment RN => negb (is_refrac_assignment a)) l = true ->
  e_derive (run_assign RN KHpe s1 l) = true /\
  e_refrac (run_assign RN KHpe s1 l) = e_dt (run_assign RN KHpe s1 l).
Proof. exact (@Inferno.C19.EncodersProofs.derived_refrac_follows_dt). Qed.
Print Assumptions derived_refrac_follows_dt.
