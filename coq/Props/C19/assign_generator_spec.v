(* Obligation C19/assign_generator_spec.  Statement as printed by Coq from Inferno.C19.EncodersProofs; proof by reference.
   This file contains nothing else, so the statement cannot be weakened quietly. *)
From Coq Require Import List ZArith Bool Arith Lia Reals.
From Flocq Require Import Core.Raux.
From Inferno Require Import Base.Num Base.NumR C19.Encoders C19.EncodersLists C19.EncodersPoisson C19.EncodersProofs.
Import ListNotations.
Open Scope R_scope.
Theorem assign_generator_spec : forall (k : enc_kind) (s : gstate RN) (o : option Z),
  assign_g RN k s (GGen RN o) = ({| g_enc := g_enc RN s; g_gen := o |}, None).
Proof. exact (@Inferno.C19.EncodersProofs.assign_generator_spec). Qed.
Print Assumptions assign_generator_spec.
