(* Obligation C19/hpe_offline_zero_silent.  Statement as printed by Coq from Inferno.C19.EncodersProofs; proof by reference.
   This file contains nothing else, so the statement cannot be weakened quietly. *)
From Coq Require Import List ZArith Bool Arith Lia Reals.
From Flocq Require Import Core.Raux.
From Inferno Require Import Base.Num Base.NumR C19.Encoders C19.EncodersLists C19.EncodersPoisson C19.EncodersProofs.
Import ListNotations.
Open Scope R_scope.
Theorem hpe_offline_zero_silent : forall (c : config RN) (xs : list (T RN)) (draws : list (list (T RN)))
    (out : list (list bool)) (j : nat),
  hpe_offline RN c xs draws = Ok out ->
  nth j xs 0 = 0 -> forall t : nat, nth j (nth t out []) false = false.
Proof. exact (@Inferno.C19.EncodersProofs.hpe_offline_zero_silent). Qed.
Print Assumptions hpe_offline_zero_silent.
