(* Obligation C19/pi_offline_elem_spikes.  Statement as printed by Coq from Inferno.C19.EncodersPoisson; proof by reference.
   This file contains nothing else, so the statement cannot be weakened quietly. *)
From Coq Require Import List ZArith Bool Arith Lia.
From Inferno Require Import C19.Encoders C19.EncodersLists C19.EncodersPoisson.
Import ListNotations.
Theorem pi_offline_elem_spikes : forall (steps : nat) (draws : list Z) (tr : list bool) (t : nat),
  pi_offline_elem steps true draws = Some tr ->
  nth t tr false = true <->
  (t < steps)%nat /\
  (exists k : nat,
     (k < Nat.min (steps + 2) (length draws))%nat /\
     Z.min (nth k (cumsumZ (map (pi_adjust true) (firstn (steps + 2) draws))) 0)
       (Z.of_nat steps) = Z.of_nat (S t)).
Proof. exact (@Inferno.C19.EncodersPoisson.pi_offline_elem_spikes). Qed.
Print Assumptions pi_offline_elem_spikes.
