(* Obligation C19/exp_online_yields_steps.  Statement as printed by Coq from Inferno.C19.EncodersProofs; proof by reference.
   This file contains nothing else, so the statement cannot be weakened quietly. *)
From Coq Require Import List ZArith Bool Arith Lia Reals.
From Flocq Require Import Core.Raux.
From Inferno Require Import Base.Num Base.NumR C19.Encoders C19.EncodersLists C19.EncodersPoisson C19.EncodersProofs.
Import ListNotations.
Open Scope R_scope.
Theorem exp_online_yields_steps : forall (steps : nat) (dt : T RN) (refrac : option (T RN)) (comp : bool)
    (inps draws0 : list (T RN)) (draws : list (list (T RN))),
  length draws0 = length inps ->
  length (exp_online RN steps dt refrac comp inps draws0 draws) = steps /\
  Forall (fun row : list bool => length row = length inps)
    (exp_online RN steps dt refrac comp inps draws0 draws).
Proof. exact (@Inferno.C19.EncodersProofs.exp_online_yields_steps). Qed.
Print Assumptions exp_online_yields_steps.
