(* Obligation C19/hpe_offline_shape.  Statement as printed by Coq from Inferno.C19.EncodersProofs; proof by reference.
   This file contains nothing else, so the statement cannot be weakened quietly. *)
From Coq Require Import List ZArith Bool Arith Lia Reals.
From Flocq Require Import Core.Raux.
From Inferno Require Import Base.Num Base.NumR C19.Encoders C19.EncodersLists C19.EncodersPoisson C19.EncodersProofs.
Import ListNotations.
Open Scope R_scope.
Theorem hpe_offline_shape : forall (c : config RN) (xs : list (T RN)) (draws : list (list (T RN)))
    (out : list (list bool)),
  hpe_offline RN c xs draws = Ok out ->
  length out = Z.to_nat (c_steps c) /\
  (0 < c_steps c)%Z /\ Forall (fun row : list bool => length row = length xs) out.
Proof. exact (@Inferno.C19.EncodersProofs.hpe_offline_shape). Qed.
Print Assumptions hpe_offline_shape.
