(* Obligation C19/hpa_saturated_fires.  Statement as printed by Coq from Inferno.C19.EncodersProofs; proof by reference.
   This file contains nothing else, so the statement cannot be weakened quietly. *)
From Coq Require Import List ZArith Bool Arith Lia Reals.
From Flocq Require Import Core.Raux.
From Inferno Require Import Base.Num Base.NumR C19.Encoders C19.EncodersLists C19.EncodersPoisson C19.EncodersProofs.
Import ListNotations.
Open Scope R_scope.
Theorem hpa_saturated_fires : forall (c : config RN) (xs : list (T RN)) (us : list (list (T RN))) 
    (out : list (list bool)) (t j : nat),
  hpa_forward RN c xs us = Ok out ->
  (t < Z.to_nat (c_steps c))%nat ->
  (j < length xs)%nat ->
  (j < length (nth t us []))%nat ->
  1000 <= c_freq c * nth j xs 0 * c_dt c ->
  nth j (nth t us []) 0 < 1 -> nth j (nth t out []) false = true.
Proof. exact (@Inferno.C19.EncodersProofs.hpa_saturated_fires). Qed.
Print Assumptions hpa_saturated_fires.
