(* Obligation C19/hpe_min_gap_needs_domain_refuted.  Statement as printed by Coq from Inferno.C19.EncodersProofs; proof by reference.
   This file contains nothing else, so the statement cannot be weakened quietly. *)
From Coq Require Import List ZArith Bool Arith Lia Reals.
From Flocq Require Import Core.Raux.
From Inferno Require Import Base.Num Base.NumR C19.Encoders C19.EncodersLists C19.EncodersPoisson C19.EncodersProofs.
Import ListNotations.
Open Scope R_scope.
Theorem hpe_min_gap_needs_domain_refuted : exists out : list (list bool),
    valid_step RN od_cfg && valid_refrac RN od_cfg = true /\
    hpe_offline RN od_cfg [1] [[1]; [1]] = Ok out /\
    nth 0 (nth 0 out []) false = true /\
    nth 0 (nth 1 out []) false = true /\
    Zfloor (enc_refrac RN od_cfg / c_dt od_cfg) = 2%Z /\ ~ hpe_domain od_cfg [1].
Proof. exact (@Inferno.C19.EncodersProofs.hpe_min_gap_needs_domain_refuted). Qed.
Print Assumptions hpe_min_gap_needs_domain_refuted.
