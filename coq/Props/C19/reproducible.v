(* Obligation C19/reproducible.  Statement as printed by Coq from Inferno.C19.EncodersProofs; proof by reference.
   This file contains nothing else, so the statement cannot be weakened quietly. *)
From Coq Require Import List ZArith Bool Arith Lia Reals.
From Flocq Require Import Core.Raux.
From Inferno Require Import Base.Num Base.NumR C19.Encoders C19.EncodersLists C19.EncodersPoisson C19.EncodersProofs.
Import ListNotations.
Open Scope R_scope.
Theorem reproducible : forall (c : config RN) (xs : list (T RN)) (draws draws' : list (list (T RN)))
    (draws0 draws0' : list (T RN)),
  draws = draws' ->
  draws0 = draws0' ->
  hpe_offline RN c xs draws = hpe_offline RN c xs draws' /\
  hpe_online RN c xs draws0 draws = hpe_online RN c xs draws0' draws'.
Proof. exact (@Inferno.C19.EncodersProofs.reproducible). Qed.
Print Assumptions reproducible.
