(* Obligation C19/generator_last_assigned.  Statement as printed by Coq from Inferno.C19.EncodersProofs; proof by reference.
   This file contains nothing else, so the statement cannot be weakened quietly. *)
From Coq Require Import List ZArith Bool Arith Lia Reals.
From Flocq Require Import Core.Raux.
From Inferno Require Import Base.Num Base.NumR C19.Encoders C19.EncodersLists C19.EncodersPoisson C19.EncodersProofs.
Import ListNotations.
Open Scope R_scope.
Theorem generator_last_assigned : forall (k : enc_kind) (s : gstate RN) (o : option Z) (l : list (gassignment RN)),
  forallb is_config_assignment l = true ->
  g_gen RN (snd (assign_g_all RN k s (GGen RN o :: l))) = o.
Proof. exact (@Inferno.C19.EncodersProofs.generator_last_assigned). Qed.
Print Assumptions generator_last_assigned.
