(* Obligation C19/hpa_probs_range.  Statement as printed by Coq from Inferno.C19.EncodersProofs; proof by reference.
   This file contains nothing else, so the statement cannot be weakened quietly. *)
From Coq Require Import List ZArith Bool Arith Lia Reals.
From Flocq Require Import Core.Raux.
From Inferno Require Import Base.Num Base.NumR C19.Encoders C19.EncodersLists C19.EncodersPoisson C19.EncodersProofs.
Import ListNotations.
Open Scope R_scope.
Theorem hpa_probs_range : forall (c : config RN) (xs ps : list (T RN)),
  hpa_probs RN c xs = Ok ps ->
  Forall (fun x : R => 0 <= x) xs ->
  length ps = length xs /\ Forall (fun p : R => 0 <= p <= 1) ps.
Proof. exact (@Inferno.C19.EncodersProofs.hpa_probs_range). Qed.
Print Assumptions hpa_probs_range.
