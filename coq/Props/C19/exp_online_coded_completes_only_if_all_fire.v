(* Obligation C19/exp_online_coded_completes_only_if_all_fire.  Statement as printed by Coq from Inferno.C19.EncodersProofs; proof by reference.
   This file contains nothing else, so the statement cannot be weakened quietly. *)
From Coq Require Import List ZArith Bool Arith Lia Reals.
From Flocq Require Import Core.Raux.
From Inferno Require Import Base.Num Base.NumR C19.Encoders C19.EncodersLists C19.EncodersPoisson C19.EncodersProofs.
Import ListNotations.
Open Scope R_scope.
Theorem exp_online_coded_completes_only_if_all_fire : forall (shape : list nat) (steps : nat) (dt : T RN) (refrac : option (T RN)) 
    (comp : bool) (inps draws0 : list (T RN)) (draws : list (list (T RN)))
    (outs : list (list bool)) (raised : bool),
  exp_online_coded RN shape steps dt refrac comp inps draws0 draws = (outs, raised) ->
  length inps <> 1%nat -> Forall (fun row : list bool => count_true row = length inps) outs.
Proof. exact (@Inferno.C19.EncodersProofs.exp_online_coded_completes_only_if_all_fire). Qed.
Print Assumptions exp_online_coded_completes_only_if_all_fire.
