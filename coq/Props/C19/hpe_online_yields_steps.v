(* Obligation C19/hpe_online_yields_steps.  Statement as printed by Coq from Inferno.C19.EncodersProofs; proof by reference.
   This file contains nothing else, so the statement cannot be weakened quietly. *)
From Coq Require Import List ZArith Bool Arith Lia Reals.
From Flocq Require Import Core.Raux.
From Inferno Require Import Base.Num Base.NumR C19.Encoders C19.EncodersLists C19.EncodersPoisson C19.EncodersProofs.
Import ListNotations.
Open Scope R_scope.
Theorem hpe_online_yields_steps : forall (c : config RN) (xs draws0 : list (T RN)) (draws : list (list (T RN)))
    (outs : list (list bool)),
  hpe_online RN c xs draws0 draws = Ok outs ->
  length draws0 = length xs ->
  length outs = Z.to_nat (c_steps c) /\
  (0 < c_steps c)%Z /\ Forall (fun row : list bool => length row = length xs) outs.
Proof. exact (@Inferno.C19.EncodersProofs.hpe_online_yields_steps). Qed.
Print Assumptions hpe_online_yields_steps.
