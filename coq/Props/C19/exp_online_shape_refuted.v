(* Obligation C19/exp_online_shape_refuted.  Statement as printed by Coq from Inferno.C19.EncodersProofs; proof by reference.
   This file contains nothing else, so the statement cannot be weakened quietly. *)
From Coq Require Import List ZArith Bool Arith Lia Reals.
From Flocq Require Import Core.Raux.
From Inferno Require Import Base.Num Base.NumR C19.Encoders C19.EncodersLists C19.EncodersPoisson C19.EncodersProofs.
Import ListNotations.
Open Scope R_scope.
Theorem exp_online_shape_refuted : exists
    (shape : list nat) (steps : nat) (dt : R) (refrac : option (T RN)) 
  (comp : bool) (inps draws0 : list R) (draws : list (list (T RN))),
    0 < dt /\
    Forall (fun x : R => 0 <= x) inps /\
    Forall nonneg draws0 /\
    length draws0 = length inps /\
    snd (exp_online_coded RN shape steps dt refrac comp inps draws0 draws) = true /\
    (length (fst (exp_online_coded RN shape steps dt refrac comp inps draws0 draws)) < steps)%nat.
Proof. exact (@Inferno.C19.EncodersProofs.exp_online_shape_refuted). Qed.
Print Assumptions exp_online_shape_refuted.
