(* Obligation C19/explicit_refrac_sticky.  Statement as printed by Coq from Inferno.C19.EncodersProofs; proof by reference.
   This file contains nothing else, so the statement cannot be weakened quietly. *)
From Coq Require Import List ZArith Bool Arith Lia Reals.
From Flocq Require Import Core.Raux.
From Inferno Require Import Base.Num Base.NumR C19.Encoders C19.EncodersLists C19.EncodersPoisson C19.EncodersProofs.
Import ListNotations.
Open Scope R_scope.
Theorem explicit_refrac_sticky : forall (k : enc_kind) (s : estate RN) (l : list (assignment RN)),
  e_derive s = false ->
  forallb (fun a : assignment RN => negb (is_refrac_assignment a)) l = true ->
  e_derive (run_assign RN k s l) = false /\ e_refrac (run_assign RN k s l) = e_refrac s.
Proof. exact (@Inferno.C19.EncodersProofs.explicit_refrac_sticky). Qed.
Print Assumptions explicit_refrac_sticky.
