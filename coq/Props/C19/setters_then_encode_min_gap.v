(* Obligation C19/setters_then_encode_min_gap.  Statement as printed by Coq from Inferno.C19.EncodersProofs; proof by reference.
   This file contains nothing else, so the statement cannot be weakened quietly. *)
From Coq Require Import List ZArith Bool Arith Lia Reals.
From Flocq Require Import Core.Raux.
From Inferno Require Import Base.Num Base.NumR C19.Encoders C19.EncodersLists C19.EncodersPoisson C19.EncodersProofs.
Import ListNotations.
Open Scope R_scope.
Theorem setters_then_encode_min_gap : forall (s0 s1 : estate RN) (v : T RN) (l : list (assignment RN)) 
    (xs : list (T RN)) (draws : list (list (T RN))) (out : list (list bool)) 
    (j t1 t2 : nat),
  assign RN KHpe s0 (ARefrac RN (Some v)) = (s1, None) ->
  forallb (fun a : assignment RN => negb (is_refrac_assignment a)) l = true ->
  let s := run_assign RN KHpe s1 l in
  hpe_offline RN (forward_config RN s) xs draws = Ok out ->
  hpe_domain (forward_config RN s) xs ->
  Forall (Forall (fun e : R => 0 <= e)) draws ->
  (t1 < t2)%nat ->
  nth j (nth t1 out []) false = true ->
  nth j (nth t2 out []) false = true -> (Zfloor (v / e_dt s) <= Z.of_nat t2 - Z.of_nat t1)%Z.
Proof. exact (@Inferno.C19.EncodersProofs.setters_then_encode_min_gap). Qed.
Print Assumptions setters_then_encode_min_gap.
