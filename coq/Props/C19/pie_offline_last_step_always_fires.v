(* Obligation C19/pie_offline_last_step_always_fires.  Statement as printed by Coq from Inferno.C19.EncodersProofs; proof by reference.
   This file contains nothing else, so the statement cannot be weakened quietly. *)
From Coq Require Import List ZArith Bool Arith Lia Reals.
From Flocq Require Import Core.Raux.
From Inferno Require Import Base.Num Base.NumR C19.Encoders C19.EncodersLists C19.EncodersPoisson C19.EncodersProofs.
Import ListNotations.
Open Scope R_scope.
Theorem pie_offline_last_step_always_fires : forall (c : config RN) (xs : list (T RN)) (draws : list (list Z)) 
    (out : list (list bool)) (j : nat),
  pie_offline RN c xs draws = Ok out ->
  (j < length xs)%nat ->
  0 < c_freq c * nth j xs 0 ->
  Forall (Forall (fun d : Z => (0 <= d)%Z)) draws ->
  (Z.to_nat (c_steps c) + 2 <= length draws)%nat ->
  nth j (nth (Z.to_nat (c_steps c) - 1) out []) false = true.
Proof. exact (@Inferno.C19.EncodersProofs.pie_offline_last_step_always_fires). Qed.
Print Assumptions pie_offline_last_step_always_fires.
