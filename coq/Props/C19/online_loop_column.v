(* Obligation C19/online_loop_column.  Statement as printed by Coq from Inferno.C19.EncodersLists; proof by reference.
   This file contains nothing else, so the statement cannot be weakened quietly. *)
From Coq Require Import List ZArith Bool Arith Lia.
From Inferno Require Import C19.Encoders C19.EncodersLists C19.EncodersPoisson.
Import ListNotations.
Theorem online_loop_column : forall (St E P : Type) (dec : St -> St) (fire : P -> St -> bool) 
    (renew : P -> E -> St) (edef : E) (ok : E -> Prop) (ps : list P),
  ok edef ->
  forall (steps : nat) (ivs : list St) (draws : list (list E)),
  Forall (Forall ok) draws ->
  length ps = length ivs ->
  forall (j : nat) (p : P) (i : St),
  nth_error ps j = Some p ->
  nth_error ivs j = Some i ->
  elem_trace dec fire renew ok p i
    (column false j (online_loop dec fire renew edef ps ivs draws steps)).
Proof. exact (@Inferno.C19.EncodersLists.online_loop_column). Qed.
Print Assumptions online_loop_column.
