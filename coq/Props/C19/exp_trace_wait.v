(* Obligation C19/exp_trace_wait.  Statement as printed by Coq from Inferno.C19.EncodersProofs; proof by reference.
   This file contains nothing else, so the statement cannot be weakened quietly. *)
From Coq Require Import List ZArith Bool Arith Lia Reals.
From Flocq Require Import Core.Raux.
From Inferno Require Import Base.Num Base.NumR C19.Encoders C19.EncodersLists C19.EncodersPoisson C19.EncodersProofs.
Import ListNotations.
Open Scope R_scope.
Theorem exp_trace_wait : forall (r : T RN) (s : ext RN) (x : T RN) (bs : list bool),
  exp_trace r s (Some x) bs ->
  forall t : nat,
  nth t bs false = true ->
  (forall t' : nat, (t' < t)%nat -> nth t' bs false = false) ->
  Z.of_nat t = Z.max 0 (Zfloor x - 1).
Proof. exact (@Inferno.C19.EncodersProofs.exp_trace_wait). Qed.
Print Assumptions exp_trace_wait.
