(* Obligation C19/hpe_offline_defined.  Statement as printed by Coq from Inferno.C19.EncodersProofs; proof by reference.
   This file contains nothing else, so the statement cannot be weakened quietly. *)
From Coq Require Import List ZArith Bool Arith Lia Reals.
From Flocq Require Import Core.Raux.
From Inferno Require Import Base.Num Base.NumR C19.Encoders C19.EncodersLists C19.EncodersPoisson C19.EncodersProofs.
Import ListNotations.
Open Scope R_scope.
Theorem hpe_offline_defined : forall (c : config RN) (xs : list R) (draws : list (list R)),
  valid_step RN c && valid_refrac RN c = true ->
  hpe_domain c xs ->
  Forall (Forall (fun e : R => 0 <= e)) draws ->
  exists out : list (list bool), hpe_offline RN c xs draws = Ok out.
Proof. exact (@Inferno.C19.EncodersProofs.hpe_offline_defined). Qed.
Print Assumptions hpe_offline_defined.
