(* Obligation C19/construct_tracks_dt.  Statement as printed by Coq from Inferno.C19.EncodersProofs; proof by reference.
   This file contains nothing else, so the statement cannot be weakened quietly. *)
From Coq Require Import List ZArith Bool Arith Lia Reals.
From Flocq Require Import Core.Raux.
From Inferno Require Import Base.Num Base.NumR C19.Encoders C19.EncodersLists C19.EncodersPoisson C19.EncodersProofs.
Import ListNotations.
Open Scope R_scope.
Theorem construct_tracks_dt : forall (c : config RN) (s : estate RN), construct RN KHpe c = Ok s -> tracks_dt s.
Proof. exact (@Inferno.C19.EncodersProofs.construct_tracks_dt). Qed.
Print Assumptions construct_tracks_dt.
