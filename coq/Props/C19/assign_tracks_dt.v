(* Obligation C19/assign_tracks_dt.  Statement as printed by Coq from Inferno.C19.EncodersProofs; proof by reference.
   This file contains nothing else, so the statement cannot be weakened quietly. *)
From Coq Require Import List ZArith Bool Arith Lia Reals.
From Flocq Require Import Core.Raux.
From Inferno Require Import Base.Num Base.NumR C19.Encoders C19.EncodersLists C19.EncodersPoisson C19.EncodersProofs.
Import ListNotations.
Open Scope R_scope.
Theorem assign_tracks_dt : forall (s : estate RN) (a : assignment RN),
  tracks_dt s -> tracks_dt (fst (assign RN KHpe s a)).
Proof. exact (@Inferno.C19.EncodersProofs.assign_tracks_dt). Qed.
Print Assumptions assign_tracks_dt.
