(* Obligation C19/nonvacuous.  Statement as printed by Coq from Inferno.C19.EncodersProofs; proof by reference.
   This file contains nothing else, so the statement cannot be weakened quietly. *)
From Coq Require Import List ZArith Bool Arith Lia Reals.
From Flocq Require Import Core.Raux.
From Inferno Require Import Base.Num Base.NumR C19.Encoders C19.EncodersLists C19.EncodersPoisson C19.EncodersProofs.
Import ListNotations.
Open Scope R_scope.
Theorem nonvacuous : exists out : list (list bool),
    hpe_offline RN nv_cfg nv_xs nv_draws = Ok out /\
    hpe_domain nv_cfg nv_xs /\
    Forall (Forall (fun e : R => 0 <= e)) nv_draws /\
    length out = 8%nat /\
    nth 0 (nth 3 out []) false = true /\
    nth 0 (nth 6 out []) false = true /\
    enc_refrac RN nv_cfg = 2 * c_dt nv_cfg /\
    (forall t : nat, nth 1 (nth t out []) false = false).
Proof. exact (@Inferno.C19.EncodersProofs.nonvacuous). Qed.
Print Assumptions nonvacuous.
