(* Obligation C19/online_loop_guard_prefix.  Statement as printed by Coq from Inferno.C19.EncodersLists; proof by reference.
   This file contains nothing else, so the statement cannot be weakened quietly. *)
From Coq Require Import List ZArith Bool Arith Lia.
From Inferno Require Import C19.Encoders C19.EncodersLists C19.EncodersPoisson.
Import ListNotations.
Theorem online_loop_guard_prefix : forall (St E P : Type) (dec : St -> St) (fire : P -> St -> bool) 
    (renew : P -> E -> St) (edef : E) (guard : nat -> bool) (ps : list P) 
    (ivs : list St) (draws : list (list E)) (steps : nat) (outs : list (list bool))
    (raised : bool),
  online_loop dec fire renew edef guard ps ivs draws steps = (outs, raised) ->
  exists rest : list (list bool),
    fst (online_loop dec fire renew edef (fun _ : nat => true) ps ivs draws steps) =
    outs ++ rest /\ (raised = false -> rest = []).
Proof. exact (@Inferno.C19.EncodersLists.online_loop_guard_prefix). Qed.
Print Assumptions online_loop_guard_prefix.
