(* Obligation C19/pie_online_shape.  Statement as printed by Coq from Inferno.C19.EncodersProofs; proof by reference.
   This file contains nothing else, so the statement cannot be weakened quietly. *)
From Coq Require Import List ZArith Bool Arith Lia Reals.
From Flocq Require Import Core.Raux.
From Inferno Require Import Base.Num Base.NumR C19.Encoders C19.EncodersLists C19.EncodersPoisson C19.EncodersProofs.
Import ListNotations.
Open Scope R_scope.
Theorem pie_online_shape : forall (c : config RN) (xs : list (T RN)) (draws0 : list Z) (draws : list (list Z))
    (outs : list (list bool)),
  pie_online RN c xs draws0 draws = Ok outs ->
  length draws0 = length xs ->
  length outs = Z.to_nat (c_steps c) /\
  (0 < c_steps c)%Z /\ Forall (fun row : list bool => length row = length xs) outs.
Proof. exact (@Inferno.C19.EncodersProofs.pie_online_shape). Qed.
Print Assumptions pie_online_shape.
