(* Obligation C19/pi_offline_elem_zero_silent.  Statement as printed by Coq from Inferno.C19.EncodersPoisson; proof by reference.
   This file contains nothing else, so the statement cannot be weakened quietly. *)
From Coq Require Import List ZArith Bool Arith Lia.
From Inferno Require Import C19.Encoders C19.EncodersLists C19.EncodersPoisson.
Import ListNotations.
Theorem pi_offline_elem_zero_silent : forall (steps : nat) (draws : list Z) (tr : list bool),
  Forall (fun d : Z => d = 0) draws ->
  pi_offline_elem steps false draws = Some tr -> forall t : nat, nth t tr false = false.
Proof. exact (@Inferno.C19.EncodersPoisson.pi_offline_elem_zero_silent). Qed.
Print Assumptions pi_offline_elem_zero_silent.
