(* Obligation C19/pi_offline_elem_last_step_always_fires.  Statement as printed by Coq from Inferno.C19.EncodersPoisson; proof by reference.
   This file contains nothing else, so the statement cannot be weakened quietly. *)
From Coq Require Import List ZArith Bool Arith Lia.
From Inferno Require Import C19.Encoders C19.EncodersLists C19.EncodersPoisson.
Import ListNotations.
Theorem pi_offline_elem_last_step_always_fires : forall (steps : nat) (draws : list Z) (tr : list bool),
  (1 <= steps)%nat ->
  Forall (fun d : Z => 0 <= d) draws ->
  (steps + 2 <= length draws)%nat ->
  pi_offline_elem steps true draws = Some tr -> nth (steps - 1) tr false = true.
Proof. exact (@Inferno.C19.EncodersPoisson.pi_offline_elem_last_step_always_fires). Qed.
Print Assumptions pi_offline_elem_last_step_always_fires.
