(* Obligation C19/hpe_offline_rate_limit.  Statement as printed by Coq from Inferno.C19.EncodersProofs; proof by reference.
   This file contains nothing else, so the statement cannot be weakened quietly. *)
From Coq Require Import List ZArith Bool Arith Lia Reals.
From Flocq Require Import Core.Raux.
From Inferno Require Import Base.Num Base.NumR C19.Encoders C19.EncodersLists C19.EncodersPoisson C19.EncodersProofs.
Import ListNotations.
Open Scope R_scope.
Theorem hpe_offline_rate_limit : forall (c : config RN) (xs : list (T RN)) (draws : list (list (T RN)))
    (out : list (list bool)) (j : nat),
  hpe_offline RN c xs draws = Ok out ->
  INR (count_true (column false j out)) * Rmax (enc_refrac RN c / c_dt c) 1 <= IZR (c_steps c).
Proof. exact (@Inferno.C19.EncodersProofs.hpe_offline_rate_limit). Qed.
Print Assumptions hpe_offline_rate_limit.
