(* Obligation C19/pi_trace_wait.  Statement as printed by Coq from Inferno.C19.EncodersPoisson; proof by reference.
   This file contains nothing else, so the statement cannot be weakened quietly. *)
From Coq Require Import List ZArith Bool Arith Lia.
From Inferno Require Import C19.Encoders C19.EncodersLists C19.EncodersPoisson.
Import ListNotations.
Theorem pi_trace_wait : forall (ok : Z -> Prop) (i : Z) (bs : list bool),
  elem_trace (fun i0 : Z => i0 - 1) pi_fire (fun (_ : bool) (e : Z) => e) ok true i bs ->
  forall t : nat,
  nth t bs false = true ->
  (forall t' : nat, (t' < t)%nat -> nth t' bs false = false) -> Z.of_nat t = Z.max i 1 - 1.
Proof. exact (@Inferno.C19.EncodersPoisson.pi_trace_wait). Qed.
Print Assumptions pi_trace_wait.
