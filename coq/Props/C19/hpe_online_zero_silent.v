(* Obligation C19/hpe_online_zero_silent.  Statement as printed by Coq from Inferno.C19.EncodersProofs; proof by reference.
   This file contains nothing else, so the statement cannot be weakened quietly. *)
From Coq Require Import List ZArith Bool Arith Lia Reals.
From Flocq Require Import Core.Raux.
From Inferno Require Import Base.Num Base.NumR C19.Encoders C19.EncodersLists C19.EncodersPoisson C19.EncodersProofs.
Import ListNotations.
Open Scope R_scope.
Theorem hpe_online_zero_silent : forall (c : config RN) (xs draws0 : list (T RN)) (draws : list (list (T RN)))
    (outs : list (list bool)) (j : nat),
  hpe_online RN c xs draws0 draws = Ok outs ->
  length draws0 = length xs ->
  Forall nonneg draws0 ->
  Forall (Forall nonneg) draws ->
  nth j xs 0 = 0 -> forall t : nat, nth j (nth t outs []) false = false.
Proof. exact (@Inferno.C19.EncodersProofs.hpe_online_zero_silent). Qed.
Print Assumptions hpe_online_zero_silent.
