(* Obligation C19/exp_offline_elem_spikes.  Statement as printed by Coq from Inferno.C19.EncodersProofs; proof by reference.
   This file contains nothing else, so the statement cannot be weakened quietly. *)
From Coq Require Import List ZArith Bool Arith Lia Reals.
From Flocq Require Import Core.Raux.
From Inferno Require Import Base.Num Base.NumR C19.Encoders C19.EncodersLists C19.EncodersPoisson C19.EncodersProofs.
Import ListNotations.
Open Scope R_scope.
Theorem exp_offline_elem_spikes : forall (steps : nat) (dt : R) (refrac : option R) (comp : bool) 
    (inp : T RN) (draws : list R) (tr : list bool) (v : R),
  0 < dt ->
  0 <= refrac_ms refrac dt ->
  0 <= v ->
  Forall (fun e : R => 0 <= e) draws ->
  exp_offline_elem RN steps dt refrac comp inp draws = Some tr ->
  scale_of RN inp dt (refrac_ms refrac dt / dt) comp = Some v ->
  let ivs :=
    map (fun e : R => e * v + refrac_ms refrac dt / dt)
      (used steps (refrac_ms refrac dt / dt) draws) in
  forall t : nat,
  nth t tr false = true <->
  (t < steps)%nat /\
  (exists k : nat, (k < length ivs)%nat /\ Zfloor (psum ivs k) = Z.of_nat t).
Proof. exact (@Inferno.C19.EncodersProofs.exp_offline_elem_spikes). Qed.
Print Assumptions exp_offline_elem_spikes.
