(* Obligation C19/bern_inhomogeneous_shape.  Statement as printed by Coq from Inferno.C19.EncodersProofs; proof by reference.
   This file contains nothing else, so the statement cannot be weakened quietly. *)
From Coq Require Import List ZArith Bool Arith Lia Reals.
From Flocq Require Import Core.Raux.
From Inferno Require Import Base.Num Base.NumR C19.Encoders C19.EncodersLists C19.EncodersPoisson C19.EncodersProofs.
Import ListNotations.
Open Scope R_scope.
Theorem bern_inhomogeneous_shape : forall (dt : T RN) (inps us : list (list (T RN))),
  length us = length inps ->
  length (bern_inhomogeneous RN dt inps us) = length inps /\
  (forall t j : nat,
   nth j (nth t inps []) 0 = 0 ->
   Forall (Forall (fun u : R => 0 <= u)) us ->
   nth j (nth t (bern_inhomogeneous RN dt inps us) []) false = false).
Proof. exact (@Inferno.C19.EncodersProofs.bern_inhomogeneous_shape). Qed.
Print Assumptions bern_inhomogeneous_shape.
