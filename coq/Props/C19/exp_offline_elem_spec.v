(* Obligation C19/exp_offline_elem_spec.  Statement as printed by Coq from Inferno.C19.EncodersProofs; proof by reference.
   This file contains nothing else, so the statement cannot be weakened quietly. *)
From Coq Require Import List ZArith Bool Arith Lia Reals.
From Flocq Require Import Core.Raux.
From Inferno Require Import Base.Num Base.NumR C19.Encoders C19.EncodersLists C19.EncodersPoisson C19.EncodersProofs.
Import ListNotations.
Open Scope R_scope.
Theorem exp_offline_elem_spec : forall (steps : nat) (dt : T RN) (refrac : option (T RN)) (comp : bool) 
    (inp : T RN) (draws : list (T RN)) (tr : list bool),
  exp_offline_elem RN steps dt refrac comp inp draws = Some tr ->
  length tr = steps /\
  (forall t : nat,
   nth t tr false = true <->
   (t < steps)%nat /\
   In (Z.of_nat t)
     (exp_indices RN steps (refrac_steps RN refrac dt)
        (scale_of RN inp dt (refrac_steps RN refrac dt) comp) draws)) /\
  (count_true tr <=
   length
     (exp_indices RN steps (refrac_steps RN refrac dt)
        (scale_of RN inp dt (refrac_steps RN refrac dt) comp) draws))%nat.
Proof. exact (@Inferno.C19.EncodersProofs.exp_offline_elem_spec). Qed.
Print Assumptions exp_offline_elem_spec.
