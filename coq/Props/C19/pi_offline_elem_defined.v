(* Obligation C19/pi_offline_elem_defined.  Statement as printed by Coq from Inferno.C19.EncodersPoisson; proof by reference.
   This file contains nothing else, so the statement cannot be weakened quietly. *)
From Coq Require Import List ZArith Bool Arith Lia.
From Inferno Require Import C19.Encoders C19.EncodersLists C19.EncodersPoisson.
Import ListNotations.
Theorem pi_offline_elem_defined : forall (steps : nat) (mask : bool) (draws : list Z),
  Forall (fun d : Z => 0 <= d) draws ->
  exists tr : list bool, pi_offline_elem steps mask draws = Some tr.
Proof. exact (@Inferno.C19.EncodersPoisson.pi_offline_elem_defined). Qed.
Print Assumptions pi_offline_elem_defined.
