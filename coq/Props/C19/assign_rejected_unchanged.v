(* Obligation C19/assign_rejected_unchanged.  Statement as printed by Coq from Inferno.C19.EncodersProofs; proof by reference.
   This file contains nothing else, so the statement cannot be weakened quietly. *)
From Coq Require Import List ZArith Bool Arith Lia Reals.
From Flocq Require Import Core.Raux.
From Inferno Require Import Base.Num Base.NumR C19.Encoders C19.EncodersLists C19.EncodersPoisson C19.EncodersProofs.
Import ListNotations.
Open Scope R_scope.
Theorem assign_rejected_unchanged : forall (k : enc_kind) (s s' : estate RN) (a : assignment RN),
  assign RN k s a = (s', Some EValue) ->
  s' = s \/
  (exists v : T RN,
     a = ARefrac RN (Some v) /\ v < 0 /\ e_derive s' = false /\ e_refrac s' = e_refrac s).
Proof. exact (@Inferno.C19.EncodersProofs.assign_rejected_unchanged). Qed.
Print Assumptions assign_rejected_unchanged.
