(* Obligation C19/exp_online_once_per_refrac.  Statement as printed by Coq from Inferno.C19.EncodersProofs; proof by reference.
   This file contains nothing else, so the statement cannot be weakened quietly. *)
From Coq Require Import List ZArith Bool Arith Lia Reals.
From Flocq Require Import Core.Raux.
From Inferno Require Import Base.Num Base.NumR C19.Encoders C19.EncodersLists C19.EncodersPoisson C19.EncodersProofs.
Import ListNotations.
Open Scope R_scope.
Theorem exp_online_once_per_refrac : forall (steps : nat) (dt : R) (refrac : option R) (comp : bool) 
    (inps draws0 : list (T RN)) (draws : list (list (T RN))) (j a : nat),
  length draws0 = length inps ->
  Forall nonneg draws0 ->
  Forall (Forall nonneg) draws ->
  0 < dt ->
  0 <= refrac_ms refrac dt ->
  Forall (fun x : R => 0 <= x) inps ->
  (comp = true -> Forall (fun x : R => x * refrac_ms refrac dt <= 1000) inps) ->
  (count_true
     (firstn (Z.to_nat (Zfloor (refrac_ms refrac dt / dt)))
        (skipn a (column false j (exp_online RN steps dt refrac comp inps draws0 draws)))) <=
   1)%nat.
Proof. exact (@Inferno.C19.EncodersProofs.exp_online_once_per_refrac). Qed.
Print Assumptions exp_online_once_per_refrac.
