(* Obligation C19/hpe_offline_min_gap.  Statement as printed by Coq from Inferno.C19.EncodersProofs; proof by reference.
   This file contains nothing else, so the statement cannot be weakened quietly. *)
From Coq Require Import List ZArith Bool Arith Lia Reals.
From Flocq Require Import Core.Raux.
From Inferno Require Import Base.Num Base.NumR C19.Encoders C19.EncodersLists C19.EncodersPoisson C19.EncodersProofs.
Import ListNotations.
Open Scope R_scope.
Theorem hpe_offline_min_gap : forall (c : config RN) (xs : list (T RN)) (draws : list (list (T RN)))
    (out : list (list bool)) (j t1 t2 : nat),
  hpe_offline RN c xs draws = Ok out ->
  hpe_domain c xs ->
  Forall (Forall (fun e : R => 0 <= e)) draws ->
  (t1 < t2)%nat ->
  nth j (nth t1 out []) false = true ->
  nth j (nth t2 out []) false = true ->
  (Zfloor (enc_refrac RN c / c_dt c) <= Z.of_nat t2 - Z.of_nat t1)%Z.
Proof. exact (@Inferno.C19.EncodersProofs.hpe_offline_min_gap). Qed.
Print Assumptions hpe_offline_min_gap.
