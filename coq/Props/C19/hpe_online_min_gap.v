(* Obligation C19/hpe_online_min_gap.  Statement as printed by Coq from Inferno.C19.EncodersProofs; proof by reference.
   This file contains nothing else, so the statement cannot be weakened quietly. *)
From Coq Require Import List ZArith Bool Arith Lia Reals.
From Flocq Require Import Core.Raux.
From Inferno Require Import Base.Num Base.NumR C19.Encoders C19.EncodersLists C19.EncodersPoisson C19.EncodersProofs.
Import ListNotations.
Open Scope R_scope.
Theorem hpe_online_min_gap : forall (c : config RN) (xs draws0 : list (T RN)) (draws : list (list (T RN)))
    (outs : list (list bool)) (j t1 t2 : nat),
  hpe_online RN c xs draws0 draws = Ok outs ->
  length draws0 = length xs ->
  Forall nonneg draws0 ->
  Forall (Forall nonneg) draws ->
  hpe_domain c xs ->
  (t1 < t2)%nat ->
  nth j (nth t1 outs []) false = true ->
  nth j (nth t2 outs []) false = true ->
  (Zfloor (enc_refrac RN c / c_dt c) <= Z.of_nat t2 - Z.of_nat t1)%Z.
Proof. exact (@Inferno.C19.EncodersProofs.hpe_online_min_gap). Qed.
Print Assumptions hpe_online_min_gap.
