(* Obligation C19/bern_row_zero_silent.  Statement as printed by Coq from Inferno.C19.EncodersProofs; proof by reference.
   This file contains nothing else, so the statement cannot be weakened quietly. *)
From Coq Require Import List ZArith Bool Arith Lia Reals.
From Flocq Require Import Core.Raux.
From Inferno Require Import Base.Num Base.NumR C19.Encoders C19.EncodersLists C19.EncodersPoisson C19.EncodersProofs.
Import ListNotations.
Open Scope R_scope.
Theorem bern_row_zero_silent : forall (dt : T RN) (inps us : list R) (j : nat),
  nth j inps 0 = 0 ->
  Forall (fun u : R => 0 <= u) us -> nth j (bern_row RN dt inps us) false = false.
Proof. exact (@Inferno.C19.EncodersProofs.bern_row_zero_silent). Qed.
Print Assumptions bern_row_zero_silent.
