(* Obligation C19/assign_accepted_spec.  Statement as printed by Coq from Inferno.C19.EncodersProofs; proof by reference.
   This file contains nothing else, so the statement cannot be weakened quietly. *)
From Coq Require Import List ZArith Bool Arith Lia Reals.
From Flocq Require Import Core.Raux.
From Inferno Require Import Base.Num Base.NumR C19.Encoders C19.EncodersLists C19.EncodersPoisson C19.EncodersProofs.
Import ListNotations.
Open Scope R_scope.
Theorem assign_accepted_spec : forall (s s' : estate RN) (a : assignment RN),
  assign RN KHpe s a = (s', None) ->
  match a with
  | ADt _ v =>
      0 < v /\
      e_dt s' = v /\
      e_refrac s' = (if e_derive s then v else e_refrac s) /\
      e_steps s' = e_steps s /\
      e_freq s' = e_freq s /\ e_comp s' = e_comp s /\ e_derive s' = e_derive s
  | ASteps _ z =>
      (0 < z)%Z /\
      e_steps s' = z /\
      e_dt s' = e_dt s /\
      e_refrac s' = e_refrac s /\
      e_freq s' = e_freq s /\ e_comp s' = e_comp s /\ e_derive s' = e_derive s
  | AFreq _ v =>
      0 <= v /\
      (e_comp s = true -> v * e_refrac s < 1000) /\
      e_freq s' = v /\
      e_steps s' = e_steps s /\
      e_dt s' = e_dt s /\
      e_refrac s' = e_refrac s /\ e_comp s' = e_comp s /\ e_derive s' = e_derive s
  | ARefrac _ (Some v) =>
      0 <= v /\
      (e_comp s = true -> v * e_freq s < 1000) /\
      e_refrac s' = v /\
      e_derive s' = false /\
      e_steps s' = e_steps s /\
      e_dt s' = e_dt s /\ e_freq s' = e_freq s /\ e_comp s' = e_comp s
  | ARefrac _ None =>
      (e_comp s = true -> e_dt s * e_freq s < 1000) /\
      e_refrac s' = e_dt s /\
      e_derive s' = true /\
      e_steps s' = e_steps s /\
      e_dt s' = e_dt s /\ e_freq s' = e_freq s /\ e_comp s' = e_comp s
  | AComp _ b =>
      (b = true -> e_freq s * e_refrac s < 1000) /\
      e_comp s' = b /\
      e_steps s' = e_steps s /\
      e_dt s' = e_dt s /\
      e_refrac s' = e_refrac s /\ e_freq s' = e_freq s /\ e_derive s' = e_derive s
  end.
Proof. exact (@Inferno.C19.EncodersProofs.assign_accepted_spec). Qed.
Print Assumptions assign_accepted_spec.
