(* Obligation C19/hpa_forward_shape.  Statement as printed by Coq from Inferno.C19.EncodersProofs; proof by reference.
   This file contains nothing else, so the statement cannot be weakened quietly. *)
From Coq Require Import List ZArith Bool Arith Lia Reals.
From Flocq Require Import Core.Raux.
From Inferno Require Import Base.Num Base.NumR C19.Encoders C19.EncodersLists C19.EncodersPoisson C19.EncodersProofs.
Import ListNotations.
Open Scope R_scope.
Theorem hpa_forward_shape : forall (c : config RN) (xs : list (T RN)) (us : list (list (T RN))) (out : list (list bool)),
  hpa_forward RN c xs us = Ok out ->
  length out = Z.to_nat (c_steps c) /\
  (0 < c_steps c)%Z /\
  ((forall t : nat, (t < Z.to_nat (c_steps c))%nat -> length (nth t us []) = length xs) ->
   Forall (fun row : list bool => length row = length xs) out).
Proof. exact (@Inferno.C19.EncodersProofs.hpa_forward_shape). Qed.
Print Assumptions hpa_forward_shape.
