(* Obligation C10/red_amax_sym.  Statement as printed by Coq from Inferno.C10.OrderProofs; proof by reference.
   This file contains nothing else, so the statement cannot be weakened quietly. *)
From Coq Require Import List ZArith Bool Arith Reals Lra Lia Permutation.
From Inferno Require Import Base.Num Base.NumR Gen.Bounding C10.Updater C10.KernelAlgebra C10.AccProofs C10.OrderProofs.
Import ListNotations.
Open Scope R_scope.
Theorem red_amax_sym : red_sym (red_amax RN).
Proof. exact (@Inferno.C10.OrderProofs.red_amax_sym). Qed.
Print Assumptions red_amax_sym.
