(* Obligation C10/sharp_can_overshoot.  Statement as printed by Coq from Inferno.C10.KernelSharp; proof by reference.
   This file contains nothing else, so the statement cannot be weakened quietly. *)
From Coq Require Import List ZArith Bool Arith Reals Lra Lia Permutation.
From Inferno Require Import Base.Num Base.NumR Gen.Bounding C10.Updater C10.KernelAlgebra C10.KernelSharp.
Import ListNotations.
Open Scope R_scope.
Theorem sharp_can_overshoot : exists x p n mx mn : R,
    mn <= x <= mx /\
    0 <= p <= 1 /\ 0 <= n <= 1 /\ mx < x + bound_sharp RN x p n (Some mx) (Some mn).
Proof. exact (@Inferno.C10.KernelSharp.sharp_can_overshoot). Qed.
Print Assumptions sharp_can_overshoot.
