(* Obligation C10/trainer_update_spec.  Statement as printed by Coq from Inferno.C10.UpdateProofs; proof by reference.
   This file contains nothing else, so the statement cannot be weakened quietly. *)
From Coq Require Import List ZArith Bool Arith Reals Lra Lia Permutation.
From Inferno Require Import Base.Num Base.NumR Gen.Bounding C10.Updater C10.KernelAlgebra C10.AccProofs C10.OrderProofs C10.WorldProofs C10.UpdateProofs.
Import ListNotations.
Open Scope R_scope.
Theorem trainer_update_spec : forall (w : worldR) (us : list (Z * accR)) (cells : list Z),
  In 0%Z cells ->
  upd RN w = Some us ->
  NoDup (map fst us) ->
  (forall nm : Z, In nm (map fst us) -> ready (params RN w) us nm) ->
  exists (ps' : list (Z * tensorW)) (us' : list (Z * accR)),
    step RN w (OpTrainerUpdate RN cells) =
    ({| params := ps'; upd := Some us' |}, Ok (OUnit RN)) /\
    (forall nm : Z, ~ In nm (map fst us) -> lookup nm ps' = lookup nm (params RN w)) /\
    (forall (nm : Z) (a : accR) (x : tensorW),
     lookup nm us = Some a ->
     lookup nm (params RN w) = Some x ->
     exists y : tensorW,
       lookup nm ps' = Some y /\
       length y = length x /\
       (forall j : nat, (j < length x)%nat -> nth j y 0 = applied a x j)).
Proof. exact (@Inferno.C10.UpdateProofs.trainer_update_spec). Qed.
Print Assumptions trainer_update_spec.
