(* Obligation C10/run_adds.  Statement as printed by Coq from Inferno.C10.InterleaveProofs; proof by reference.
   This file contains nothing else, so the statement cannot be weakened quietly. *)
From Coq Require Import List ZArith Bool Arith Reals Lra Lia Permutation.
From Inferno Require Import Base.Num Base.NumR Gen.Bounding C10.Updater C10.KernelAlgebra C10.AccProofs C10.OrderProofs C10.WorldProofs C10.InterleaveProofs.
Import ListNotations.
Open Scope R_scope.
Theorem run_adds : forall (cs : list contrib) (ps : list (Z * tensorW)) (us : list (Z * accR)),
  NoDup (map fst us) ->
  run RN {| params := ps; upd := Some us |} (map add_op cs) =
  {| params := ps; upd := Some (bulk_all cs us) |}.
Proof. exact (@Inferno.C10.InterleaveProofs.run_adds). Qed.
Print Assumptions run_adds.
