(* Obligation C10/update_spec.  Statement as printed by Coq from Inferno.C10.UpdateProofs; proof by reference.
   This file contains nothing else, so the statement cannot be weakened quietly. *)
From Coq Require Import List ZArith Bool Arith Reals Lra Lia Permutation.
From Inferno Require Import Base.Num Base.NumR Gen.Bounding C10.Updater C10.KernelAlgebra C10.AccProofs C10.OrderProofs C10.WorldProofs C10.UpdateProofs.
Import ListNotations.
Open Scope R_scope.
Theorem update_spec : forall (w : worldR) (us : list (Z * accR)) (clear : bool),
  upd RN w = Some us ->
  NoDup (map fst us) ->
  (forall nm : Z, In nm (map fst us) -> ready (params RN w) us nm) ->
  exists (ps' : list (Z * tensorW)) (us' : list (Z * accR)),
    step RN w (OpUpdate RN clear) =
    ({| params := ps'; upd := Some (if clear then clear_all RN us' else us') |}, Ok (OUnit RN)) /\
    map fst ps' = map fst (params RN w) /\
    map fst us' = map fst us /\
    (forall nm : Z, ~ In nm (map fst us) -> lookup nm ps' = lookup nm (params RN w)) /\
    (forall (nm : Z) (a : accR) (x : tensorW),
     lookup nm us = Some a ->
     lookup nm (params RN w) = Some x ->
     exists y : tensorW,
       lookup nm ps' = Some y /\
       length y = length x /\
       (forall j : nat, (j < length x)%nat -> nth j y 0 = applied a x j)).
Proof. exact (@Inferno.C10.UpdateProofs.update_spec). Qed.
Print Assumptions update_spec.
