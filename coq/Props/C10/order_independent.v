(* Obligation C10/order_independent.  Statement as printed by Coq from Inferno.C10.InterleaveProofs; proof by reference.
   This file contains nothing else, so the statement cannot be weakened quietly. *)
From Coq Require Import List ZArith Bool Arith Reals Lra Lia Permutation.
From Inferno Require Import Base.Num Base.NumR Gen.Bounding C10.Updater C10.KernelAlgebra C10.AccProofs C10.OrderProofs C10.WorldProofs C10.InterleaveProofs.
Import ListNotations.
Open Scope R_scope.
Theorem order_independent : forall (ps : list (Z * tensorW)) (us : list (Z * accR)) (cs cs' : list contrib)
    (clear : bool),
  NoDup (map fst us) ->
  all_sym us ->
  Permutation cs cs' ->
  let w1 := run RN {| params := ps; upd := Some us |} (map add_op cs) in
  let w2 := run RN {| params := ps; upd := Some us |} (map add_op cs') in
  params RN (fst (step RN w1 (OpUpdate RN clear))) =
  params RN (fst (step RN w2 (OpUpdate RN clear))) /\
  snd (step RN w1 (OpUpdate RN clear)) = snd (step RN w2 (OpUpdate RN clear)).
Proof. exact (@Inferno.C10.InterleaveProofs.order_independent). Qed.
Print Assumptions order_independent.
