(* Obligation C10/half_apply_zero.  Statement as printed by Coq from Inferno.C10.KernelAlgebra; proof by reference.
   This file contains nothing else, so the statement cannot be weakened quietly. *)
From Coq Require Import List ZArith Bool Arith Reals Lra Lia Permutation.
From Inferno Require Import Base.Num Base.NumR Gen.Bounding C10.Updater C10.KernelAlgebra.
Import ListNotations.
Open Scope R_scope.
Theorem half_apply_zero : forall (k : halfk RN) (lim x : T RN), half_apply RN k lim x 0 = 0.
Proof. exact (@Inferno.C10.KernelAlgebra.half_apply_zero). Qed.
Print Assumptions half_apply_zero.
