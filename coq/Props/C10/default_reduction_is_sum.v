(* Obligation C10/default_reduction_is_sum.  Statement as printed by Coq from Inferno.C10.UpdateProofs; proof by reference.
   This file contains nothing else, so the statement cannot be weakened quietly. *)
From Coq Require Import List ZArith Bool Arith Reals Lra Lia Permutation.
From Inferno Require Import Base.Num Base.NumR Gen.Bounding C10.Updater C10.KernelAlgebra C10.AccProofs C10.OrderProofs C10.WorldProofs C10.UpdateProofs.
Import ListNotations.
Open Scope R_scope.
Theorem default_reduction_is_sum : forall (w w' : worldR) (nms : list Z),
  step RN w (OpNewUpdater RN nms None) = (w', Ok (OUnit RN)) ->
  exists us : list (Z * accR),
    upd RN w' = Some us /\
    (forall (nm : Z) (a : accR), lookup nm us = Some a -> ared RN a = red_sum RN).
Proof. exact (@Inferno.C10.UpdateProofs.default_reduction_is_sum). Qed.
Print Assumptions default_reduction_is_sum.
