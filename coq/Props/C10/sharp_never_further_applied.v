(* Obligation C10/sharp_never_further_applied.  Statement as printed by Coq from Inferno.C10.SharpProofs; proof by reference.
   This file contains nothing else, so the statement cannot be weakened quietly. *)
From Coq Require Import List ZArith Bool Arith Reals Lra Lia Permutation.
From Inferno Require Import Base.Num Base.NumR Gen.Bounding C10.Updater C10.KernelAlgebra C10.KernelSharp C10.AccProofs C10.OrderProofs C10.WorldProofs C10.UpdateProofs C10.SharpProofs.
Import ListNotations.
Open Scope R_scope.
Theorem sharp_never_further_applied : forall (a : accR) (x : tensorW) (j : nat) (mx mn : option (T RN)),
  abind RN a = BFull RN (FSharp RN) mx mn ->
  0 <= rcol (ared RN a) (apos RN a) j ->
  0 <= rcol (ared RN a) (aneg RN a) j ->
  (forall m : T RN, mx = Some m -> m <= nth j x 0 -> applied a x j <= nth j x 0) /\
  (forall m : T RN, mn = Some m -> nth j x 0 <= m -> nth j x 0 <= applied a x j).
Proof. exact (@Inferno.C10.SharpProofs.sharp_never_further_applied). Qed.
Print Assumptions sharp_never_further_applied.
