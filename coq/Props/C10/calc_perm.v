(* Obligation C10/calc_perm.  Statement as printed by Coq from Inferno.C10.OrderProofs; proof by reference.
   This file contains nothing else, so the statement cannot be weakened quietly. *)
From Coq Require Import List ZArith Bool Arith Reals Lra Lia Permutation.
From Inferno Require Import Base.Num Base.NumR Gen.Bounding C10.Updater C10.KernelAlgebra C10.AccProofs C10.OrderProofs.
Import ListNotations.
Open Scope R_scope.
Theorem calc_perm : forall (red : tensorR -> R) (parts parts' : list tensorR),
  red_sym red -> Permutation parts parts' -> calc RN red parts = calc RN red parts'.
Proof. exact (@Inferno.C10.OrderProofs.calc_perm). Qed.
Print Assumptions calc_perm.
