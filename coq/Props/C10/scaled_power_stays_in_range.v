(* Obligation C10/scaled_power_stays_in_range.  Statement as printed by Coq from Inferno.C10.RangeProofs; proof by reference.
   This file contains nothing else, so the statement cannot be weakened quietly. *)
From Coq Require Import List ZArith Bool Arith Reals Lra Lia Permutation.
From Inferno Require Import Base.Num Base.NumR Gen.Bounding C10.Updater C10.KernelAlgebra C10.KernelRange C10.AccProofs C10.OrderProofs C10.WorldProofs C10.RangeProofs.
Import ListNotations.
Open Scope R_scope.
Theorem scaled_power_stays_in_range : forall (target : Z) (mx mn up lp : R) (ps : list (Z * tensorW)) 
    (x : tensorW) (g : tensorR -> R) (ops : list opR) (us : list (Z * accR)) 
    (a : accR) (y : tensorW),
  mn < mx ->
  1 <= up ->
  1 <= lp ->
  lookup target ps = Some x ->
  in_range mx mn x ->
  red_hull g ->
  Forall (good_op target (length x) mx mn (mx - mn)) ops ->
  let w :=
    run RN {| params := ps; upd := None |}
      ([OpNewUpdater RN [target] (Some g);
        OpFull RN target (Some (FSPow RN up lp)) (Some mx) (Some mn)] ++ ops) in
  upd RN w = Some us ->
  lookup target us = Some a -> lookup target (params RN w) = Some y -> in_range mx mn y.
Proof. exact (@Inferno.C10.RangeProofs.scaled_power_stays_in_range). Qed.
Print Assumptions scaled_power_stays_in_range.
