(* Obligation C10/run_holds.  Statement as printed by Coq from Inferno.C10.WorldProofs; proof by reference.
   This file contains nothing else, so the statement cannot be weakened quietly. *)
From Coq Require Import List ZArith Bool Arith Reals Lra Lia Permutation.
From Inferno Require Import Base.Num Base.NumR Gen.Bounding C10.Updater C10.KernelAlgebra C10.AccProofs C10.OrderProofs C10.WorldProofs.
Import ListNotations.
Open Scope R_scope.
Theorem run_holds : forall I : Z -> tensorW -> accR -> Prop,
  stable I ->
  forall (ops : list opR) (w : worldR),
  Forall (safe_op I) ops -> holds I w -> holds I (run RN w ops).
Proof. exact (@Inferno.C10.WorldProofs.run_holds). Qed.
Print Assumptions run_holds.
