(* Obligation C10/reduction_change_keeps_stale_cache.  Statement as printed by Coq from Inferno.C10.AccProofs; proof by reference.
   This file contains nothing else, so the statement cannot be weakened quietly. *)
From Coq Require Import List ZArith Bool Arith Reals Lra Lia Permutation.
From Inferno Require Import Base.Num Base.NumR Gen.Bounding C10.Updater C10.KernelAlgebra C10.AccProofs.
Import ListNotations.
Open Scope R_scope.
Theorem reduction_change_keeps_stale_cache : exists a : accR,
    coh a /\
    (let a1 := fst (get_pos RN a) in
     let a2 := acc_reduction RN a1 (Some (red_amax RN)) in
     snd (get_pos RN a2) = Ok (Some [3]) /\
     calc RN (ared RN a2) (apos RN a2) = Ok (Some [2]) /\ ~ coh a2).
Proof. exact (@Inferno.C10.AccProofs.reduction_change_keeps_stale_cache). Qed.
Print Assumptions reduction_change_keeps_stale_cache.
