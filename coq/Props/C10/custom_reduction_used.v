(* Obligation C10/custom_reduction_used.  Statement as printed by Coq from Inferno.C10.UpdateProofs; proof by reference.
   This file contains nothing else, so the statement cannot be weakened quietly. *)
From Coq Require Import List ZArith Bool Arith Reals Lra Lia Permutation.
From Inferno Require Import Base.Num Base.NumR Gen.Bounding C10.Updater C10.KernelAlgebra C10.AccProofs C10.OrderProofs C10.WorldProofs C10.UpdateProofs.
Import ListNotations.
Open Scope R_scope.
Theorem custom_reduction_used : forall (w w' : worldR) (nms : list Z) (g : list (T RN) -> T RN),
  step RN w (OpNewUpdater RN nms (Some g)) = (w', Ok (OUnit RN)) ->
  params RN w' = params RN w /\
  (exists us : list (Z * accR),
     upd RN w' = Some us /\
     map fst us = nms /\
     (forall (nm : Z) (a : accR),
      lookup nm us = Some a ->
      ared RN a = g /\ abind RN a = BDefault RN /\ apos RN a = [] /\ aneg RN a = [] /\ coh a)).
Proof. exact (@Inferno.C10.UpdateProofs.custom_reduction_used). Qed.
Print Assumptions custom_reduction_used.
