(* Obligation C10/nonvacuous: the hypotheses of the C10 theorems (coherent caches, well-shaped pending parts,
   a binding that cannot raise, `ready`, admissible history operations, a range-preserving binding, symmetric /
   hull reductions) are met by a concrete non-trivial module state reached by real operations, and the model
   really computes on it: two contributions from two "trainers" to a two-element parameter under full
   multiplicative dependence with limits [0, 1] and reduction mean, then module.update(). *)
From Coq Require Import List ZArith Bool Arith Reals Lra Lia Permutation.
From Inferno Require Import Base.Num Base.NumR Gen.Bounding C10.Updater C10.KernelAlgebra C10.KernelRange C10.AccProofs
  C10.OrderProofs C10.WorldProofs C10.RangeProofs C10.UpdateProofs C10.InterleaveProofs.
Import ListNotations.
Open Scope R_scope.

Definition ps0 : list (Z * tensor RN) := [(0%Z, [/2; /4])].
Definition setup : list (op RN) :=
  [OpNewUpdater RN [0%Z] (Some (red_mean RN)); OpFull RN 0%Z (Some (FMul RN)) (Some 1) (Some 0)].
Definition history : list (op RN) :=
  [OpAdd RN 0%Z (Some [/2; 1]) (Some [0; /2]); OpGetPos RN 0%Z; OpAdd RN 0%Z (Some [1; 0]) None].
Definition w0 : world RN := run RN (mkWorld RN ps0 None) (setup ++ history).
Definition a0 : acc RN :=
  mkAcc RN [[/2; 1]; [1; 0]] [[0; /2]] None None (red_mean RN) (BFull RN (FMul RN) (Some 1) (Some 0)).

Theorem nonvacuous :
  w0 = mkWorld RN ps0 (Some [(0%Z, a0)]) /\
  coh a0 /\ wshape a0 2 /\ bind_ok (abind RN a0) /\ ready ps0 [(0%Z, a0)] 0%Z /\
  red_sym (ared RN a0) /\ red_hull (ared RN a0) /\
  range_bind 1 0 1 (abind RN a0) /\ in_range 1 0 [/2; /4] /\
  Forall (good_op 0%Z 2 1 0 1) history /\ Forall no_reduction (setup ++ history) /\
  applied a0 [/2; /4] 0 = 7 / 8 /\ applied a0 [/2; /4] 1 = / 2 /\
  exists us', step RN w0 (OpUpdate RN true) = (mkWorld RN [(0%Z, [7 / 8; / 2])] (Some us'), Ok (OUnit RN)).
Proof.
  assert (E0 : w0 = mkWorld RN ps0 (Some [(0%Z, a0)])) by reflexivity.
  assert (Hc : coh a0) by (split; exact I).
  assert (Hw : wshape a0 2) by (split; repeat constructor).
  assert (Hb : bind_ok (abind RN a0)) by reflexivity.
  assert (M1 : red_mean RN [/2; 1] = 3 / 4) by (unfold red_mean; cbn; rn_simpl; field).
  assert (M2 : red_mean RN [1; 0] = / 2) by (unfold red_mean; cbn; rn_simpl; field).
  assert (M3 : red_mean RN [0] = 0) by (unfold red_mean; cbn; rn_simpl; field).
  assert (M4 : red_mean RN [/2] = / 2) by (unfold red_mean; cbn; rn_simpl; field).
  assert (A0 : applied a0 [/2; /4] 0 = 7 / 8).
  { unfold applied, rcol, column. cbn [a0 apos aneg ared abind map nth bind_upper bind_lower].
    rewrite M1, M3. unfold full_upper, full_lower. cbn. rn_simpl. field. }
  assert (A1 : applied a0 [/2; /4] 1 = / 2).
  { unfold applied, rcol, column. cbn [a0 apos aneg ared abind map nth bind_upper bind_lower].
    rewrite M2, M4. unfold full_upper, full_lower. cbn. rn_simpl. field. }
  split; [exact E0|]. split; [exact Hc|]. split; [exact Hw|]. split; [exact Hb|].
  assert (Hr : ready ps0 [(0%Z, a0)] 0%Z) by (exists a0, [/2; /4]; repeat split; repeat constructor).
  split; [exact Hr|].
  split; [apply red_mean_sym|]. split; [apply red_mean_hull|].
  split; [left; repeat split; lra|].
  split; [unfold in_range; repeat (apply Forall_cons; [lra|]); apply Forall_nil|].
  split.
  { unfold history. constructor; [|constructor; [|constructor; [|constructor]]].
    - cbn. intros _. split; (split; [reflexivity|repeat (apply Forall_cons; [lra|]); apply Forall_nil]).
    - exact I.
    - cbn. intros _. split; [|exact I]. split; [reflexivity|repeat (apply Forall_cons; [lra|]); apply Forall_nil]. }
  split; [repeat constructor|].
  split; [exact A0|]. split; [exact A1|].
  destruct (update_spec w0 [(0%Z, a0)] true) as (ps' & us' & Es & K1 & K2 & _ & Hv).
  { rewrite E0. reflexivity. }
  { repeat constructor. intros []. }
  { rewrite E0. intros nm [<-|[]]. exact Hr. }
  destruct (Hv 0%Z a0 [/2; /4]) as (y & Ey & Ly & Hy); [reflexivity|rewrite E0; reflexivity|].
  exists (clear_all RN us'). rewrite Es. do 2 f_equal.
  rewrite E0 in K1. cbn in K1.
  destruct ps' as [|[k v] [|? ?]]; try discriminate K1. cbn in K1. injection K1 as ->.
  cbn in Ey. injection Ey as ->.
  destruct y as [|y0 [|y1 [|? ?]]]; try discriminate Ly.
  pose proof (Hy 0%nat ltac:(cbn; lia)) as Y0. pose proof (Hy 1%nat ltac:(cbn; lia)) as Y1.
  cbn [nth] in Y0, Y1. rewrite A0 in Y0. rewrite A1 in Y1. subst. reflexivity.
Qed.
Print Assumptions nonvacuous.
