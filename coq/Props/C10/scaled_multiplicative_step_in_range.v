(* Obligation C10/scaled_multiplicative_step_in_range.  Statement as printed by Coq from Inferno.C10.KernelRange; proof by reference.
   This file contains nothing else, so the statement cannot be weakened quietly. *)
From Coq Require Import List ZArith Bool Arith Reals Lra Lia Permutation.
From Inferno Require Import Base.Num Base.NumR Gen.Bounding C10.Updater C10.KernelAlgebra C10.KernelRange.
Import ListNotations.
Open Scope R_scope.
Theorem scaled_multiplicative_step_in_range : forall x p n mx mn : R,
  mn < mx ->
  mn <= x <= mx ->
  0 <= p <= mx - mn ->
  0 <= n <= mx - mn -> mn <= x + bound_scaled_multiplicative RN x p n mx mn <= mx.
Proof. exact (@Inferno.C10.KernelRange.scaled_multiplicative_step_in_range). Qed.
Print Assumptions scaled_multiplicative_step_in_range.
