(* Obligation C10/full_val_decomp.  Statement as printed by Coq from Inferno.C10.KernelAlgebra; proof by reference.
   This file contains nothing else, so the statement cannot be weakened quietly. *)
From Coq Require Import List ZArith Bool Arith Reals Lra Lia Permutation.
From Inferno Require Import Base.Num Base.NumR Gen.Bounding C10.Updater C10.KernelAlgebra.
Import ListNotations.
Open Scope R_scope.
Theorem full_val_decomp : forall (k : fullk RN) (mx mn : option (T RN)) (x p n : T RN),
  full_typeerr RN k mx mn = false ->
  full_val RN k mx mn x p n = full_upper k mx mn x p - full_lower k mx mn x n.
Proof. exact (@Inferno.C10.KernelAlgebra.full_val_decomp). Qed.
Print Assumptions full_val_decomp.
