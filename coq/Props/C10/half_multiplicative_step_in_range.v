(* Obligation C10/half_multiplicative_step_in_range.  Statement as printed by Coq from Inferno.C10.KernelRange; proof by reference.
   This file contains nothing else, so the statement cannot be weakened quietly. *)
From Coq Require Import List ZArith Bool Arith Reals Lra Lia Permutation.
From Inferno Require Import Base.Num Base.NumR Gen.Bounding C10.Updater C10.KernelAlgebra C10.KernelRange.
Import ListNotations.
Open Scope R_scope.
Theorem half_multiplicative_step_in_range : forall x p n mx mn : R,
  mn <= x <= mx ->
  0 <= p <= 1 ->
  0 <= n <= 1 ->
  mn <= x + (bound_upper_multiplicative RN x p mx - bound_lower_multiplicative RN x n mn) <=
  mx.
Proof. exact (@Inferno.C10.KernelRange.half_multiplicative_step_in_range). Qed.
Print Assumptions half_multiplicative_step_in_range.
