(* Obligation C10/clear_then_apply_noop_world.  Statement as printed by Coq from Inferno.C10.UpdateProofs; proof by reference.
   This file contains nothing else, so the statement cannot be weakened quietly. *)
From Coq Require Import List ZArith Bool Arith Reals Lra Lia Permutation.
From Inferno Require Import Base.Num Base.NumR Gen.Bounding C10.Updater C10.KernelAlgebra C10.AccProofs C10.OrderProofs C10.WorldProofs C10.UpdateProofs.
Import ListNotations.
Open Scope R_scope.
Theorem clear_then_apply_noop_world : forall w w1 : worldR,
  step RN w (OpUpdate RN true) = (w1, Ok (OUnit RN)) ->
  step RN w1 (OpUpdate RN true) = (w1, Ok (OUnit RN)).
Proof. exact (@Inferno.C10.UpdateProofs.clear_then_apply_noop_world). Qed.
Print Assumptions clear_then_apply_noop_world.
