(* Obligation C10/cache_coherent.  Statement as printed by Coq from Inferno.C10.WorldProofs; proof by reference.
   This file contains nothing else, so the statement cannot be weakened quietly. *)
From Coq Require Import List ZArith Bool Arith Reals Lra Lia Permutation.
From Inferno Require Import Base.Num Base.NumR Gen.Bounding C10.Updater C10.KernelAlgebra C10.AccProofs C10.OrderProofs C10.WorldProofs.
Import ListNotations.
Open Scope R_scope.
Theorem cache_coherent : forall (ops : list opR) (w : worldR),
  holds Icoh w -> Forall no_reduction ops -> holds Icoh (run RN w ops).
Proof. exact (@Inferno.C10.WorldProofs.cache_coherent). Qed.
Print Assumptions cache_coherent.
