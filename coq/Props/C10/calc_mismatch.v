(* Obligation C10/calc_mismatch.  Statement as printed by Coq from Inferno.C10.AccProofs; proof by reference.
   This file contains nothing else, so the statement cannot be weakened quietly. *)
From Coq Require Import List ZArith Bool Arith Reals Lra Lia Permutation.
From Inferno Require Import Base.Num Base.NumR Gen.Bounding C10.Updater C10.KernelAlgebra C10.AccProofs.
Import ListNotations.
Open Scope R_scope.
Theorem calc_mismatch : forall (red : list (T RN) -> T RN) (p0 : tensorR) (t : list tensorR),
  ~ Forall (fun p : tensorR => length p = length p0) (p0 :: t) ->
  calc RN red (p0 :: t) = Err ERuntime.
Proof. exact (@Inferno.C10.AccProofs.calc_mismatch). Qed.
Print Assumptions calc_mismatch.
