(* Obligation C10/cache_coherent_from_start.  Statement as printed by Coq from Inferno.C10.WorldProofs; proof by reference.
   This file contains nothing else, so the statement cannot be weakened quietly. *)
From Coq Require Import List ZArith Bool Arith Reals Lra Lia Permutation.
From Inferno Require Import Base.Num Base.NumR Gen.Bounding C10.Updater C10.KernelAlgebra C10.AccProofs C10.OrderProofs C10.WorldProofs.
Import ListNotations.
Open Scope R_scope.
Theorem cache_coherent_from_start : forall (ps : list (Z * tensorW)) (ops : list opR) (us : list (Z * accR)) (nm : Z) (a : accR),
  Forall no_reduction ops ->
  upd RN (run RN {| params := ps; upd := None |} ops) = Some us ->
  lookup nm us = Some a ->
  lookup nm (params RN (run RN {| params := ps; upd := None |} ops)) <> None -> coh a.
Proof. exact (@Inferno.C10.WorldProofs.cache_coherent_from_start). Qed.
Print Assumptions cache_coherent_from_start.
