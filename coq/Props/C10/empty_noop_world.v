(* Obligation C10/empty_noop_world.  Statement as printed by Coq from Inferno.C10.UpdateProofs; proof by reference.
   This file contains nothing else, so the statement cannot be weakened quietly. *)
From Coq Require Import List ZArith Bool Arith Reals Lra Lia Permutation.
From Inferno Require Import Base.Num Base.NumR Gen.Bounding C10.Updater C10.KernelAlgebra C10.AccProofs C10.OrderProofs C10.WorldProofs C10.UpdateProofs.
Import ListNotations.
Open Scope R_scope.
Theorem empty_noop_world : forall (w : worldR) (us : list (Z * accR)) (clear : bool),
  upd RN w = Some us ->
  quiet us ->
  resolvable (params RN w) us (map fst us) ->
  exists us' : list (Z * accR),
    step RN w (OpUpdate RN clear) =
    ({| params := params RN w; upd := Some us' |}, Ok (OUnit RN)) /\
    clear_all RN us' = clear_all RN us.
Proof. exact (@Inferno.C10.UpdateProofs.empty_noop_world). Qed.
Print Assumptions empty_noop_world.
