(* Obligation C10/order_dependent_custom_reduction.  Statement as printed by Coq from Inferno.C10.OrderProofs; proof by reference.
   This file contains nothing else, so the statement cannot be weakened quietly. *)
From Coq Require Import List ZArith Bool Arith Reals Lra Lia Permutation.
From Inferno Require Import Base.Num Base.NumR Gen.Bounding C10.Updater C10.KernelAlgebra C10.AccProofs C10.OrderProofs.
Import ListNotations.
Open Scope R_scope.
Theorem order_dependent_custom_reduction : exists (a a' : accR) (x : tensor RN),
    Permutation (apos RN a) (apos RN a') /\
    aneg RN a = aneg RN a' /\ snd (acc_forward RN a x) <> snd (acc_forward RN a' x).
Proof. exact (@Inferno.C10.OrderProofs.order_dependent_custom_reduction). Qed.
Print Assumptions order_dependent_custom_reduction.
