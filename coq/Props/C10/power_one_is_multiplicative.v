(* Obligation C10/power_one_is_multiplicative.  Statement as printed by Coq from Inferno.C10.KernelRange; proof by reference.
   This file contains nothing else, so the statement cannot be weakened quietly. *)
From Coq Require Import List ZArith Bool Arith Reals Lra Lia Permutation.
From Inferno Require Import Base.Num Base.NumR Gen.Bounding C10.Updater C10.KernelAlgebra C10.KernelRange.
Import ListNotations.
Open Scope R_scope.
Theorem power_one_is_multiplicative : forall (x : R) (u : T RN) (lim : R),
  (x <= lim -> bound_upper_power RN x u lim 1 = bound_upper_multiplicative RN x u lim) /\
  (lim <= x -> bound_lower_power RN x u lim 1 = bound_lower_multiplicative RN x u lim).
Proof. exact (@Inferno.C10.KernelRange.power_one_is_multiplicative). Qed.
Print Assumptions power_one_is_multiplicative.
