(* Obligation C10/trainer_update_skips.  Statement as printed by Coq from Inferno.C10.UpdateProofs; proof by reference.
   This file contains nothing else, so the statement cannot be weakened quietly. *)
From Coq Require Import List ZArith Bool Arith Reals Lra Lia Permutation.
From Inferno Require Import Base.Num Base.NumR Gen.Bounding C10.Updater C10.KernelAlgebra C10.AccProofs C10.OrderProofs C10.WorldProofs C10.UpdateProofs.
Import ListNotations.
Open Scope R_scope.
Theorem trainer_update_skips : forall (w : worldR) (cells : list Z),
  ~ In 0%Z cells \/ upd RN w = None ->
  step RN w (OpTrainerUpdate RN cells) = (w, Ok (OUnit RN)).
Proof. exact (@Inferno.C10.UpdateProofs.trainer_update_skips). Qed.
Print Assumptions trainer_update_skips.
