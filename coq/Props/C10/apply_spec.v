(* Obligation C10/apply_spec.  Statement as printed by Coq from Inferno.C10.AccProofs; proof by reference.
   This file contains nothing else, so the statement cannot be weakened quietly. *)
From Coq Require Import List ZArith Bool Arith Reals Lra Lia Permutation.
From Inferno Require Import Base.Num Base.NumR Gen.Bounding C10.Updater C10.KernelAlgebra C10.AccProofs.
Import ListNotations.
Open Scope R_scope.
Theorem apply_spec : forall (a : accR) (x : tensorR),
  coh a ->
  wshape a (length x) ->
  bind_ok (abind RN a) ->
  exists (a' : accR) (y : tensor RN),
    acc_forward RN a x = (a', Ok y) /\
    coh a' /\
    same_cfg a a' /\
    length y = length x /\
    (forall j : nat,
     (j < length x)%nat ->
     nth j y 0 =
     match apos RN a with
     | [] =>
         match aneg RN a with
         | [] => nth j x 0
         | _ :: _ =>
             nth j x 0 + bind_upper (abind RN a) (nth j x 0) (rcol (ared RN a) (apos RN a) j) -
             bind_lower (abind RN a) (nth j x 0) (rcol (ared RN a) (aneg RN a) j)
         end
     | _ :: _ =>
         nth j x 0 + bind_upper (abind RN a) (nth j x 0) (rcol (ared RN a) (apos RN a) j) -
         bind_lower (abind RN a) (nth j x 0) (rcol (ared RN a) (aneg RN a) j)
     end).
Proof. exact (@Inferno.C10.AccProofs.apply_spec). Qed.
Print Assumptions apply_spec.
