(* Obligation C10/sharp_inside_unbounded.  Statement as printed by Coq from Inferno.C10.KernelSharp; proof by reference.
   This file contains nothing else, so the statement cannot be weakened quietly. *)
From Coq Require Import List ZArith Bool Arith Reals Lra Lia Permutation.
From Inferno Require Import Base.Num Base.NumR Gen.Bounding C10.Updater C10.KernelAlgebra C10.KernelSharp.
Import ListNotations.
Open Scope R_scope.
Theorem sharp_inside_unbounded : forall (x : R) (p n : T RN) (mx mn : R),
  mn < x < mx -> bound_sharp RN x p n (Some mx) (Some mn) = p - n.
Proof. exact (@Inferno.C10.KernelSharp.sharp_inside_unbounded). Qed.
Print Assumptions sharp_inside_unbounded.
