(* Obligation C10/multiplicative_needs_unit_magnitude.  Statement as printed by Coq from Inferno.C10.KernelRange; proof by reference.
   This file contains nothing else, so the statement cannot be weakened quietly. *)
From Coq Require Import List ZArith Bool Arith Reals Lra Lia Permutation.
From Inferno Require Import Base.Num Base.NumR Gen.Bounding C10.Updater C10.KernelAlgebra C10.KernelRange.
Import ListNotations.
Open Scope R_scope.
Theorem multiplicative_needs_unit_magnitude : exists x p n mx mn : R,
    mn <= x <= mx /\
    0 <= p /\ 0 <= n <= 1 /\ ~ x + bound_multiplicative RN x p n (Some mx) (Some mn) <= mx.
Proof. exact (@Inferno.C10.KernelRange.multiplicative_needs_unit_magnitude). Qed.
Print Assumptions multiplicative_needs_unit_magnitude.
