(* Obligation C10/sharp_gate_closed.  Statement as printed by Coq from Inferno.C10.KernelSharp; proof by reference.
   This file contains nothing else, so the statement cannot be weakened quietly. *)
From Coq Require Import List ZArith Bool Arith Reals Lra Lia Permutation.
From Inferno Require Import Base.Num Base.NumR Gen.Bounding C10.Updater C10.KernelAlgebra C10.KernelSharp.
Import ListNotations.
Open Scope R_scope.
Theorem sharp_gate_closed : forall (x : R) (u : T RN) (lim : R),
  (lim <= x -> bound_upper_sharp RN x u lim = 0) /\
  (x <= lim -> bound_lower_sharp RN x u lim = 0).
Proof. exact (@Inferno.C10.KernelSharp.sharp_gate_closed). Qed.
Print Assumptions sharp_gate_closed.
