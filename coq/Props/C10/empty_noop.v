(* Obligation C10/empty_noop.  Statement as printed by Coq from Inferno.C10.AccProofs; proof by reference.
   This file contains nothing else, so the statement cannot be weakened quietly. *)
From Coq Require Import List ZArith Bool Arith Reals Lra Lia Permutation.
From Inferno Require Import Base.Num Base.NumR Gen.Bounding C10.Updater C10.KernelAlgebra C10.AccProofs.
Import ListNotations.
Open Scope R_scope.
Theorem empty_noop : forall (a : accR) (x : tensorR),
  coh a ->
  apos RN a = [] ->
  aneg RN a = [] ->
  exists a' : accR, acc_forward RN a x = (a', Ok x) /\ coh a' /\ same_cfg a a'.
Proof. exact (@Inferno.C10.AccProofs.empty_noop). Qed.
Print Assumptions empty_noop.
