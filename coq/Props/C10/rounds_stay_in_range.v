(* Obligation C10/rounds_stay_in_range.  Statement as printed by Coq from Inferno.C10.RangeProofs; proof by reference.
   This file contains nothing else, so the statement cannot be weakened quietly. *)
From Coq Require Import List ZArith Bool Arith Reals Lra Lia Permutation.
From Inferno Require Import Base.Num Base.NumR Gen.Bounding C10.Updater C10.KernelAlgebra C10.KernelRange C10.AccProofs C10.OrderProofs C10.WorldProofs C10.RangeProofs.
Import ListNotations.
Open Scope R_scope.
Theorem rounds_stay_in_range : forall (mx mn cap : R) (b : bindT RN) (red : tensorR -> R)
    (rs : list (list tensorW * list tensorW)) (x : tensorW),
  range_bind mx mn cap b ->
  in_range mx mn x ->
  Forall (round_ok cap red (length x)) rs ->
  exists y : tensorW, rounds b red x rs = Ok y /\ length y = length x /\ in_range mx mn y.
Proof. exact (@Inferno.C10.RangeProofs.rounds_stay_in_range). Qed.
Print Assumptions rounds_stay_in_range.
