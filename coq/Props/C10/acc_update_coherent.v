(* Obligation C10/acc_update_coherent.  Statement as printed by Coq from Inferno.C10.AccProofs; proof by reference.
   This file contains nothing else, so the statement cannot be weakened quietly. *)
From Coq Require Import List ZArith Bool Arith Reals Lra Lia Permutation.
From Inferno Require Import Base.Num Base.NumR Gen.Bounding C10.Updater C10.KernelAlgebra C10.AccProofs.
Import ListNotations.
Open Scope R_scope.
Theorem acc_update_coherent : forall (a : accR) (x : tensor RN),
  coh a ->
  exists a' : accR, acc_update RN a x = (a', update_val a x) /\ coh a' /\ same_cfg a a'.
Proof. exact (@Inferno.C10.AccProofs.acc_update_coherent). Qed.
Print Assumptions acc_update_coherent.
