(* Obligation C10/updatesome_frame.  Statement as printed by Coq from Inferno.C10.UpdateProofs; proof by reference.
   This file contains nothing else, so the statement cannot be weakened quietly. *)
From Coq Require Import List ZArith Bool Arith Reals Lra Lia Permutation.
From Inferno Require Import Base.Num Base.NumR Gen.Bounding C10.Updater C10.KernelAlgebra C10.AccProofs C10.OrderProofs C10.WorldProofs C10.UpdateProofs.
Import ListNotations.
Open Scope R_scope.
Theorem updatesome_frame : forall (w : worldR) (nms : list Z) (clear : bool) (nm : Z) (us : list (Z * accR)),
  upd RN w = Some us ->
  ~ In nm nms ->
  let w' := fst (step RN w (OpUpdateSome RN nms clear)) in
  lookup nm (params RN w') = lookup nm (params RN w) /\
  (exists us' : list (Z * accR), upd RN w' = Some us' /\ lookup nm us' = lookup nm us).
Proof. exact (@Inferno.C10.UpdateProofs.updatesome_frame). Qed.
Print Assumptions updatesome_frame.
