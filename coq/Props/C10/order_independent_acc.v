(* Obligation C10/order_independent_acc.  Statement as printed by Coq from Inferno.C10.OrderProofs; proof by reference.
   This file contains nothing else, so the statement cannot be weakened quietly. *)
From Coq Require Import List ZArith Bool Arith Reals Lra Lia Permutation.
From Inferno Require Import Base.Num Base.NumR Gen.Bounding C10.Updater C10.KernelAlgebra C10.AccProofs C10.OrderProofs.
Import ListNotations.
Open Scope R_scope.
Theorem order_independent_acc : forall (a a' : accR) (x : tensor RN),
  red_sym (ared RN a) ->
  acc_perm a a' ->
  snd (acc_forward RN a x) = snd (acc_forward RN a' x) /\
  acc_perm (fst (acc_forward RN a x)) (fst (acc_forward RN a' x)) /\
  ared RN (fst (acc_forward RN a x)) = ared RN a.
Proof. exact (@Inferno.C10.OrderProofs.order_independent_acc). Qed.
Print Assumptions order_independent_acc.
