(* Obligation C10/sharp_never_further.  Statement as printed by Coq from Inferno.C10.KernelSharp; proof by reference.
   This file contains nothing else, so the statement cannot be weakened quietly. *)
From Coq Require Import List ZArith Bool Arith Reals Lra Lia Permutation.
From Inferno Require Import Base.Num Base.NumR Gen.Bounding C10.Updater C10.KernelAlgebra C10.KernelSharp.
Import ListNotations.
Open Scope R_scope.
Theorem sharp_never_further : forall (x p n : R) (mx : option R) (mn : option (T RN)),
  0 <= p ->
  0 <= n ->
  (forall m : R, mx = Some m -> m <= x -> x + bound_sharp RN x p n mx mn <= x) /\
  (forall m : T RN, mn = Some m -> x <= m -> x <= x + bound_sharp RN x p n mx mn).
Proof. exact (@Inferno.C10.KernelSharp.sharp_never_further). Qed.
Print Assumptions sharp_never_further.
