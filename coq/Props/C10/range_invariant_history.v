(* Obligation C10/range_invariant_history.  Statement as printed by Coq from Inferno.C10.RangeProofs; proof by reference.
   This file contains nothing else, so the statement cannot be weakened quietly. *)
From Coq Require Import List ZArith Bool Arith Reals Lra Lia Permutation.
From Inferno Require Import Base.Num Base.NumR Gen.Bounding C10.Updater C10.KernelAlgebra C10.KernelRange C10.AccProofs C10.OrderProofs C10.WorldProofs C10.RangeProofs.
Import ListNotations.
Open Scope R_scope.
Theorem range_invariant_history : forall (target : Z) (len : nat) (mx mn cap : R) (ops : list opR) (w : worldR),
  holds (Irange target len mx mn cap) w ->
  Forall (good_op target len mx mn cap) ops ->
  holds (Irange target len mx mn cap) (run RN w ops).
Proof. exact (@Inferno.C10.RangeProofs.range_invariant_history). Qed.
Print Assumptions range_invariant_history.
