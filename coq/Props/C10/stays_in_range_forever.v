(* Obligation C10/stays_in_range_forever.  Statement as printed by Coq from Inferno.C10.RangeProofs; proof by reference.
   This file contains nothing else, so the statement cannot be weakened quietly. *)
From Coq Require Import List ZArith Bool Arith Reals Lra Lia Permutation.
From Inferno Require Import Base.Num Base.NumR Gen.Bounding C10.Updater C10.KernelAlgebra C10.KernelRange C10.AccProofs C10.OrderProofs C10.WorldProofs C10.RangeProofs.
Import ListNotations.
Open Scope R_scope.
Theorem stays_in_range_forever : forall (target : Z) (mx mn cap : R) (ps : list (Z * tensorW)) (x : tensorW)
    (g : tensorR -> R) (k : fullk RN) (ops : list opR) (us : list (Z * accR)) 
    (a : accR) (y : tensorW),
  lookup target ps = Some x ->
  in_range mx mn x ->
  red_hull g ->
  range_bind mx mn cap (BFull RN k (Some mx) (Some mn)) ->
  Forall (good_op target (length x) mx mn cap) ops ->
  let w :=
    run RN {| params := ps; upd := None |}
      ([OpNewUpdater RN [target] (Some g); OpFull RN target (Some k) (Some mx) (Some mn)] ++
       ops) in
  upd RN w = Some us ->
  lookup target us = Some a ->
  lookup target (params RN w) = Some y -> length y = length x /\ in_range mx mn y.
Proof. exact (@Inferno.C10.RangeProofs.stays_in_range_forever). Qed.
Print Assumptions stays_in_range_forever.
