(* Obligation C10/order_independent_fresh.  Statement as printed by Coq from Inferno.C10.InterleaveProofs; proof by reference.
   This file contains nothing else, so the statement cannot be weakened quietly. *)
From Coq Require Import List ZArith Bool Arith Reals Lra Lia Permutation.
From Inferno Require Import Base.Num Base.NumR Gen.Bounding C10.Updater C10.KernelAlgebra C10.AccProofs C10.OrderProofs C10.WorldProofs C10.InterleaveProofs.
Import ListNotations.
Open Scope R_scope.
Theorem order_independent_fresh : forall (ps : list (Z * tensorW)) (nms : list Z) (g : tensorR -> R) 
    (cs cs' : list contrib) (clear : bool),
  NoDup nms ->
  red_sym g ->
  Permutation cs cs' ->
  let us := map (fun nm : Z => (nm, fresh (Some g))) nms in
  params RN
    (fst
       (step RN (run RN {| params := ps; upd := Some us |} (map add_op cs))
          (OpUpdate RN clear))) =
  params RN
    (fst
       (step RN (run RN {| params := ps; upd := Some us |} (map add_op cs'))
          (OpUpdate RN clear))).
Proof. exact (@Inferno.C10.InterleaveProofs.order_independent_fresh). Qed.
Print Assumptions order_independent_fresh.
