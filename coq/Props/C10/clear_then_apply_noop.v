(* Obligation C10/clear_then_apply_noop.  Statement as printed by Coq from Inferno.C10.AccProofs; proof by reference.
   This file contains nothing else, so the statement cannot be weakened quietly. *)
From Coq Require Import List ZArith Bool Arith Reals Lra Lia Permutation.
From Inferno Require Import Base.Num Base.NumR Gen.Bounding C10.Updater C10.KernelAlgebra C10.AccProofs.
Import ListNotations.
Open Scope R_scope.
Theorem clear_then_apply_noop : forall (a : accR) (x : tensorR), snd (acc_forward RN (acc_clear RN a) x) = Ok x.
Proof. exact (@Inferno.C10.AccProofs.clear_then_apply_noop). Qed.
Print Assumptions clear_then_apply_noop.
