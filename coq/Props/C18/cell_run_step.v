(* Obligation C18/cell_run_step.  Statement as printed by Coq from Inferno.C18.EventProofs; proof by reference.
   This file contains nothing else, so the statement cannot be weakened quietly. *)
From Coq Require Import List ZArith Bool Reals Lra Lia.
From Inferno Require Import Base.Num Base.NumR C18.DelayAdj C18.EventProofs.
Import ListNotations.
Open Scope R_scope.
Theorem cell_run_step : forall (red : list R -> R) (c : cellcfg RN) (prefix : list (stepin RN)) (i : stepin RN),
  cell_run RN red c {| cs_pre := None; cs_post := None |} (prefix ++ [i]) =
  cell_run RN red c {| cs_pre := None; cs_post := None |} prefix ++
  [cell_step RN red c (state_after red c {| cs_pre := None; cs_post := None |} prefix) i].
Proof. exact (@Inferno.C18.EventProofs.cell_run_step). Qed.
Print Assumptions cell_run_step.
