(* Obligation C18/cell_step_true_times.  Statement as printed by Coq from Inferno.C18.EventProofs; proof by reference.
   This file contains nothing else, so the statement cannot be weakened quietly. *)
From Coq Require Import List ZArith Bool Reals Lra Lia.
From Inferno Require Import Base.Num Base.NumR C18.DelayAdj C18.EventProofs.
Import ListNotations.
Open Scope R_scope.
Theorem cell_step_true_times : forall (red : list R -> R) (c : cellcfg RN) (n m : nat) (prefix : list (stepin RN))
    (i : stepin RN),
  shaped n m (prefix ++ [i]) ->
  snd (cell_step RN red c (state_after red c {| cs_pre := None; cs_post := None |} prefix) i) =
  map2
    (fun (s : synapse) (d : R) =>
     fwd RN red (c_tr RN c) (si_sig RN i) (spec_tds c (prefix ++ [i]) s d)) 
    (c_syn RN c) (si_delay RN i).
Proof. exact (@Inferno.C18.EventProofs.cell_step_true_times). Qed.
Print Assumptions cell_step_true_times.
