(* Obligation C18/run_kernel_exp_rule.  Statement as printed by Coq from Inferno.C18.DelayAdjProofs; proof by reference.
   This file contains nothing else, so the statement cannot be weakened quietly. *)
From Coq Require Import List ZArith Bool Reals Lra Lia.
From Inferno Require Import Base.Num Base.NumR Gen.Stdkernels C18.DelayAdj C18.EventProofs C18.DelayAdjProofs.
Import ListNotations.
Open Scope R_scope.
Theorem run_kernel_exp_rule : forall (red : list R -> R) (c : cellcfg RN) (n m : nat) (prefix : list (stepin RN))
    (i : stepin RN) (lr_c tc_c lr_a tc_a : T RN) (adjusted : bool),
  c_tr RN c =
  (if adjusted then TDaKernel RN else TKernel RN)
    (fun x : T RN => exp_stdp_post_kernel RN x lr_c tc_c)
    (fun x : T RN => exp_stdp_pre_kernel RN x lr_a tc_a) ->
  shaped n m (prefix ++ [i]) ->
  linear_red red ->
  tc_c <> 0 ->
  tc_a <> 0 ->
  map (net RN)
    (snd
       (cell_step RN red c (state_after red c {| cs_pre := None; cs_post := None |} prefix) i)) =
  map2
    (fun (s : synapse) (d : R) =>
     red (map (rule_row lr_c tc_c lr_a tc_a) (spec_tds c (prefix ++ [i]) s d))) 
    (c_syn RN c) (si_delay RN i).
Proof. exact (@Inferno.C18.DelayAdjProofs.run_kernel_exp_rule). Qed.
Print Assumptions run_kernel_exp_rule.
