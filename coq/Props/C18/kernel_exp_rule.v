(* Obligation C18/kernel_exp_rule.  Statement as printed by Coq from Inferno.C18.DelayAdjProofs; proof by reference.
   This file contains nothing else, so the statement cannot be weakened quietly. *)
From Coq Require Import List ZArith Bool Reals Lra Lia.
From Inferno Require Import Base.Num Base.NumR Gen.Stdkernels C18.DelayAdj C18.EventProofs C18.DelayAdjProofs.
Import ListNotations.
Open Scope R_scope.
Theorem kernel_exp_rule : forall (red : list R -> R) (lr_c : T RN) (tc_c : R) (lr_a : T RN) 
    (tc_a : R) (tds : list (list nvR)),
  linear_red red ->
  tc_c <> 0 ->
  tc_a <> 0 ->
  net RN
    (kernel_fwd RN red (fun x : T RN => exp_stdp_post_kernel RN x lr_c tc_c)
       (fun x : T RN => exp_stdp_pre_kernel RN x lr_a tc_a) tds) =
  red (map (rule_row lr_c tc_c lr_a tc_a) tds).
Proof. exact (@Inferno.C18.DelayAdjProofs.kernel_exp_rule). Qed.
Print Assumptions kernel_exp_rule.
