(* Obligation C18/zero_delay_da_stdp_is_kernel_stdp.  Statement as printed by Coq from Inferno.C18.DelayAdjProofs; proof by reference.
   This file contains nothing else, so the statement cannot be weakened quietly. *)
From Coq Require Import List ZArith Bool Reals Lra Lia.
From Inferno Require Import Base.Num Base.NumR Gen.Stdkernels C18.DelayAdj C18.EventProofs C18.DelayAdjProofs.
Import ListNotations.
Open Scope R_scope.
Theorem zero_delay_da_stdp_is_kernel_stdp : forall (red : list R -> R) (B npre npost : nat) (syn : list synapse)
    (dt lr_pos lr_neg : T RN) (tc_pos tc_neg : R) (st : cellstate RN) 
    (is : list (stepin RN)),
  homog red ->
  tc_pos <> 0 ->
  tc_neg <> 0 ->
  Forall zero_delays is ->
  Forall2
    (fun r1 r2 : cellstate RN * list (parts RN) =>
     fst r1 = fst r2 /\ Forall2 parts_eqv (snd r1) (snd r2))
    (cell_run RN red
       {|
         c_B := B;
         c_npre := npre;
         c_npost := npost;
         c_syn := syn;
         c_dt := dt;
         c_tr := TDaStdp RN lr_pos lr_neg tc_pos tc_neg
       |} st is)
    (cell_run RN red
       {|
         c_B := B;
         c_npre := npre;
         c_npost := npost;
         c_syn := syn;
         c_dt := dt;
         c_tr :=
           TKernel RN (fun x : T RN => exp_stdp_post_kernel RN x lr_pos tc_pos)
             (fun x : T RN => exp_stdp_pre_kernel RN x lr_neg tc_neg)
       |} st is).
Proof. exact (@Inferno.C18.DelayAdjProofs.zero_delay_da_stdp_is_kernel_stdp). Qed.
Print Assumptions zero_delay_da_stdp_is_kernel_stdp.
