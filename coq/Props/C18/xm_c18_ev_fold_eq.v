(* Obligation XM/c18_ev_fold_eq.  Statement as printed by Coq from Inferno.XModel.Folds; proof by reference.
   This file contains nothing else, so the statement cannot be weakened quietly. *)
From Coq Require Import List ZArith Bool Arith Lia.
From Inferno Require Import Base.Num Gen.Infra Gen.Trace C01.Ring C01.RingProofs C07.Reducer C07.ReducerProofs.
From Inferno Require C18.DelayAdj C08.Stdp.
From Inferno Require Import XModel.Folds.
Import ListNotations.
Theorem c18_ev_fold_eq : forall (M : Num) (crit : T M -> bool) (dt decay : T M) (cnt : Z) 
    (o : T M) (st : option (option (T M))),
  kfold (cls_event M crit ENan) dt decay cnt o st = DelayAdj.ev_fold M dt (crit o) st.
Proof. exact (@Inferno.XModel.Folds.c18_ev_fold_eq). Qed.
Print Assumptions c18_ev_fold_eq.
