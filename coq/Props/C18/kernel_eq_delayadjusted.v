(* Obligation C18/kernel_eq_delayadjusted.  Statement as printed by Coq from Inferno.C18.DelayAdjProofs; proof by reference.
   This file contains nothing else, so the statement cannot be weakened quietly. *)
From Coq Require Import List ZArith Bool Reals Lra Lia.
From Inferno Require Import Base.Num Base.NumR Gen.Stdkernels C18.DelayAdj C18.EventProofs C18.DelayAdjProofs.
Import ListNotations.
Open Scope R_scope.
Theorem kernel_eq_delayadjusted : forall (red : list R -> R) (lr_pos lr_neg : T RN) (tc_pos tc_neg : R)
    (tds : list (list nvR)),
  homog red ->
  tc_pos <> 0 ->
  tc_neg <> 0 ->
  let k :=
    kernel_fwd RN red (fun x : T RN => exp_stdp_post_kernel RN x lr_pos tc_pos)
      (fun x : T RN => exp_stdp_pre_kernel RN x lr_neg tc_neg) tds in
  let d := da_stdp RN red lr_pos lr_neg tc_pos tc_neg tds in
  part_val RN (fst k) = part_val RN (fst d) /\ part_val RN (snd k) = part_val RN (snd d).
Proof. exact (@Inferno.C18.DelayAdjProofs.kernel_eq_delayadjusted). Qed.
Print Assumptions kernel_eq_delayadjusted.
