(* Obligation C18/event_not_spiked_yet.  Statement as printed by Coq from Inferno.C18.EventProofs; proof by reference.
   This file contains nothing else, so the statement cannot be weakened quietly. *)
From Coq Require Import List ZArith Bool Reals Lra Lia.
From Inferno Require Import Base.Num Base.NumR C18.DelayAdj C18.EventProofs.
Import ListNotations.
Open Scope R_scope.
Theorem event_not_spiked_yet : forall (dt : R) (h : list bool), never h -> ev_peek dt h = None.
Proof. exact (@Inferno.C18.EventProofs.event_not_spiked_yet). Qed.
Print Assumptions event_not_spiked_yet.
