(* Obligation C18/tdelta_true_times.  Statement as printed by Coq from Inferno.C18.EventProofs; proof by reference.
   This file contains nothing else, so the statement cannot be weakened quietly. *)
From Coq Require Import List ZArith Bool Reals Lra Lia.
From Inferno Require Import Base.Num Base.NumR C18.DelayAdj C18.EventProofs.
Import ListNotations.
Open Scope R_scope.
Theorem tdelta_true_times : forall (dt : R) (hpre hpost : list bool) (d : T RN) (jp jq : nat),
  length hpre = length hpost ->
  is_last hpre jp ->
  is_last hpost jq ->
  tdelta_adj RN (ev_peek dt hpre) (ev_peek dt hpost) d = Some (INR jq * dt - INR jp * dt - d).
Proof. exact (@Inferno.C18.EventProofs.tdelta_true_times). Qed.
Print Assumptions tdelta_true_times.
