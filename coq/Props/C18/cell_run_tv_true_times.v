(* Obligation C18/cell_run_tv_true_times.  Statement as printed by Coq from Inferno.C18.EventProofs; proof by reference.
   This file contains nothing else, so the statement cannot be weakened quietly. *)
From Coq Require Import List ZArith Bool Reals Lra Lia.
From Inferno Require Import Base.Num Base.NumR C18.DelayAdj C18.EventProofs.
Import ListNotations.
Open Scope R_scope.
Theorem cell_run_tv_true_times : forall (c : cellcfg RN) (n m : nat) (prefix : list (tvstep RN)) 
    (red : list (T RN) -> T RN) (trs : list (trainer RN)) (i : stepin RN),
  shaped n m (map snd prefix ++ [i]) ->
  cell_run_tv RN c {| cs_pre := None; cs_post := None |} (prefix ++ [(red, trs, i)]) =
  cell_run_tv RN c {| cs_pre := None; cs_post := None |} prefix ++
  [(fst
      (cell_step RN red c
         (state_after red c {| cs_pre := None; cs_post := None |} (map snd prefix)) i),
    map3
      (fun (s : synapse) (d : R) (tr : trainer RN) =>
       fwd RN red tr (si_sig RN i) (spec_tds (set_tr RN c tr) (map snd prefix ++ [i]) s d))
      (c_syn RN c) (si_delay RN i) trs)].
Proof. exact (@Inferno.C18.EventProofs.cell_run_tv_true_times). Qed.
Print Assumptions cell_run_tv_true_times.
