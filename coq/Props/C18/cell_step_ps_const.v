(* Obligation C18/cell_step_ps_const.  Statement as printed by Coq from Inferno.C18.EventProofs; proof by reference.
   This file contains nothing else, so the statement cannot be weakened quietly. *)
From Coq Require Import List ZArith Bool Reals Lra Lia.
From Inferno Require Import Base.Num Base.NumR C18.DelayAdj C18.EventProofs.
Import ListNotations.
Open Scope R_scope.
Theorem cell_step_ps_const : forall (red : list (T RN) -> T RN) (c : cellcfg RN) (st : cellstate RN) (i : stepin RN),
  cell_step_ps RN red c (map (fun _ : synapse => c_tr RN c) (c_syn RN c)) st i =
  cell_step RN red c st i.
Proof. exact (@Inferno.C18.EventProofs.cell_step_ps_const). Qed.
Print Assumptions cell_step_ps_const.
