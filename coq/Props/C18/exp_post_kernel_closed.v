(* Obligation C18/exp_post_kernel_closed.  Statement as printed by Coq from Inferno.C18.DelayAdjProofs; proof by reference.
   This file contains nothing else, so the statement cannot be weakened quietly. *)
From Coq Require Import List ZArith Bool Reals Lra Lia.
From Inferno Require Import Base.Num Base.NumR Gen.Stdkernels C18.DelayAdj C18.EventProofs C18.DelayAdjProofs.
Import ListNotations.
Open Scope R_scope.
Theorem exp_post_kernel_closed : forall (td lr : T RN) (tc : R),
  tc <> 0 -> exp_stdp_post_kernel RN td lr tc = lr * win true tc td.
Proof. exact (@Inferno.C18.DelayAdjProofs.exp_post_kernel_closed). Qed.
Print Assumptions exp_post_kernel_closed.
