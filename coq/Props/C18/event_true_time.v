(* Obligation C18/event_true_time.  Statement as printed by Coq from Inferno.C18.EventProofs; proof by reference.
   This file contains nothing else, so the statement cannot be weakened quietly. *)
From Coq Require Import List ZArith Bool Reals Lra Lia.
From Inferno Require Import Base.Num Base.NumR C18.DelayAdj C18.EventProofs.
Import ListNotations.
Open Scope R_scope.
Theorem event_true_time : forall (dt : R) (h : list bool) (j : nat),
  is_last h j -> ev_peek dt h = Some (INR (length h - 1) * dt - INR j * dt).
Proof. exact (@Inferno.C18.EventProofs.event_true_time). Qed.
Print Assumptions event_true_time.
