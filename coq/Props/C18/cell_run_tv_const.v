(* Obligation C18/cell_run_tv_const.  Statement as printed by Coq from Inferno.C18.EventProofs; proof by reference.
   This file contains nothing else, so the statement cannot be weakened quietly. *)
From Coq Require Import List ZArith Bool Reals Lra Lia.
From Inferno Require Import Base.Num Base.NumR C18.DelayAdj C18.EventProofs.
Import ListNotations.
Open Scope R_scope.
Theorem cell_run_tv_const : forall (red : list (T RN) -> T RN) (c : cellcfg RN) (trs : list (trainer RN))
    (st : cellstate RN) (is : list (stepin RN)),
  cell_run_tv RN c st (map (fun i : stepin RN => (red, trs, i)) is) =
  cell_run_ps RN red c trs st is.
Proof. exact (@Inferno.C18.EventProofs.cell_run_tv_const). Qed.
Print Assumptions cell_run_tv_const.
