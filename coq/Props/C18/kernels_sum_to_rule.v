(* Obligation C18/kernels_sum_to_rule.  Statement as printed by Coq from Inferno.C18.DelayAdjProofs; proof by reference.
   This file contains nothing else, so the statement cannot be weakened quietly. *)
From Coq Require Import List ZArith Bool Reals Lra Lia.
From Inferno Require Import Base.Num Base.NumR Gen.Stdkernels C18.DelayAdj C18.EventProofs C18.DelayAdjProofs.
Import ListNotations.
Open Scope R_scope.
Theorem kernels_sum_to_rule : forall (lr_c : T RN) (tc_c : R) (lr_a : T RN) (tc_a : R) (td : T RN),
  tc_c <> 0 ->
  tc_a <> 0 ->
  exp_stdp_post_kernel RN td lr_c tc_c + exp_stdp_pre_kernel RN td lr_a tc_a =
  rule lr_c tc_c lr_a tc_a td.
Proof. exact (@Inferno.C18.DelayAdjProofs.kernels_sum_to_rule). Qed.
Print Assumptions kernels_sum_to_rule.
