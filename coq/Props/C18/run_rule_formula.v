(* Obligation C18/run_rule_formula.  Statement as printed by Coq from Inferno.C18.DelayAdjProofs; proof by reference.
   This file contains nothing else, so the statement cannot be weakened quietly. *)
From Coq Require Import List ZArith Bool Reals Lra Lia.
From Inferno Require Import Base.Num Base.NumR Gen.Stdkernels C18.DelayAdj C18.EventProofs C18.DelayAdjProofs.
Import ListNotations.
Open Scope R_scope.
Theorem run_rule_formula : forall (red : list R -> R) (c : cellcfg RN) (n m : nat) (prefix : list (stepin RN))
    (i : stepin RN),
  shaped n m (prefix ++ [i]) ->
  tcs_nonzero (c_tr RN c) ->
  red_ok red (si_sig RN i) ->
  (forall tds : list (list nvR), documented_net red (c_tr RN c) (si_sig RN i) tds <> None) ->
  map (fun p : parts RN => Some (net RN p))
    (snd
       (cell_step RN red c (state_after red c {| cs_pre := None; cs_post := None |} prefix) i)) =
  map2
    (fun (s : synapse) (d : R) =>
     documented_net red (c_tr RN c) (si_sig RN i) (spec_tds c (prefix ++ [i]) s d))
    (c_syn RN c) (si_delay RN i).
Proof. exact (@Inferno.C18.DelayAdjProofs.run_rule_formula). Qed.
Print Assumptions run_rule_formula.
