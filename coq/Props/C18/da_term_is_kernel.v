(* Obligation C18/da_term_is_kernel.  Statement as printed by Coq from Inferno.C18.DelayAdjProofs; proof by reference.
   This file contains nothing else, so the statement cannot be weakened quietly. *)
From Coq Require Import List ZArith Bool Reals Lra Lia.
From Inferno Require Import Base.Num Base.NumR Gen.Stdkernels C18.DelayAdj C18.EventProofs C18.DelayAdjProofs.
Import ListNotations.
Open Scope R_scope.
Theorem da_term_is_kernel : forall (tc lr : T RN) (causal : bool) (td : T RN),
  da_term RN tc lr causal (Some td) =
  Some
    (if causal
     then exp_stdp_post_kernel RN td (Rabs lr) tc
     else exp_stdp_pre_kernel RN td (Rabs lr) tc).
Proof. exact (@Inferno.C18.DelayAdjProofs.da_term_is_kernel). Qed.
Print Assumptions da_term_is_kernel.
