(* Obligation C18/homog_zero_red.  Statement as printed by Coq from Inferno.C18.DelayAdjProofs; proof by reference.
   This file contains nothing else, so the statement cannot be weakened quietly. *)
From Coq Require Import List ZArith Bool Reals Lra Lia.
From Inferno Require Import Base.Num Base.NumR Gen.Stdkernels C18.DelayAdj C18.EventProofs C18.DelayAdjProofs.
Import ListNotations.
Open Scope R_scope.
Theorem homog_zero_red : forall red : list R -> R, homog red -> zero_red red.
Proof. exact (@Inferno.C18.DelayAdjProofs.homog_zero_red). Qed.
Print Assumptions homog_zero_red.
