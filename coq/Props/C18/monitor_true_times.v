(* Obligation C18/monitor_true_times.  Statement as printed by Coq from Inferno.C18.EventProofs; proof by reference.
   This file contains nothing else, so the statement cannot be weakened quietly. *)
From Coq Require Import List ZArith Bool Reals Lra Lia.
From Inferno Require Import Base.Num Base.NumR C18.DelayAdj C18.EventProofs.
Import ListNotations.
Open Scope R_scope.
Theorem monitor_true_times : forall (red : list R -> R) (c : cellcfg RN) (n m : nat) (is : list (stepin RN)),
  is <> [] ->
  shaped n m is ->
  exists lp lq : list nvR,
    state_after red c {| cs_pre := None; cs_post := None |} is =
    {| cs_pre := Some lp; cs_post := Some lq |} /\
    length lp = n /\
    length lq = m /\
    (forall u : nat, nth u lp None = since_last (c_dt RN c) (unit_hist u (map (si_pre RN) is))) /\
    (forall u : nat,
     nth u lq None = since_last (c_dt RN c) (unit_hist u (map (si_post RN) is))).
Proof. exact (@Inferno.C18.EventProofs.monitor_true_times). Qed.
Print Assumptions monitor_true_times.
