(* Obligation C18/tdelta_nan_until_both_spiked.  Statement as printed by Coq from Inferno.C18.EventProofs; proof by reference.
   This file contains nothing else, so the statement cannot be weakened quietly. *)
From Coq Require Import List ZArith Bool Reals Lra Lia.
From Inferno Require Import Base.Num Base.NumR C18.DelayAdj C18.EventProofs.
Import ListNotations.
Open Scope R_scope.
Theorem tdelta_nan_until_both_spiked : forall (dt : R) (hpre hpost : list bool) (d : T RN),
  never hpre \/ never hpost -> tdelta_adj RN (ev_peek dt hpre) (ev_peek dt hpost) d = None.
Proof. exact (@Inferno.C18.EventProofs.tdelta_nan_until_both_spiked). Qed.
Print Assumptions tdelta_nan_until_both_spiked.
