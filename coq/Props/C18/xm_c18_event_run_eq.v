(* Obligation XM/c18_event_run_eq.  Statement as printed by Coq from Inferno.XModel.Folds; proof by reference.
   This file contains nothing else, so the statement cannot be weakened quietly. *)
From Coq Require Import List ZArith Bool Arith Lia.
From Inferno Require Import Base.Num Gen.Infra Gen.Trace C01.Ring C01.RingProofs C07.Reducer C07.ReducerProofs.
From Inferno Require C18.DelayAdj C08.Stdp.
From Inferno Require Import XModel.Folds.
Import ListNotations.
Theorem c18_event_run_eq : forall (M : Num) (crit : T M -> bool) (sh : list nat) (obss : list (list (T M)))
    (r : reducer M),
  good M sh r ->
  prior (feed M (cls_event M crit ENan) sh r obss) =
  fold_left
    (fun (s : option (list (DelayAdj.nv M))) (o : list (T M)) =>
     Some (DelayAdj.ev_fold_t M (rdt r) (map crit o) s)) obss (prior r).
Proof. exact (@Inferno.XModel.Folds.c18_event_run_eq). Qed.
Print Assumptions c18_event_run_eq.
