(* Obligation C18/run_no_change_before_both_spiked.  Statement as printed by Coq from Inferno.C18.DelayAdjProofs; proof by reference.
   This file contains nothing else, so the statement cannot be weakened quietly. *)
From Coq Require Import List ZArith Bool Reals Lra Lia.
From Inferno Require Import Base.Num Base.NumR Gen.Stdkernels C18.DelayAdj C18.EventProofs C18.DelayAdjProofs.
Import ListNotations.
Open Scope R_scope.
Theorem run_no_change_before_both_spiked : forall (red : list R -> R) (c : cellcfg RN) (n m : nat) (prefix : list (stepin RN))
    (i : stepin RN) (s : list (nat * nat)) (d : R),
  shaped n m (prefix ++ [i]) ->
  zero_red red ->
  (forall (b : nat) (io : nat * nat),
   In io s ->
   never (unit_hist (b * c_npre RN c + fst io) (map (si_pre RN) (prefix ++ [i]))) \/
   never (unit_hist (b * c_npost RN c + snd io) (map (si_post RN) (prefix ++ [i])))) ->
  let p := fwd RN red (c_tr RN c) (si_sig RN i) (spec_tds c (prefix ++ [i]) s d) in
  part_val RN (fst p) = 0 /\ part_val RN (snd p) = 0.
Proof. exact (@Inferno.C18.DelayAdjProofs.run_no_change_before_both_spiked). Qed.
Print Assumptions run_no_change_before_both_spiked.
