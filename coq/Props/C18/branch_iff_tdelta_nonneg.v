(* Obligation C18/branch_iff_tdelta_nonneg.  Statement as printed by Coq from Inferno.C18.DelayAdjProofs; proof by reference.
   This file contains nothing else, so the statement cannot be weakened quietly. *)
From Coq Require Import List ZArith Bool Reals Lra Lia.
From Inferno Require Import Base.Num Base.NumR Gen.Stdkernels C18.DelayAdj C18.EventProofs C18.DelayAdjProofs.
Import ListNotations.
Open Scope R_scope.
Theorem branch_iff_tdelta_nonneg : forall (td : T RN) (lr tc : R),
  tc <> 0 ->
  lr <> 0 ->
  (exp_stdp_post_kernel RN td lr tc <> 0 <-> 0 <= td) /\
  (exp_stdp_pre_kernel RN td lr tc <> 0 <-> td < 0).
Proof. exact (@Inferno.C18.DelayAdjProofs.branch_iff_tdelta_nonneg). Qed.
Print Assumptions branch_iff_tdelta_nonneg.
