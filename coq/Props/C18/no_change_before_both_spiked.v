(* Obligation C18/no_change_before_both_spiked.  Statement as printed by Coq from Inferno.C18.DelayAdjProofs; proof by reference.
   This file contains nothing else, so the statement cannot be weakened quietly. *)
From Coq Require Import List ZArith Bool Reals Lra Lia.
From Inferno Require Import Base.Num Base.NumR Gen.Stdkernels C18.DelayAdj C18.EventProofs C18.DelayAdjProofs.
Import ListNotations.
Open Scope R_scope.
Theorem no_change_before_both_spiked : forall (red : list R -> R) (tr : trainer RN) (sg : signal RN) (tds : list (list nvR)),
  zero_red red ->
  all_nan tds ->
  part_val RN (fst (fwd RN red tr sg tds)) = 0 /\ part_val RN (snd (fwd RN red tr sg tds)) = 0.
Proof. exact (@Inferno.C18.DelayAdjProofs.no_change_before_both_spiked). Qed.
Print Assumptions no_change_before_both_spiked.
