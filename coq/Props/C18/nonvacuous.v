(* Obligation C18/nonvacuous: the hypotheses of the C18 theorems (shaped runs, linear reductions, non-zero time constants,
   "most recent spike" / "not spiked yet" histories) are met by a concrete non-trivial run, and the model really computes
   the documented value on it: one synapse with delay 1, presynaptic spike at step 0, postsynaptic spike at step 2, so
   t_delta = 2 - 0 - 1 = 1 >= 0 and DelayAdjustedSTDP(1, -1/2, 20, 15) potentiates by exp(-1/20); one step earlier the
   postsynaptic side has not spiked yet and nothing changes. *)
From Coq Require Import List ZArith Bool Reals Lra Lia.
From Inferno Require Import Base.Num Base.NumR Gen.Stdkernels C18.DelayAdj C18.EventProofs C18.DelayAdjProofs.
Import ListNotations.
Open Scope R_scope.

Definition cfg : cellcfg RN := mkCfg RN 1 1 1 [[(0, 0)%nat]] 1 (TDaStdp RN 1 (-1/2) 20 15).
Definition stp (pre post : bool) : stepin RN := mkIn RN [pre] [post] [1] SigNone.
Definition run3 : list (stepin RN) := [stp true false; stp false false; stp false true].
Definition sumR := reduce RN RSum.

Theorem nonvacuous :
  shaped 1 1 run3 /\ linear_red sumR /\ homog sumR /\ zero_red sumR /\ tcs_nonzero (c_tr RN cfg) /\
  is_last [true; false; false] 0 /\ is_last [false; false; true] 2 /\ never [false; false] /\
  (* step 2: the documented potentiation *)
  map (net RN) (snd (cell_step RN sumR cfg (state_after sumR cfg (mkCS RN None None) [stp true false; stp false false])
                               (stp false true))) = [Rtrigo_def.exp (- 1 / 20)] /\
  (* step 1: the postsynaptic unit is still silent: no change *)
  snd (cell_step RN sumR cfg (state_after sumR cfg (mkCS RN None None) [stp true false]) (stp false false))
  = [(Some 0, Some 0)].
Proof.
  split; [repeat constructor|]. split; [apply sum_linear|]. split; [apply sum_linear|].
  split; [apply homog_zero_red; apply sum_linear|]. split; [cbn; split; lra|].
  split; [apply last_true_is_last; reflexivity|]. split; [apply last_true_is_last; reflexivity|].
  split; [apply last_true_never; reflexivity|]. split.
  - cbn. unfold da_stdp, rsum, da_term, nansum. cbn. rn_unfold.
    replace (0 + 1 + 1 - 0 - 1) with 1 by lra.
    assert (A1 : Rabs 1 = 1) by (apply Rabs_right; lra).
    assert (A2 : Rabs (-1 / 2) = 1 / 2) by (rewrite Rabs_left by lra; lra).
    rewrite A1, A2. replace (1 / - (20)) with (-1 / 20) by field. replace (1 / - (15)) with (-1 / 15) by field.
    rcases; try lra. cbn [fst snd part_val]. f_equal. ring.
  - cbn. unfold da_stdp, rsum, da_term, nansum. cbn. rn_unfold. rcases; try lra. repeat f_equal; ring.
Qed.
Print Assumptions nonvacuous.
