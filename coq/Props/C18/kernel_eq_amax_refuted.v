(* Obligation C18/kernel_eq_amax_refuted.  Statement as printed by Coq from Inferno.C18.DelayAdjProofs; proof by reference.
   This file contains nothing else, so the statement cannot be weakened quietly. *)
From Coq Require Import List ZArith Bool Reals Lra Lia.
From Inferno Require Import Base.Num Base.NumR Gen.Stdkernels C18.DelayAdj C18.EventProofs C18.DelayAdjProofs.
Import ListNotations.
Open Scope R_scope.
Theorem kernel_eq_amax_refuted : exists (lr_pos lr_neg tc_pos tc_neg : T RN) (tds : list (list nvR)),
    part_val RN
      (snd
         (kernel_fwd RN (reduce RN RAmax)
            (fun x : T RN => exp_stdp_post_kernel RN x lr_pos tc_pos)
            (fun x : T RN => exp_stdp_pre_kernel RN x lr_neg tc_neg) tds)) <>
    part_val RN (snd (da_stdp RN (reduce RN RAmax) lr_pos lr_neg tc_pos tc_neg tds)).
Proof. exact (@Inferno.C18.DelayAdjProofs.kernel_eq_amax_refuted). Qed.
Print Assumptions kernel_eq_amax_refuted.
