(* Obligation XM/c18_ev_fold_t_eq.  Statement as printed by Coq from Inferno.XModel.Folds; proof by reference.
   This file contains nothing else, so the statement cannot be weakened quietly. *)
From Coq Require Import List ZArith Bool Arith Lia.
From Inferno Require Import Base.Num Gen.Infra Gen.Trace C01.Ring C01.RingProofs C07.Reducer C07.ReducerProofs.
From Inferno Require C18.DelayAdj C08.Stdp.
From Inferno Require Import XModel.Folds.
Import ListNotations.
Theorem c18_ev_fold_t_eq : forall (M : Num) (crit : T M -> bool) (r : reducer M) (obs : list (T M))
    (st : option (list (option (T M)))),
  zipfold M (cls_event M crit ENan) r obs st = DelayAdj.ev_fold_t M (rdt r) (map crit obs) st.
Proof. exact (@Inferno.XModel.Folds.c18_ev_fold_t_eq). Qed.
Print Assumptions c18_ev_fold_t_eq.
