(* Obligation C18/zero_delay_reduces_to_kernel.  Statement as printed by Coq from Inferno.C18.DelayAdjProofs; proof by reference.
   This file contains nothing else, so the statement cannot be weakened quietly. *)
From Coq Require Import List ZArith Bool Reals Lra Lia.
From Inferno Require Import Base.Num Base.NumR Gen.Stdkernels C18.DelayAdj C18.EventProofs C18.DelayAdjProofs.
Import ListNotations.
Open Scope R_scope.
Theorem zero_delay_reduces_to_kernel : forall (red : list (T RN) -> T RN) (B npre npost : nat) (syn : list synapse) 
    (dt : T RN) (kpost kpre : T RN -> T RN) (st : cellstate RN) (is : list (stepin RN)),
  Forall zero_delays is ->
  cell_run RN red
    {|
      c_B := B;
      c_npre := npre;
      c_npost := npost;
      c_syn := syn;
      c_dt := dt;
      c_tr := TDaKernel RN kpost kpre
    |} st is =
  cell_run RN red
    {|
      c_B := B;
      c_npre := npre;
      c_npost := npost;
      c_syn := syn;
      c_dt := dt;
      c_tr := TKernel RN kpost kpre
    |} st is.
Proof. exact (@Inferno.C18.DelayAdjProofs.zero_delay_reduces_to_kernel). Qed.
Print Assumptions zero_delay_reduces_to_kernel.
