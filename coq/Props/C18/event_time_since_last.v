(* Obligation C18/event_time_since_last.  Statement as printed by Coq from Inferno.C18.EventProofs; proof by reference.
   This file contains nothing else, so the statement cannot be weakened quietly. *)
From Coq Require Import List ZArith Bool Reals Lra Lia.
From Inferno Require Import Base.Num Base.NumR C18.DelayAdj C18.EventProofs.
Import ListNotations.
Open Scope R_scope.
Theorem event_time_since_last : forall (dt : R) (h : list bool), h <> [] -> ev_run dt h = Some (since_last dt h).
Proof. exact (@Inferno.C18.EventProofs.event_time_since_last). Qed.
Print Assumptions event_time_since_last.
