(* Obligation XM/fresh_good.  Statement as printed by Coq from Inferno.XModel.TraceC08R; proof by reference.
   This file contains nothing else, so the statement cannot be weakened quietly. *)
From Coq Require Import List ZArith Bool Arith Lia Reals Lra.
From Inferno Require Import Base.Num Base.NumR Gen.Infra Gen.Interpolation C01.Ring C01.RingProofs C02.Select C02.SelectProofs C07.Reducer C07.ReducerProofs.
From Inferno Require C08.Stdp.
From Inferno Require Import XModel.XLists XModel.SelectC07 XModel.SelectC07R XModel.SelectC08 XModel.Folds XModel.TraceC08R.
Import ListNotations.
Local Open Scope R_scope.
Theorem fresh_good : forall (M : Num) (A Obs : Type) (K : @rclass M A Obs) (dt dur : T M) 
    (incl inpl : bool) (sh : list nat), @good M A sh (@fresh M A Obs K dt dur incl inpl).
Proof. exact (@Inferno.XModel.TraceC08R.fresh_good). Qed.
Print Assumptions fresh_good.
