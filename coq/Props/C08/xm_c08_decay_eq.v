(* Obligation XM/c08_decay_eq.  Statement as printed by Coq from Inferno.XModel.Folds; proof by reference.
   This file contains nothing else, so the statement cannot be weakened quietly. *)
From Coq Require Import List ZArith Bool Arith Lia.
From Inferno Require Import Base.Num Gen.Infra Gen.Trace C01.Ring C01.RingProofs C07.Reducer C07.ReducerProofs.
From Inferno Require C18.DelayAdj C08.Stdp.
From Inferno Require Import XModel.Folds.
Import ListNotations.
Theorem c08_decay_eq : forall (M : Num) (tc dt : T M), Stdp.decay_of M dt tc = decay_of M tc dt.
Proof. exact (@Inferno.XModel.Folds.c08_decay_eq). Qed.
Print Assumptions c08_decay_eq.
