(* Obligation C08/elig_geometric.  Statement as printed by Coq from Inferno.C08.StdpProofs; proof by reference.
   This file contains nothing else, so the statement cannot be weakened quietly. *)
From Coq Require Import List ZArith Reals Bool.
From Inferno Require Import Base.Num Base.NumR Gen.Trace Gen.Infra C08.Stdp C08.StdpSpec C08.StdpProofs.
Import ListNotations.
Open Scope R_scope.
Theorem elig_geometric : forall (dt tz : R) (cf : nat -> R) (n : nat),
  elig dt tz cf n =
  sum_steps (S n) (fun u : nat => cf u / tz * Rtrigo_def.exp (- ((INR n - INR u) * dt) / tz)).
Proof. exact (@Inferno.C08.StdpProofs.elig_geometric). Qed.
Print Assumptions elig_geometric.
