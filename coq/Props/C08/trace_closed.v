(* Obligation C08/trace_closed.  Statement as printed by Coq from Inferno.C08.StdpProofs; proof by reference.
   This file contains nothing else, so the statement cannot be weakened quietly. *)
From Coq Require Import List ZArith Reals Bool.
From Inferno Require Import Base.Num Base.NumR Gen.Trace Gen.Infra C08.Stdp C08.StdpSpec C08.StdpProofs.
Import ListNotations.
Open Scope R_scope.
Theorem trace_closed : forall (m : tmode) (dt tau a : R) (l : list bool) (b : bool),
  V m (Rtrigo_def.exp (- dt / tau)) a (rev (l ++ [b])) =
  a * partner_sum m dt tau (l ++ [b]) (length l).
Proof. exact (@Inferno.C08.StdpProofs.trace_closed). Qed.
Print Assumptions trace_closed.
