(* Obligation XM/hrepr_repr.  Statement as printed by Coq from Inferno.XModel.TraceC08R; proof by reference.
   This file contains nothing else, so the statement cannot be weakened quietly. *)
From Coq Require Import List ZArith Bool Arith Lia Reals Lra.
From Inferno Require Import Base.Num Base.NumR Gen.Infra Gen.Interpolation C01.Ring C01.RingProofs C02.Select C02.SelectProofs C07.Reducer C07.ReducerProofs.
From Inferno Require C08.Stdp.
From Inferno Require Import XModel.XLists XModel.SelectC07 XModel.SelectC07R XModel.SelectC08 XModel.Folds XModel.TraceC08R.
Import ListNotations.
Local Open Scope R_scope.
Theorem hrepr_repr : forall (r : reducer RN) (e : nat) (h : list (T RN)), hrepr RN r e h -> repr (rrec r) e h.
Proof. exact (@Inferno.XModel.TraceC08R.hrepr_repr). Qed.
Print Assumptions hrepr_repr.
