(* Obligation XM/c08_view_selector_eq.  Statement as printed by Coq from Inferno.XModel.SelectC08; proof by reference.
   This file contains nothing else, so the statement cannot be weakened quietly. *)
From Coq Require Import List ZArith Bool Arith Lia Reals Lra.
From Inferno Require Import Base.Num Base.NumR Gen.Infra Gen.Interpolation C01.Ring C01.RingProofs C02.Select C02.SelectProofs.
From Inferno Require C08.Stdp.
From Inferno Require Import XModel.SelectC08.
Import ListNotations.
Local Open Scope R_scope.
Theorem c08_view_selector_eq : forall dt tol : R,
  0 < dt ->
  0 <= tol < dt / 2 ->
  forall (s : ringR) (e : nat) (h : list R) (tc : T RN) (t : R),
  wf s ->
  repr s e h ->
  - tol <= t ->
  Stdp.view RN (c08_off dt tol t) dt tc (Z.of_nat (N s)) h (c08_k dt tol t) =
  sel_elem RN s (rows s) dt tol 1 (expdecay tc) e t.
Proof. exact (@Inferno.XModel.SelectC08.c08_view_selector_eq). Qed.
Print Assumptions c08_view_selector_eq.
