(* Obligation XM/c08_range_eq.  Statement as printed by Coq from Inferno.XModel.SelectC08; proof by reference.
   This file contains nothing else, so the statement cannot be weakened quietly. *)
From Coq Require Import List ZArith Bool Arith Lia Reals Lra.
From Inferno Require Import Base.Num Base.NumR Gen.Infra Gen.Interpolation C01.Ring C01.RingProofs C02.Select C02.SelectProofs.
From Inferno Require C08.Stdp.
From Inferno Require Import XModel.SelectC08.
Import ListNotations.
Local Open Scope R_scope.
Theorem c08_range_eq : forall dt tol : R,
  0 < dt ->
  0 <= tol < dt / 2 ->
  forall (n : nat) (t : R),
  (0 < n)%nat ->
  - tol <= t -> out_of_range RN n dt tol t = negb (Z.of_nat (c08_k dt tol t) <? Z.of_nat n)%Z.
Proof. exact (@Inferno.XModel.SelectC08.c08_range_eq). Qed.
Print Assumptions c08_range_eq.
