(* Obligation XM/c08_spike_read_eq.  Statement as printed by Coq from Inferno.XModel.SelectC08; proof by reference.
   This file contains nothing else, so the statement cannot be weakened quietly. *)
From Coq Require Import List ZArith Bool Arith Lia Reals Lra.
From Inferno Require Import Base.Num Base.NumR Gen.Infra Gen.Interpolation C01.Ring C01.RingProofs C02.Select C02.SelectProofs.
From Inferno Require C08.Stdp.
From Inferno Require Import XModel.SelectC08.
Import ListNotations.
Local Open Scope R_scope.
Theorem c08_spike_read_eq : forall dt tol : R,
  0 < dt ->
  0 <= tol < dt / 2 ->
  forall (s : ringR) (e : nat) (hb : list bool) (t : R) (j : nat),
  wf s ->
  repr s e (map (b2t RN) hb) ->
  - tol <= t ->
  b2t RN (Stdp.rd false (Z.of_nat (N s)) hb (c08_k dt tol t + j)) =
  sel_elem RN s (rows s) dt tol (1 + Z.of_nat j) (interp_previous RN) e t.
Proof. exact (@Inferno.XModel.SelectC08.c08_spike_read_eq). Qed.
Print Assumptions c08_spike_read_eq.
