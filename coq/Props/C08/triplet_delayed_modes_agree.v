(* Obligation C08/triplet_delayed_modes_agree.  Statement as printed by Coq from Inferno.C08.StdpProofs; proof by reference.
   This file contains nothing else, so the statement cannot be weakened quietly. *)
From Coq Require Import List ZArith Reals Bool.
From Inferno Require Import Base.Num Base.NumR Gen.Trace Gen.Infra C08.Stdp C08.StdpSpec C08.StdpProofs.
Import ListNotations.
Open Scope R_scope.
Theorem triplet_delayed_modes_agree : forall (c : config RN) (k : nat) (h : list (bool * bool)),
  c_trainer RN c = TripletSTDP \/ c_trainer RN c = StableTripletSTDP ->
  c_lr_post RN c <> 0 ->
  c_lr_pre RN c <> 0 ->
  grid_ok c k ->
  weight_change (set_delayed c true) k (nosig h) =
  weight_change (set_delayed c false) k (nosig h).
Proof. exact (@Inferno.C08.StdpProofs.triplet_delayed_modes_agree). Qed.
Print Assumptions triplet_delayed_modes_agree.
