(* Obligation XM/c08_push_trace_step.  Statement as printed by Coq from Inferno.XModel.Folds; proof by reference.
   This file contains nothing else, so the statement cannot be weakened quietly. *)
From Coq Require Import List ZArith Bool Arith Lia.
From Inferno Require Import Base.Num Gen.Infra Gen.Trace C01.Ring C01.RingProofs C07.Reducer C07.ReducerProofs.
From Inferno Require C18.DelayAdj C08.Stdp.
From Inferno Require Import XModel.Folds.
Import ListNotations.
Theorem c08_push_trace_step : forall (M : Num) (m : Stdp.tmode) (tc amp : T M) (sh : list nat) 
    (r : reducer M) (e : nat) (h : list (T M)) (obs : list bool),
  good M sh r ->
  hrepr M r e h ->
  e < length obs ->
  (rinit r = false -> e < length (hd [] (rhist r))) ->
  hrepr M (fstep M (cls_of M m tc amp) sh r (map (b2t M) obs)) e
    (Stdp.push_trace M m (rdecay r) amp h (nth e obs false)).
Proof. exact (@Inferno.XModel.Folds.c08_push_trace_step). Qed.
Print Assumptions c08_push_trace_step.
