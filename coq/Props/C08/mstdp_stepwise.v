(* Obligation C08/mstdp_stepwise.  Statement as printed by Coq from Inferno.C08.StdpProofs; proof by reference.
   This file contains nothing else, so the statement cannot be weakened quietly. *)
From Coq Require Import List ZArith Reals Bool.
From Inferno Require Import Base.Num Base.NumR Gen.Trace Gen.Infra C08.Stdp C08.StdpSpec C08.StdpProofs.
Import ListNotations.
Open Scope R_scope.
Theorem mstdp_stepwise : forall (c : config RN) (k : nat) (hx : list (bool * bool * (R * R))),
  c_trainer RN c = MSTDP ->
  grid_ok c k ->
  weight_change c k (withsig hx) =
  sum_steps (length hx)
    (fun t : nat =>
     sigw hx t *
     stdp_contrib (c_mode RN c) (c_dt RN c) (c_lr_post RN c) (c_lr_pre RN c) 
       (c_tc_pre RN c) (c_tc_post RN c) (pre_train c k (map fst hx)) 
       (post_train (map fst hx)) t).
Proof. exact (@Inferno.C08.StdpProofs.mstdp_stepwise). Qed.
Print Assumptions mstdp_stepwise.
