(* Obligation XM/fresh_hrepr.  Statement as printed by Coq from Inferno.XModel.TraceC08R; proof by reference.
   This file contains nothing else, so the statement cannot be weakened quietly. *)
From Coq Require Import List ZArith Bool Arith Lia Reals Lra.
From Inferno Require Import Base.Num Base.NumR Gen.Infra Gen.Interpolation C01.Ring C01.RingProofs C02.Select C02.SelectProofs C07.Reducer C07.ReducerProofs.
From Inferno Require C08.Stdp.
From Inferno Require Import XModel.XLists XModel.SelectC07 XModel.SelectC07R XModel.SelectC08 XModel.Folds XModel.TraceC08R.
Import ListNotations.
Local Open Scope R_scope.
Theorem fresh_hrepr : forall (m : Stdp.tmode) (tc amp dt dur : T RN) (incl inpl : bool) (e : nat),
  hrepr RN (fresh RN (cls_of RN m tc amp) dt dur incl inpl) e [].
Proof. exact (@Inferno.XModel.TraceC08R.fresh_hrepr). Qed.
Print Assumptions fresh_hrepr.
