(* Obligation C08/stdp_cumulative_pairsum.  Statement as printed by Coq from Inferno.C08.StdpProofs; proof by reference.
   This file contains nothing else, so the statement cannot be weakened quietly. *)
From Coq Require Import List ZArith Reals Bool.
From Inferno Require Import Base.Num Base.NumR Gen.Trace Gen.Infra C08.Stdp C08.StdpSpec C08.StdpProofs.
Import ListNotations.
Open Scope R_scope.
Theorem stdp_cumulative_pairsum : forall (c : config RN) (k : nat) (h : list (bool * bool)),
  c_trainer RN c = STDP \/ c_trainer RN c = StableSTDP ->
  c_mode RN c = Cumulative ->
  grid_ok c k ->
  weight_change c k (nosig h) =
  c_lr_post RN c *
  sum_over (spike_times (post_train h))
    (fun tp : nat =>
     sum_over (filter (fun tq : nat => tq <=? tp) (spike_times (pre_train c k h)))
       (fun tq : nat => Rtrigo_def.exp (- ((INR tp - INR tq) * c_dt RN c) / c_tc_pre RN c))) +
  c_lr_pre RN c *
  sum_over (spike_times (pre_train c k h))
    (fun tq : nat =>
     sum_over (filter (fun tp : nat => tp <=? tq) (spike_times (post_train h)))
       (fun tp : nat => Rtrigo_def.exp (- ((INR tq - INR tp) * c_dt RN c) / c_tc_post RN c))).
Proof. exact (@Inferno.C08.StdpProofs.stdp_cumulative_pairsum). Qed.
Print Assumptions stdp_cumulative_pairsum.
