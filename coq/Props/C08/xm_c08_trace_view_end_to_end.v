(* Obligation XM/c08_trace_view_end_to_end.  Statement as printed by Coq from Inferno.XModel.TraceC08R; proof by reference.
   This file contains nothing else, so the statement cannot be weakened quietly. *)
From Coq Require Import List ZArith Bool Arith Lia Reals Lra.
From Inferno Require Import Base.Num Base.NumR Gen.Infra Gen.Interpolation C01.Ring C01.RingProofs C02.Select C02.SelectProofs C07.Reducer C07.ReducerProofs.
From Inferno Require C08.Stdp.
From Inferno Require Import XModel.XLists XModel.SelectC07 XModel.SelectC07R XModel.SelectC08 XModel.Folds XModel.TraceC08R.
Import ListNotations.
Local Open Scope R_scope.
Theorem c08_trace_view_end_to_end : forall (m : Stdp.tmode) (tc amp dt dur tol : R) (incl inpl : bool),
  0 < dt ->
  0 <= tol < dt / 2 ->
  forall (sh : list nat) (e : nat) (obss : list (list bool)),
  (e < nel sh)%nat ->
  Forall (fun o : list bool => length o = nel sh) obss ->
  forall t : R,
  - tol <= t ->
  select_elem RN (cls_of RN m tc amp) (machine m tc amp dt dur incl inpl sh obss)
    (rows (rrec (machine m tc amp dt dur incl inpl sh obss))) e t tol =
  Stdp.view RN (c08_off dt tol t) dt tc
    (Z.of_nat (N (rrec (machine m tc amp dt dur incl inpl sh obss))))
    (c08_list m tc amp dt e obss) (c08_k dt tol t).
Proof. exact (@Inferno.XModel.TraceC08R.c08_trace_view_end_to_end). Qed.
Print Assumptions c08_trace_view_end_to_end.
