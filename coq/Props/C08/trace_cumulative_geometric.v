(* Obligation C08/trace_cumulative_geometric.  Statement as printed by Coq from Inferno.C08.StdpProofs; proof by reference.
   This file contains nothing else, so the statement cannot be weakened quietly. *)
From Coq Require Import List ZArith Reals Bool.
From Inferno Require Import Base.Num Base.NumR Gen.Trace Gen.Infra C08.Stdp C08.StdpSpec C08.StdpProofs.
Import ListNotations.
Open Scope R_scope.
Theorem trace_cumulative_geometric : forall (dt tau : R) (a : T RN) (l : list bool) (b : bool),
  fold_kernel
    (fun (o : bool) (st : option R) =>
     trace_cumulative RN (b2t RN o) st (Rtrigo_def.exp (- dt / tau)) a (one RN) None)
    (rev (l ++ [b])) =
  Some
    (a *
     sum_over (spike_times (l ++ [b]))
       (fun s : nat => Rtrigo_def.exp (- ((INR (length l) - INR s) * dt) / tau))).
Proof. exact (@Inferno.C08.StdpProofs.trace_cumulative_geometric). Qed.
Print Assumptions trace_cumulative_geometric.
