(* Obligation XM/c08_fresh_decay_eq.  Statement as printed by Coq from Inferno.XModel.Folds; proof by reference.
   This file contains nothing else, so the statement cannot be weakened quietly. *)
From Coq Require Import List ZArith Bool Arith Lia.
From Inferno Require Import Base.Num Gen.Infra Gen.Trace C01.Ring C01.RingProofs C07.Reducer C07.ReducerProofs.
From Inferno Require C18.DelayAdj C08.Stdp.
From Inferno Require Import XModel.Folds.
Import ListNotations.
Theorem c08_fresh_decay_eq : forall (M : Num) (m : Stdp.tmode) (tc amp dt dur : T M) (incl inpl : bool),
  rdecay (fresh M (cls_of M m tc amp) dt dur incl inpl) = Stdp.decay_of M dt tc.
Proof. exact (@Inferno.XModel.Folds.c08_fresh_decay_eq). Qed.
Print Assumptions c08_fresh_decay_eq.
