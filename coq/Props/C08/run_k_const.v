(* Obligation C08/run_k_const.  Statement as printed by Coq from Inferno.C08.StdpProofs; proof by reference.
   This file contains nothing else, so the statement cannot be weakened quietly. *)
From Coq Require Import List ZArith Reals Bool.
From Inferno Require Import Base.Num Base.NumR Gen.Trace Gen.Infra C08.Stdp C08.StdpSpec C08.StdpProofs.
Import ListNotations.
Open Scope R_scope.
Theorem run_k_const : forall (N : Num) (c : config N) (k : nat) (inps : list (list (bool * bool) * signal N))
    (ss : list (sstate N)),
  run_k N c ss (map (fun i : list (bool * bool) * signal N => (k, i)) inps) =
  run N c k ss inps.
Proof. exact (@Inferno.C08.StdpProofs.run_k_const). Qed.
Print Assumptions run_k_const.
