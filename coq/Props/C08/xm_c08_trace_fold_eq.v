(* Obligation XM/c08_trace_fold_eq.  Statement as printed by Coq from Inferno.XModel.Folds; proof by reference.
   This file contains nothing else, so the statement cannot be weakened quietly. *)
From Coq Require Import List ZArith Bool Arith Lia.
From Inferno Require Import Base.Num Gen.Infra Gen.Trace C01.Ring C01.RingProofs C07.Reducer C07.ReducerProofs.
From Inferno Require C18.DelayAdj C08.Stdp.
From Inferno Require Import XModel.Folds.
Import ListNotations.
Theorem c08_trace_fold_eq : forall (M : Num) (m : Stdp.tmode) (tc amp dt decay : T M) (cnt : Z) 
    (obs : bool) (st : option (T M)),
  kfold (cls_of M m tc amp) dt decay cnt (b2t M obs) st = Stdp.trace_fold M m decay amp obs st.
Proof. exact (@Inferno.XModel.Folds.c08_trace_fold_eq). Qed.
Print Assumptions c08_trace_fold_eq.
