(* Obligation XM/c08_recsz_eq.  Statement as printed by Coq from Inferno.XModel.RecSize; proof by reference.
   This file contains nothing else, so the statement cannot be weakened quietly. *)
From Coq Require Import List ZArith Bool Arith Lia.
From Inferno Require Import Base.Num Gen.Infra C01.Ring C01.RingProofs.
From Inferno Require C13.Shaped C13.Resize C13.ResizeProofs C14.Config C14.RecordCfg C14.RecordCfgProofs.
From Inferno Require C04.Synapse C07.Reducer C08.Stdp.
From Inferno Require Import XModel.RecSize.
Import ListNotations.
Theorem c08_recsz_eq : forall (M : Num) (duration dt : T M),
  Stdp.recsz M duration dt = Config.r_size M (Config.rec_new M dt duration true).
Proof. exact (@Inferno.XModel.RecSize.c08_recsz_eq). Qed.
Print Assumptions c08_recsz_eq.
