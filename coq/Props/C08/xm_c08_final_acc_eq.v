(* Obligation XM/c08_final_acc_eq.  Statement as printed by Coq from Inferno.XModel.AccC09; proof by reference.
   This file contains nothing else, so the statement cannot be weakened quietly. *)
From Coq Require Import List ZArith Bool Arith Lia.
From Inferno Require Import Base.Num Gen.Bounding.
From Inferno Require C08.Stdp C09.Split C10.Updater.
From Inferno Require Import XModel.AccC09.
Import ListNotations.
Theorem c08_final_acc_eq : forall (N : Num) (outs : list (option (T N) * option (T N))),
  Stdp.final_acc N outs = Split.acc_all N outs.
Proof. exact (@Inferno.XModel.AccC09.c08_final_acc_eq). Qed.
Print Assumptions c08_final_acc_eq.
