(* Obligation C08/latest_upto_spec.  Statement as printed by Coq from Inferno.C08.StdpProofs; proof by reference.
   This file contains nothing else, so the statement cannot be weakened quietly. *)
From Coq Require Import List ZArith Reals Bool.
From Inferno Require Import Base.Num Base.NumR Gen.Trace Gen.Infra C08.Stdp C08.StdpSpec C08.StdpProofs.
Import ListNotations.
Open Scope R_scope.
Theorem latest_upto_spec : forall (src : list bool) (n : nat),
  match latest_upto src n with
  | Some s =>
      (s < n)%nat /\
      nth s src false = true /\ (forall u : nat, (s < u < n)%nat -> nth u src false = false)
  | None => forall u : nat, (u < n)%nat -> nth u src false = false
  end.
Proof. exact (@Inferno.C08.StdpProofs.latest_upto_spec). Qed.
Print Assumptions latest_upto_spec.
