(* Obligation XM/c08_acc_update_eq.  Statement as printed by Coq from Inferno.XModel.AccC09R; proof by reference.
   This file contains nothing else, so the statement cannot be weakened quietly. *)
From Coq Require Import List ZArith Bool Arith Lia Reals Lra.
From Inferno Require Import Base.Num Base.NumR Gen.Bounding.
From Inferno Require C08.Stdp C09.Split C10.Updater.
From Inferno Require Import XModel.AccC09 XModel.AccC09R.
Import ListNotations.
Local Open Scope R_scope.
Theorem c08_acc_update_eq : forall (a : uparts) (x : R), Stdp.acc_update RN a = Split.bind_update RN Split.BDefault x a.
Proof. exact (@Inferno.XModel.AccC09R.c08_acc_update_eq). Qed.
Print Assumptions c08_acc_update_eq.
