(* Obligation C08/persample_signal_is_scalar.  Statement as printed by Coq from Inferno.C08.StdpProofs; proof by reference.
   This file contains nothing else, so the statement cannot be weakened quietly. *)
From Coq Require Import List ZArith Reals Bool.
From Inferno Require Import Base.Num Base.NumR Gen.Trace Gen.Infra C08.Stdp C08.StdpSpec C08.StdpProofs.
Import ListNotations.
Open Scope R_scope.
Theorem persample_signal_is_scalar : forall (c : config RN) (k : nat) (hx : list (bool * bool * (R * R))),
  c_trainer RN c = MSTDP \/ c_trainer RN c = MSTDPET ->
  c_red RN c = RSum ->
  grid_ok c k -> weight_change c k (withsig_ps hx) = weight_change c k (withsig hx).
Proof. exact (@Inferno.C08.StdpProofs.persample_signal_is_scalar). Qed.
Print Assumptions persample_signal_is_scalar.
