(* Obligation C08/mstdp_scaled.  Statement as printed by Coq from Inferno.C08.StdpProofs; proof by reference.
   This file contains nothing else, so the statement cannot be weakened quietly. *)
From Coq Require Import List ZArith Reals Bool.
From Inferno Require Import Base.Num Base.NumR Gen.Trace Gen.Infra C08.Stdp C08.StdpSpec C08.StdpProofs.
Import ListNotations.
Open Scope R_scope.
Theorem mstdp_scaled : forall (c : config RN) (k : nat),
  grid_ok c k ->
  c_trainer RN c = MSTDP ->
  forall hx : list (bool * bool * (R * R)),
  weight_change c k (withsig hx) =
  c_lr_post RN c *
  pairsum (c_mode RN c) (c_dt RN c) (c_tc_pre RN c) (sigw hx) (post_train (map fst hx))
    (pre_train c k (map fst hx)) +
  c_lr_pre RN c *
  pairsum (c_mode RN c) (c_dt RN c) (c_tc_post RN c) (sigw hx) (pre_train c k (map fst hx))
    (post_train (map fst hx)).
Proof. exact (@Inferno.C08.StdpProofs.mstdp_scaled). Qed.
Print Assumptions mstdp_scaled.
