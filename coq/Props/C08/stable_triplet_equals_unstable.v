(* Obligation C08/stable_triplet_equals_unstable.  Statement as printed by Coq from Inferno.C08.StdpProofs; proof by reference.
   This file contains nothing else, so the statement cannot be weakened quietly. *)
From Coq Require Import List ZArith Reals Bool.
From Inferno Require Import Base.Num Base.NumR Gen.Trace Gen.Infra C08.Stdp C08.StdpSpec C08.StdpProofs.
Import ListNotations.
Open Scope R_scope.
Theorem stable_triplet_equals_unstable : forall (c : config RN) (k : nat) (h : list (bool * bool)),
  grid_ok c k ->
  c_lr_post RN c <> 0 ->
  c_lr_pre RN c <> 0 ->
  weight_change (set_trainer c StableTripletSTDP) k (nosig h) =
  weight_change (set_trainer c TripletSTDP) k (nosig h).
Proof. exact (@Inferno.C08.StdpProofs.stable_triplet_equals_unstable). Qed.
Print Assumptions stable_triplet_equals_unstable.
