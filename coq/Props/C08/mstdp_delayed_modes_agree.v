(* Obligation C08/mstdp_delayed_modes_agree.  Statement as printed by Coq from Inferno.C08.StdpProofs; proof by reference.
   This file contains nothing else, so the statement cannot be weakened quietly. *)
From Coq Require Import List ZArith Reals Bool.
From Inferno Require Import Base.Num Base.NumR Gen.Trace Gen.Infra C08.Stdp C08.StdpSpec C08.StdpProofs.
Import ListNotations.
Open Scope R_scope.
Theorem mstdp_delayed_modes_agree : forall (c : config RN) (k : nat) (hx : list (bool * bool * (R * R))),
  c_trainer RN c = MSTDP ->
  grid_ok c k ->
  weight_change (set_delayed c true) k (withsig hx) =
  weight_change (set_delayed c false) k (withsig hx).
Proof. exact (@Inferno.C08.StdpProofs.mstdp_delayed_modes_agree). Qed.
Print Assumptions mstdp_delayed_modes_agree.
