(* Obligation XM/c08_acc_add_eq.  Statement as printed by Coq from Inferno.XModel.AccC09; proof by reference.
   This file contains nothing else, so the statement cannot be weakened quietly. *)
From Coq Require Import List ZArith Bool Arith Lia.
From Inferno Require Import Base.Num Gen.Bounding.
From Inferno Require C08.Stdp C09.Split C10.Updater.
From Inferno Require Import XModel.AccC09.
Import ListNotations.
Theorem c08_acc_add_eq : forall N : Num, Stdp.acc_add N = Split.part_add N.
Proof. exact (@Inferno.XModel.AccC09.c08_acc_add_eq). Qed.
Print Assumptions c08_acc_add_eq.
