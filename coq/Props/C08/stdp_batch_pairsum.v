(* Obligation C08/stdp_batch_pairsum.  Statement as printed by Coq from Inferno.C08.StdpProofs; proof by reference.
   This file contains nothing else, so the statement cannot be weakened quietly. *)
From Coq Require Import List ZArith Reals Bool.
From Inferno Require Import Base.Num Base.NumR Gen.Trace Gen.Infra C08.Stdp C08.StdpSpec C08.StdpProofs.
Import ListNotations.
Open Scope R_scope.
Theorem stdp_batch_pairsum : forall (c : config RN) (k B : nat) (steps : list (list (bool * bool))),
  c_trainer RN c = STDP \/ c_trainer RN c = StableSTDP ->
  grid_ok c k ->
  Forall (fun pqs : list (bool * bool) => length pqs = B) steps ->
  let per_sample :=
    fun b : nat =>
    c_lr_post RN c *
    pairsum (c_mode RN c) (c_dt RN c) (c_tc_pre RN c) (fun _ : nat => 1)
      (post_train (hist_of b steps)) (pre_train c k (hist_of b steps)) +
    c_lr_pre RN c *
    pairsum (c_mode RN c) (c_dt RN c) (c_tc_post RN c) (fun _ : nat => 1)
      (pre_train c k (hist_of b steps)) (post_train (hist_of b steps)) in
  (c_red RN c = RSum -> weight_change_batch c k B (nosig_batch steps) = sum_steps B per_sample) /\
  (c_red RN c = RMean ->
   (0 < B)%nat ->
   weight_change_batch c k B (nosig_batch steps) = sum_steps B per_sample / INR B).
Proof. exact (@Inferno.C08.StdpProofs.stdp_batch_pairsum). Qed.
Print Assumptions stdp_batch_pairsum.
