(* Obligation XM/c08_push_trace_run.  Statement as printed by Coq from Inferno.XModel.Folds; proof by reference.
   This file contains nothing else, so the statement cannot be weakened quietly. *)
From Coq Require Import List ZArith Bool Arith Lia.
From Inferno Require Import Base.Num Gen.Infra Gen.Trace C01.Ring C01.RingProofs C07.Reducer C07.ReducerProofs.
From Inferno Require C18.DelayAdj C08.Stdp.
From Inferno Require Import XModel.Folds.
Import ListNotations.
Theorem c08_push_trace_run : forall (M : Num) (m : Stdp.tmode) (tc amp : T M) (sh : list nat) 
    (e : nat) (obss : list (list bool)) (r : reducer M) (h : list (T M)),
  good M sh r ->
  hrepr M r e h ->
  Forall (fun o : list bool => length o = nel sh) obss ->
  e < nel sh ->
  (rinit r = false -> length (hd [] (rhist r)) = nel sh) ->
  hrepr M (feed M (cls_of M m tc amp) sh r (map (map (b2t M)) obss)) e
    (fold_left
       (fun (h0 : list (T M)) (o : list bool) =>
        Stdp.push_trace M m (rdecay r) amp h0 (nth e o false)) obss h).
Proof. exact (@Inferno.XModel.Folds.c08_push_trace_run). Qed.
Print Assumptions c08_push_trace_run.
