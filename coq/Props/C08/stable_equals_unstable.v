(* Obligation C08/stable_equals_unstable.  Statement as printed by Coq from Inferno.C08.StdpProofs; proof by reference.
   This file contains nothing else, so the statement cannot be weakened quietly. *)
From Coq Require Import List ZArith Reals Bool.
From Inferno Require Import Base.Num Base.NumR Gen.Trace Gen.Infra C08.Stdp C08.StdpSpec C08.StdpProofs.
Import ListNotations.
Open Scope R_scope.
Theorem stable_equals_unstable : forall (c : config RN) (k : nat) (h : list (bool * bool)),
  grid_ok c k ->
  weight_change (set_trainer c StableSTDP) k (nosig h) =
  weight_change (set_trainer c STDP) k (nosig h).
Proof. exact (@Inferno.C08.StdpProofs.stable_equals_unstable). Qed.
Print Assumptions stable_equals_unstable.
