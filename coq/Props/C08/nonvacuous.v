(* Obligation C08/nonvacuous: the hypotheses of the C08 theorems (grid_ok, trainer / mode equations, inputs_ok) are met
   by a concrete non-trivial cell (STDP, cumulative traces, delay of 1 step on a connection whose maximum delay is 2 steps,
   trainer in the `delayed` mode) and history (pre spikes at steps 0 and 2, post spikes at steps 1, 2, 3); the delayed
   train, the partners of a spike and the most recent partner are what the statement says; and the theorem
   stdp_cumulative_pairsum then gives a strictly positive weight change (so it is not about an empty class of runs). *)
From Coq Require Import List ZArith Reals Bool Lra Lia.
From Inferno Require Import Base.Num Base.NumR Gen.Trace Gen.Infra C08.Stdp C08.StdpSpec C08.StdpProofs.
Import ListNotations.
Open Scope R_scope.

Definition c0 : config RN :=
  mkConfig RN STDP Cumulative 1 1 (-1/4) 20 15 0 0 0 0 0 true (Some (INR 2 * 1)) RMean None.
Definition h0 : list (bool * bool) := [(true, false); (false, true); (true, true); (false, true)].

Theorem nonvacuous :
  grid_ok c0 1 /\ c_trainer RN c0 = STDP /\ c_mode RN c0 = Cumulative /\
  spike_times (pre_train c0 1 h0) = [1; 3]%nat /\ spike_times (post_train h0) = [1; 2; 3]%nat /\
  partners_le (pre_train c0 1 h0) 3 = [1; 3]%nat /\ latest_upto (pre_train c0 1 h0) 3 = Some 1%nat /\
  inputs_ok 2 [([(true, false); (false, true)], SigNone RN); ([(false, true); (true, true)], SigScalar RN 1 2)] /\
  0 < weight_change c0 1 (nosig h0).
Proof.
  assert (G : grid_ok c0 1).
  { split; [reflexivity|]. split; [cbn; lra|]. right. exists 2%nat. split; [reflexivity|lia]. }
  assert (E1 : spike_times (pre_train c0 1 h0) = [1; 3]%nat) by (vm_compute; reflexivity).
  assert (E2 : spike_times (post_train h0) = [1; 2; 3]%nat) by (vm_compute; reflexivity).
  split; [exact G|]. split; [reflexivity|]. split; [reflexivity|]. split; [exact E1|]. split; [exact E2|].
  split; [vm_compute; reflexivity|]. split; [vm_compute; reflexivity|]. split.
  - repeat constructor.
  - rewrite (stdp_cumulative_pairsum c0 1 h0 (or_introl eq_refl) eq_refl G), E1, E2.
    cbn [sum_over filter Nat.leb c_lr_post c_lr_pre c_dt c_tc_pre c_tc_post c0].
    assert (Lo : forall x, 1 + x <= Rtrigo_def.exp x).
    { intros x. destruct (Req_dec x 0) as [->|Hn]; [rewrite exp_0; lra|]. left. apply exp_ineq1. exact Hn. }
    assert (Up : forall x, x <= 0 -> Rtrigo_def.exp x <= 1).
    { intros x Hx. destruct (Req_dec x 0) as [->|Hn]; [rewrite exp_0; lra|].
      left. rewrite <- exp_0. apply exp_increasing. lra. }
    repeat match goal with |- context [Rtrigo_def.exp ?x] =>
      let e := fresh "e" in let He := fresh "He" in
      assert (He : x <= 0) by (cbn [INR]; lra);
      pose proof (Lo x); pose proof (Up x He); clear He; set (e := Rtrigo_def.exp x) in * end.
    cbn [INR] in *. lra.
Qed.
Print Assumptions nonvacuous.
