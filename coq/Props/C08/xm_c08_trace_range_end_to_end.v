(* Obligation XM/c08_trace_range_end_to_end.  Statement as printed by Coq from Inferno.XModel.TraceC08R; proof by reference.
   This file contains nothing else, so the statement cannot be weakened quietly. *)
From Coq Require Import List ZArith Bool Arith Lia Reals Lra.
From Inferno Require Import Base.Num Base.NumR Gen.Infra Gen.Interpolation C01.Ring C01.RingProofs C02.Select C02.SelectProofs C07.Reducer C07.ReducerProofs.
From Inferno Require C08.Stdp.
From Inferno Require Import XModel.XLists XModel.SelectC07 XModel.SelectC07R XModel.SelectC08 XModel.Folds XModel.TraceC08R.
Import ListNotations.
Local Open Scope R_scope.
Theorem c08_trace_range_end_to_end : forall (m : Stdp.tmode) (tc amp dt dur tol : R) (incl inpl : bool),
  0 < dt ->
  0 <= tol < dt / 2 ->
  forall (sh : list nat) (e : nat) (obss : list (list bool)),
  (e < nel sh)%nat ->
  Forall (fun o : list bool => length o = nel sh) obss ->
  forall t : R,
  incl = true ->
  - tol <= t ->
  out_of_range RN (machine m tc amp dt dur incl inpl sh obss) t tol =
  negb (Z.of_nat (c08_k dt tol t) <? Stdp.recsz RN dur dt)%Z.
Proof. exact (@Inferno.XModel.TraceC08R.c08_trace_range_end_to_end). Qed.
Print Assumptions c08_trace_range_end_to_end.
