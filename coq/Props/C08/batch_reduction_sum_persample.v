(* Obligation C08/batch_reduction_sum_persample.  Statement as printed by Coq from Inferno.C08.StdpProofs; proof by reference.
   This file contains nothing else, so the statement cannot be weakened quietly. *)
From Coq Require Import List ZArith Reals Bool.
From Inferno Require Import Base.Num Base.NumR Gen.Trace Gen.Infra C08.Stdp C08.StdpSpec C08.StdpProofs.
Import ListNotations.
Open Scope R_scope.
Theorem batch_reduction_sum_persample : forall (c : config RN) (k B : nat) (inps : list (list (bool * bool) * signal RN)),
  c_red RN c = RSum ->
  inputs_ok_ps B inps ->
  weight_change_batch c k B inps =
  sum_steps B (fun b : nat => weight_change c k (sample_ps b inps)).
Proof. exact (@Inferno.C08.StdpProofs.batch_reduction_sum_persample). Qed.
Print Assumptions batch_reduction_sum_persample.
