(* Obligation XM/nonvacuous.  Statement as printed by Coq from Inferno.XModel.Witness; proof by reference.
   This file contains nothing else, so the statement cannot be weakened quietly. *)
From Coq Require Import List ZArith Bool Arith Lia.
From Inferno Require Import Base.Num Gen.Infra C01.Ring C01.RingProofs.
From Inferno Require C02.Select C04.Synapse C07.Reducer C07.ReducerProofs C08.Stdp C09.Split C10.Updater C18.DelayAdj.
From Inferno Require C13.Shaped C13.Resize C13.ResizeProofs C13.Witness C14.Config C14.RecordCfg.
From Inferno Require Import XModel.XLists XModel.SelectC04 XModel.SelectC07 XModel.AccC09 XModel.RecSize XModel.ResizeC07 XModel.Folds XModel.Witness.
Import ListNotations.
Open Scope Z_scope.
Theorem nonvacuous : (st ring3 = SFull tt [2%nat] [[1; 2]; [5; 6]; [3; 4]] /\
   N ring3 <> 1%nat /\
   2%nat = (if (length [2; 2] =? length [2])%nat then 1%nat else last [2%nat; 2%nat] 0%nat) /\
   length sel4 = (nel [2] * 2)%nat /\
   Synapse.synparam_at ZN ring3 1 2 0 (fun p n _ _ : T ZN => p + n) 
     (fun x : T ZN => x) (Some (-1)) [2%nat; 2%nat] sel4 =
   Synapse.SOk ([2%nat; 2%nat], [5; 3; 2; -1])) /\
  (ofZ ZN 1 = one ZN /\
   Reducer.kzero Kpass = zero ZN /\
   Reducer.rinit r07 = false /\
   Reducer.rd_view_tensor ZN Kpass r07 [[0; 1]; [2; 2]] 0 =
   Reducer.ROk r07 (Reducer.RView [[5; 1]; [4; 4]])) /\
  (ResizeProofs.rwf ZN r13 /\
   Resize.rvalid ZN r13 = true /\
   ResizeProofs.no_alias0 ZN r13 /\
   ResizeProofs.setter_ok ZN r13 (ResizeProofs.SetDt ZN 2) /\
   Resize.rg ZN r13 = Reducer.rrec r07 /\
   cfg14 ZN (fst (Resize.set_dt ZN 0 r13 2)) = Config.rec_new ZN 2 2 true /\
   Config.r_size ZN (Config.rec_new ZN 2 2 true) = 2 /\
   hist (Reducer.record_set_dt ZN Kpass r07 2) = [[5; 6]; [1; 2]] /\
   ResizeProofs.Inv ZN Witness.r0) /\
  Updater.bind_apply ZN
    (emb_bind ZN (Split.BHalf ZN (Split.SBound ZN (Split.HMulU ZN) 10) Split.SId)) [4]
    (single ZN (Some 3)) (single ZN (Some 5)) = Updater.Ok (Some [13]) /\
  (let K := Reducer.cls_event ZN (fun x : T ZN => x =? 1) Reducer.ENan in
   let r := Reducer.fresh ZN K 1 0 true false in
   good ZN [2%nat] r /\
   ReducerProofs.prior (feed ZN K [2%nat] r [[1; 0]; [0; 0]]) = Some [Some 1; None]).
Proof. exact (@Inferno.XModel.Witness.nonvacuous). Qed.
Print Assumptions nonvacuous.
