(* Obligation C08/spike_times_shift.  Statement as printed by Coq from Inferno.C08.StdpProofs; proof by reference.
   This file contains nothing else, so the statement cannot be weakened quietly. *)
From Coq Require Import List ZArith Reals Bool.
From Inferno Require Import Base.Num Base.NumR Gen.Trace Gen.Infra C08.Stdp C08.StdpSpec C08.StdpProofs.
Import ListNotations.
Open Scope R_scope.
Theorem spike_times_shift : forall (j : nat) (l : list bool),
  spike_times (shift j l) =
  map (fun s : nat => (s + j)%nat) (filter (fun s : nat => s + j <? length l) (spike_times l)).
Proof. exact (@Inferno.C08.StdpProofs.spike_times_shift). Qed.
Print Assumptions spike_times_shift.
