(* Obligation C08/triplet_factor.  Statement as printed by Coq from Inferno.C08.StdpProofs; proof by reference.
   This file contains nothing else, so the statement cannot be weakened quietly. *)
From Coq Require Import List ZArith Reals Bool.
From Inferno Require Import Base.Num Base.NumR Gen.Trace Gen.Infra C08.Stdp C08.StdpSpec C08.StdpProofs.
Import ListNotations.
Open Scope R_scope.
Theorem triplet_factor : forall (c : config RN) (k : nat) (h : list (bool * bool)),
  c_trainer RN c = TripletSTDP \/ c_trainer RN c = StableTripletSTDP ->
  c_lr_post RN c <> 0 ->
  c_lr_pre RN c <> 0 ->
  grid_ok c k ->
  weight_change c k (nosig h) =
  pairsum (c_mode RN c) (c_dt RN c) (c_tc_pre RN c)
    (fun t : nat =>
     c_lr_post RN c +
     sgn (c_lr_post RN c) * Rabs (c_lr_post3 RN c) *
     prev_sum (c_mode RN c) (c_dt RN c) (c_tc_post_slow RN c) (post_train h) t) 
    (post_train h) (pre_train c k h) +
  pairsum (c_mode RN c) (c_dt RN c) (c_tc_post RN c)
    (fun t : nat =>
     c_lr_pre RN c +
     sgn (c_lr_pre RN c) * Rabs (c_lr_pre3 RN c) *
     prev_sum (c_mode RN c) (c_dt RN c) (c_tc_pre_slow RN c) (pre_train c k h) t)
    (pre_train c k h) (post_train h).
Proof. exact (@Inferno.C08.StdpProofs.triplet_factor). Qed.
Print Assumptions triplet_factor.
