(* Obligation XM/c08_read2_eq.  Statement as printed by Coq from Inferno.XModel.SelectC08; proof by reference.
   This file contains nothing else, so the statement cannot be weakened quietly. *)
From Coq Require Import List ZArith Bool Arith Lia Reals Lra.
From Inferno Require Import Base.Num Base.NumR Gen.Infra Gen.Interpolation C01.Ring C01.RingProofs C02.Select C02.SelectProofs.
From Inferno Require C08.Stdp.
From Inferno Require Import XModel.SelectC08.
Import ListNotations.
Local Open Scope R_scope.
Theorem c08_read2_eq : forall (s : ringR) (e : nat) (h : list R),
  wf s -> repr s e h -> Stdp.rd 0 (Z.of_nat (N s)) h 1 = nth e (at_ s 2) 0.
Proof. exact (@Inferno.XModel.SelectC08.c08_read2_eq). Qed.
Print Assumptions c08_read2_eq.
