(* Obligation C13/uninitialised_remove_accepted.  Statement as printed by Coq from Inferno.C13.ShapedProofs; proof by reference.
   This file contains nothing else, so the statement cannot be weakened quietly. *)
From Coq Require Import List ZArith Bool Arith Lia.
From Inferno Require Import Base.Num Gen.Infra C01.Ring C01.RingProofs C13.Shaped C13.Lists C13.ShapedProofs C13.Resize C13.ResizeProofs.
Import ListNotations.
Theorem uninitialised_remove_accepted : forall (A D : Type) (zeroA : A) (s : @shaped A D) (d : Z) (sz : nat),
  @ignore A D (@sdat A D s) = true ->
  lookup (@scons A D s) d = @Some nat sz ->
  @reconstrain A D zeroA s d (@None Z) =
  (@set_cons A D s (dict_del (@scons A D s) d), @None xerr).
Proof. exact (@Inferno.C13.ShapedProofs.uninitialised_remove_accepted). Qed.
Print Assumptions uninitialised_remove_accepted.
