(* Obligation C13/gen_consistent_eq.  Statement as printed by Coq from Inferno.C13.GenTie; proof by reference.
   This file contains nothing else, so the statement cannot be weakened quietly. *)
From Coq Require Import List ZArith Bool Arith Lia.
From Inferno Require Import Gen.Constraints C01.Ring C13.Shaped C13.Lists C13.ShapedProofs C13.GenTie.
Import ListNotations.
Theorem gen_consistent_eq : forall (c : cons_t) (nd : nat), constraints_consistent c nd = _constraints_consistent c nd.
Proof. exact (@Inferno.C13.GenTie.gen_consistent_eq). Qed.
Print Assumptions gen_consistent_eq.
