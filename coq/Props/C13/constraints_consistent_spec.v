(* Obligation C13/constraints_consistent_spec.  Statement as printed by Coq from Inferno.C13.ShapedProofs; proof by reference.
   This file contains nothing else, so the statement cannot be weakened quietly. *)
From Coq Require Import List ZArith Bool Arith Lia.
From Inferno Require Import Base.Num Gen.Infra C01.Ring C01.RingProofs C13.Shaped C13.Lists C13.ShapedProofs C13.Resize C13.ResizeProofs.
Import ListNotations.
Theorem constraints_consistent_spec : forall (c : cons_t) (nd : nat),
  in_range nd c -> constraints_consistent c nd = true <-> pairwise_consistent nd c.
Proof. exact (@Inferno.C13.ShapedProofs.constraints_consistent_spec). Qed.
Print Assumptions constraints_consistent_spec.
