(* Obligation C13/gen_ignore_or_compatible_eq.  Statement as printed by Coq from Inferno.C13.GenTie; proof by reference.
   This file contains nothing else, so the statement cannot be weakened quietly. *)
From Coq Require Import List ZArith Bool Arith Lia.
From Inferno Require Import Gen.Constraints C01.Ring C13.Shaped C13.Lists C13.ShapedProofs C13.GenTie.
Import ListNotations.
Theorem gen_ignore_or_compatible_eq : forall (A D : Type) (x : @sdata A D) (c : cons_t) (strict : bool),
  @ignore_or_compatible A D x c strict =
  ShapedTensor__ignore_or_compatible (@pd_of A D x) c strict.
Proof. exact (@Inferno.C13.GenTie.gen_ignore_or_compatible_eq). Qed.
Print Assumptions gen_ignore_or_compatible_eq.
