(* Obligation C13/user_cons_created.  Statement as printed by Coq from Inferno.C13.ResizeProofs; proof by reference.
   This file contains nothing else, so the statement cannot be weakened quietly. *)
From Coq Require Import List ZArith Bool Arith Lia.
From Inferno Require Import Base.Num Gen.Infra C01.Ring C01.RingProofs C13.Shaped C13.Lists C13.ShapedProofs C13.Resize C13.ResizeProofs.
Import ListNotations.
Theorem user_cons_created : forall (Nm : Num) (A D : Type),
  (D -> A -> A) ->
  (D -> D -> D) ->
  (D -> D -> bool) ->
  A ->
  D ->
  forall (strict live param : bool) (ucons : cons_t) (dt dur : T Nm) 
    (incl : bool) (value : option (@tensor A D)) (r : @rec Nm A D),
  @rcreate Nm A D strict live param ucons dt dur incl value = @inl (@rec Nm A D) xerr r ->
  @user_cons Nm A D r = ucons.
Proof. exact (@Inferno.C13.ResizeProofs.user_cons_created). Qed.
Print Assumptions user_cons_created.
