(* Obligation C13/resize_hist.  Statement as printed by Coq from Inferno.C13.ResizeProofs; proof by reference.
   This file contains nothing else, so the statement cannot be weakened quietly. *)
From Coq Require Import List ZArith Bool Arith Lia.
From Inferno Require Import Base.Num Gen.Infra C01.Ring C01.RingProofs C13.Shaped C13.Lists C13.ShapedProofs C13.Resize C13.ResizeProofs.
Import ListNotations.
Theorem resize_hist : forall (Nm : Num) (A D : Type),
  (D -> A -> A) ->
  (D -> D -> D) ->
  (D -> D -> bool) ->
  forall zeroA : A,
  D ->
  forall (r r' : rec Nm) (s : setter Nm) (d : D) (sh : list nat) (rws : list (list A)),
  rwf Nm r ->
  rvalid Nm r = true ->
  no_alias0 Nm r ->
  setter_ok Nm r s ->
  apply_setter Nm zeroA r s = (r', None) ->
  st (rg Nm r) = SFull d sh rws ->
  hist (rg Nm r') =
  firstn (N (rg Nm r'))
    (hist (rg Nm r) ++ repeat (repeat zeroA (nel sh)) (N (rg Nm r') - N (rg Nm r))).
Proof. exact (@Inferno.C13.ResizeProofs.resize_hist). Qed.
Print Assumptions resize_hist.
