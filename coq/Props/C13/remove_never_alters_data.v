(* Obligation C13/remove_never_alters_data.  Statement as printed by Coq from Inferno.C13.ShapedProofs; proof by reference.
   This file contains nothing else, so the statement cannot be weakened quietly. *)
From Coq Require Import List ZArith Bool Arith Lia.
From Inferno Require Import Base.Num Gen.Infra C01.Ring C01.RingProofs C13.Shaped C13.Lists C13.ShapedProofs C13.Resize C13.ResizeProofs.
Import ListNotations.
Theorem remove_never_alters_data : forall (A D : Type) (zeroA : A) (s : @shaped A D) (d : Z),
  @sdat A D (@fst (@shaped A D) (option xerr) (@reconstrain A D zeroA s d (@None Z))) =
  @sdat A D s.
Proof. exact (@Inferno.C13.ShapedProofs.remove_never_alters_data). Qed.
Print Assumptions remove_never_alters_data.
