(* Obligation C13/rstep_inv.  Statement as printed by Coq from Inferno.C13.ResizeProofs; proof by reference.
   This file contains nothing else, so the statement cannot be weakened quietly. *)
From Coq Require Import List ZArith Bool Arith Lia.
From Inferno Require Import Base.Num Gen.Infra C01.Ring C01.RingProofs C13.Shaped C13.Lists C13.ShapedProofs C13.Resize C13.ResizeProofs.
Import ListNotations.
Theorem rstep_inv : forall (Nm : Num) (A D : Type) (cast : D -> A -> A) (promote : D -> D -> D)
    (D_eqb : D -> D -> bool) (zeroA : A) (default_d : D) (r : rec Nm) 
    (o : rop Nm),
  Inv Nm r ->
  good Nm r o -> Inv Nm (fst (fst (rstep Nm cast promote D_eqb zeroA default_d r o))).
Proof. exact (@Inferno.C13.ResizeProofs.rstep_inv). Qed.
Print Assumptions rstep_inv.
