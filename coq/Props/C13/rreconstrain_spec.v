(* Obligation C13/rreconstrain_spec.  Statement as printed by Coq from Inferno.C13.ResizeProofs; proof by reference.
   This file contains nothing else, so the statement cannot be weakened quietly. *)
From Coq Require Import List ZArith Bool Arith Lia.
From Inferno Require Import Base.Num Gen.Infra C01.Ring C01.RingProofs C13.Shaped C13.Lists C13.ShapedProofs C13.Resize C13.ResizeProofs.
Import ListNotations.
Theorem rreconstrain_spec : forall (Nm : Num) (A D : Type),
  (D -> A -> A) ->
  (D -> D -> D) ->
  (D -> D -> bool) ->
  forall zeroA : A,
  D ->
  forall (r : rec Nm) (dim : Z) (size : option Z),
  rwf Nm r ->
  rvalid Nm r = true ->
  no_alias0 Nm r ->
  rstrict Nm r = true \/
  (forall (d : D) (sh : list nat) (rws : list (list A)),
   st (rg Nm r) = SFull d sh rws -> pyidx (S (length sh)) (shifted dim) <> 0) ->
  exists (r' : rec Nm) (e : option xerr),
    rreconstrain Nm zeroA r dim size = (r', e) /\
    rwf Nm r' /\
    rvalid Nm r' = true /\
    no_alias0 Nm r' /\
    N (rg Nm r') = N (rg Nm r) /\
    rdt Nm r' = rdt Nm r /\
    rdur Nm r' = rdur Nm r /\
    rincl Nm r' = rincl Nm r /\
    rstrict Nm r' = rstrict Nm r /\
    rlive Nm r' = rlive Nm r /\
    rparam Nm r' = rparam Nm r /\
    (rcons Nm r' = rcons Nm r \/
     (exists sz : nat,
        rcons Nm r' = dict_set (rcons Nm r) (shifted dim) sz /\
        e = None /\ size = Some (Z.of_nat sz)) \/
     rcons Nm r' = dict_del (rcons Nm r) (shifted dim) /\ size = None) /\
    (~ full (rg Nm r) -> st (rg Nm r') = st (rg Nm r) /\ ptr (rg Nm r') = ptr (rg Nm r)) /\
    (forall (d : D) (sh : list nat) (rws : list (list A)),
     st (rg Nm r) = SFull d sh rws ->
     (exists rws' : list (list A),
        st (rg Nm r') = SFull d sh rws' /\ (forall k : Z, at_ (rg Nm r') k = at_ (rg Nm r) k)) \/
     (exists (j sz : nat) (rws' : list (list A)),
        e = None /\
        size = Some (Z.of_nat sz) /\
        In (shifted dim) (keys (rcons Nm r)) /\
        pyidx (S (length sh)) (shifted dim) = S j /\
        j < length sh /\
        rcons Nm r' = dict_set (rcons Nm r) (shifted dim) sz /\
        st (rg Nm r') = SFull d (upd sh j sz) rws' /\
        (forall k : Z, at_ (rg Nm r') k = resize_dim zeroA sh (at_ (rg Nm r) k) j sz))).
Proof. exact (@Inferno.C13.ResizeProofs.rreconstrain_spec). Qed.
Print Assumptions rreconstrain_spec.
