(* Obligation C13/setter_alias_nonstrict_refuted.  Statement as printed by Coq from Inferno.C13.Witness; proof by reference.
   This file contains nothing else, so the statement cannot be weakened quietly. *)
From Coq Require Import List ZArith Bool Arith Lia.
From Inferno Require Import Base.Num Gen.Infra C01.Ring C01.RingProofs C13.Shaped C13.Lists C13.ShapedProofs C13.Resize C13.ResizeProofs C13.Witness.
Import ListNotations.
Open Scope Z_scope.
Theorem setter_alias_nonstrict_refuted : exists r r' : rec ZN,
    aliased = inl r /\
    rwf ZN r /\
    rvalid ZN r = true /\
    rstrict ZN r = false /\
    ~ no_alias0 ZN r /\
    setter_ok ZN r (SetDur ZN 5) /\
    apply_setter ZN 0 r (SetDur ZN 5) = (r', Some XRuntime) /\
    rdur ZN r' = 5 /\ N (rg ZN r') = 3%nat /\ rsize ZN r' = 5%nat.
Proof. exact (@Inferno.C13.Witness.setter_alias_nonstrict_refuted). Qed.
Print Assumptions setter_alias_nonstrict_refuted.
