(* Obligation C13/run_formula.  Statement as printed by Coq from Inferno.C13.FormulaProofs; proof by reference.
   This file contains nothing else, so the statement cannot be weakened quietly. *)
From Coq Require Import List ZArith Bool Arith Lia Reals Lra.
From Flocq Require Import Core.Raux.
From Inferno Require Import Base.Num Base.NumR Gen.Infra C01.Ring C01.RingProofs C13.Shaped C13.Lists C13.ShapedProofs C13.Resize C13.ResizeProofs C13.FormulaProofs.
Import ListNotations.
Open Scope R_scope.
Theorem run_formula : forall (A D : Type) (cast : D -> A -> A) (promote : D -> D -> D) 
    (D_eqb : D -> D -> bool) (zeroA : A) (default_d : D) (strict live param : bool)
    (ucons : cons_t) (dt dur : T RN) (incl : bool) (value : option tensor) 
    (r0 : rec RN) (ops : list (rop RN)),
  rcreate RN strict live param ucons dt dur incl value = inl r0 ->
  NoDup (keys ucons) ->
  match value with
  | Some t => length (tflat t) = nel (tshape t)
  | None => True
  end ->
  strict = true \/
  match value with
  | Some t =>
      forall (dd : Z) (s : nat),
      In (dd, s) (shift_cons ucons) -> pyidx (S (length (tshape t))) dd <> 0%nat
  | None => True
  end ->
  all_good RN cast promote D_eqb zeroA default_d r0 ops ->
  let r := rrun RN cast promote D_eqb zeroA default_d r0 ops in
  Inv RN r /\
  Z.of_nat (N (rg RN r)) =
  Z.max (Zceil (rdur RN r / rdt RN r) + (if rincl RN r then 1%Z else 0%Z)) 1.
Proof. exact (@Inferno.C13.FormulaProofs.run_formula). Qed.
Print Assumptions run_formula.
