(* Obligation C13/resize_dim_spec.  Statement as printed by Coq from Inferno.C13.ResizeDimSpec; proof by reference.
   This file contains nothing else, so the statement cannot be weakened quietly. *)
From Coq Require Import List ZArith Bool Arith Lia.
From Inferno Require Import C01.Ring C13.Shaped C13.Lists C13.ResizeDimSpec.
Import ListNotations.
Theorem resize_dim_spec : forall (X : Type) (z : X) (sh : list nat) (fl : list X) (k size : nat) (idx : list nat),
  k < length sh ->
  length fl = nel sh ->
  in_bounds (upd sh k size) idx ->
  nth (lin (upd sh k size) idx) (resize_dim z sh fl k size) z =
  (if nth k idx 0 + nth k sh 0 <? size
   then z
   else nth (lin sh (upd idx k (nth k idx 0 + nth k sh 0 - size))) fl z).
Proof. exact (@Inferno.C13.ResizeDimSpec.resize_dim_spec). Qed.
Print Assumptions resize_dim_spec.
