(* Obligation C13/gen_rreconstrain_eq.  Statement as printed by Coq from Inferno.C13.GenTie; proof by reference.
   This file contains nothing else, so the statement cannot be weakened quietly. *)
From Coq Require Import List ZArith Bool Arith Lia.
From Inferno Require Import Base.Num Gen.Constraints C01.Ring C13.Shaped C13.Lists C13.ShapedProofs C13.Resize C13.GenTie.
Import ListNotations.
Theorem gen_rreconstrain_eq : forall (Nm : Num) (A D : Type) (zeroA : A) (r : @rec Nm A D) (dim : Z) (size : option Z),
  @rreconstrain Nm A D zeroA r dim size =
  match (if @rignored Nm A D r then @inl (@rec Nm A D) xerr r else @align0 Nm A D r) with
  | inl r1 =>
      let
      '(s', e) :=
       @reconstrain A D zeroA (@to_shaped Nm A D r1) (RecordTensor_reconstrain_dim dim) size
       in (@of_shaped Nm A D r1 s', e)
  | inr e => (r, @Some xerr e)
  end.
Proof. exact (@Inferno.C13.GenTie.gen_rreconstrain_eq). Qed.
Print Assumptions gen_rreconstrain_eq.
