(* Obligation C13/uninitialised_always_accepted.  Statement as printed by Coq from Inferno.C13.ShapedProofs; proof by reference.
   This file contains nothing else, so the statement cannot be weakened quietly. *)
From Coq Require Import List ZArith Bool Arith Lia.
From Inferno Require Import Base.Num Gen.Infra C01.Ring C01.RingProofs C13.Shaped C13.Lists C13.ShapedProofs C13.Resize C13.ResizeProofs.
Import ListNotations.
Theorem uninitialised_always_accepted : forall (A D : Type) (zeroA : A) (s : @shaped A D) (d z : Z),
  @ignore A D (@sdat A D s) = true ->
  (0 <= z)%Z ->
  @reconstrain A D zeroA s d (@Some Z z) =
  (@set_cons A D s (dict_set (@scons A D s) d (Z.to_nat z)), @None xerr).
Proof. exact (@Inferno.C13.ShapedProofs.uninitialised_always_accepted). Qed.
Print Assumptions uninitialised_always_accepted.
