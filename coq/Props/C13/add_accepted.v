(* Obligation C13/add_accepted.  Statement as printed by Coq from Inferno.C13.ShapedProofs; proof by reference.
   This file contains nothing else, so the statement cannot be weakened quietly. *)
From Coq Require Import List ZArith Bool Arith Lia.
From Inferno Require Import Base.Num Gen.Infra C01.Ring C01.RingProofs C13.Shaped C13.Lists C13.ShapedProofs C13.Resize C13.ResizeProofs.
Import ListNotations.
Theorem add_accepted : forall (A D : Type) (zeroA : A) (s : @shaped A D) (d z : Z),
  lookup (@scons A D s) d = @None nat ->
  (0 <= z)%Z ->
  @valid A D s = true ->
  match @sdat A D s with
  | DTensor t =>
      @ignore A D (@sdat A D s) = true \/
      @satisfies A D t (dict_set (@scons A D s) d (Z.to_nat z)) (@sstrict A D s)
  | _ => True
  end ->
  @reconstrain A D zeroA s d (@Some Z z) =
  (@set_cons A D s (dict_set (@scons A D s) d (Z.to_nat z)), @None xerr).
Proof. exact (@Inferno.C13.ShapedProofs.add_accepted). Qed.
Print Assumptions add_accepted.
