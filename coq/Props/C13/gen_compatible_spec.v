(* Obligation C13/gen_compatible_spec.  Statement as printed by Coq from Inferno.C13.GenTie; proof by reference.
   This file contains nothing else, so the statement cannot be weakened quietly. *)
From Coq Require Import List ZArith Bool Arith Lia.
From Inferno Require Import Gen.Constraints C01.Ring C13.Shaped C13.Lists C13.ShapedProofs C13.GenTie.
Import ListNotations.
Theorem gen_compatible_spec : forall (shape : list nat) (c : pydict) (strict : bool),
  _constraints_compatible shape c strict = true <->
  (forall (d : Z) (s : nat),
   In (d, s) c ->
   (- Z.of_nat (length shape) <= d < Z.of_nat (length shape))%Z /\
   nth (pyidx (length shape) d) shape 0 = s) /\
  (strict = true ->
   forall d1 d2 : Z,
   In d1 (keys c) ->
   In d2 (keys c) ->
   (0 <= d1)%Z -> (d2 < 0)%Z -> pyidx (length shape) d1 < pyidx (length shape) d2).
Proof. exact (@Inferno.C13.GenTie.gen_compatible_spec). Qed.
Print Assumptions gen_compatible_spec.
