(* Obligation C13/gen_dimensionality_spec.  Statement as printed by Coq from Inferno.C13.GenTie; proof by reference.
   This file contains nothing else, so the statement cannot be weakened quietly. *)
From Coq Require Import List ZArith Bool Arith Lia.
From Inferno Require Import Gen.Constraints C01.Ring C13.Shaped C13.Lists C13.ShapedProofs C13.GenTie.
Import ListNotations.
Theorem gen_dimensionality_spec : forall (c : pydict) (strict : bool) (n : Z),
  (0 <= n)%Z -> (_constraint_dimensionality c strict <= n)%Z <-> dim_ok c strict n.
Proof. exact (@Inferno.C13.GenTie.gen_dimensionality_spec). Qed.
Print Assumptions gen_dimensionality_spec.
