(* Obligation C13/temporal_setter_uninit_ok.  Statement as printed by Coq from Inferno.C13.ResizeProofs; proof by reference.
   This file contains nothing else, so the statement cannot be weakened quietly. *)
From Coq Require Import List ZArith Bool Arith Lia.
From Inferno Require Import Base.Num Gen.Infra C01.Ring C01.RingProofs C13.Shaped C13.Lists C13.ShapedProofs C13.Resize C13.ResizeProofs.
Import ListNotations.
Theorem temporal_setter_uninit_ok : forall (Nm : Num) (A D : Type),
  (D -> A -> A) ->
  (D -> D -> D) ->
  (D -> D -> bool) ->
  forall zeroA : A,
  D ->
  forall (r : @rec Nm A D) (s : setter Nm),
  @rwf Nm A D r ->
  ~ @full A D (@rg Nm A D r) ->
  @setter_ok Nm A D r s ->
  exists r' : @rec Nm A D,
    @apply_setter Nm A D zeroA r s = (r', @None xerr) /\
    @N A D (@rg Nm A D r') = @rsize Nm A D (@configured Nm A D r s) /\
    @st A D (@rg Nm A D r') = @st A D (@rg Nm A D r) /\
    @ptr A D (@rg Nm A D r') = @ptr A D (@rg Nm A D r) /\ @rcons Nm A D r' = @rcons Nm A D r.
Proof. exact (@Inferno.C13.ResizeProofs.temporal_setter_uninit_ok). Qed.
Print Assumptions temporal_setter_uninit_ok.
