(* Obligation C13/valid_spec.  Statement as printed by Coq from Inferno.C13.ShapedProofs; proof by reference.
   This file contains nothing else, so the statement cannot be weakened quietly. *)
From Coq Require Import List ZArith Bool Arith Lia.
From Inferno Require Import Base.Num Gen.Infra C01.Ring C01.RingProofs C13.Shaped C13.Lists C13.ShapedProofs C13.Resize C13.ResizeProofs.
Import ListNotations.
Theorem valid_spec : forall (A D : Type) (s : @shaped A D),
  @valid A D s = true <->
  match @sdat A D s with
  | DTensor t =>
      @ignore A D (@sdat A D s) = true \/ @satisfies A D t (@scons A D s) (@sstrict A D s)
  | _ => True
  end.
Proof. exact (@Inferno.C13.ShapedProofs.valid_spec). Qed.
Print Assumptions valid_spec.
