(* Obligation C13/resize_preserves_newest.  Statement as printed by Coq from Inferno.C13.ResizeProofs; proof by reference.
   This file contains nothing else, so the statement cannot be weakened quietly. *)
From Coq Require Import List ZArith Bool Arith Lia.
From Inferno Require Import Base.Num Gen.Infra C01.Ring C01.RingProofs C13.Shaped C13.Lists C13.ShapedProofs C13.Resize C13.ResizeProofs.
Import ListNotations.
Theorem resize_preserves_newest : forall (Nm : Num) (A D : Type),
  (D -> A -> A) ->
  (D -> D -> D) ->
  (D -> D -> bool) ->
  forall zeroA : A,
  D ->
  forall (r r' : @rec Nm A D) (s : setter Nm),
  @rwf Nm A D r ->
  @rvalid Nm A D r = true ->
  @no_alias0 Nm A D r ->
  @setter_ok Nm A D r s ->
  @apply_setter Nm A D zeroA r s = (r', @None xerr) ->
  forall k : Z,
  (1 <= k <= Z.of_nat (Nat.min (@N A D (@rg Nm A D r)) (@N A D (@rg Nm A D r'))))%Z ->
  @at_ A D (@rg Nm A D r') k = @at_ A D (@rg Nm A D r) k.
Proof. exact (@Inferno.C13.ResizeProofs.resize_preserves_newest). Qed.
Print Assumptions resize_preserves_newest.
