(* Obligation C13/reconstrain_hist.  Statement as printed by Coq from Inferno.C13.ResizeProofs; proof by reference.
   This file contains nothing else, so the statement cannot be weakened quietly. *)
From Coq Require Import List ZArith Bool Arith Lia.
From Inferno Require Import Base.Num Gen.Infra C01.Ring C01.RingProofs C13.Shaped C13.Lists C13.ShapedProofs C13.Resize C13.ResizeProofs.
Import ListNotations.
Theorem reconstrain_hist : forall (Nm : Num) (A D : Type),
  (D -> A -> A) ->
  (D -> D -> D) ->
  (D -> D -> bool) ->
  forall zeroA : A,
  D ->
  forall (r : rec Nm) (dim : Z) (size : option Z) (d : D) (sh : list nat)
    (rws : list (list A)),
  rwf Nm r ->
  rvalid Nm r = true ->
  no_alias0 Nm r ->
  rstrict Nm r = true \/
  (forall (d0 : D) (sh0 : list nat) (rws0 : list (list A)),
   st (rg Nm r) = SFull d0 sh0 rws0 -> pyidx (S (length sh0)) (shifted dim) <> 0) ->
  st (rg Nm r) = SFull d sh rws ->
  let r' := fst (rreconstrain Nm zeroA r dim size) in
  N (rg Nm r') = N (rg Nm r) /\
  (hist (rg Nm r') = hist (rg Nm r) \/
   (exists j sz : nat,
      snd (rreconstrain Nm zeroA r dim size) = None /\
      size = Some (Z.of_nat sz) /\
      In (shifted dim) (keys (rcons Nm r)) /\
      pyidx (S (length sh)) (shifted dim) = S j /\
      j < length sh /\
      hist (rg Nm r') = map (fun o : list A => resize_dim zeroA sh o j sz) (hist (rg Nm r)))).
Proof. exact (@Inferno.C13.ResizeProofs.reconstrain_hist). Qed.
Print Assumptions reconstrain_hist.
