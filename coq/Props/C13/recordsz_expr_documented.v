(* Obligation C13/recordsz_expr_documented.  Statement as printed by Coq from Inferno.C13.FormulaProofs; proof by reference.
   This file contains nothing else, so the statement cannot be weakened quietly. *)
From Coq Require Import List ZArith Bool Arith Lia Reals Lra.
From Flocq Require Import Core.Raux.
From Inferno Require Import Base.Num Base.NumR Gen.Infra C01.Ring C01.RingProofs C13.Shaped C13.Lists C13.ShapedProofs C13.Resize C13.ResizeProofs C13.FormulaProofs.
Import ListNotations.
Open Scope R_scope.
Theorem recordsz_expr_documented : forall (dur dt : R) (incl : bool),
  recordsz_expr RN dur dt incl = Z.max (Zceil (dur / dt) + (if incl then 1%Z else 0%Z)) 1.
Proof. exact (@Inferno.C13.FormulaProofs.recordsz_expr_documented). Qed.
Print Assumptions recordsz_expr_documented.
