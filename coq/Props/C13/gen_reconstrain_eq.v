(* Obligation C13/gen_reconstrain_eq.  Statement as printed by Coq from Inferno.C13.GenTie; proof by reference.
   This file contains nothing else, so the statement cannot be weakened quietly. *)
From Coq Require Import List ZArith Bool Arith Lia.
From Inferno Require Import Gen.Constraints C01.Ring C13.Shaped C13.Lists C13.ShapedProofs C13.GenTie.
Import ListNotations.
Theorem gen_reconstrain_eq : forall (A D : Type) (zeroA : A) (s : @shaped A D) (d : Z) (z : option Z),
  @reconstrain A D zeroA s d z =
  match
    ShapedTensor_reconstrain (@pd_of A D (@sdat A D s)) (@scons A D s) (@sstrict A D s) d z
  with
  | RcReturn c true =>
      match @sdat A D s with
      | DTensor t =>
          match z with
          | Some zz =>
              ({|
                 sstrict := @sstrict A D s;
                 slive := @slive A D s;
                 sparam := @sparam A D s;
                 scons := c;
                 sdat := @DTensor A D (@make_compatible A D zeroA t d (Z.to_nat zz))
               |}, @None xerr)
          | None => (@set_cons A D s c, @None xerr)
          end
      | _ => (@set_cons A D s c, @None xerr)
      end
  | RcReturn c false => (@set_cons A D s c, @None xerr)
  | RcRaise e c => (@set_cons A D s c, @Some xerr (xerr_of_exc e))
  end.
Proof. exact (@Inferno.C13.GenTie.gen_reconstrain_eq). Qed.
Print Assumptions gen_reconstrain_eq.
