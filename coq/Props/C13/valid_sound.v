(* Obligation C13/valid_sound.  Statement as printed by Coq from Inferno.C13.ShapedProofs; proof by reference.
   This file contains nothing else, so the statement cannot be weakened quietly. *)
From Coq Require Import List ZArith Bool Arith Lia.
From Inferno Require Import Base.Num Gen.Infra C01.Ring C01.RingProofs C13.Shaped C13.Lists C13.ShapedProofs C13.Resize C13.ResizeProofs.
Import ListNotations.
Theorem valid_sound : forall (A D : Type) (s : @shaped A D) (t : @tensor A D),
  @valid A D s = true ->
  @sdat A D s = @DTensor A D t ->
  @ignore A D (@sdat A D s) = false ->
  forall (d : Z) (sz : nat),
  @In (Z * nat) (d, sz) (@scons A D s) ->
  (- Z.of_nat (@ndim A D t) <= d < Z.of_nat (@ndim A D t))%Z /\
  @nth nat (pyidx (@ndim A D t) d) (@tshape A D t) 0 = sz.
Proof. exact (@Inferno.C13.ShapedProofs.valid_sound). Qed.
Print Assumptions valid_sound.
