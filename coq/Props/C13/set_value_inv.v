(* Obligation C13/set_value_inv.  Statement as printed by Coq from Inferno.C13.ShapedProofs; proof by reference.
   This file contains nothing else, so the statement cannot be weakened quietly. *)
From Coq Require Import List ZArith Bool Arith Lia.
From Inferno Require Import Base.Num Gen.Infra C01.Ring C01.RingProofs C13.Shaped C13.Lists C13.ShapedProofs C13.Resize C13.ResizeProofs.
Import ListNotations.
Theorem set_value_inv : forall (A D : Type) (s : @shaped A D) (x : @sdata A D),
  @wfc A D s ->
  @valid A D s = true ->
  @slive A D s = true ->
  let s' := @fst (@shaped A D) (option xerr) (@set_value A D s x) in
  @wfc A D s' /\
  @valid A D s' = true /\
  @sstrict A D s' = @sstrict A D s /\
  @slive A D s' = @slive A D s /\ @sparam A D s' = @sparam A D s.
Proof. exact (@Inferno.C13.ShapedProofs.set_value_inv). Qed.
Print Assumptions set_value_inv.
