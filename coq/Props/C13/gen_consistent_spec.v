(* Obligation C13/gen_consistent_spec.  Statement as printed by Coq from Inferno.C13.GenTie; proof by reference.
   This file contains nothing else, so the statement cannot be weakened quietly. *)
From Coq Require Import List ZArith Bool Arith Lia.
From Inferno Require Import Gen.Constraints C01.Ring C13.Shaped C13.Lists C13.ShapedProofs C13.GenTie.
Import ListNotations.
Theorem gen_consistent_spec : forall (c : cons_t) (nd : nat),
  in_range nd c -> _constraints_consistent c nd = true <-> pairwise_consistent nd c.
Proof. exact (@Inferno.C13.GenTie.gen_consistent_spec). Qed.
Print Assumptions gen_consistent_spec.
