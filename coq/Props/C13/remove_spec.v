(* Obligation C13/remove_spec.  Statement as printed by Coq from Inferno.C13.ShapedProofs; proof by reference.
   This file contains nothing else, so the statement cannot be weakened quietly. *)
From Coq Require Import List ZArith Bool Arith Lia.
From Inferno Require Import Base.Num Gen.Infra C01.Ring C01.RingProofs C13.Shaped C13.Lists C13.ShapedProofs C13.Resize C13.ResizeProofs.
Import ListNotations.
Theorem remove_spec : forall (A D : Type) (zeroA : A) (s : @shaped A D) (d : Z) (sz : nat),
  @wfc A D s ->
  lookup (@scons A D s) d = @Some nat sz ->
  @fst (@shaped A D) (option xerr) (@reconstrain A D zeroA s d (@None Z)) =
  @set_cons A D s (dict_del (@scons A D s) d) /\
  lookup
    (@scons A D (@fst (@shaped A D) (option xerr) (@reconstrain A D zeroA s d (@None Z)))) d =
  @None nat /\
  (forall (d' : Z) (s' : nat),
   d' <> d ->
   @In (Z * nat) (d', s') (@scons A D s) ->
   @In (Z * nat) (d', s')
     (@scons A D (@fst (@shaped A D) (option xerr) (@reconstrain A D zeroA s d (@None Z))))) /\
  (@valid A D s = true ->
   @snd (@shaped A D) (option xerr) (@reconstrain A D zeroA s d (@None Z)) = @None xerr).
Proof. exact (@Inferno.C13.ShapedProofs.remove_spec). Qed.
Print Assumptions remove_spec.
