(* Obligation C13/edit_spec.  Statement as printed by Coq from Inferno.C13.ShapedProofs; proof by reference.
   This file contains nothing else, so the statement cannot be weakened quietly. *)
From Coq Require Import List ZArith Bool Arith Lia.
From Inferno Require Import Base.Num Gen.Infra C01.Ring C01.RingProofs C13.Shaped C13.Lists C13.ShapedProofs C13.Resize C13.ResizeProofs.
Import ListNotations.
Theorem edit_spec : forall (A D : Type) (zeroA : A) (s : @shaped A D) (t : @tensor A D) (d z : Z) (s0 : nat),
  @wfc A D s ->
  lookup (@scons A D s) d = @Some nat s0 ->
  (0 <= z)%Z ->
  @sdat A D s = @DTensor A D t ->
  @ignore A D (@sdat A D s) = false ->
  @valid A D s = true ->
  let sz := Z.to_nat z in
  let c' := dict_set (@scons A D s) d sz in
  (pairwise_consistent (@ndim A D t) c' ->
   @reconstrain A D zeroA s d (@Some Z z) =
   ({|
      sstrict := @sstrict A D s;
      slive := @slive A D s;
      sparam := @sparam A D s;
      scons := c';
      sdat := @DTensor A D (@make_compatible A D zeroA t d sz)
    |}, @None xerr) /\ @satisfies A D (@make_compatible A D zeroA t d sz) c' (@sstrict A D s)) /\
  (~ pairwise_consistent (@ndim A D t) c' ->
   @reconstrain A D zeroA s d (@Some Z z) = (s, @Some xerr XRuntime)).
Proof. exact (@Inferno.C13.ShapedProofs.edit_spec). Qed.
Print Assumptions edit_spec.
