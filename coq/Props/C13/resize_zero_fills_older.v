(* Obligation C13/resize_zero_fills_older.  Statement as printed by Coq from Inferno.C13.ResizeProofs; proof by reference.
   This file contains nothing else, so the statement cannot be weakened quietly. *)
From Coq Require Import List ZArith Bool Arith Lia.
From Inferno Require Import Base.Num Gen.Infra C01.Ring C01.RingProofs C13.Shaped C13.Lists C13.ShapedProofs C13.Resize C13.ResizeProofs.
Import ListNotations.
Theorem resize_zero_fills_older : forall (Nm : Num) (A D : Type),
  (D -> A -> A) ->
  (D -> D -> D) ->
  (D -> D -> bool) ->
  forall zeroA : A,
  D ->
  forall (r r' : rec Nm) (s : setter Nm) (d : D) (sh : list nat) (rws : list (list A)),
  rwf Nm r ->
  rvalid Nm r = true ->
  no_alias0 Nm r ->
  setter_ok Nm r s ->
  apply_setter Nm zeroA r s = (r', None) ->
  st (rg Nm r) = SFull d sh rws ->
  forall k : Z,
  (Z.of_nat (N (rg Nm r)) < k <= Z.of_nat (N (rg Nm r')))%Z ->
  at_ (rg Nm r') k = repeat zeroA (nel sh).
Proof. exact (@Inferno.C13.ResizeProofs.resize_zero_fills_older). Qed.
Print Assumptions resize_zero_fills_older.
