(* Obligation C13/gen_valid_eq.  Statement as printed by Coq from Inferno.C13.GenTie; proof by reference.
   This file contains nothing else, so the statement cannot be weakened quietly. *)
From Coq Require Import List ZArith Bool Arith Lia.
From Inferno Require Import Gen.Constraints C01.Ring C13.Shaped C13.Lists C13.ShapedProofs C13.GenTie.
Import ListNotations.
Theorem gen_valid_eq : forall (A D : Type) (s : @shaped A D),
  @valid A D s =
  ShapedTensor_valid true (@pd_of A D (@sdat A D s)) (@scons A D s) (@sstrict A D s).
Proof. exact (@Inferno.C13.GenTie.gen_valid_eq). Qed.
Print Assumptions gen_valid_eq.
