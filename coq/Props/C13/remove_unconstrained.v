(* Obligation C13/remove_unconstrained.  Statement as printed by Coq from Inferno.C13.ShapedProofs; proof by reference.
   This file contains nothing else, so the statement cannot be weakened quietly. *)
From Coq Require Import List ZArith Bool Arith Lia.
From Inferno Require Import Base.Num Gen.Infra C01.Ring C01.RingProofs C13.Shaped C13.Lists C13.ShapedProofs C13.Resize C13.ResizeProofs.
Import ListNotations.
Theorem remove_unconstrained : forall (A D : Type) (zeroA : A) (s : @shaped A D) (d : Z),
  lookup (@scons A D s) d = @None nat ->
  @reconstrain A D zeroA s d (@None Z) = (s, @Some xerr XValue).
Proof. exact (@Inferno.C13.ShapedProofs.remove_unconstrained). Qed.
Print Assumptions remove_unconstrained.
