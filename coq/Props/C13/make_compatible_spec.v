(* Obligation C13/make_compatible_spec.  Statement as printed by Coq from Inferno.C13.ResizeDimSpec; proof by reference.
   This file contains nothing else, so the statement cannot be weakened quietly. *)
From Coq Require Import List ZArith Bool Arith Lia.
From Inferno Require Import C01.Ring C13.Shaped C13.Lists C13.ResizeDimSpec.
Import ListNotations.
Theorem make_compatible_spec : forall (A D : Type) (zeroA : A) (t : @tensor A D) (dim : Z) (sz : nat) (idx : list nat),
  let k := pyidx (@ndim A D t) dim in
  k < @ndim A D t ->
  @length A (@tflat A D t) = nel (@tshape A D t) ->
  in_bounds (@upd nat (@tshape A D t) k sz) idx ->
  let t' := @make_compatible A D zeroA t dim sz in
  @tdt A D t' = @tdt A D t /\
  @tshape A D t' = @upd nat (@tshape A D t) k sz /\
  @length A (@tflat A D t') = nel (@tshape A D t') /\
  @nth A (lin (@tshape A D t') idx) (@tflat A D t') zeroA =
  (if @nth nat k idx 0 + @nth nat k (@tshape A D t) 0 <? sz
   then zeroA
   else
    @nth A
      (lin (@tshape A D t)
         (@upd nat idx k (@nth nat k idx 0 + @nth nat k (@tshape A D t) 0 - sz)))
      (@tflat A D t) zeroA).
Proof. exact (@Inferno.C13.ResizeDimSpec.make_compatible_spec). Qed.
Print Assumptions make_compatible_spec.
