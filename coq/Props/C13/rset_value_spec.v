(* Obligation C13/rset_value_spec.  Statement as printed by Coq from Inferno.C13.ResizeProofs; proof by reference.
   This file contains nothing else, so the statement cannot be weakened quietly. *)
From Coq Require Import List ZArith Bool Arith Lia.
From Inferno Require Import Base.Num Gen.Infra C01.Ring C01.RingProofs C13.Shaped C13.Lists C13.ShapedProofs C13.Resize C13.ResizeProofs.
Import ListNotations.
Theorem rset_value_spec : forall (Nm : Num) (A D : Type) (r : @rec Nm A D) (v : @storage A D),
  let
  '(r', e) := @rset_value Nm A D r v in
   e <> @Some xerr XAttr /\
   e <> @Some xerr XIndex /\
   @N A D (@rg Nm A D r') = @N A D (@rg Nm A D r) /\
   @rcons Nm A D r' = @rcons Nm A D r /\
   @rdt Nm A D r' = @rdt Nm A D r /\
   @rdur Nm A D r' = @rdur Nm A D r /\
   @rincl Nm A D r' = @rincl Nm A D r /\
   match e with
   | Some _ => r' = r
   | None =>
       @st A D (@rg Nm A D r') = v /\
       @ptr A D (@rg Nm A D r') =
       (if @ignore A D (@data_of A D v) then 0 else @ptr A D (@rg Nm A D r))
   end.
Proof. exact (@Inferno.C13.ResizeProofs.rset_value_spec). Qed.
Print Assumptions rset_value_spec.
