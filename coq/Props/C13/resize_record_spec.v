(* Obligation C13/resize_record_spec.  Statement as printed by Coq from Inferno.C13.ResizeProofs; proof by reference.
   This file contains nothing else, so the statement cannot be weakened quietly. *)
From Coq Require Import List ZArith Bool Arith Lia.
From Inferno Require Import Base.Num Gen.Infra C01.Ring C01.RingProofs C13.Shaped C13.Lists C13.ShapedProofs C13.Resize C13.ResizeProofs.
Import ListNotations.
Theorem resize_record_spec : forall (Nm : Num) (A D : Type),
  (D -> A -> A) ->
  (D -> D -> D) ->
  (D -> D -> bool) ->
  forall zeroA : A,
  D ->
  forall r : rec Nm,
  rwf Nm r ->
  rvalid Nm r = true ->
  no_alias0 Nm r ->
  exists r' : rec Nm,
    resize_record Nm zeroA r = (r', None) /\
    rwf Nm r' /\
    rvalid Nm r' = true /\
    no_alias0 Nm r' /\
    N (rg Nm r') = rsize Nm r /\
    rcons Nm r' = rcons Nm r /\
    rstrict Nm r' = rstrict Nm r /\
    rlive Nm r' = rlive Nm r /\
    rparam Nm r' = rparam Nm r /\
    rdt Nm r' = rdt Nm r /\
    rdur Nm r' = rdur Nm r /\
    rincl Nm r' = rincl Nm r /\
    (~ full (rg Nm r) -> st (rg Nm r') = st (rg Nm r) /\ ptr (rg Nm r') = ptr (rg Nm r)) /\
    (forall (d : D) (sh : list nat) (rws : list (list A)),
     st (rg Nm r) = SFull d sh rws ->
     exists rws' : list (list A),
       st (rg Nm r') = SFull d sh rws' /\
       (forall k : Z,
        (1 <= k <= Z.of_nat (Nat.min (N (rg Nm r)) (rsize Nm r)))%Z ->
        at_ (rg Nm r') k = at_ (rg Nm r) k) /\
       (forall k : Z,
        (Z.of_nat (N (rg Nm r)) < k <= Z.of_nat (rsize Nm r))%Z ->
        at_ (rg Nm r') k = zero_obs zeroA sh)).
Proof. exact (@Inferno.C13.ResizeProofs.resize_record_spec). Qed.
Print Assumptions resize_record_spec.
