(* Obligation C13/recordsz_formula.  Statement as printed by Coq from Inferno.C13.FormulaProofs; proof by reference.
   This file contains nothing else, so the statement cannot be weakened quietly. *)
From Coq Require Import List ZArith Bool Arith Lia Reals Lra.
From Flocq Require Import Core.Raux.
From Inferno Require Import Base.Num Base.NumR Gen.Infra C01.Ring C01.RingProofs C13.Shaped C13.Lists C13.ShapedProofs C13.Resize C13.ResizeProofs C13.FormulaProofs.
Import ListNotations.
Open Scope R_scope.
Theorem recordsz_formula : forall A D : Type,
  (D -> A -> A) ->
  (D -> D -> D) ->
  (D -> D -> bool) ->
  forall zeroA : A,
  D ->
  forall (r : @rec RN A D) (s : setter RN),
  @rwf RN A D r ->
  @rvalid RN A D r = true ->
  @no_alias0 RN A D r ->
  @setter_ok RN A D r s ->
  exists r' : @rec RN A D,
    @apply_setter RN A D zeroA r s = (r', @None xerr) /\
    @rdt RN A D r' = @rdt RN A D (@configured RN A D r s) /\
    @rdur RN A D r' = @rdur RN A D (@configured RN A D r s) /\
    @rincl RN A D r' = @rincl RN A D (@configured RN A D r s) /\
    Z.of_nat (@N A D (@rg RN A D r')) =
    Z.max (Zceil (@rdur RN A D r' / @rdt RN A D r') + (if @rincl RN A D r' then 1%Z else 0%Z))
      1.
Proof. exact (@Inferno.C13.FormulaProofs.recordsz_formula). Qed.
Print Assumptions recordsz_formula.
