(* Obligation C13/reconstrain_sequence_consistent.  Statement as printed by Coq from Inferno.C13.ShapedProofs; proof by reference.
   This file contains nothing else, so the statement cannot be weakened quietly. *)
From Coq Require Import List ZArith Bool Arith Lia.
From Inferno Require Import Base.Num Gen.Infra C01.Ring C01.RingProofs C13.Shaped C13.Lists C13.ShapedProofs C13.Resize C13.ResizeProofs.
Import ListNotations.
Theorem reconstrain_sequence_consistent : forall (A D : Type) (zeroA : A) (ops : list (@sop A D)) (s : @shaped A D),
  @wfc A D s ->
  @valid A D s = true ->
  @slive A D s = true \/ @Forall (@sop A D) (@is_recon A D) ops ->
  @wfc A D (@srun A D zeroA s ops) /\ @valid A D (@srun A D zeroA s ops) = true.
Proof. exact (@Inferno.C13.ShapedProofs.reconstrain_sequence_consistent). Qed.
Print Assumptions reconstrain_sequence_consistent.
