(* Obligation C13/recordsz_least.  Statement as printed by Coq from Inferno.C13.FormulaProofs; proof by reference.
   This file contains nothing else, so the statement cannot be weakened quietly. *)
From Coq Require Import List ZArith Bool Arith Lia Reals Lra.
From Flocq Require Import Core.Raux.
From Inferno Require Import Base.Num Base.NumR Gen.Infra C01.Ring C01.RingProofs C13.Shaped C13.Lists C13.ShapedProofs C13.Resize C13.ResizeProofs C13.FormulaProofs.
Import ListNotations.
Open Scope R_scope.
Theorem recordsz_least : forall (dur dt : R) (incl : bool),
  0 < dt ->
  0 <= dur ->
  let n := recordsz_expr RN dur dt incl in
  let i := if incl then 1%Z else 0%Z in
  (1 <= n)%Z /\
  dur <= IZR (n - i) * dt /\
  (forall m : Z, (1 <= m)%Z -> dur <= IZR (m - i) * dt -> (n <= m)%Z).
Proof. exact (@Inferno.C13.FormulaProofs.recordsz_least). Qed.
Print Assumptions recordsz_least.
