(* Obligation C13/rset_value_refused.  Statement as printed by Coq from Inferno.C13.ResizeProofs; proof by reference.
   This file contains nothing else, so the statement cannot be weakened quietly. *)
From Coq Require Import List ZArith Bool Arith Lia.
From Inferno Require Import Base.Num Gen.Infra C01.Ring C01.RingProofs C13.Shaped C13.Lists C13.ShapedProofs C13.Resize C13.ResizeProofs.
Import ListNotations.
Theorem rset_value_refused : forall (Nm : Num) (A D : Type) (r : @rec Nm A D) (v : @storage A D) (e : xerr),
  @snd (@rec Nm A D) (option xerr) (@rset_value Nm A D r v) = @Some xerr e ->
  e = XRuntime /\ @rparam Nm A D r = true /\ v = @SNone A D \/
  e = XValue /\
  @rlive Nm A D r = true /\
  @ignore_or_compatible A D (@data_of A D v) (@all_cons Nm A D r) (@rstrict Nm A D r) = false.
Proof. exact (@Inferno.C13.ResizeProofs.rset_value_refused). Qed.
Print Assumptions rset_value_refused.
