(* Obligation C13/compatible_spec.  Statement as printed by Coq from Inferno.C13.ShapedProofs; proof by reference.
   This file contains nothing else, so the statement cannot be weakened quietly. *)
From Coq Require Import List ZArith Bool Arith Lia.
From Inferno Require Import Base.Num Gen.Infra C01.Ring C01.RingProofs C13.Shaped C13.Lists C13.ShapedProofs C13.Resize C13.ResizeProofs.
Import ListNotations.
Theorem compatible_spec : forall (A D : Type) (t : @tensor A D) (c : cons_t) (strict : bool),
  @constraints_compatible A D t c strict = true <-> @satisfies A D t c strict.
Proof. exact (@Inferno.C13.ShapedProofs.compatible_spec). Qed.
Print Assumptions compatible_spec.
