(* Obligation C13/strict_distinct.  Statement as printed by Coq from Inferno.C13.ShapedProofs; proof by reference.
   This file contains nothing else, so the statement cannot be weakened quietly. *)
From Coq Require Import List ZArith Bool Arith Lia.
From Inferno Require Import Base.Num Gen.Infra C01.Ring C01.RingProofs C13.Shaped C13.Lists C13.ShapedProofs C13.Resize C13.ResizeProofs.
Import ListNotations.
Theorem strict_distinct : forall (A D : Type) (t : @tensor A D) (c : cons_t),
  @constraints_compatible A D t c true = true ->
  forall d1 d2 : Z,
  @In Z d1 (keys c) ->
  @In Z d2 (keys c) -> pyidx (@ndim A D t) d1 = pyidx (@ndim A D t) d2 -> d1 = d2.
Proof. exact (@Inferno.C13.ShapedProofs.strict_distinct). Qed.
Print Assumptions strict_distinct.
