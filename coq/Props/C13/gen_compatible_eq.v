(* Obligation C13/gen_compatible_eq.  Statement as printed by Coq from Inferno.C13.GenTie; proof by reference.
   This file contains nothing else, so the statement cannot be weakened quietly. *)
From Coq Require Import List ZArith Bool Arith Lia.
From Inferno Require Import Gen.Constraints C01.Ring C13.Shaped C13.Lists C13.ShapedProofs C13.GenTie.
Import ListNotations.
Theorem gen_compatible_eq : forall (A D : Type) (t : @tensor A D) (c : cons_t) (strict : bool),
  @constraints_compatible A D t c strict = _constraints_compatible (@tshape A D t) c strict.
Proof. exact (@Inferno.C13.GenTie.gen_compatible_eq). Qed.
Print Assumptions gen_compatible_eq.
