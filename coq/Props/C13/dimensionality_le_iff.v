(* Obligation C13/dimensionality_le_iff.  Statement as printed by Coq from Inferno.C13.ShapedProofs; proof by reference.
   This file contains nothing else, so the statement cannot be weakened quietly. *)
From Coq Require Import List ZArith Bool Arith Lia.
From Inferno Require Import Base.Num Gen.Infra C01.Ring C01.RingProofs C13.Shaped C13.Lists C13.ShapedProofs C13.Resize C13.ResizeProofs.
Import ListNotations.
Theorem dimensionality_le_iff : forall (c : cons_t) (strict : bool) (n : Z),
  (0 <= n)%Z -> (constraint_dimensionality c strict <= n)%Z <-> dim_ok c strict n.
Proof. exact (@Inferno.C13.ShapedProofs.dimensionality_le_iff). Qed.
Print Assumptions dimensionality_le_iff.
