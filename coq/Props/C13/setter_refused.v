(* Obligation C13/setter_refused.  Statement as printed by Coq from Inferno.C13.ResizeProofs; proof by reference.
   This file contains nothing else, so the statement cannot be weakened quietly. *)
From Coq Require Import List ZArith Bool Arith Lia.
From Inferno Require Import Base.Num Gen.Infra C01.Ring C01.RingProofs C13.Shaped C13.Lists C13.ShapedProofs C13.Resize C13.ResizeProofs.
Import ListNotations.
Theorem setter_refused : forall (Nm : Num) (A D : Type) (zeroA : A) (r : @rec Nm A D) (s : setter Nm),
  ~ @setter_ok Nm A D r s ->
  @apply_setter Nm A D zeroA r s = (r, @Some xerr XValue) \/
  (exists b : bool,
     s = SetIncl Nm b /\
     @snd (@rec Nm A D) (option xerr) (@apply_setter Nm A D zeroA r s) = @Some xerr XValue).
Proof. exact (@Inferno.C13.ResizeProofs.setter_refused). Qed.
Print Assumptions setter_refused.
