(* Obligation C13/rcreate_inv.  Statement as printed by Coq from Inferno.C13.ResizeProofs; proof by reference.
   This file contains nothing else, so the statement cannot be weakened quietly. *)
From Coq Require Import List ZArith Bool Arith Lia.
From Inferno Require Import Base.Num Gen.Infra C01.Ring C01.RingProofs C13.Shaped C13.Lists C13.ShapedProofs C13.Resize C13.ResizeProofs.
Import ListNotations.
Theorem rcreate_inv : forall (Nm : Num) (A D : Type),
  (D -> A -> A) ->
  (D -> D -> D) ->
  (D -> D -> bool) ->
  A ->
  D ->
  forall (strict live param : bool) (ucons : cons_t) (dt dur : T Nm) 
    (incl : bool) (value : option (@tensor A D)) (r : @rec Nm A D),
  @rcreate Nm A D strict live param ucons dt dur incl value = @inl (@rec Nm A D) xerr r ->
  @NoDup Z (keys ucons) ->
  match value with
  | Some t => @length A (@tflat A D t) = nel (@tshape A D t)
  | None => True
  end ->
  strict = true \/
  match value with
  | Some t =>
      forall (dd : Z) (s : nat),
      @In (Z * nat) (dd, s) (shift_cons ucons) ->
      pyidx (S (@length nat (@tshape A D t))) dd <> 0
  | None => True
  end -> @Inv Nm A D r.
Proof. exact (@Inferno.C13.ResizeProofs.rcreate_inv). Qed.
Print Assumptions rcreate_inv.
