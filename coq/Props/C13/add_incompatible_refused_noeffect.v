(* Obligation C13/add_incompatible_refused_noeffect.  Statement as printed by Coq from Inferno.C13.ShapedProofs; proof by reference.
   This file contains nothing else, so the statement cannot be weakened quietly. *)
From Coq Require Import List ZArith Bool Arith Lia.
From Inferno Require Import Base.Num Gen.Infra C01.Ring C01.RingProofs C13.Shaped C13.Lists C13.ShapedProofs C13.Resize C13.ResizeProofs.
Import ListNotations.
Theorem add_incompatible_refused_noeffect : forall (A D : Type) (zeroA : A) (s : @shaped A D) (t : @tensor A D) (d z : Z),
  lookup (@scons A D s) d = @None nat ->
  (0 <= z)%Z ->
  @sdat A D s = @DTensor A D t ->
  @ignore A D (@sdat A D s) = false ->
  ~ @satisfies A D t (dict_set (@scons A D s) d (Z.to_nat z)) (@sstrict A D s) ->
  exists e : xerr, @reconstrain A D zeroA s d (@Some Z z) = (s, @Some xerr e).
Proof. exact (@Inferno.C13.ShapedProofs.add_incompatible_refused_noeffect). Qed.
Print Assumptions add_incompatible_refused_noeffect.
