(* Obligation C13/refused_noeffect.  Statement as printed by Coq from Inferno.C13.ShapedProofs; proof by reference.
   This file contains nothing else, so the statement cannot be weakened quietly. *)
From Coq Require Import List ZArith Bool Arith Lia.
From Inferno Require Import Base.Num Gen.Infra C01.Ring C01.RingProofs C13.Shaped C13.Lists C13.ShapedProofs C13.Resize C13.ResizeProofs.
Import ListNotations.
Theorem refused_noeffect : forall (A D : Type) (zeroA : A) (s : @shaped A D) (d : Z) (z : option Z) 
    (s' : @shaped A D) (e : xerr),
  @reconstrain A D zeroA s d z = (s', @Some xerr e) ->
  s' = s \/
  z = @None Z /\ @valid A D s = false /\ s' = @set_cons A D s (dict_del (@scons A D s) d).
Proof. exact (@Inferno.C13.ShapedProofs.refused_noeffect). Qed.
Print Assumptions refused_noeffect.
