(* Obligation C13/nonvacuous.  Statement as printed by Coq from Inferno.C13.Witness; proof by reference.
   This file contains nothing else, so the statement cannot be weakened quietly. *)
From Coq Require Import List ZArith Bool Arith Lia.
From Inferno Require Import Base.Num Gen.Infra C01.Ring C01.RingProofs C13.Shaped C13.Lists C13.ShapedProofs C13.Resize C13.ResizeProofs C13.Witness.
Import ListNotations.
Open Scope Z_scope.
Theorem nonvacuous : created = inl r0 /\
  Inv ZN r0 /\
  all_good ZN castI promoteI Z.eqb 0 2 r0 ops_demo /\
  Inv ZN (runI r0 ops_demo) /\
  hist (rg ZN (runI r0 (firstn 4 ops_demo))) = [[4; 40]; [3; 30]; [2; 20]] /\
  hist (rg ZN (runI r0 (firstn 5 ops_demo))) =
  [[4; 40]; [3; 30]; [2; 20]; [0; 0]; [0; 0]; [0; 0]] /\
  hist (rg ZN (runI r0 (firstn 8 ops_demo))) = [[0; 4; 40]; [0; 3; 30]; [0; 2; 20]; [0; 0; 0]] /\
  N (rg ZN (runI r0 ops_demo)) = 4%nat /\ rcons ZN (runI r0 ops_demo) = [(1, 3%nat)].
Proof. exact (@Inferno.C13.Witness.nonvacuous). Qed.
Print Assumptions nonvacuous.
