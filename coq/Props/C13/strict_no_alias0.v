(* Obligation C13/strict_no_alias0.  Statement as printed by Coq from Inferno.C13.ResizeProofs; proof by reference.
   This file contains nothing else, so the statement cannot be weakened quietly. *)
From Coq Require Import List ZArith Bool Arith Lia.
From Inferno Require Import Base.Num Gen.Infra C01.Ring C01.RingProofs C13.Shaped C13.Lists C13.ShapedProofs C13.Resize C13.ResizeProofs.
Import ListNotations.
Theorem strict_no_alias0 : forall (Nm : Num) (A D : Type),
  (D -> A -> A) ->
  (D -> D -> D) ->
  (D -> D -> bool) ->
  A ->
  forall r : @rec Nm A D,
  @rwf Nm A D r -> @rstrict Nm A D r = true -> @rvalid Nm A D r = true -> @no_alias0 Nm A D r.
Proof. exact (@Inferno.C13.ResizeProofs.strict_no_alias0). Qed.
Print Assumptions strict_no_alias0.
