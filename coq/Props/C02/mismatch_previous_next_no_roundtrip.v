(* Obligation C02/mismatch_previous_next_no_roundtrip.  Statement as printed by Coq from Inferno.C02.RoundTrip; proof by reference.
   This file contains nothing else, so the statement cannot be weakened quietly. *)
From Coq Require Import Reals.
From Inferno Require Import Base.Num Base.NumR Gen.Interpolation Gen.Extrapolation C02.Matching C02.RoundTrip.
Theorem mismatch_previous_next_no_roundtrip : ~ matching 1 (interp_previous RN) (extrap_next RN).
Proof. exact (@Inferno.C02.RoundTrip.mismatch_previous_next_no_roundtrip). Qed.
Print Assumptions mismatch_previous_next_no_roundtrip.
