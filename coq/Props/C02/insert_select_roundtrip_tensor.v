(* Obligation C02/insert_select_roundtrip_tensor.  Statement as printed by Coq from Inferno.C02.SelectProofs; proof by reference.
   This file contains nothing else, so the statement cannot be weakened quietly. *)
From Coq Require Import List ZArith Bool Arith Lia Reals Lra.
From Flocq Require Import Core.Raux.
From Inferno Require Import Base.Num Base.NumR Gen.Infra C01.Ring C01.RingProofs C02.Select C02.Matching C02.SelectProofs.
Import ListNotations.
Theorem insert_select_roundtrip_tensor : forall dt tol : R,
  0 < dt ->
  0 <= tol < dt / 2 ->
  forall (s : ringR) (o : obsR) (off : Z) (times : list R) (interp : interp_t)
    (extrap : extrap_t) (inplace : bool) (d : unit) (sh : list nat),
  wfS s ->
  st s = SFull d sh (rows s) ->
  shape_eqb (oshape o) sh = true ->
  length (oel o) = nel sh ->
  length times = nel sh ->
  Forall (in_range dt tol (N s)) times ->
  matching dt interp extrap ->
  exists s' : ring,
    insert_tensor RN s o dt tol off sh times extrap inplace = Ok s' OUnit /\
    select_tensor RN s' dt tol off (length sh) (map (fun t : R => [t]) times) interp =
    Ok s' (OObs d sh (oel o)).
Proof. exact (@Inferno.C02.SelectProofs.insert_select_roundtrip_tensor). Qed.
Print Assumptions insert_select_roundtrip_tensor.
