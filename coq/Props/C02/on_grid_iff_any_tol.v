(* Obligation C02/on_grid_iff_any_tol.  Statement as printed by Coq from Inferno.C02.SelectProofs; proof by reference.
   This file contains nothing else, so the statement cannot be weakened quietly. *)
From Coq Require Import List ZArith Bool Arith Lia Reals Lra.
From Flocq Require Import Core.Raux.
From Inferno Require Import Base.Num Base.NumR Gen.Infra C01.Ring C01.RingProofs C02.Select C02.Matching C02.SelectProofs.
Import ListNotations.
Theorem on_grid_iff_any_tol : forall dt tol : R,
  0 < dt ->
  forall t : T RN, on_grid RN dt tol t = true <-> (exists k : Z, Rabs (IZR k * dt - t) <= tol).
Proof. exact (@Inferno.C02.SelectProofs.on_grid_iff_any_tol). Qed.
Print Assumptions on_grid_iff_any_tol.
