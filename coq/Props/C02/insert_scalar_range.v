(* Obligation C02/insert_scalar_range.  Statement as printed by Coq from Inferno.C02.SelectProofs; proof by reference.
   This file contains nothing else, so the statement cannot be weakened quietly. *)
From Coq Require Import List ZArith Bool Arith Lia Reals Lra.
From Flocq Require Import Core.Raux.
From Inferno Require Import Base.Num Base.NumR Gen.Infra C01.Ring C01.RingProofs C02.Select C02.Matching C02.SelectProofs.
Import ListNotations.
Theorem insert_scalar_range : forall dt tol : R,
  0 < dt ->
  0 <= tol < dt / 2 ->
  forall (s : ringR) (o : obsR) (off : Z) (t : T RN) (extrap : extrap_fn RN) 
    (inplace : bool) (d : unit) (sh : list nat),
  wfS s ->
  st s = SFull d sh (rows s) ->
  shape_eqb (oshape o) sh = true ->
  length (oel o) = nel sh ->
  (0 < nel sh)%nat ->
  insert_scalar RN s o dt tol off t extrap inplace = Err EValue <->
  t < - tol \/ dt * IZR (Z.of_nat (N s) - 1) + tol < t.
Proof. exact (@Inferno.C02.SelectProofs.insert_scalar_range). Qed.
Print Assumptions insert_scalar_range.
