(* Obligation C02/insert_tensor_spec.  Statement as printed by Coq from Inferno.C02.SelectProofs; proof by reference.
   This file contains nothing else, so the statement cannot be weakened quietly. *)
From Coq Require Import List ZArith Bool Arith Lia Reals Lra.
From Flocq Require Import Core.Raux.
From Inferno Require Import Base.Num Base.NumR Gen.Infra C01.Ring C01.RingProofs C02.Select C02.Matching C02.SelectProofs.
Import ListNotations.
Theorem insert_tensor_spec : forall dt tol : R,
  0 < dt ->
  0 <= tol < dt / 2 ->
  forall (s : ringR) (o : obsR) (off : Z) (tsh : list nat) (times : list R)
    (extrap : extrap_fn RN) (inplace : bool) (d : unit) (sh : list nat),
  wfS s ->
  st s = SFull d sh (rows s) ->
  shape_eqb (oshape o) sh = true ->
  shape_eqb tsh sh = true ->
  length (oel o) = nel sh ->
  length times = nel sh ->
  Forall (in_range dt tol (N s)) times ->
  exists s' : ring,
    insert_tensor RN s o dt tol off tsh times extrap inplace = Ok s' OUnit /\
    wfS s' /\
    N s' = N s /\
    ptr s' = ptr s /\
    st s' = SFull d sh (rows s') /\
    (forall e : nat,
     (e < nel sh)%nat ->
     let t := nth e times 0 in
     let x := nth e (oel o) 0 in
     (forall k : Z,
      Rabs (IZR k * dt - t) <= tol ->
      forall j : Z,
      nth e (at_ s' j) 0 =
      (if (j mod Z.of_nat (N s) =? (off + k) mod Z.of_nat (N s))%Z
       then x
       else nth e (at_ s j) 0)) /\
     (forall k : Z,
      between dt tol k t ->
      forall j : Z,
      let ex :=
        extrap x (IZR (k + 1) * dt - t) (nth e (at_ s (off + k + 1)) 0)
          (nth e (at_ s (off + k)) 0) dt in
      nth e (at_ s' j) 0 =
      (if (j mod Z.of_nat (N s) =? (off + k) mod Z.of_nat (N s))%Z
       then snd ex
       else
        if (j mod Z.of_nat (N s) =? (off + k + 1) mod Z.of_nat (N s))%Z
        then fst ex
        else nth e (at_ s j) 0))).
Proof. exact (@Inferno.C02.SelectProofs.insert_tensor_spec). Qed.
Print Assumptions insert_tensor_spec.
