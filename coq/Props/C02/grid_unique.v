(* Obligation C02/grid_unique.  Statement as printed by Coq from Inferno.C02.SelectProofs; proof by reference.
   This file contains nothing else, so the statement cannot be weakened quietly. *)
From Coq Require Import List ZArith Bool Arith Lia Reals Lra.
From Flocq Require Import Core.Raux.
From Inferno Require Import Base.Num Base.NumR Gen.Infra C01.Ring C01.RingProofs C02.Select C02.Matching C02.SelectProofs.
Import ListNotations.
Theorem grid_unique : forall dt tol : R,
  0 < dt ->
  0 <= tol < dt / 2 ->
  forall (t : R) (k k' : Z),
  Rabs (IZR k * dt - t) <= tol -> Rabs (IZR k' * dt - t) <= tol -> k = k'.
Proof. exact (@Inferno.C02.SelectProofs.grid_unique). Qed.
Print Assumptions grid_unique.
