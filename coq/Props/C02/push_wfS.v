(* Obligation C02/push_wfS.  Statement as printed by Coq from Inferno.C02.SelectProofs; proof by reference.
   This file contains nothing else, so the statement cannot be weakened quietly. *)
From Coq Require Import List ZArith Bool Arith Lia Reals Lra.
From Flocq Require Import Core.Raux.
From Inferno Require Import Base.Num Base.NumR Gen.Infra C01.Ring C01.RingProofs C02.Select C02.Matching C02.SelectProofs.
Import ListNotations.
Theorem push_wfS : forall (s : ringR) (o : obsR) (inplace : bool) (d : unit) (sh : list nat),
  wfS s ->
  st s = SFull d sh (rows s) ->
  shape_eqb (oshape o) sh = true ->
  length (oel o) = nel sh ->
  exists s' : ring,
    push (castU RN) 0 s o inplace = Ok s' OUnit /\
    wfS s' /\
    N s' = N s /\ st s' = SFull d sh (rows s') /\ hist s' = oel o :: removelast (hist s).
Proof. exact (@Inferno.C02.SelectProofs.push_wfS). Qed.
Print Assumptions push_wfS.
