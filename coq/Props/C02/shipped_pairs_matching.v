(* Obligation C02/shipped_pairs_matching.  Statement as printed by Coq from Inferno.C02.SelectProofs; proof by reference.
   This file contains nothing else, so the statement cannot be weakened quietly. *)
From Coq Require Import List ZArith Bool Arith Lia Reals Lra.
From Flocq Require Import Core.Raux.
From Inferno Require Import Base.Num Base.NumR Gen.Infra Gen.Interpolation Gen.Extrapolation C01.Ring C01.RingProofs C02.Select C02.RoundTrip C02.SelectProofs.
Import ListNotations.
Theorem shipped_pairs_matching : forall dt : R,
  0 < dt ->
  forall (tc rc : R) (adjust : option (R -> R)),
  matching dt (interp_previous RN) (extrap_previous RN) /\
  matching dt (interp_next RN) (extrap_next RN) /\
  matching dt (interp_nearest RN) (extrap_nearest RN) /\
  matching dt (interp_previous RN) (extrap_neighbors RN) /\
  matching dt (interp_next RN) (extrap_neighbors RN) /\
  matching dt (interp_nearest RN) (extrap_neighbors RN) /\
  matching dt (interp_linear RN) (extrap_neighbors RN) /\
  matching dt (interp_linear RN)
    (fun x sa p n st : R => extrap_linear_forward RN x sa p n st adjust) /\
  matching dt (interp_linear RN)
    (fun x sa p n st : R => extrap_linear_backward RN x sa p n st adjust) /\
  matching dt (fun p n sa st : R => interp_expdecay RN p n sa st tc)
    (fun x sa p n st : R => extrap_expdecay RN x sa p n st tc) /\
  matching dt (fun p n sa st : R => interp_expratedecay RN p n sa st rc)
    (fun x sa p n st : R => extrap_expratedecay RN x sa p n st rc).
Proof. exact (@Inferno.C02.SelectProofs.shipped_pairs_matching). Qed.
Print Assumptions shipped_pairs_matching.
