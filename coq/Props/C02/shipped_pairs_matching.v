(* Obligation C02/shipped_pairs_matching.  Statement as printed by Coq from Inferno.C02.RoundTrip; proof by reference.
   This file contains nothing else, so the statement cannot be weakened quietly. *)
From Coq Require Import Reals.
From Inferno Require Import Base.Num Base.NumR Gen.Interpolation Gen.Extrapolation C02.Matching C02.RoundTrip.
Theorem shipped_pairs_matching : forall (dt tc rc : R) (adjust : option (R -> R)),
  0 < dt ->
  matching dt (interp_previous RN) (extrap_previous RN) /\
  matching dt (interp_next RN) (extrap_next RN) /\
  matching dt (interp_nearest RN) (extrap_nearest RN) /\
  matching dt (interp_previous RN) (extrap_neighbors RN) /\
  matching dt (interp_next RN) (extrap_neighbors RN) /\
  matching dt (interp_nearest RN) (extrap_neighbors RN) /\
  matching dt (interp_linear RN) (extrap_neighbors RN) /\
  matching dt (interp_linear RN)
    (fun x sa p n st : R => extrap_linear_forward RN x sa p n st adjust) /\
  matching dt (interp_linear RN)
    (fun x sa p n st : R => extrap_linear_backward RN x sa p n st adjust) /\
  matching dt (fun p n sa st : R => interp_expdecay RN p n sa st tc)
    (fun x sa p n st : R => extrap_expdecay RN x sa p n st tc) /\
  matching dt (fun p n sa st : R => interp_expratedecay RN p n sa st rc)
    (fun x sa p n st : R => extrap_expratedecay RN x sa p n st rc).
Proof. exact (@Inferno.C02.RoundTrip.shipped_pairs_matching). Qed.
Print Assumptions shipped_pairs_matching.
