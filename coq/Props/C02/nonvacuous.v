(* Obligation C02/nonvacuous: the hypotheses used by the C02 theorems (0 < dt, 0 <= tol < dt/2, wfS, full,
   in_range, on-grid, between, matching) are met by a concrete non-trivial record and concrete times,
   and the model really computes on them: an off-grid linear selection between two stored samples,
   an on-grid selection, and an off-grid insert followed by a select that returns the inserted value. *)
From Coq Require Import List ZArith Bool Arith Lia Reals Lra.
From Inferno Require Import Base.Num Base.NumR Gen.Infra Gen.Interpolation Gen.Extrapolation C01.Ring C01.RingProofs C02.Select C02.RoundTrip C02.SelectProofs C02.SelectExec.
Import ListNotations.
Open Scope R_scope.

(* record of size 3, pointer 1: newest observation [7;8], then [5;6], then [3;4] *)
Definition s3 : ringR := mkRing 3 1 (SFull tt [2%nat] [[7; 8]; [3; 4]; [5; 6]]).
Definition o9 : obsR := mkObs tt [2%nat] [9; 10].

Theorem nonvacuous :
  0 < 1 /\ 0 <= / 8 < 1 / 2 /\ wfS s3 /\ full s3 /\ st s3 = SFull tt [2%nat] (rows s3) /\
  at_ s3 1 = [7; 8] /\ at_ s3 2 = [5; 6] /\ at_ s3 3 = [3; 4] /\
  in_range 1 (/ 8) (N s3) (3 / 2) /\ between 1 (/ 8) 1 (3 / 2) /\
  in_range 1 (/ 8) (N s3) (2 + / 16) /\ Rabs (IZR 2 * 1 - (2 + / 16)) <= / 8 /\
  select_scalar RN s3 1 (/ 8) 1 (3 / 2) (interp_linear RN) = Ok s3 (OObs tt [2%nat] [4; 5]) /\
  select_scalar RN s3 1 (/ 8) 1 (2 + / 16) (interp_linear RN) = Ok s3 (OObs tt [2%nat] [3; 4]) /\
  select_scalar RN s3 1 (/ 8) 1 (2 + / 4) (interp_linear RN) = Err EValue /\
  matching 1 (interp_linear RN) (fun x sa p n st => extrap_linear_forward RN x sa p n st None) /\
  exists s', insert_scalar RN s3 o9 1 (/ 8) 1 (3 / 2) (fun x sa p n st => extrap_linear_forward RN x sa p n st None) false = Ok s' OUnit /\
             at_ s' 1 = [7; 8] /\ at_ s' 3 = [3; 4] /\ at_ s' 2 = [15; 16] /\
             select_scalar RN s' 1 (/ 8) 1 (3 / 2) (interp_linear RN) = Ok s' (OObs tt [2%nat] [9; 10]).
Proof.
  assert (Hdt : 0 < 1) by lra. assert (Htol : 0 <= / 8 < 1 / 2) by lra.
  assert (Hwf : wfS s3).
  { split; [unfold wf; cbn; lia|]. cbn. repeat constructor. }
  assert (Hf : full s3) by exact I.
  assert (Est : st s3 = SFull tt [2%nat] (rows s3)) by reflexivity.
  assert (Hr1 : in_range 1 (/ 8) (N s3) (3 / 2)) by (unfold in_range; cbn [N s3]; change (IZR (Z.of_nat 3 - 1)) with 2; lra).
  assert (Hb1 : between 1 (/ 8) 1 (3 / 2)) by (unfold between; change (IZR (1 + 1)) with 2; lra).
  assert (Hr2 : in_range 1 (/ 8) (N s3) (2 + / 16)) by (unfold in_range; cbn [N s3]; change (IZR (Z.of_nat 3 - 1)) with 2; lra).
  assert (Hg2 : Rabs (IZR 2 * 1 - (2 + / 16)) <= / 8) by (apply Rabs_le; lra).
  assert (Hm : matching 1 (interp_linear RN) (fun x sa p n st => extrap_linear_forward RN x sa p n st None))
    by (apply rt_linear_forward; lra).
  repeat match goal with |- _ /\ _ => split end; try assumption; try reflexivity; try lra.
  - destruct (select_scalar_off_grid 1 (/ 8) Hdt Htol s3 1 (3 / 2) 1 (interp_linear RN) (proj1 Hwf) Hf Hr1 Hb1) as (d & sh & E & ->).
    injection E as <- <-. do 2 f_equal.
    replace (at_ s3 (1 + 1 + 1)) with [3; 4] by reflexivity. replace (at_ s3 (1 + 1)) with [5; 6] by reflexivity.
    unfold zipw. cbn [combine map fst snd]. unfold interp_linear. rn_simpl. change (IZR (1 + 1)) with 2.
    repeat f_equal; field.
  - destruct (select_scalar_on_grid 1 (/ 8) Hdt Htol s3 1 (2 + / 16) 2 (interp_linear RN) (proj1 Hwf) Hf Hr2 Hg2) as (d & sh & E & ->).
    injection E as <- <-. reflexivity.
  - apply (select_scalar_range 1 (/ 8) Htol s3 1 (2 + / 4) (interp_linear RN) Hf). right. cbn [N s3]. change (IZR (Z.of_nat 3 - 1)) with 2. lra.
  - destruct (insert_select_roundtrip_scalar 1 (/ 8) Hdt Htol s3 o9 1 (3 / 2) (interp_linear RN) _ false tt [2%nat]
                Hwf Est eq_refl eq_refl ltac:(cbn; lia) Hr1 Hm) as (s' & Ei & Es).
    destruct (insert_scalar_off_grid 1 (/ 8) Hdt Htol s3 o9 1 (3 / 2) 1 (fun x sa p n st => extrap_linear_forward RN x sa p n st None) false tt [2%nat]
                Hwf Est eq_refl eq_refl ltac:(cbn; lia) Hr1 Hb1) as (s'' & Ei' & _ & _ & _ & _ & Hat).
    rewrite Ei in Ei'. injection Ei' as <-.
    exists s'. split; [exact Ei|]. split; [rewrite Hat; reflexivity|]. split; [rewrite Hat; reflexivity|]. split; [|exact Es].
    rewrite Hat. replace (at_ s3 (1 + 1 + 1)) with [3; 4] by reflexivity. replace (at_ s3 (1 + 1)) with [5; 6] by reflexivity.
    replace ((2 mod Z.of_nat (N s3) =? (1 + 1) mod Z.of_nat (N s3))%Z) with true by reflexivity.
    unfold zipw. cbn [combine map fst snd oel o9]. unfold extrap_linear_forward. rn_simpl. change (IZR (1 + 1)) with 2. cbn [fst snd].
    repeat f_equal; field.
Qed.
Print Assumptions nonvacuous.
