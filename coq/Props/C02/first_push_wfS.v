(* Obligation C02/first_push_wfS.  Statement as printed by Coq from Inferno.C02.SelectProofs; proof by reference.
   This file contains nothing else, so the statement cannot be weakened quietly. *)
From Coq Require Import List ZArith Bool Arith Lia Reals Lra.
From Flocq Require Import Core.Raux.
From Inferno Require Import Base.Num Base.NumR Gen.Infra C01.Ring C01.RingProofs C02.Select C02.Matching C02.SelectProofs.
Import ListNotations.
Theorem first_push_wfS : forall (s : ringR) (o : obsR) (inplace : bool),
  (0 < N s)%nat ->
  ~ full s ->
  length (oel o) = nel (oshape o) ->
  exists s' : ring,
    push (castU RN) 0 s o inplace = Ok s' OUnit /\
    wfS s' /\
    full s' /\
    N s' = N s /\
    st s' = SFull tt (oshape o) (rows s') /\
    hist s' = oel o :: repeat (repeat 0 (nel (oshape o))) (N s - 1).
Proof. exact (@Inferno.C02.SelectProofs.first_push_wfS). Qed.
Print Assumptions first_push_wfS.
