(* Obligation C02/select_scalar_uninit.  Statement as printed by Coq from Inferno.C02.SelectProofs; proof by reference.
   This file contains nothing else, so the statement cannot be weakened quietly. *)
From Coq Require Import List ZArith Bool Arith Lia Reals Lra.
From Flocq Require Import Core.Raux.
From Inferno Require Import Base.Num Base.NumR Gen.Infra C01.Ring C01.RingProofs C02.Select C02.Matching C02.SelectProofs.
Import ListNotations.
Theorem select_scalar_uninit : forall (dt tol : R) (s : ringR) (off : Z) (t : T RN) (interp : interp_fn RN),
  ~ full s -> select_scalar RN s dt tol off t interp = Err ERuntime.
Proof. exact (@Inferno.C02.SelectProofs.select_scalar_uninit). Qed.
Print Assumptions select_scalar_uninit.
