(* Obligation C02/select_tensor_scalar_agree.  Statement as printed by Coq from Inferno.C02.SelectProofs; proof by reference.
   This file contains nothing else, so the statement cannot be weakened quietly. *)
From Coq Require Import List ZArith Bool Arith Lia Reals Lra.
From Flocq Require Import Core.Raux.
From Inferno Require Import Base.Num Base.NumR Gen.Infra C01.Ring C01.RingProofs C02.Select C02.Matching C02.SelectProofs.
Import ListNotations.
Theorem select_tensor_scalar_agree : forall dt tol : R,
  0 < dt ->
  0 <= tol < dt / 2 ->
  forall (s : ringR) (off : Z) (tnd : nat) (times : list (list R)) 
    (interp : interp_fn RN) (d : unit) (sh : list nat),
  wfS s ->
  st s = SFull d sh (rows s) ->
  tnd = length sh \/ tnd = S (length sh) ->
  Forall (in_range dt tol (N s)) (concat times) ->
  (nel sh <= length times)%nat ->
  let cols :=
    map
      (fun e : nat =>
       map (fun t : T RN => nth e (sel_row (select_scalar RN s dt tol off t interp)) 0)
         (nth e times [])) (seq 0 (nel sh)) in
  select_tensor RN s dt tol off tnd times interp =
  (if tnd =? length sh
   then Ok s (OObs d sh (map (fun c : list R => hd 0 c) cols))
   else Ok s (ORng {| rdt := d; rshape := sh; rcols := cols |})).
Proof. exact (@Inferno.C02.SelectProofs.select_tensor_scalar_agree). Qed.
Print Assumptions select_tensor_scalar_agree.
