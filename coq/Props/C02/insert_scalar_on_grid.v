(* Obligation C02/insert_scalar_on_grid.  Statement as printed by Coq from Inferno.C02.SelectProofs; proof by reference.
   This file contains nothing else, so the statement cannot be weakened quietly. *)
From Coq Require Import List ZArith Bool Arith Lia Reals Lra.
From Flocq Require Import Core.Raux.
From Inferno Require Import Base.Num Base.NumR Gen.Infra C01.Ring C01.RingProofs C02.Select C02.Matching C02.SelectProofs.
Import ListNotations.
Theorem insert_scalar_on_grid : forall dt tol : R,
  0 < dt ->
  0 <= tol < dt / 2 ->
  forall (s : ringR) (o : obsR) (off : Z) (t : R) (k : Z) (extrap : extrap_fn RN)
    (inplace : bool) (d : unit) (sh : list nat),
  wfS s ->
  st s = SFull d sh (rows s) ->
  shape_eqb (oshape o) sh = true ->
  length (oel o) = nel sh ->
  in_range dt tol (N s) t ->
  Rabs (IZR k * dt - t) <= tol ->
  exists s' : ring,
    insert_scalar RN s o dt tol off t extrap inplace = Ok s' OUnit /\
    wfS s' /\
    N s' = N s /\
    ptr s' = ptr s /\
    st s' = SFull d sh (rows s') /\
    (forall j : Z,
     at_ s' j =
     (if (j mod Z.of_nat (N s) =? (off + k) mod Z.of_nat (N s))%Z then oel o else at_ s j)).
Proof. exact (@Inferno.C02.SelectProofs.insert_scalar_on_grid). Qed.
Print Assumptions insert_scalar_on_grid.
