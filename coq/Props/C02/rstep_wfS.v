(* Obligation C02/rstep_wfS.  Statement as printed by Coq from Inferno.C02.SelectProofs; proof by reference.
   This file contains nothing else, so the statement cannot be weakened quietly. *)
From Coq Require Import List ZArith Bool Arith Lia Reals Lra.
From Flocq Require Import Core.Raux.
From Inferno Require Import Base.Num Base.NumR Gen.Infra C01.Ring C01.RingProofs C02.Select C02.Matching C02.SelectProofs.
Import ListNotations.
Theorem rstep_wfS : forall dt : R,
  0 < dt ->
  forall (s s' : ringR) (op : rop) (out : output) (d : unit) (sh : list nat),
  wfS s ->
  st s = SFull d sh (rows s) ->
  (0 < nel sh)%nat ->
  rop_ok dt op ->
  rstep dt s op = Ok s' out -> wfS s' /\ N s' = N s /\ st s' = SFull d sh (rows s').
Proof. exact (@Inferno.C02.SelectProofs.rstep_wfS). Qed.
Print Assumptions rstep_wfS.
