(* Obligation C02/insert_scalar_off_grid.  Statement as printed by Coq from Inferno.C02.SelectProofs; proof by reference.
   This file contains nothing else, so the statement cannot be weakened quietly. *)
From Coq Require Import List ZArith Bool Arith Lia Reals Lra.
From Flocq Require Import Core.Raux.
From Inferno Require Import Base.Num Base.NumR Gen.Infra C01.Ring C01.RingProofs C02.Select C02.Matching C02.SelectProofs.
Import ListNotations.
Theorem insert_scalar_off_grid : forall dt tol : R,
  0 < dt ->
  0 <= tol < dt / 2 ->
  forall (s : ringR) (o : obsR) (off : Z) (t : R) (k : Z)
    (extrap : R -> R -> R -> R -> R -> T RN * T RN) (inplace : bool) 
    (d : unit) (sh : list nat),
  wfS s ->
  st s = SFull d sh (rows s) ->
  shape_eqb (oshape o) sh = true ->
  length (oel o) = nel sh ->
  (0 < nel sh)%nat ->
  in_range dt tol (N s) t ->
  between dt tol k t ->
  let sa := IZR (k + 1) * dt - t in
  let ex0 :=
    zipw (fun (x : R) (pn : R * R) => extrap x sa (fst pn) (snd pn) dt) 
      (oel o) (combine (at_ s (off + k + 1)) (at_ s (off + k))) in
  exists s' : ring,
    insert_scalar RN s o dt tol off t extrap inplace = Ok s' OUnit /\
    wfS s' /\
    N s' = N s /\
    ptr s' = ptr s /\
    st s' = SFull d sh (rows s') /\
    (forall j : Z,
     at_ s' j =
     (if (j mod Z.of_nat (N s) =? (off + k) mod Z.of_nat (N s))%Z
      then map snd ex0
      else
       if (j mod Z.of_nat (N s) =? (off + k + 1) mod Z.of_nat (N s))%Z
       then map fst ex0
       else at_ s j)).
Proof. exact (@Inferno.C02.SelectProofs.insert_scalar_off_grid). Qed.
Print Assumptions insert_scalar_off_grid.
