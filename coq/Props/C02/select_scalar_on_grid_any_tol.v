(* Obligation C02/select_scalar_on_grid_any_tol.  Statement as printed by Coq from Inferno.C02.SelectProofs; proof by reference.
   This file contains nothing else, so the statement cannot be weakened quietly. *)
From Coq Require Import List ZArith Bool Arith Lia Reals Lra.
From Flocq Require Import Core.Raux.
From Inferno Require Import Base.Num Base.NumR Gen.Infra C01.Ring C01.RingProofs C02.Select C02.Matching C02.SelectProofs.
Import ListNotations.
Theorem select_scalar_on_grid_any_tol : forall dt tol : R,
  0 < dt ->
  forall (s : ringR) (off : Z) (t : R) (interp : interp_fn RN),
  wf s ->
  full s ->
  in_range dt tol (N s) t ->
  (exists k : Z, Rabs (IZR k * dt - t) <= tol) ->
  let r := rneZ RN (shift_of RN dt t) in
  Rabs (IZR r * dt - t) <= tol /\
  (forall k : Z, Rabs (IZR r * dt - t) <= Rabs (IZR k * dt - t)) /\
  (exists (d : unit) (sh : list nat),
     st s = SFull d sh (rows s) /\
     select_scalar RN s dt tol off t interp = Ok s (OObs d sh (at_ s (off + r)))).
Proof. exact (@Inferno.C02.SelectProofs.select_scalar_on_grid_any_tol). Qed.
Print Assumptions select_scalar_on_grid_any_tol.
