(* Obligation C02/rrun_wfS.  Statement as printed by Coq from Inferno.C02.SelectProofs; proof by reference.
   This file contains nothing else, so the statement cannot be weakened quietly. *)
From Coq Require Import List ZArith Bool Arith Lia Reals Lra.
From Flocq Require Import Core.Raux.
From Inferno Require Import Base.Num Base.NumR Gen.Infra C01.Ring C01.RingProofs C02.Select C02.Matching C02.SelectProofs.
Import ListNotations.
Theorem rrun_wfS : forall dt : R,
  0 < dt ->
  forall (ops : list rop) (s : ringR) (d : unit) (sh : list nat),
  wfS s ->
  st s = SFull d sh (rows s) ->
  (0 < nel sh)%nat ->
  Forall (rop_ok dt) ops ->
  let s' := rrun dt s ops in wfS s' /\ full s' /\ N s' = N s /\ st s' = SFull d sh (rows s').
Proof. exact (@Inferno.C02.SelectProofs.rrun_wfS). Qed.
Print Assumptions rrun_wfS.
