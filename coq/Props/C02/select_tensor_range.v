(* Obligation C02/select_tensor_range.  Statement as printed by Coq from Inferno.C02.SelectProofs; proof by reference.
   This file contains nothing else, so the statement cannot be weakened quietly. *)
From Coq Require Import List ZArith Bool Arith Lia Reals Lra.
From Flocq Require Import Core.Raux.
From Inferno Require Import Base.Num Base.NumR Gen.Infra C01.Ring C01.RingProofs C02.Select C02.Matching C02.SelectProofs.
Import ListNotations.
Theorem select_tensor_range : forall dt tol : R,
  0 <= tol < dt / 2 ->
  forall (s : ringR) (off : Z) (tnd : nat) (times : list (list (T RN)))
    (interp : interp_fn RN) (d : unit) (sh : list nat),
  st s = SFull d sh (rows s) ->
  tnd = length sh \/ tnd = S (length sh) ->
  select_tensor RN s dt tol off tnd times interp = Err EValue <->
  (exists t : T RN,
     In t (concat times) /\ (t < - tol \/ dt * IZR (Z.of_nat (N s) - 1) + tol < t)).
Proof. exact (@Inferno.C02.SelectProofs.select_tensor_range). Qed.
Print Assumptions select_tensor_range.
