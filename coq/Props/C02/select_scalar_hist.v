(* Obligation C02/select_scalar_hist.  Statement as printed by Coq from Inferno.C02.SelectProofs; proof by reference.
   This file contains nothing else, so the statement cannot be weakened quietly. *)
From Coq Require Import List ZArith Bool Arith Lia Reals Lra.
From Flocq Require Import Core.Raux.
From Inferno Require Import Base.Num Base.NumR Gen.Infra C01.Ring C01.RingProofs C02.Select C02.Matching C02.SelectProofs.
Import ListNotations.
Theorem select_scalar_hist : forall dt tol : R,
  0 < dt ->
  0 <= tol < dt / 2 ->
  forall (s : ringR) (t : R) (interp : interp_fn RN),
  wf s ->
  full s ->
  in_range dt tol (N s) t ->
  exists (d : unit) (sh : list nat),
    st s = SFull d sh (rows s) /\
    (forall k : Z,
     Rabs (IZR k * dt - t) <= tol ->
     (0 <= k < Z.of_nat (N s))%Z /\
     select_scalar RN s dt tol 1 t interp = Ok s (OObs d sh (nth (Z.to_nat k) (hist s) []))) /\
    (forall k : Z,
     between dt tol k t ->
     ((0 <= k)%Z /\ (k + 1 < Z.of_nat (N s))%Z) /\
     select_scalar RN s dt tol 1 t interp =
     Ok s
       (OObs d sh
          (zipw (fun p n : T RN => interp p n (IZR (k + 1) * dt - t) dt)
             (nth (Z.to_nat (k + 1)) (hist s) []) (nth (Z.to_nat k) (hist s) [])))).
Proof. exact (@Inferno.C02.SelectProofs.select_scalar_hist). Qed.
Print Assumptions select_scalar_hist.
