(* Obligation C02/select_tensor_spec.  Statement as printed by Coq from Inferno.C02.SelectProofs; proof by reference.
   This file contains nothing else, so the statement cannot be weakened quietly. *)
From Coq Require Import List ZArith Bool Arith Lia Reals Lra.
From Flocq Require Import Core.Raux.
From Inferno Require Import Base.Num Base.NumR Gen.Infra C01.Ring C01.RingProofs C02.Select C02.Matching C02.SelectProofs.
Import ListNotations.
Theorem select_tensor_spec : forall dt tol : R,
  0 < dt ->
  0 <= tol < dt / 2 ->
  forall (s : ringR) (off : Z) (tnd : nat) (times : list (list R)) 
    (interp : interp_fn RN) (d : unit) (sh : list nat),
  wfS s ->
  st s = SFull d sh (rows s) ->
  tnd = length sh \/ tnd = S (length sh) ->
  Forall (in_range dt tol (N s)) (concat times) ->
  exists cols : list (list R),
    select_tensor RN s dt tol off tnd times interp =
    (if tnd =? length sh
     then Ok s (OObs d sh (map (fun c : list R => hd 0 c) cols))
     else Ok s (ORng {| rdt := d; rshape := sh; rcols := cols |})) /\
    length cols = nel sh /\
    (forall e j : nat,
     (e < nel sh)%nat ->
     (j < length (nth e times []))%nat ->
     let t := nth j (nth e times []) 0 in
     length (nth e cols []) = length (nth e times []) /\
     (forall k : Z,
      Rabs (IZR k * dt - t) <= tol -> nth j (nth e cols []) 0 = nth e (at_ s (off + k)) 0) /\
     (forall k : Z,
      between dt tol k t ->
      nth j (nth e cols []) 0 =
      interp (nth e (at_ s (off + k + 1)) 0) (nth e (at_ s (off + k)) 0)
        (IZR (k + 1) * dt - t) dt)).
Proof. exact (@Inferno.C02.SelectProofs.select_tensor_spec). Qed.
Print Assumptions select_tensor_spec.
