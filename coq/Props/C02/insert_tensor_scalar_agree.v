(* Obligation C02/insert_tensor_scalar_agree.  Statement as printed by Coq from Inferno.C02.SelectProofs; proof by reference.
   This file contains nothing else, so the statement cannot be weakened quietly. *)
From Coq Require Import List ZArith Bool Arith Lia Reals Lra.
From Flocq Require Import Core.Raux.
From Inferno Require Import Base.Num Base.NumR Gen.Infra C01.Ring C01.RingProofs C02.Select C02.Matching C02.SelectProofs.
Import ListNotations.
Theorem insert_tensor_scalar_agree : forall dt tol : R,
  0 < dt ->
  0 <= tol < dt / 2 ->
  forall (s : ringR) (o : obsR) (off : Z) (t : R) (times : list R) 
    (extrap : extrap_fn RN) (ip1 ip2 : bool) (d : unit) (sh : list nat),
  wfS s ->
  st s = SFull d sh (rows s) ->
  shape_eqb (oshape o) sh = true ->
  length (oel o) = nel sh ->
  (0 < nel sh)%nat ->
  in_range dt tol (N s) t ->
  times = repeat t (nel sh) ->
  insert_tensor RN s o dt tol off sh times extrap ip1 =
  insert_scalar RN s o dt tol off t extrap ip2.
Proof. exact (@Inferno.C02.SelectProofs.insert_tensor_scalar_agree). Qed.
Print Assumptions insert_tensor_scalar_agree.
