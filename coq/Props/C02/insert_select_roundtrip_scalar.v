(* Obligation C02/insert_select_roundtrip_scalar.  Statement as printed by Coq from Inferno.C02.SelectProofs; proof by reference.
   This file contains nothing else, so the statement cannot be weakened quietly. *)
From Coq Require Import List ZArith Bool Arith Lia Reals Lra.
From Flocq Require Import Core.Raux.
From Inferno Require Import Base.Num Base.NumR Gen.Infra C01.Ring C01.RingProofs C02.Select C02.Matching C02.SelectProofs.
Import ListNotations.
Theorem insert_select_roundtrip_scalar : forall dt tol : R,
  0 < dt ->
  0 <= tol < dt / 2 ->
  forall (s : ringR) (o : obsR) (off : Z) (t : R) (interp : interp_t) 
    (extrap : extrap_t) (inplace : bool) (d : unit) (sh : list nat),
  wfS s ->
  st s = SFull d sh (rows s) ->
  shape_eqb (oshape o) sh = true ->
  length (oel o) = nel sh ->
  (0 < nel sh)%nat ->
  in_range dt tol (N s) t ->
  matching dt interp extrap ->
  exists s' : ring,
    insert_scalar RN s o dt tol off t extrap inplace = Ok s' OUnit /\
    select_scalar RN s' dt tol off t interp = Ok s' (OObs d sh (oel o)).
Proof. exact (@Inferno.C02.SelectProofs.insert_select_roundtrip_scalar). Qed.
Print Assumptions insert_select_roundtrip_scalar.
