(* Obligation C02/mismatch_expdecay_neighbors_no_roundtrip.  Statement as printed by Coq from Inferno.C02.RoundTrip; proof by reference.
   This file contains nothing else, so the statement cannot be weakened quietly. *)
From Coq Require Import Reals.
From Inferno Require Import Base.Num Base.NumR Gen.Interpolation Gen.Extrapolation C02.Matching C02.RoundTrip.
Theorem mismatch_expdecay_neighbors_no_roundtrip : ~ matching 1 (fun p n sa st : R => interp_expdecay RN p n sa st 1) (extrap_neighbors RN).
Proof. exact (@Inferno.C02.RoundTrip.mismatch_expdecay_neighbors_no_roundtrip). Qed.
Print Assumptions mismatch_expdecay_neighbors_no_roundtrip.
