(* Obligation C02/insert_scalar_uninit.  Statement as printed by Coq from Inferno.C02.SelectProofs; proof by reference.
   This file contains nothing else, so the statement cannot be weakened quietly. *)
From Coq Require Import List ZArith Bool Arith Lia Reals Lra.
From Flocq Require Import Core.Raux.
From Inferno Require Import Base.Num Base.NumR Gen.Infra C01.Ring C01.RingProofs C02.Select C02.Matching C02.SelectProofs.
Import ListNotations.
Theorem insert_scalar_uninit : forall (dt tol : R) (s : ringR) (o : obsR) (off : Z) (t : T RN) 
    (extrap : extrap_fn RN) (inplace : bool),
  ~ full s -> insert_scalar RN s o dt tol off t extrap inplace = Err ERuntime.
Proof. exact (@Inferno.C02.SelectProofs.insert_scalar_uninit). Qed.
Print Assumptions insert_scalar_uninit.
