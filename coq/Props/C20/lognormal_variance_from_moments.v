(* Obligation C20/lognormal_variance_from_moments.  Statement as printed by Coq from Inferno.C20.DistLogNormal; proof by reference.
   This file contains nothing else, so the statement cannot be weakened quietly. *)
From Coq Require Import Reals List ZArith Bool.
From Coquelicot Require Import Coquelicot.
From Flocq Require Import Core.Raux.
From Inferno Require Import Base.Num Base.NumR Gen.Distributions C20.Model C20.Spec C20.DistLogNormal.
Import ListNotations.
Open Scope R_scope.
Theorem lognormal_variance_from_moments : forall loc scale : T RN,
  lognormal_variance RN loc scale =
  Rtrigo_def.exp (2 * loc + 2 * (scale * scale)) - lognormal_mean RN loc scale ^ 2.
Proof. exact (@Inferno.C20.DistLogNormal.lognormal_variance_from_moments). Qed.
Print Assumptions lognormal_variance_from_moments.
