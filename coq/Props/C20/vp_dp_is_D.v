(* Obligation C20/vp_dp_is_D.  Statement as printed by Coq from Inferno.C20.VPProofs; proof by reference.
   This file contains nothing else, so the statement cannot be weakened quietly. *)
From Coq Require Import List ZArith Bool Arith Reals.
From Inferno Require Import Base.Num Base.NumR C20.Model C20.Spec C20.VPProofs.
Import ListNotations.
Open Scope R_scope.
Theorem vp_dp_is_D : forall (cost : option R) (t0 t1 : list (T RN)),
  vp_dp RN cost t0 t1 = D cost (rev t0) (rev t1).
Proof. exact (@Inferno.C20.VPProofs.vp_dp_is_D). Qed.
Print Assumptions vp_dp_is_D.
