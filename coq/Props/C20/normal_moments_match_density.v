(* Obligation C20/normal_moments_match_density.  Statement as printed by Coq from Inferno.C20.DistNormal; proof by reference.
   This file contains nothing else, so the statement cannot be weakened quietly. *)
From Coq Require Import Reals List ZArith Bool.
From Coquelicot Require Import Coquelicot.
From Flocq Require Import Core.Raux.
From Inferno Require Import Base.Num Base.NumR Gen.Distributions C20.Model C20.Spec C20.DistNormal.
Import ListNotations.
Open Scope R_scope.
Theorem normal_moments_match_density : forall (erf : R -> R) (loc scale : R),
  0 < scale ->
  is_lim erf p_infty 1 ->
  is_lim erf m_infty (-1) ->
  let F1 :=
    fun x : T RN =>
    loc * normal_cdf RN erf x loc scale - scale * scale * normal_pdf RN (2 * PI) x loc scale
    in
  let F2 :=
    fun x : T RN =>
    scale * scale * normal_cdf RN erf x loc scale -
    scale * scale * ((x - loc) * normal_pdf RN (2 * PI) x loc scale) in
  (is_lim F1 p_infty (normal_mean RN loc) /\ is_lim F1 m_infty 0) /\
  is_lim F2 p_infty (normal_variance RN scale) /\ is_lim F2 m_infty 0.
Proof. exact (@Inferno.C20.DistNormal.normal_moments_match_density). Qed.
Print Assumptions normal_moments_match_density.
