(* Obligation C20/nearest_is_a_bracket.  Statement as printed by Coq from Inferno.C20.InterpProofs; proof by reference.
   This file contains nothing else, so the statement cannot be weakened quietly. *)
From Coq Require Import Reals Lra List ZArith Bool.
From Inferno Require Import Base.Num Base.NumR Gen.Interpolation Gen.Extrapolation C20.InterpProofs.
Open Scope R_scope.
Theorem nearest_is_a_bracket : forall p n t dt : T RN, interp_nearest RN p n t dt = p \/ interp_nearest RN p n t dt = n.
Proof. exact (@Inferno.C20.InterpProofs.nearest_is_a_bracket). Qed.
Print Assumptions nearest_is_a_bracket.
