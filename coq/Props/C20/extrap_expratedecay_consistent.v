(* Obligation C20/extrap_expratedecay_consistent.  Statement as printed by Coq from Inferno.C20.InterpProofs; proof by reference.
   This file contains nothing else, so the statement cannot be weakened quietly. *)
From Coq Require Import Reals Lra List ZArith Bool.
From Inferno Require Import Base.Num Base.NumR Gen.Interpolation Gen.Extrapolation C20.InterpProofs.
Open Scope R_scope.
Theorem extrap_expratedecay_consistent : forall s t p n dt rc : T RN,
  interp_expratedecay RN (fst (extrap_expratedecay RN s t p n dt rc)) n dt dt rc =
  snd (extrap_expratedecay RN s t p n dt rc).
Proof. exact (@Inferno.C20.InterpProofs.extrap_expratedecay_consistent). Qed.
Print Assumptions extrap_expratedecay_consistent.
