(* Obligation C20/linear_is_convex_combination.  Statement as printed by Coq from Inferno.C20.InterpProofs; proof by reference.
   This file contains nothing else, so the statement cannot be weakened quietly. *)
From Coq Require Import Reals Lra List ZArith Bool.
From Inferno Require Import Base.Num Base.NumR Gen.Interpolation Gen.Extrapolation C20.InterpProofs.
Open Scope R_scope.
Theorem linear_is_convex_combination : forall (p n t : T RN) (dt : R),
  dt <> 0 -> interp_linear RN p n t dt = (1 - t / dt) * p + t / dt * n.
Proof. exact (@Inferno.C20.InterpProofs.linear_is_convex_combination). Qed.
Print Assumptions linear_is_convex_combination.
