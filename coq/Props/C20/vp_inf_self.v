(* Obligation C20/vp_inf_self.  Statement as printed by Coq from Inferno.C20.VPProofs; proof by reference.
   This file contains nothing else, so the statement cannot be weakened quietly. *)
From Coq Require Import List ZArith Bool Arith Reals.
From Inferno Require Import Base.Num Base.NumR C20.Model C20.Spec C20.VPProofs.
Import ListNotations.
Open Scope R_scope.
Theorem vp_inf_self : forall t : list R, vp_tensor RN None t t = 2 * INR (length t).
Proof. exact (@Inferno.C20.VPProofs.vp_inf_self). Qed.
Print Assumptions vp_inf_self.
