(* Obligation C20/lognormal_pdf_is_derivative_of_cdf.  Statement as printed by Coq from Inferno.C20.DistLogNormal; proof by reference.
   This file contains nothing else, so the statement cannot be weakened quietly. *)
From Coq Require Import Reals List ZArith Bool.
From Coquelicot Require Import Coquelicot.
From Flocq Require Import Core.Raux.
From Inferno Require Import Base.Num Base.NumR Gen.Distributions C20.Model C20.Spec C20.DistLogNormal.
Import ListNotations.
Open Scope R_scope.
Theorem lognormal_pdf_is_derivative_of_cdf : forall (erf : R -> R) (loc : T RN) (scale x : R),
  erf_derivative erf ->
  0 < scale ->
  0 < x ->
  is_derive (fun x0 : R_AbsRing => lognormal_cdf RN erf x0 loc scale) x
    (lognormal_pdf RN (2 * PI) x loc scale).
Proof. exact (@Inferno.C20.DistLogNormal.lognormal_pdf_is_derivative_of_cdf). Qed.
Print Assumptions lognormal_pdf_is_derivative_of_cdf.
