(* Obligation C20/vp_zero_iff_equal.  Statement as printed by Coq from Inferno.C20.VPProofs; proof by reference.
   This file contains nothing else, so the statement cannot be weakened quietly. *)
From Coq Require Import List ZArith Bool Arith Reals.
From Inferno Require Import Base.Num Base.NumR C20.Model C20.Spec C20.VPProofs.
Import ListNotations.
Open Scope R_scope.
Theorem vp_zero_iff_equal : forall (q : R) (t0 t1 : list R), 0 < q -> vp_tensor RN (Some q) t0 t1 = 0 <-> t0 = t1.
Proof. exact (@Inferno.C20.VPProofs.vp_zero_iff_equal). Qed.
Print Assumptions vp_zero_iff_equal.
