(* Obligation C20/isi_spec.  Statement as printed by Coq from Inferno.C20.IsiProofs; proof by reference.
   This file contains nothing else, so the statement cannot be weakened quietly. *)
From Coq Require Import List ZArith Bool Arith Reals.
From Inferno Require Import Base.Num Base.NumR C20.Model C20.Spec C20.IsiProofs.
Import ListNotations.
Theorem isi_spec : forall (N : Num) (dt : T N) (m : nat) (data : list (list bool)),
  (1 <= m)%nat ->
  (length data = m ->
   isi N dt false m data =
   Some (m, (maxcount data - 1)%nat, map (isi_spec_row N dt (maxcount data)) data)) /\
  (let trains := transpose false m data in
   isi N dt true m data =
   Some
     ((maxcount trains - 1)%nat, m,
      transpose None (maxcount trains - 1) (map (isi_spec_row N dt (maxcount trains)) trains))).
Proof. exact (@Inferno.C20.IsiProofs.isi_spec). Qed.
Print Assumptions isi_spec.
