(* Obligation C20/normal_pdf_integrates_to_one.  Statement as printed by Coq from Inferno.C20.DistNormal; proof by reference.
   This file contains nothing else, so the statement cannot be weakened quietly. *)
From Coq Require Import Reals List ZArith Bool.
From Coquelicot Require Import Coquelicot.
From Flocq Require Import Core.Raux.
From Inferno Require Import Base.Num Base.NumR Gen.Distributions C20.Model C20.Spec C20.DistNormal.
Import ListNotations.
Open Scope R_scope.
Theorem normal_pdf_integrates_to_one : forall (erf : R -> R) (loc : T RN) (scale : R),
  erf_derivative erf ->
  0 < scale ->
  is_lim erf p_infty 1 ->
  is_lim erf m_infty (-1) ->
  (forall a : R,
   is_lim (fun b : R => RInt (fun x : R => normal_pdf RN (2 * PI) x loc scale) a b) p_infty
     (1 - normal_cdf RN erf a loc scale)) /\
  is_lim (fun a : R => 1 - normal_cdf RN erf a loc scale) m_infty 1.
Proof. exact (@Inferno.C20.DistNormal.normal_pdf_integrates_to_one). Qed.
Print Assumptions normal_pdf_integrates_to_one.
