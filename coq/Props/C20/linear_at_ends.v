(* Obligation C20/linear_at_ends.  Statement as printed by Coq from Inferno.C20.InterpProofs; proof by reference.
   This file contains nothing else, so the statement cannot be weakened quietly. *)
From Coq Require Import Reals Lra List ZArith Bool.
From Inferno Require Import Base.Num Base.NumR Gen.Interpolation Gen.Extrapolation C20.InterpProofs.
Open Scope R_scope.
Theorem linear_at_ends : forall (p n : T RN) (dt : R),
  dt <> 0 -> interp_linear RN p n 0 dt = p /\ interp_linear RN p n dt dt = n.
Proof. exact (@Inferno.C20.InterpProofs.linear_at_ends). Qed.
Print Assumptions linear_at_ends.
