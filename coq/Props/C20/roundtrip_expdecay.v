(* Obligation C20/roundtrip_expdecay.  Statement as printed by Coq from Inferno.C20.InterpProofs; proof by reference.
   This file contains nothing else, so the statement cannot be weakened quietly. *)
From Coq Require Import Reals Lra List ZArith Bool.
From Inferno Require Import Base.Num Base.NumR Gen.Interpolation Gen.Extrapolation C20.InterpProofs.
Open Scope R_scope.
Theorem roundtrip_expdecay : forall s t p n dt tc : T RN,
  interp_expdecay RN (fst (extrap_expdecay RN s t p n dt tc))
    (snd (extrap_expdecay RN s t p n dt tc)) t dt tc = s.
Proof. exact (@Inferno.C20.InterpProofs.roundtrip_expdecay). Qed.
Print Assumptions roundtrip_expdecay.
