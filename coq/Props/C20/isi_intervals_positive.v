(* Obligation C20/isi_intervals_positive.  Statement as printed by Coq from Inferno.C20.IsiProofs; proof by reference.
   This file contains nothing else, so the statement cannot be weakened quietly. *)
From Coq Require Import List ZArith Bool Arith Reals.
From Inferno Require Import Base.Num Base.NumR C20.Model C20.Spec C20.IsiProofs.
Import ListNotations.
Theorem isi_intervals_positive : forall (dt : R) (tr : list bool),
  0 < dt -> Forall (fun d : R => 0 < d) (diffs RN (spike_times RN dt tr)).
Proof. exact (@Inferno.C20.IsiProofs.isi_intervals_positive). Qed.
Print Assumptions isi_intervals_positive.
