(* Obligation C20/interp_extrap_roundtrip_all.  Statement as printed by Coq from Inferno.C20.InterpProofs; proof by reference.
   This file contains nothing else, so the statement cannot be weakened quietly. *)
From Coq Require Import Reals Lra List ZArith Bool.
From Inferno Require Import Base.Num Base.NumR Gen.Interpolation Gen.Extrapolation C20.InterpProofs.
Open Scope R_scope.
Theorem interp_extrap_roundtrip_all : forall (s t p n dt : R) (tc : T RN) (adjust : option (T RN -> T RN)),
  0 < t < dt ->
  roundtrip (interp_previous RN) (extrap_previous RN) s t p n dt /\
  roundtrip (interp_next RN) (extrap_next RN) s t p n dt /\
  roundtrip (interp_nearest RN) (extrap_nearest RN) s t p n dt /\
  roundtrip (interp_previous RN) (extrap_neighbors RN) s t p n dt /\
  roundtrip (interp_next RN) (extrap_neighbors RN) s t p n dt /\
  roundtrip (interp_nearest RN) (extrap_neighbors RN) s t p n dt /\
  roundtrip (interp_linear RN) (extrap_neighbors RN) s t p n dt /\
  roundtrip (interp_linear RN)
    (fun a b c d e : R => extrap_linear_forward RN a b c d e adjust) s t p n dt /\
  roundtrip (interp_linear RN)
    (fun a b c d e : R => extrap_linear_backward RN a b c d e adjust) s t p n dt /\
  roundtrip (fun a b c d : R => interp_expdecay RN a b c d tc)
    (fun a b c d e : R => extrap_expdecay RN a b c d e tc) s t p n dt /\
  roundtrip (fun a b c d : R => interp_expratedecay RN a b c d tc)
    (fun a b c d e : R => extrap_expratedecay RN a b c d e tc) s t p n dt.
Proof. exact (@Inferno.C20.InterpProofs.interp_extrap_roundtrip_all). Qed.
Print Assumptions interp_extrap_roundtrip_all.
