(* Obligation C20/interp_extrap_roundtrip_all.  Statement as printed by Coq from Inferno.C20.InterpProofs; proof by reference.
   This file contains nothing else, so the statement cannot be weakened quietly. *)
From Coq Require Import Reals Lra List ZArith Bool.
From Inferno Require Import Base.Num Base.NumR Gen.Interpolation Gen.Extrapolation C20.InterpProofs.
Open Scope R_scope.
Theorem interp_extrap_roundtrip_all : forall (s : T RN) (t : R) (p n : T RN) (dt : R) (tc : T RN) (adjust : option (T RN -> T RN)),
  0 < t < dt ->
  interp_previous RN (fst (extrap_previous RN s t p n dt))
    (snd (extrap_previous RN s t p n dt)) t dt = s /\
  interp_next RN (fst (extrap_next RN s t p n dt)) (snd (extrap_next RN s t p n dt)) t dt = s /\
  interp_nearest RN (fst (extrap_nearest RN s t p n dt)) (snd (extrap_nearest RN s t p n dt))
    t dt = s /\
  interp_previous RN (fst (extrap_neighbors RN s t p n dt))
    (snd (extrap_neighbors RN s t p n dt)) t dt = s /\
  interp_next RN (fst (extrap_neighbors RN s t p n dt)) (snd (extrap_neighbors RN s t p n dt))
    t dt = s /\
  interp_nearest RN (fst (extrap_neighbors RN s t p n dt))
    (snd (extrap_neighbors RN s t p n dt)) t dt = s /\
  interp_linear RN (fst (extrap_neighbors RN s t p n dt))
    (snd (extrap_neighbors RN s t p n dt)) t dt = s /\
  interp_linear RN (fst (extrap_linear_forward RN s t p n dt adjust))
    (snd (extrap_linear_forward RN s t p n dt adjust)) t dt = s /\
  interp_linear RN (fst (extrap_linear_backward RN s t p n dt adjust))
    (snd (extrap_linear_backward RN s t p n dt adjust)) t dt = s /\
  interp_expdecay RN (fst (extrap_expdecay RN s t p n dt tc))
    (snd (extrap_expdecay RN s t p n dt tc)) t dt tc = s /\
  interp_expratedecay RN (fst (extrap_expratedecay RN s t p n dt tc))
    (snd (extrap_expratedecay RN s t p n dt tc)) t dt tc = s.
Proof. exact (@Inferno.C20.InterpProofs.interp_extrap_roundtrip_all). Qed.
Print Assumptions interp_extrap_roundtrip_all.
