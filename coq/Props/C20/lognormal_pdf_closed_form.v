(* Obligation C20/lognormal_pdf_closed_form.  Statement as printed by Coq from Inferno.C20.DistLogNormal; proof by reference.
   This file contains nothing else, so the statement cannot be weakened quietly. *)
From Coq Require Import Reals List ZArith Bool.
From Coquelicot Require Import Coquelicot.
From Flocq Require Import Core.Raux.
From Inferno Require Import Base.Num Base.NumR Gen.Distributions C20.Model C20.Spec C20.DistLogNormal.
Import ListNotations.
Open Scope R_scope.
Theorem lognormal_pdf_closed_form : forall (tau x : R) (loc : T RN) (scale : R),
  0 < tau ->
  0 < scale ->
  0 < x ->
  lognormal_pdf RN tau x loc scale = Rtrigo_def.exp (lognormal_logpdf RN tau x loc scale) /\
  lognormal_pdf RN tau x loc scale = normal_pdf RN tau (Rpower.ln x) loc scale / x /\
  lognormal_pdf RN tau x loc scale =
  1 / (x * scale * R_sqrt.sqrt tau) *
  Rtrigo_def.exp (- / 2 * ((Rpower.ln x - loc) / scale) ^ 2).
Proof. exact (@Inferno.C20.DistLogNormal.lognormal_pdf_closed_form). Qed.
Print Assumptions lognormal_pdf_closed_form.
