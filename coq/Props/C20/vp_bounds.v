(* Obligation C20/vp_bounds.  Statement as printed by Coq from Inferno.C20.VPProofs; proof by reference.
   This file contains nothing else, so the statement cannot be weakened quietly. *)
From Coq Require Import List ZArith Bool Arith Reals.
From Inferno Require Import Base.Num Base.NumR C20.Model C20.Spec C20.VPProofs.
Import ListNotations.
Open Scope R_scope.
Theorem vp_bounds : forall (cost : option R) (t0 t1 : list R),
  nonneg_cost cost ->
  Rabs (INR (length t0) - INR (length t1)) <= vp_tensor RN cost t0 t1 <=
  INR (length t0) + INR (length t1).
Proof. exact (@Inferno.C20.VPProofs.vp_bounds). Qed.
Print Assumptions vp_bounds.
