(* Obligation C20/vp_monotone_in_cost.  Statement as printed by Coq from Inferno.C20.VPProofs; proof by reference.
   This file contains nothing else, so the statement cannot be weakened quietly. *)
From Coq Require Import List ZArith Bool Arith Reals.
From Inferno Require Import Base.Num Base.NumR C20.Model C20.Spec C20.VPProofs.
Import ListNotations.
Open Scope R_scope.
Theorem vp_monotone_in_cost : forall (q1 q2 : R) (t0 t1 : list R),
  0 <= q1 <= q2 ->
  vp_tensor RN (Some q1) t0 t1 <= vp_tensor RN (Some q2) t0 t1 <= vp_tensor RN None t0 t1.
Proof. exact (@Inferno.C20.VPProofs.vp_monotone_in_cost). Qed.
Print Assumptions vp_monotone_in_cost.
