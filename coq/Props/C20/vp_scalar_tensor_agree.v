(* Obligation C20/vp_scalar_tensor_agree.  Statement as printed by Coq from Inferno.C20.VPProofs; proof by reference.
   This file contains nothing else, so the statement cannot be weakened quietly. *)
From Coq Require Import List ZArith Bool Arith Reals.
From Inferno Require Import Base.Num Base.NumR C20.Model C20.Spec C20.VPProofs.
Import ListNotations.
Open Scope R_scope.
Theorem vp_scalar_tensor_agree : forall (cost : option (T RN)) (t0 t1 : list R),
  vp_scalar RN cost t0 t1 = vp_tensor RN cost t0 t1.
Proof. exact (@Inferno.C20.VPProofs.vp_scalar_tensor_agree). Qed.
Print Assumptions vp_scalar_tensor_agree.
