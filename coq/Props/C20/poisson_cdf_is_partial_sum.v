(* Obligation C20/poisson_cdf_is_partial_sum.  Statement as printed by Coq from Inferno.C20.DistProofs; proof by reference.
   This file contains nothing else, so the statement cannot be weakened quietly. *)
From Coq Require Import Reals List ZArith Bool.
From Coquelicot Require Import Coquelicot.
From Flocq Require Import Core.Raux.
From Inferno Require Import Base.Num Base.NumR C20.Model C20.Spec C20.DistProofs.
Import ListNotations.
Open Scope R_scope.
Theorem poisson_cdf_is_partial_sum : forall support rate : R,
  0 < rate ->
  0 <= support ->
  poisson_cdf RN support rate =
  sum_n (fun j : nat => poisson_pmf RN j rate) (Z.to_nat (Zfloor support)).
Proof. exact (@Inferno.C20.DistProofs.poisson_cdf_is_partial_sum). Qed.
Print Assumptions poisson_cdf_is_partial_sum.
