(* Obligation C20/poisson_cdf_is_partial_sum.  Statement as printed by Coq from Inferno.C20.DistPoisson; proof by reference.
   This file contains nothing else, so the statement cannot be weakened quietly. *)
From Coq Require Import Reals List ZArith Bool.
From Coquelicot Require Import Coquelicot.
From Flocq Require Import Core.Raux.
From Inferno Require Import Base.Num Base.NumR Gen.Distributions C20.Model C20.Spec C20.DistPoisson.
Import ListNotations.
Open Scope R_scope.
Theorem poisson_cdf_is_partial_sum : forall (lg : R -> R) (g : R -> R -> R) (support rate : R),
  lgamma_spec lg ->
  gammaincc_spec g ->
  0 < rate ->
  0 <= support ->
  poisson_cdf RN g support rate =
  sum_n (fun j : nat => poisson_pmf RN lg (INR j) rate) (Z.to_nat (Zfloor support)).
Proof. exact (@Inferno.C20.DistPoisson.poisson_cdf_is_partial_sum). Qed.
Print Assumptions poisson_cdf_is_partial_sum.
