(* Obligation C20/vp_identity.  Statement as printed by Coq from Inferno.C20.VPProofs; proof by reference.
   This file contains nothing else, so the statement cannot be weakened quietly. *)
From Coq Require Import List ZArith Bool Arith Reals.
From Inferno Require Import Base.Num Base.NumR C20.Model C20.Spec C20.VPProofs.
Import ListNotations.
Open Scope R_scope.
Theorem vp_identity : forall (q : R) (t : list R), 0 <= q -> vp_tensor RN (Some q) t t = 0.
Proof. exact (@Inferno.C20.VPProofs.vp_identity). Qed.
Print Assumptions vp_identity.
