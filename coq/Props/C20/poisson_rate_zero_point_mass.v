(* Obligation C20/poisson_rate_zero_point_mass.  Statement as printed by Coq from Inferno.C20.DistPoisson; proof by reference.
   This file contains nothing else, so the statement cannot be weakened quietly. *)
From Coq Require Import Reals List ZArith Bool.
From Coquelicot Require Import Coquelicot.
From Flocq Require Import Core.Raux.
From Inferno Require Import Base.Num Base.NumR Gen.Distributions C20.Model C20.Spec C20.DistPoisson.
Import ListNotations.
Open Scope R_scope.
Theorem poisson_rate_zero_point_mass : forall (lg : R -> R) (g : R -> R -> R),
  lgamma_spec lg ->
  gammaincc_spec g ->
  (forall k : nat, poisson_pmf_ext RN lg k 0 = (if k =? 0 then 1 else 0)) /\
  (forall k : nat, poisson_logpmf_ext RN lg k 0 = None <-> k <> 0%nat) /\
  (forall s : R,
   0 <= s ->
   poisson_cdf RN g s 0 = 1 /\
   poisson_logcdf RN g s 0 = 0 /\
   poisson_cdf RN g s 0 =
   sum_n (fun j : nat => poisson_pmf_ext RN lg j 0) (Z.to_nat (Zfloor s))) /\
  is_series (fun k : nat => poisson_pmf_ext RN lg k 0) 1 /\
  is_series (fun k : nat => INR k * poisson_pmf_ext RN lg k 0) (poisson_mean RN 0) /\
  is_series (fun k : nat => (INR k - poisson_mean RN 0) ^ 2 * poisson_pmf_ext RN lg k 0)
    (poisson_variance RN 0).
Proof. exact (@Inferno.C20.DistPoisson.poisson_rate_zero_point_mass). Qed.
Print Assumptions poisson_rate_zero_point_mass.
