(* Obligation C20/extrap_keeps_other_bracket.  Statement as printed by Coq from Inferno.C20.InterpProofs; proof by reference.
   This file contains nothing else, so the statement cannot be weakened quietly. *)
From Coq Require Import Reals Lra List ZArith Bool.
From Inferno Require Import Base.Num Base.NumR Gen.Interpolation Gen.Extrapolation C20.InterpProofs.
Open Scope R_scope.
Theorem extrap_keeps_other_bracket : forall (s t p n dt : T RN) (adjust : option (T RN -> T RN)),
  snd (extrap_previous RN s t p n dt) = n /\
  fst (extrap_next RN s t p n dt) = p /\
  fst (extrap_linear_forward RN s t p n dt adjust) = app_adjust adjust p /\
  snd (extrap_linear_backward RN s t p n dt adjust) = app_adjust adjust n.
Proof. exact (@Inferno.C20.InterpProofs.extrap_keeps_other_bracket). Qed.
Print Assumptions extrap_keeps_other_bracket.
