(* Obligation C20/lognormal_params_mv_inverse.  Statement as printed by Coq from Inferno.C20.DistLogNormal; proof by reference.
   This file contains nothing else, so the statement cannot be weakened quietly. *)
From Coq Require Import Reals List ZArith Bool.
From Coquelicot Require Import Coquelicot.
From Flocq Require Import Core.Raux.
From Inferno Require Import Base.Num Base.NumR Gen.Distributions C20.Model C20.Spec C20.DistLogNormal.
Import ListNotations.
Open Scope R_scope.
Theorem lognormal_params_mv_inverse : forall (loc : T RN) (scale : R),
  0 <= scale ->
  lognormal_params_mv RN (lognormal_mean RN loc scale) (lognormal_variance RN loc scale) =
  (loc, scale).
Proof. exact (@Inferno.C20.DistLogNormal.lognormal_params_mv_inverse). Qed.
Print Assumptions lognormal_params_mv_inverse.
