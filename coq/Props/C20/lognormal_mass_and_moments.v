(* Obligation C20/lognormal_mass_and_moments.  Statement as printed by Coq from Inferno.C20.DistLogNormal; proof by reference.
   This file contains nothing else, so the statement cannot be weakened quietly. *)
From Coq Require Import Reals List ZArith Bool.
From Coquelicot Require Import Coquelicot.
From Flocq Require Import Core.Raux.
From Inferno Require Import Base.Num Base.NumR Gen.Distributions C20.Model C20.Spec C20.DistLogNormal.
Import ListNotations.
Open Scope R_scope.
Theorem lognormal_mass_and_moments : forall (erf : R -> R) (loc : T RN) (scale : R),
  0 < scale ->
  is_lim erf p_infty 1 ->
  is_lim erf m_infty (-1) ->
  (is_lim (fun x : R => lognormal_cdf RN erf x loc scale) p_infty 1 /\
   filterlim (fun x : T RN => lognormal_cdf RN erf x loc scale) (at_right 0) (locally 0)) /\
  (is_lim
     (fun x : R =>
      lognormal_mean RN loc scale *
      normal_cdf RN erf (Rpower.ln x) (loc + scale * scale) scale) p_infty
     (lognormal_mean RN loc scale) /\
   filterlim
     (fun x : R =>
      lognormal_mean RN loc scale *
      normal_cdf RN erf (Rpower.ln x) (loc + scale * scale) scale) 
     (at_right 0) (locally 0)) /\
  is_lim
    (fun x : R =>
     Rtrigo_def.exp (2 * loc + 2 * (scale * scale)) *
     normal_cdf RN erf (Rpower.ln x) (loc + 2 * (scale * scale)) scale) p_infty
    (Rtrigo_def.exp (2 * loc + 2 * (scale * scale))) /\
  filterlim
    (fun x : R =>
     Rtrigo_def.exp (2 * loc + 2 * (scale * scale)) *
     normal_cdf RN erf (Rpower.ln x) (loc + 2 * (scale * scale)) scale) 
    (at_right 0) (locally 0).
Proof. exact (@Inferno.C20.DistLogNormal.lognormal_mass_and_moments). Qed.
Print Assumptions lognormal_mass_and_moments.
