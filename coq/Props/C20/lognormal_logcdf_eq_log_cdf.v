(* Obligation C20/lognormal_logcdf_eq_log_cdf.  Statement as printed by Coq from Inferno.C20.DistLogNormal; proof by reference.
   This file contains nothing else, so the statement cannot be weakened quietly. *)
From Coq Require Import Reals List ZArith Bool.
From Coquelicot Require Import Coquelicot.
From Flocq Require Import Core.Raux.
From Inferno Require Import Base.Num Base.NumR Gen.Distributions C20.Model C20.Spec C20.DistLogNormal.
Import ListNotations.
Open Scope R_scope.
Theorem lognormal_logcdf_eq_log_cdf : forall (erf : R -> R) (x loc scale : T RN),
  lognormal_logcdf RN erf x loc scale = Rpower.ln (lognormal_cdf RN erf x loc scale) /\
  lognormal_cdf RN erf x loc scale = normal_cdf RN erf (Rpower.ln x) loc scale /\
  ((forall z : R, -1 < erf z) ->
   Rtrigo_def.exp (lognormal_logcdf RN erf x loc scale) = lognormal_cdf RN erf x loc scale).
Proof. exact (@Inferno.C20.DistLogNormal.lognormal_logcdf_eq_log_cdf). Qed.
Print Assumptions lognormal_logcdf_eq_log_cdf.
