(* Obligation C20/vp_cost_limits.  Statement as printed by Coq from Inferno.C20.VPProofs; proof by reference.
   This file contains nothing else, so the statement cannot be weakened quietly. *)
From Coq Require Import List ZArith Bool Arith Reals.
From Inferno Require Import Base.Num Base.NumR C20.Model C20.Spec C20.VPProofs.
Import ListNotations.
Open Scope R_scope.
Theorem vp_cost_limits : forall t0 t1 : list R,
  vp_tensor RN (Some 0) t0 t1 = Rabs (INR (length t0) - INR (length t1)) /\
  vp_tensor RN None t0 t1 = INR (length t0) + INR (length t1).
Proof. exact (@Inferno.C20.VPProofs.vp_cost_limits). Qed.
Print Assumptions vp_cost_limits.
