(* Obligation C20/normal_cdf_limits.  Statement as printed by Coq from Inferno.C20.DistNormal; proof by reference.
   This file contains nothing else, so the statement cannot be weakened quietly. *)
From Coq Require Import Reals List ZArith Bool.
From Coquelicot Require Import Coquelicot.
From Flocq Require Import Core.Raux.
From Inferno Require Import Base.Num Base.NumR Gen.Distributions C20.Model C20.Spec C20.DistNormal.
Import ListNotations.
Open Scope R_scope.
Theorem normal_cdf_limits : forall (erf : R -> R) (loc : T RN) (scale Lp Lm : R),
  0 < scale ->
  is_lim erf p_infty Lp ->
  is_lim erf m_infty Lm ->
  is_lim (fun x : R => normal_cdf RN erf x loc scale) p_infty (/ 2 * (1 + Lp)) /\
  is_lim (fun x : R => normal_cdf RN erf x loc scale) m_infty (/ 2 * (1 + Lm)).
Proof. exact (@Inferno.C20.DistNormal.normal_cdf_limits). Qed.
Print Assumptions normal_cdf_limits.
