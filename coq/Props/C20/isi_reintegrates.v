(* Obligation C20/isi_reintegrates.  Statement as printed by Coq from Inferno.C20.IsiProofs; proof by reference.
   This file contains nothing else, so the statement cannot be weakened quietly. *)
From Coq Require Import List ZArith Bool Arith Reals.
From Inferno Require Import Base.Num Base.NumR C20.Model C20.Spec C20.IsiProofs.
Import ListNotations.
Theorem isi_reintegrates : forall (dt : R) (trains : list (list bool)) (j : nat),
  (j < length trains)%nat ->
  let tr := nth j trains [] in
  let row := nth j (isi_last RN dt trains) [] in
  length row = (maxcount trains - 1)%nat /\
  (exists ds : list R,
     row = map Some ds ++ repeat None (length row - length ds) /\
     length ds = (count tr - 1)%nat /\
     (forall (t1 : T RN) (rest : list (T RN)),
      spike_times RN dt tr = t1 :: rest -> integrate t1 ds = t1 :: rest)).
Proof. exact (@Inferno.C20.IsiProofs.isi_reintegrates). Qed.
Print Assumptions isi_reintegrates.
