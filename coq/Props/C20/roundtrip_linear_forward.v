(* Obligation C20/roundtrip_linear_forward.  Statement as printed by Coq from Inferno.C20.InterpProofs; proof by reference.
   This file contains nothing else, so the statement cannot be weakened quietly. *)
From Coq Require Import Reals Lra List ZArith Bool.
From Inferno Require Import Base.Num Base.NumR Gen.Interpolation Gen.Extrapolation C20.InterpProofs.
Open Scope R_scope.
Theorem roundtrip_linear_forward : forall (adjust : option (T RN -> T RN)) (s : T RN) (t : R) (p n : T RN) (dt : R),
  t <> 0 ->
  dt <> 0 ->
  interp_linear RN (fst (extrap_linear_forward RN s t p n dt adjust))
    (snd (extrap_linear_forward RN s t p n dt adjust)) t dt = s.
Proof. exact (@Inferno.C20.InterpProofs.roundtrip_linear_forward). Qed.
Print Assumptions roundtrip_linear_forward.
