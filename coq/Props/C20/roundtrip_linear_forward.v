(* Obligation C20/roundtrip_linear_forward.  Statement as printed by Coq from Inferno.C20.InterpProofs; proof by reference.
   This file contains nothing else, so the statement cannot be weakened quietly. *)
From Coq Require Import Reals Lra List ZArith Bool.
From Inferno Require Import Base.Num Base.NumR Gen.Interpolation Gen.Extrapolation C20.InterpProofs.
Open Scope R_scope.
Theorem roundtrip_linear_forward : forall (adjust : option (T RN -> T RN)) (s t p n dt : R),
  t <> 0 ->
  dt <> 0 ->
  roundtrip (interp_linear RN)
    (fun a b c d e : R => extrap_linear_forward RN a b c d e adjust) s t p n dt.
Proof. exact (@Inferno.C20.InterpProofs.roundtrip_linear_forward). Qed.
Print Assumptions roundtrip_linear_forward.
