(* Obligation C20/expdecay_contracts.  Statement as printed by Coq from Inferno.C20.InterpProofs; proof by reference.
   This file contains nothing else, so the statement cannot be weakened quietly. *)
From Coq Require Import Reals Lra List ZArith Bool.
From Inferno Require Import Base.Num Base.NumR Gen.Interpolation Gen.Extrapolation C20.InterpProofs.
Open Scope R_scope.
Theorem expdecay_contracts : forall (p n : T RN) (t : R) (dt : T RN) (tc : R),
  0 < tc -> 0 <= t -> Rabs (interp_expdecay RN p n t dt tc) <= Rabs p.
Proof. exact (@Inferno.C20.InterpProofs.expdecay_contracts). Qed.
Print Assumptions expdecay_contracts.
