(* Obligation C20/roundtrip_neighbors_nearest.  Statement as printed by Coq from Inferno.C20.InterpProofs; proof by reference.
   This file contains nothing else, so the statement cannot be weakened quietly. *)
From Coq Require Import Reals Lra List ZArith Bool.
From Inferno Require Import Base.Num Base.NumR Gen.Interpolation Gen.Extrapolation C20.InterpProofs.
Open Scope R_scope.
Theorem roundtrip_neighbors_nearest : forall s t p n dt : T RN,
  interp_nearest RN (fst (extrap_neighbors RN s t p n dt))
    (snd (extrap_neighbors RN s t p n dt)) t dt = s.
Proof. exact (@Inferno.C20.InterpProofs.roundtrip_neighbors_nearest). Qed.
Print Assumptions roundtrip_neighbors_nearest.
