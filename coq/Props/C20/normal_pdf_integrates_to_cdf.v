(* Obligation C20/normal_pdf_integrates_to_cdf.  Statement as printed by Coq from Inferno.C20.DistNormal; proof by reference.
   This file contains nothing else, so the statement cannot be weakened quietly. *)
From Coq Require Import Reals List ZArith Bool.
From Coquelicot Require Import Coquelicot.
From Flocq Require Import Core.Raux.
From Inferno Require Import Base.Num Base.NumR Gen.Distributions C20.Model C20.Spec C20.DistNormal.
Import ListNotations.
Open Scope R_scope.
Theorem normal_pdf_integrates_to_cdf : forall (erf : R -> R) (loc : T RN) (scale a b : R),
  erf_derivative erf ->
  0 < scale ->
  is_RInt (fun x : R => normal_pdf RN (2 * PI) x loc scale) a b
    (normal_cdf RN erf b loc scale - normal_cdf RN erf a loc scale).
Proof. exact (@Inferno.C20.DistNormal.normal_pdf_integrates_to_cdf). Qed.
Print Assumptions normal_pdf_integrates_to_cdf.
