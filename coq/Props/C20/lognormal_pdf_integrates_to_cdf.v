(* Obligation C20/lognormal_pdf_integrates_to_cdf.  Statement as printed by Coq from Inferno.C20.DistLogNormal; proof by reference.
   This file contains nothing else, so the statement cannot be weakened quietly. *)
From Coq Require Import Reals List ZArith Bool.
From Coquelicot Require Import Coquelicot.
From Flocq Require Import Core.Raux.
From Inferno Require Import Base.Num Base.NumR Gen.Distributions C20.Model C20.Spec C20.DistLogNormal.
Import ListNotations.
Open Scope R_scope.
Theorem lognormal_pdf_integrates_to_cdf : forall (erf : R -> R) (loc : T RN) (scale a b : R),
  erf_derivative erf ->
  0 < scale ->
  0 < a ->
  0 < b ->
  is_RInt (fun x : R => lognormal_pdf RN (2 * PI) x loc scale) a b
    (lognormal_cdf RN erf b loc scale - lognormal_cdf RN erf a loc scale).
Proof. exact (@Inferno.C20.DistLogNormal.lognormal_pdf_integrates_to_cdf). Qed.
Print Assumptions lognormal_pdf_integrates_to_cdf.
