(* Obligation C20/roundtrip_expratedecay.  Statement as printed by Coq from Inferno.C20.InterpProofs; proof by reference.
   This file contains nothing else, so the statement cannot be weakened quietly. *)
From Coq Require Import Reals Lra List ZArith Bool.
From Inferno Require Import Base.Num Base.NumR Gen.Interpolation Gen.Extrapolation C20.InterpProofs.
Open Scope R_scope.
Theorem roundtrip_expratedecay : forall (s t p n dt : R) (rc : T RN),
  roundtrip (fun a b c d : R => interp_expratedecay RN a b c d rc)
    (fun a b c d e : R => extrap_expratedecay RN a b c d e rc) s t p n dt.
Proof. exact (@Inferno.C20.InterpProofs.roundtrip_expratedecay). Qed.
Print Assumptions roundtrip_expratedecay.
