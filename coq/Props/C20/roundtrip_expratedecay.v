(* Obligation C20/roundtrip_expratedecay.  Statement as printed by Coq from Inferno.C20.InterpProofs; proof by reference.
   This file contains nothing else, so the statement cannot be weakened quietly. *)
From Coq Require Import Reals Lra List ZArith Bool.
From Inferno Require Import Base.Num Base.NumR Gen.Interpolation Gen.Extrapolation C20.InterpProofs.
Open Scope R_scope.
Theorem roundtrip_expratedecay : forall s t p n dt rc : T RN,
  interp_expratedecay RN (fst (extrap_expratedecay RN s t p n dt rc))
    (snd (extrap_expratedecay RN s t p n dt rc)) t dt rc = s.
Proof. exact (@Inferno.C20.InterpProofs.roundtrip_expratedecay). Qed.
Print Assumptions roundtrip_expratedecay.
