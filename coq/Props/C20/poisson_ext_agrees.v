(* Obligation C20/poisson_ext_agrees.  Statement as printed by Coq from Inferno.C20.DistPoisson; proof by reference.
   This file contains nothing else, so the statement cannot be weakened quietly. *)
From Coq Require Import Reals List ZArith Bool.
From Coquelicot Require Import Coquelicot.
From Flocq Require Import Core.Raux.
From Inferno Require Import Base.Num Base.NumR Gen.Distributions C20.Model C20.Spec C20.DistPoisson.
Import ListNotations.
Open Scope R_scope.
Theorem poisson_ext_agrees : forall (lg : R -> R) (k : nat) (rate : R),
  rate <> 0 ->
  poisson_logpmf_ext RN lg k rate = Some (poisson_logpmf RN lg (INR k) rate) /\
  poisson_pmf_ext RN lg k rate = poisson_pmf RN lg (INR k) rate.
Proof. exact (@Inferno.C20.DistPoisson.poisson_ext_agrees). Qed.
Print Assumptions poisson_ext_agrees.
