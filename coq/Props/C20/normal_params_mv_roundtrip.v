(* Obligation C20/normal_params_mv_roundtrip.  Statement as printed by Coq from Inferno.C20.DistNormal; proof by reference.
   This file contains nothing else, so the statement cannot be weakened quietly. *)
From Coq Require Import Reals List ZArith Bool.
From Coquelicot Require Import Coquelicot.
From Flocq Require Import Core.Raux.
From Inferno Require Import Base.Num Base.NumR Gen.Distributions C20.Model C20.Spec C20.DistNormal.
Import ListNotations.
Open Scope R_scope.
Theorem normal_params_mv_roundtrip : forall (m : T RN) (v : R),
  0 <= v ->
  normal_mean RN (fst (normal_params_mv RN m v)) = m /\
  normal_variance RN (snd (normal_params_mv RN m v)) = v.
Proof. exact (@Inferno.C20.DistNormal.normal_params_mv_roundtrip). Qed.
Print Assumptions normal_params_mv_roundtrip.
