(* Obligation C20/isi_spike_time_unshifts.  Statement as printed by Coq from Inferno.C20.IsiProofs; proof by reference.
   This file contains nothing else, so the statement cannot be weakened quietly. *)
From Coq Require Import List ZArith Bool Arith Reals.
From Inferno Require Import Base.Num Base.NumR Gen.SpikeMath C20.Model C20.Spec C20.IsiProofs.
Import ListNotations.
Theorem isi_spike_time_unshifts : forall (N : Num) (i : nat) (dt : T N),
  isi_spike_time N (Z.of_nat (S i)) dt = mul N (ofZ N (Z.of_nat i)) dt.
Proof. exact (@Inferno.C20.IsiProofs.isi_spike_time_unshifts). Qed.
Print Assumptions isi_spike_time_unshifts.
