(* Obligation C20/normal_logpdf_closed_form.  Statement as printed by Coq from Inferno.C20.DistNormal; proof by reference.
   This file contains nothing else, so the statement cannot be weakened quietly. *)
From Coq Require Import Reals List ZArith Bool.
From Coquelicot Require Import Coquelicot.
From Flocq Require Import Core.Raux.
From Inferno Require Import Base.Num Base.NumR Gen.Distributions C20.Model C20.Spec C20.DistNormal.
Import ListNotations.
Open Scope R_scope.
Theorem normal_logpdf_closed_form : forall (tau : R) (x loc : T RN) (scale : R),
  0 < tau ->
  0 < scale ->
  normal_logpdf RN tau x loc scale =
  - Rpower.ln scale - / 2 * (Rpower.ln tau + ((loc - x) / scale) ^ 2).
Proof. exact (@Inferno.C20.DistNormal.normal_logpdf_closed_form). Qed.
Print Assumptions normal_logpdf_closed_form.
