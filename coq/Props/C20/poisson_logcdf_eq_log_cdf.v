(* Obligation C20/poisson_logcdf_eq_log_cdf.  Statement as printed by Coq from Inferno.C20.DistProofs; proof by reference.
   This file contains nothing else, so the statement cannot be weakened quietly. *)
From Coq Require Import Reals List ZArith Bool.
From Coquelicot Require Import Coquelicot.
From Flocq Require Import Core.Raux.
From Inferno Require Import Base.Num Base.NumR C20.Model C20.Spec C20.DistProofs.
Import ListNotations.
Open Scope R_scope.
Theorem poisson_logcdf_eq_log_cdf : forall support rate : R,
  0 < rate ->
  0 <= support ->
  poisson_logcdf RN support rate = Rpower.ln (poisson_cdf RN support rate) /\
  Rtrigo_def.exp (poisson_logcdf RN support rate) = poisson_cdf RN support rate.
Proof. exact (@Inferno.C20.DistProofs.poisson_logcdf_eq_log_cdf). Qed.
Print Assumptions poisson_logcdf_eq_log_cdf.
