(* Obligation C20/normal_cdf_range.  Statement as printed by Coq from Inferno.C20.DistNormal; proof by reference.
   This file contains nothing else, so the statement cannot be weakened quietly. *)
From Coq Require Import Reals List ZArith Bool.
From Coquelicot Require Import Coquelicot.
From Flocq Require Import Core.Raux.
From Inferno Require Import Base.Num Base.NumR Gen.Distributions C20.Model C20.Spec C20.DistNormal.
Import ListNotations.
Open Scope R_scope.
Theorem normal_cdf_range : forall (erf : R -> R) (x loc scale : T RN),
  (forall z : R, -1 < erf z < 1) -> 0 < normal_cdf RN erf x loc scale < 1.
Proof. exact (@Inferno.C20.DistNormal.normal_cdf_range). Qed.
Print Assumptions normal_cdf_range.
