(* Obligation C20/normal_params_mv_inverse.  Statement as printed by Coq from Inferno.C20.DistNormal; proof by reference.
   This file contains nothing else, so the statement cannot be weakened quietly. *)
From Coq Require Import Reals List ZArith Bool.
From Coquelicot Require Import Coquelicot.
From Flocq Require Import Core.Raux.
From Inferno Require Import Base.Num Base.NumR Gen.Distributions C20.Model C20.Spec C20.DistNormal.
Import ListNotations.
Open Scope R_scope.
Theorem normal_params_mv_inverse : forall (loc : T RN) (scale : R),
  0 <= scale ->
  normal_params_mv RN (normal_mean RN loc) (normal_variance RN scale) = (loc, scale).
Proof. exact (@Inferno.C20.DistNormal.normal_params_mv_inverse). Qed.
Print Assumptions normal_params_mv_inverse.
