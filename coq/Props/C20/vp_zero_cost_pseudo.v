(* Obligation C20/vp_zero_cost_pseudo.  Statement as printed by Coq from Inferno.C20.VPProofs; proof by reference.
   This file contains nothing else, so the statement cannot be weakened quietly. *)
From Coq Require Import List ZArith Bool Arith Reals.
From Inferno Require Import Base.Num Base.NumR C20.Model C20.Spec C20.VPProofs.
Import ListNotations.
Open Scope R_scope.
Theorem vp_zero_cost_pseudo : exists t0 t1 : list R, t0 <> t1 /\ vp_tensor RN (Some 0) t0 t1 = 0.
Proof. exact (@Inferno.C20.VPProofs.vp_zero_cost_pseudo). Qed.
Print Assumptions vp_zero_cost_pseudo.
