(* Obligation C20/normal_pdf_eq.  Statement as printed by Coq from Inferno.C20.DistNormal; proof by reference.
   This file contains nothing else, so the statement cannot be weakened quietly. *)
From Coq Require Import Reals List ZArith Bool.
From Coquelicot Require Import Coquelicot.
From Flocq Require Import Core.Raux.
From Inferno Require Import Base.Num Base.NumR Gen.Distributions C20.Model C20.Spec C20.DistNormal.
Import ListNotations.
Open Scope R_scope.
Theorem normal_pdf_eq : forall tau x loc scale : T RN,
  normal_pdf RN tau x loc scale =
  1 / (scale * R_sqrt.sqrt tau) *
  Rtrigo_def.exp (- / 2 * ((x - loc) / scale * ((x - loc) / scale))).
Proof. exact (@Inferno.C20.DistNormal.normal_pdf_eq). Qed.
Print Assumptions normal_pdf_eq.
