(* Obligation C20/normal_variance_antiderivative.  Statement as printed by Coq from Inferno.C20.DistNormal; proof by reference.
   This file contains nothing else, so the statement cannot be weakened quietly. *)
From Coq Require Import Reals List ZArith Bool.
From Coquelicot Require Import Coquelicot.
From Flocq Require Import Core.Raux.
From Inferno Require Import Base.Num Base.NumR Gen.Distributions C20.Model C20.Spec C20.DistNormal.
Import ListNotations.
Open Scope R_scope.
Theorem normal_variance_antiderivative : forall (erf : R -> R) (loc : T RN) (scale : R) (x : R_AbsRing),
  erf_derivative erf ->
  0 < scale ->
  is_derive
    (fun x0 : R_AbsRing =>
     scale * scale * normal_cdf RN erf x0 loc scale -
     scale * scale * ((x0 - loc) * normal_pdf RN (2 * PI) x0 loc scale)) x
    ((x - normal_mean RN loc) ^ 2 * normal_pdf RN (2 * PI) x loc scale).
Proof. exact (@Inferno.C20.DistNormal.normal_variance_antiderivative). Qed.
Print Assumptions normal_variance_antiderivative.
