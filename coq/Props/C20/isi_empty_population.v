(* Obligation C20/isi_empty_population.  Statement as printed by Coq from Inferno.C20.IsiProofs; proof by reference.
   This file contains nothing else, so the statement cannot be weakened quietly. *)
From Coq Require Import List ZArith Bool Arith Reals.
From Inferno Require Import Base.Num Base.NumR C20.Model C20.Spec C20.IsiProofs.
Import ListNotations.
Theorem isi_empty_population : forall (N : Num) (dt : T N) (tf : bool) (data : list (list bool)), isi N dt tf 0 data = None.
Proof. exact (@Inferno.C20.IsiProofs.isi_empty_population). Qed.
Print Assumptions isi_empty_population.
