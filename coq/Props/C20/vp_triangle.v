(* Obligation C20/vp_triangle.  Statement as printed by Coq from Inferno.C20.VPProofs; proof by reference.
   This file contains nothing else, so the statement cannot be weakened quietly. *)
From Coq Require Import List ZArith Bool Arith Reals.
From Inferno Require Import Base.Num Base.NumR C20.Model C20.Spec C20.VPProofs.
Import ListNotations.
Open Scope R_scope.
Theorem vp_triangle : forall (cost : option R) (a b c : list R),
  nonneg_cost cost -> vp_tensor RN cost a c <= vp_tensor RN cost a b + vp_tensor RN cost b c.
Proof. exact (@Inferno.C20.VPProofs.vp_triangle). Qed.
Print Assumptions vp_triangle.
