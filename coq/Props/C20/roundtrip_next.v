(* Obligation C20/roundtrip_next.  Statement as printed by Coq from Inferno.C20.InterpProofs; proof by reference.
   This file contains nothing else, so the statement cannot be weakened quietly. *)
From Coq Require Import Reals Lra List ZArith Bool.
From Inferno Require Import Base.Num Base.NumR Gen.Interpolation Gen.Extrapolation C20.InterpProofs.
Open Scope R_scope.
Theorem roundtrip_next : forall s t p n dt : T RN,
  interp_next RN (fst (extrap_next RN s t p n dt)) (snd (extrap_next RN s t p n dt)) t dt = s.
Proof. exact (@Inferno.C20.InterpProofs.roundtrip_next). Qed.
Print Assumptions roundtrip_next.
