(* Obligation C20/vp_symmetric.  Statement as printed by Coq from Inferno.C20.VPProofs; proof by reference.
   This file contains nothing else, so the statement cannot be weakened quietly. *)
From Coq Require Import List ZArith Bool Arith Reals.
From Inferno Require Import Base.Num Base.NumR C20.Model C20.Spec C20.VPProofs.
Import ListNotations.
Open Scope R_scope.
Theorem vp_symmetric : forall (cost : option (T RN)) (t0 t1 : list R),
  vp_tensor RN cost t0 t1 = vp_tensor RN cost t1 t0.
Proof. exact (@Inferno.C20.VPProofs.vp_symmetric). Qed.
Print Assumptions vp_symmetric.
