(* Obligation C20/poisson_pmf_sums_to_one.  Statement as printed by Coq from Inferno.C20.DistPoisson; proof by reference.
   This file contains nothing else, so the statement cannot be weakened quietly. *)
From Coq Require Import Reals List ZArith Bool.
From Coquelicot Require Import Coquelicot.
From Flocq Require Import Core.Raux.
From Inferno Require Import Base.Num Base.NumR Gen.Distributions C20.Model C20.Spec C20.DistPoisson.
Import ListNotations.
Open Scope R_scope.
Theorem poisson_pmf_sums_to_one : forall (lg : R -> R) (rate : R),
  lgamma_spec lg -> 0 < rate -> is_series (fun k : nat => poisson_pmf RN lg (INR k) rate) 1.
Proof. exact (@Inferno.C20.DistPoisson.poisson_pmf_sums_to_one). Qed.
Print Assumptions poisson_pmf_sums_to_one.
