(* Obligation C20/linear_between_brackets.  Statement as printed by Coq from Inferno.C20.InterpProofs; proof by reference.
   This file contains nothing else, so the statement cannot be weakened quietly. *)
From Coq Require Import Reals Lra List ZArith Bool.
From Inferno Require Import Base.Num Base.NumR Gen.Interpolation Gen.Extrapolation C20.InterpProofs.
Open Scope R_scope.
Theorem linear_between_brackets : forall p n t dt : R,
  0 < dt -> 0 <= t <= dt -> Rmin p n <= interp_linear RN p n t dt <= Rmax p n.
Proof. exact (@Inferno.C20.InterpProofs.linear_between_brackets). Qed.
Print Assumptions linear_between_brackets.
