(* Obligation C20/isi_last_spec.  Statement as printed by Coq from Inferno.C20.IsiProofs; proof by reference.
   This file contains nothing else, so the statement cannot be weakened quietly. *)
From Coq Require Import List ZArith Bool Arith Reals.
From Inferno Require Import Base.Num Base.NumR C20.Model C20.Spec C20.IsiProofs.
Import ListNotations.
Theorem isi_last_spec : forall (N : Num) (dt : T N) (trains : list (list bool)),
  trains <> [] -> isi_last N dt trains = map (isi_spec_row N dt (maxcount trains)) trains.
Proof. exact (@Inferno.C20.IsiProofs.isi_last_spec). Qed.
Print Assumptions isi_last_spec.
