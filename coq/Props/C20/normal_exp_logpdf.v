(* Obligation C20/normal_exp_logpdf.  Statement as printed by Coq from Inferno.C20.DistNormal; proof by reference.
   This file contains nothing else, so the statement cannot be weakened quietly. *)
From Coq Require Import Reals List ZArith Bool.
From Coquelicot Require Import Coquelicot.
From Flocq Require Import Core.Raux.
From Inferno Require Import Base.Num Base.NumR Gen.Distributions C20.Model C20.Spec C20.DistNormal.
Import ListNotations.
Open Scope R_scope.
Theorem normal_exp_logpdf : forall (tau : R) (x loc : T RN) (scale : R),
  0 < tau ->
  0 < scale ->
  Rtrigo_def.exp (normal_logpdf RN tau x loc scale) = normal_pdf RN tau x loc scale.
Proof. exact (@Inferno.C20.DistNormal.normal_exp_logpdf). Qed.
Print Assumptions normal_exp_logpdf.
