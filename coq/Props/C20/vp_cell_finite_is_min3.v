(* Obligation C20/vp_cell_finite_is_min3.  Statement as printed by Coq from Inferno.C20.VPProofs; proof by reference.
   This file contains nothing else, so the statement cannot be weakened quietly. *)
From Coq Require Import List ZArith Bool Arith Reals.
From Inferno Require Import Base.Num Base.NumR Gen.SpikeMath C20.Model C20.Spec C20.VPProofs.
Import ListNotations.
Open Scope R_scope.
Theorem vp_cell_finite_is_min3 : forall up lft diag q x y : R,
  vp_cell_finite RN up lft diag q x y =
  Rmin (Rmin (up + 1) (lft + 1)) (diag + q * Rabs (x - y)).
Proof. exact (@Inferno.C20.VPProofs.vp_cell_finite_is_min3). Qed.
Print Assumptions vp_cell_finite_is_min3.
