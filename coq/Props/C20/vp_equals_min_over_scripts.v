(* Obligation C20/vp_equals_min_over_scripts.  Statement as printed by Coq from Inferno.C20.VPProofs; proof by reference.
   This file contains nothing else, so the statement cannot be weakened quietly. *)
From Coq Require Import List ZArith Bool Arith Reals.
From Inferno Require Import Base.Num Base.NumR C20.Model C20.Spec C20.VPProofs.
Import ListNotations.
Open Scope R_scope.
Theorem vp_equals_min_over_scripts : forall (cost : option R) (t0 t1 : list R),
  (forall (s : script (rev t0) (rev t1)) (c : R),
   script_cost cost s = Some c -> vp_tensor RN cost t0 t1 <= c) /\
  (exists s : script (rev t0) (rev t1), script_cost cost s = Some (vp_tensor RN cost t0 t1)).
Proof. exact (@Inferno.C20.VPProofs.vp_equals_min_over_scripts). Qed.
Print Assumptions vp_equals_min_over_scripts.
