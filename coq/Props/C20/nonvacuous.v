(* Obligation C20/nonvacuous: the hypotheses of the C20 theorems are satisfiable by concrete non-trivial inputs, the
   models really compute on such inputs, and a function with the defining property of erf
   exists (so the calculus theorems about Normal / LogNormal are not about an empty class of functions). *)
From Coq Require Import Reals Lra Lia List ZArith Bool.
From Flocq Require Import Core.Raux.
From Coquelicot Require Import Coquelicot.
From Inferno Require Import Base.Num Base.NumR Gen.Interpolation Gen.Extrapolation Gen.Distributions
  C20.Model C20.Spec C20.VPProofs.
Import ListNotations.
Open Scope R_scope.

Definition gauss (t : R) : R := 2 / R_sqrt.sqrt PI * Rtrigo_def.exp (- t ^ 2).
Definition erf0 (z : R) : R := RInt gauss 0 z.

(* functions with the integer-argument facts assumed of lgamma and gammaincc *)
Definition lgamma0 (x : R) : R := Rpower.ln (INR (fact (Z.to_nat (Zfloor x - 1)))).
Definition gammaincc0 (a x : R) : R :=
  Rtrigo_def.exp (- x) * sum_n (fun j => x ^ j / INR (fact j)) (Z.to_nat (Zfloor a - 1)).

Lemma gauss_continuous : forall t, continuous gauss t.
Proof.
  intros t. apply (ex_derive_continuous gauss). unfold gauss. auto_derive. exact I.
Qed.

Theorem nonvacuous :
  (* interp/extrap: a sample strictly inside a positive step *)
  (0 < / 4 < 1 /\ interp_linear RN (fst (extrap_linear_forward RN 3 (/ 4) 1 7 1 None))
                                   (snd (extrap_linear_forward RN 3 (/ 4) 1 7 1 None)) (/ 4) 1 = 3) /\
  (* isi: a ragged raster (2, 0 and 3 spikes); the model returns 3 rows of 2 columns, NaN-padded *)
  (count [true; false; true] = 2 /\ count [false; false; false] = 0 /\ count [true; true; true] = 3 /\
   maxcount [[true; false; true]; [false; false; false]; [true; true; true]] = 3)%nat /\
  isi RN (/ 2) false 3%nat [[true; false; true]; [false; false; false]; [true; true; true]]
    = Some (3%nat, 2%nat, [[Some (IZR 2 * / 2 - IZR 0 * / 2); None]; [None; None];
                           [Some (IZR 1 * / 2 - IZR 0 * / 2); Some (IZR 2 * / 2 - IZR 1 * / 2)]]) /\
  (* Victor-Purpura: a valid finite cost, distance 1/2 between two one-spike trains *)
  nonneg_cost (Some 1) /\ vp_tensor RN (Some 1) [0] [/ 2] = / 2 /\
  (* distributions: valid parameters, and a function with erf's defining derivative exists *)
  0 < 2 * PI /\ erf_derivative erf0 /\ erf0 0 = 0 /\ lgamma_spec lgamma0 /\ gammaincc_spec gammaincc0.
Proof.
  assert (H1 : interp_linear RN (fst (extrap_linear_forward RN 3 (/ 4) 1 7 1 None))
                 (snd (extrap_linear_forward RN 3 (/ 4) 1 7 1 None)) (/ 4) 1 = 3).
  { unfold interp_linear, extrap_linear_forward. rn_unfold. cbn [fst snd]. field. }
  assert (H2 : nonneg_cost (Some 1)) by (intros q [= <-]; lra).
  assert (H3 : vp_tensor RN (Some 1) [0] [/ 2] = / 2).
  { unfold vp_tensor. rewrite vp_dp_is_D. cbn [rev app]. rewrite D_cons, !D_nil_l, !D_nil_r. cbn [length INR cell3].
    unfold Rmin, Rabs. repeat destruct (Rle_dec _ _); repeat destruct (Rcase_abs _); lra. }
  assert (H4 : erf_derivative erf0).
  { intros z. unfold erf0. change (2 / R_sqrt.sqrt PI * Rtrigo_def.exp (- z ^ 2)) with (gauss z).
    apply (is_derive_RInt gauss (fun x => RInt gauss 0 x) 0 z).
    - apply filter_forall. intros x. apply (@RInt_correct R_CompleteNormedModule gauss 0 x). apply (@ex_RInt_continuous R_CompleteNormedModule gauss).
      intros t _. apply gauss_continuous.
    - apply gauss_continuous. }
  assert (H5 : erf0 0 = 0) by (unfold erf0; exact (@RInt_point R_CompleteNormedModule 0 gauss)).
  assert (H6 : 0 < 2 * PI) by (pose proof PI_RGT_0; lra).
  split; [split; [lra | exact H1]|].
  split; [repeat split; vm_compute; reflexivity|].
  split; [reflexivity|].
  split; [exact H2|]. split; [exact H3|].
  assert (H7 : lgamma_spec lgamma0).
  { intros k. unfold lgamma0. replace (INR k + 1) with (IZR (Z.of_nat k + 1)) by (rewrite plus_IZR, <- INR_IZR_INZ; reflexivity).
    rewrite Zfloor_IZR. replace (Z.of_nat k + 1 - 1)%Z with (Z.of_nat k) by lia. rewrite Nat2Z.id. reflexivity. }
  assert (H8 : gammaincc_spec gammaincc0).
  { intros n x. unfold gammaincc0. rewrite INR_IZR_INZ, Zfloor_IZR.
    replace (Z.of_nat (S n) - 1)%Z with (Z.of_nat n) by lia. rewrite Nat2Z.id. reflexivity. }
  split; [exact H6|]. split; [exact H4|]. split; [exact H5|]. split; [exact H7 | exact H8].
Qed.
Print Assumptions nonvacuous.
