(* Obligation C20/nearest_picks_closer.  Statement as printed by Coq from Inferno.C20.InterpProofs; proof by reference.
   This file contains nothing else, so the statement cannot be weakened quietly. *)
From Coq Require Import Reals Lra List ZArith Bool.
From Inferno Require Import Base.Num Base.NumR Gen.Interpolation Gen.Extrapolation C20.InterpProofs.
Open Scope R_scope.
Theorem nearest_picks_closer : forall (p n : T RN) (t dt : R),
  0 < dt ->
  (t < dt / 2 -> interp_nearest RN p n t dt = p) /\
  (dt / 2 < t -> interp_nearest RN p n t dt = n).
Proof. exact (@Inferno.C20.InterpProofs.nearest_picks_closer). Qed.
Print Assumptions nearest_picks_closer.
