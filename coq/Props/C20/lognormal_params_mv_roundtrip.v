(* Obligation C20/lognormal_params_mv_roundtrip.  Statement as printed by Coq from Inferno.C20.DistLogNormal; proof by reference.
   This file contains nothing else, so the statement cannot be weakened quietly. *)
From Coq Require Import Reals List ZArith Bool.
From Coquelicot Require Import Coquelicot.
From Flocq Require Import Core.Raux.
From Inferno Require Import Base.Num Base.NumR Gen.Distributions C20.Model C20.Spec C20.DistLogNormal.
Import ListNotations.
Open Scope R_scope.
Theorem lognormal_params_mv_roundtrip : forall m v : R,
  0 < m ->
  0 <= v ->
  let p := lognormal_params_mv RN m v in
  lognormal_mean RN (fst p) (snd p) = m /\ lognormal_variance RN (fst p) (snd p) = v.
Proof. exact (@Inferno.C20.DistLogNormal.lognormal_params_mv_roundtrip). Qed.
Print Assumptions lognormal_params_mv_roundtrip.
