(* Obligation C20/normal_pdf_vanishes_at_infinity.  Statement as printed by Coq from Inferno.C20.DistNormal; proof by reference.
   This file contains nothing else, so the statement cannot be weakened quietly. *)
From Coq Require Import Reals List ZArith Bool.
From Coquelicot Require Import Coquelicot.
From Flocq Require Import Core.Raux.
From Inferno Require Import Base.Num Base.NumR Gen.Distributions C20.Model C20.Spec C20.DistNormal.
Import ListNotations.
Open Scope R_scope.
Theorem normal_pdf_vanishes_at_infinity : forall (tau : R) (loc : T RN) (scale : R),
  0 < tau ->
  0 < scale ->
  forall x : Rbar,
  x = p_infty \/ x = m_infty ->
  is_lim (fun y : R => normal_pdf RN tau y loc scale) x 0 /\
  is_lim (fun y : R => (y - loc) * normal_pdf RN tau y loc scale) x 0.
Proof. exact (@Inferno.C20.DistNormal.normal_pdf_vanishes_at_infinity). Qed.
Print Assumptions normal_pdf_vanishes_at_infinity.
