(* Obligation C03/forward_keeps_adaptation.  Statement as printed by Coq from Inferno.C03.RunProofs; proof by reference.
   This file contains nothing else, so the statement cannot be weakened quietly. *)
From Coq Require Import List ZArith Bool Reals.
From Flocq Require Import Core.Raux.
From Inferno Require Import Base.Num Base.NumR Gen.NeuronDynamics Gen.NeuronAdaptation C03.Neuron C03.NeuronSpec C03.RunProofs.
Import ListNotations.
Open Scope R_scope.
Theorem forward_keeps_adaptation : forall (c : cls) (p : params RN) (adapt lock : bool) (cs : list (column RN))
    (xs : list (list (T RN))),
  adapt = false \/ has_adaptation c = false ->
  Forall2 (fun col' col : column RN => ad RN col' = ad RN col)
    (snd (forward RN c p adapt lock cs xs))
    (firstn (length (snd (forward RN c p adapt lock cs xs))) cs).
Proof. exact (@Inferno.C03.RunProofs.forward_keeps_adaptation). Qed.
Print Assumptions forward_keeps_adaptation.
