(* Obligation C03/population_min_interspike_interval.  Statement as printed by Coq from Inferno.C03.RunProofs; proof by reference.
   This file contains nothing else, so the statement cannot be weakened quietly. *)
From Coq Require Import List ZArith Bool Reals.
From Flocq Require Import Core.Raux.
From Inferno Require Import Base.Num Base.NumR Gen.NeuronDynamics Gen.NeuronAdaptation C03.Neuron C03.NeuronSpec C03.RunProofs.
Import ListNotations.
Open Scope R_scope.
Theorem population_min_interspike_interval : forall (c : cls) (p : params RN),
  ctor_ok RN c p = true ->
  forall (cs : list (column RN)) (evs : list pev) (i b : nat),
  cell_at cs i b <> None ->
  shaped evs i b ->
  forall (t1 t2 : nat) (r1 r2 : pres) (v1 q1 v2 q2 : T RN),
  (t1 < t2)%nat ->
  nth_error (fwd_run c p cs evs) t1 = Some r1 ->
  obs_at r1 i b = Some (true, v1, q1) ->
  nth_error (fwd_run c p cs evs) t2 = Some r2 ->
  obs_at r2 i b = Some (true, v2, q2) -> (t1 + window p <= t2)%nat.
Proof. exact (@Inferno.C03.RunProofs.population_min_interspike_interval). Qed.
Print Assumptions population_min_interspike_interval.
