(* Obligation C03/spike_attr_refuted.  Statement as printed by Coq from Inferno.C03.RefutedProofs; proof by reference.
   This file contains nothing else, so the statement cannot be weakened quietly. *)
From Coq Require Import List ZArith Bool Reals.
From Flocq Require Import Core.Raux.
From Inferno Require Import Base.Num Base.NumR Gen.NeuronDynamics Gen.NeuronAdaptation C03.Neuron C03.NeuronSpec C03.RefutedProofs.
Import ListNotations.
Open Scope R_scope.
Theorem spike_attr_refuted : exists (c : cls) (p : params RN) (xs : list (list R)),
    ctor_ok RN c p = true /\
    refrac_t RN p = 0 /\
    (let r := forward RN c p false true (cols RN (init RN c p 1 1)) xs in
     fst r = [[false]] /\ spike_attr RN p (snd r) = [[true]]).
Proof. exact (@Inferno.C03.RefutedProofs.spike_attr_refuted). Qed.
Print Assumptions spike_attr_refuted.
