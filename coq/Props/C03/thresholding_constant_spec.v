(* Obligation C03/thresholding_constant_spec.  Statement as printed by Coq from Inferno.C03.ThresholdProofs; proof by reference.
   This file contains nothing else, so the statement cannot be weakened quietly. *)
From Coq Require Import List ZArith Bool Reals.
From Flocq Require Import Core.Raux.
From Inferno Require Import Base.Num Base.NumR Gen.NeuronDynamics Gen.NeuronAdaptation C03.Neuron C03.NeuronSpec C03.ThresholdProofs.
Import ListNotations.
Open Scope R_scope.
Theorem thresholding_constant_spec : forall (x r : T RN) (dyn : T RN -> T RN) (held : option (T RN)) (dt reset th Rt : T RN),
  voltage_thresholding_constant RN x r dyn held dt reset th Rt =
  thr_spec (fun _ : R => reset) x r dyn held dt th Rt.
Proof. exact (@Inferno.C03.ThresholdProofs.thresholding_constant_spec). Qed.
Print Assumptions thresholding_constant_spec.
