(* Obligation C03/tie_GLIF2_forward_adapts.  Statement as printed by Coq from Inferno.C03.GenTieGLIF2; proof by reference.
   This file contains nothing else, so the statement cannot be weakened quietly. *)
From Coq Require Import List ZArith Bool.
From Inferno Require Import Base.Num Gen.NeuronDynamics Gen.NeuronAdaptation Gen.NeuronApply Gen.NeuronClasses C03.Neuron C03.GenTieGLIF2.
Import ListNotations.
Theorem tie_GLIF2_forward_adapts : forall (adapt : option bool) (training : bool),
  eff_adapt adapt training = GLIF2_forward_adapts adapt training.
Proof. exact (@Inferno.C03.GenTieGLIF2.tie_GLIF2_forward_adapts). Qed.
Print Assumptions tie_GLIF2_forward_adapts.
