(* Obligation C03/tie_Izhikevich_integrate_v.  Statement as printed by Coq from Inferno.C03.GenTieIzhikevich; proof by reference.
   This file contains nothing else, so the statement cannot be weakened quietly. *)
From Coq Require Import List ZArith Bool.
From Inferno Require Import Base.Num Gen.NeuronDynamics Gen.NeuronAdaptation Gen.NeuronApply Gen.NeuronClasses C03.Neuron C03.GenTieIzhikevich.
Import ListNotations.
Theorem tie_Izhikevich_integrate_v : forall (N : Num) (p : params N) (v masked_inputs : T N),
  cls_integ N Izhikevich p v masked_inputs =
  Izhikevich_integrate_v N (affinity N p) (crit_v N p) (resistance N p) 
    (rest_v N p) (step_time N p) (time_constant N p) v masked_inputs.
Proof. exact (@Inferno.C03.GenTieIzhikevich.tie_Izhikevich_integrate_v). Qed.
Print Assumptions tie_Izhikevich_integrate_v.
