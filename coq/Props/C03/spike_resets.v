(* Obligation C03/spike_resets.  Statement as printed by Coq from Inferno.C03.ThresholdProofs; proof by reference.
   This file contains nothing else, so the statement cannot be weakened quietly. *)
From Coq Require Import List ZArith Bool Reals.
From Flocq Require Import Core.Raux.
From Inferno Require Import Base.Num Base.NumR Gen.NeuronDynamics Gen.NeuronAdaptation C03.Neuron C03.NeuronSpec C03.ThresholdProofs.
Import ListNotations.
Open Scope R_scope.
Theorem spike_resets : forall (x r : T RN) (dyn : T RN -> T RN) (held : option (T RN)) (dt th Rt : T RN),
  (forall reset : T RN,
   let o := voltage_thresholding_constant RN x r dyn held dt reset th Rt in
   fst (fst o) = true -> snd (fst o) = reset /\ snd o = Rt) /\
  (forall rest slope icpt : T RN,
   let o := voltage_thresholding_linear RN x r dyn held dt rest slope icpt th Rt in
   fst (fst o) = true -> snd (fst o) = rest + slope * (dyn x - rest) - icpt /\ snd o = Rt).
Proof. exact (@Inferno.C03.ThresholdProofs.spike_resets). Qed.
Print Assumptions spike_resets.
