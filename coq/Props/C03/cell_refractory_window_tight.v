(* Obligation C03/cell_refractory_window_tight.  Statement as printed by Coq from Inferno.C03.NeuronProofs; proof by reference.
   This file contains nothing else, so the statement cannot be weakened quietly. *)
From Coq Require Import List ZArith Bool Reals.
From Flocq Require Import Core.Raux.
From Inferno Require Import Base.Num Base.NumR Gen.NeuronDynamics Gen.NeuronAdaptation C03.Neuron C03.NeuronSpec C03.NeuronProofs.
Import ListNotations.
Open Scope R_scope.
Theorem cell_refractory_window_tight : forall (c : cls) (p : params RN),
  ctor_ok RN c p = true ->
  forall (ce : cell RN) (evs : list cev) (t : nat) (o : cellout RN),
  nth_error (cell_run c p ce evs) t = Some o ->
  o_spike RN o = true ->
  forall (oprev o' : cellout RN) (lock : bool) (th x : R),
  nth_error (cell_run c p ce evs) (t + window p - 1) = Some oprev ->
  nth_error (cell_run c p ce evs) (t + window p) = Some o' ->
  nth_error evs (t + window p) = Some (lock, th, x) ->
  o_spike RN o' = true <-> th <= cls_integ RN c p (o_v RN oprev) x.
Proof. exact (@Inferno.C03.NeuronProofs.cell_refractory_window_tight). Qed.
Print Assumptions cell_refractory_window_tight.
