(* Obligation C03/linear_constant_drive_run.  Statement as printed by Coq from Inferno.C03.RunProofs; proof by reference.
   This file contains nothing else, so the statement cannot be weakened quietly. *)
From Coq Require Import List ZArith Bool Reals.
From Flocq Require Import Core.Raux.
From Inferno Require Import Base.Num Base.NumR Gen.NeuronDynamics Gen.NeuronAdaptation C03.Neuron C03.NeuronSpec C03.RunProofs.
Import ListNotations.
Open Scope R_scope.
Theorem linear_constant_drive_run : forall (c : cls) (p : params RN),
  linear_cls c ->
  forall (lock : bool) (th x : R) (n : nat) (v0 r0 : R) (k0 : nat),
  r0 - step_time RN p <= 0 ->
  0 < step_time RN p ->
  (forall k : nat, (1 <= k <= n)%nat -> lin_u p v0 x (k0 + k) < th) ->
  cell_run c p (lin_u p v0 x k0, r0) (repeat (lock, th, x) n) =
  map (fun k : nat => (false, lin_u p v0 x (k0 + k), 0)) (seq 1 n).
Proof. exact (@Inferno.C03.RunProofs.linear_constant_drive_run). Qed.
Print Assumptions linear_constant_drive_run.
