(* Obligation C03/tie_QIF_spike.  Statement as printed by Coq from Inferno.C03.GenTieQIF; proof by reference.
   This file contains nothing else, so the statement cannot be weakened quietly. *)
From Coq Require Import List ZArith Bool.
From Inferno Require Import Base.Num Gen.NeuronDynamics Gen.NeuronAdaptation Gen.NeuronApply Gen.NeuronClasses C03.Neuron C03.GenTieQIF.
Import ListNotations.
Theorem tie_QIF_spike : forall (N : Num) (p : params N) (cs : list (column N)),
  spike_attr N p cs =
  map
    (fun col : column N =>
     map (fun ce : cell N => QIF_spike N (snd ce) (refrac_t N p)) (cells N col)) cs.
Proof. exact (@Inferno.C03.GenTieQIF.tie_QIF_spike). Qed.
Print Assumptions tie_QIF_spike.
