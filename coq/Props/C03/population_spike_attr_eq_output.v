(* Obligation C03/population_spike_attr_eq_output.  Statement as printed by Coq from Inferno.C03.NeuronProofs; proof by reference.
   This file contains nothing else, so the statement cannot be weakened quietly. *)
From Coq Require Import List ZArith Bool Reals.
From Flocq Require Import Core.Raux.
From Inferno Require Import Base.Num Base.NumR Gen.NeuronDynamics Gen.NeuronAdaptation C03.Neuron C03.NeuronSpec C03.NeuronProofs.
Import ListNotations.
Open Scope R_scope.
Theorem population_spike_attr_eq_output : forall (c : cls) (p : params RN),
  ctor_ok RN c p = true ->
  0 < refrac_t RN p ->
  forall (adapt lock : bool) (cs : list (column RN)) (xs : list (list (T RN))),
  all_cells (fun ce : cell RN => snd ce <= refrac_t RN p) cs ->
  let r := forward RN c p adapt lock cs xs in spike_attr RN p (snd r) = fst r.
Proof. exact (@Inferno.C03.NeuronProofs.population_spike_attr_eq_output). Qed.
Print Assumptions population_spike_attr_eq_output.
