(* Obligation C03/cell_refrac_nonneg.  Statement as printed by Coq from Inferno.C03.NeuronProofs; proof by reference.
   This file contains nothing else, so the statement cannot be weakened quietly. *)
From Coq Require Import List ZArith Bool Reals.
From Flocq Require Import Core.Raux.
From Inferno Require Import Base.Num Base.NumR Gen.NeuronDynamics Gen.NeuronAdaptation C03.Neuron C03.NeuronSpec C03.NeuronProofs.
Import ListNotations.
Open Scope R_scope.
Theorem cell_refrac_nonneg : forall (c : cls) (p : params RN),
  ctor_ok RN c p = true ->
  forall (evs : list cev) (ce : cell RN),
  Forall (fun o : cellout RN => 0 <= o_r RN o) (cell_run c p ce evs).
Proof. exact (@Inferno.C03.NeuronProofs.cell_refrac_nonneg). Qed.
Print Assumptions cell_refrac_nonneg.
