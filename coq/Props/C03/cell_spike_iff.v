(* Obligation C03/cell_spike_iff.  Statement as printed by Coq from Inferno.C03.NeuronProofs; proof by reference.
   This file contains nothing else, so the statement cannot be weakened quietly. *)
From Coq Require Import List ZArith Bool Reals.
From Flocq Require Import Core.Raux.
From Inferno Require Import Base.Num Base.NumR Gen.NeuronDynamics Gen.NeuronAdaptation C03.Neuron C03.NeuronSpec C03.NeuronProofs.
Import ListNotations.
Open Scope R_scope.
Theorem cell_spike_iff : forall (c : cls) (p : params RN) (lock : bool) (th x v r : T RN),
  o_spike RN (cls_cell RN c p lock th x (v, r)) = true <->
  Rmax (r - step_time RN p) 0 = 0 /\ th <= cls_integ RN c p v x.
Proof. exact (@Inferno.C03.NeuronProofs.cell_spike_iff). Qed.
Print Assumptions cell_spike_iff.
