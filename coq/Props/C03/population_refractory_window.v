(* Obligation C03/population_refractory_window.  Statement as printed by Coq from Inferno.C03.NeuronProofs; proof by reference.
   This file contains nothing else, so the statement cannot be weakened quietly. *)
From Coq Require Import List ZArith Bool Reals.
From Flocq Require Import Core.Raux.
From Inferno Require Import Base.Num Base.NumR Gen.NeuronDynamics Gen.NeuronAdaptation C03.Neuron C03.NeuronSpec C03.NeuronProofs.
Import ListNotations.
Open Scope R_scope.
Theorem population_refractory_window : forall (c : cls) (p : params RN),
  ctor_ok RN c p = true ->
  forall (cs : list (column RN)) (evs : list pev) (i b : nat),
  cell_at cs i b <> None ->
  shaped evs i b ->
  forall (t j : nat) (rt rj : pres) (v r : T RN) (o' : cellout RN),
  (1 <= j < window p)%nat ->
  nth_error (fwd_run c p cs evs) t = Some rt ->
  obs_at rt i b = Some (true, v, r) ->
  nth_error (fwd_run c p cs evs) (t + j) = Some rj ->
  obs_at rj i b = Some o' ->
  o_spike RN o' = false /\
  o_r RN o' = refrac_t RN p - INR j * step_time RN p /\
  (Forall (fun e : pev => pev_lock e = true) (firstn j (skipn (S t) evs)) -> o_v RN o' = v).
Proof. exact (@Inferno.C03.NeuronProofs.population_refractory_window). Qed.
Print Assumptions population_refractory_window.
