(* Obligation C03/population_run_spike_attr.  Statement as printed by Coq from Inferno.C03.NeuronProofs; proof by reference.
   This file contains nothing else, so the statement cannot be weakened quietly. *)
From Coq Require Import List ZArith Bool Reals.
From Flocq Require Import Core.Raux.
From Inferno Require Import Base.Num Base.NumR Gen.NeuronDynamics Gen.NeuronAdaptation C03.Neuron C03.NeuronSpec C03.NeuronProofs.
Import ListNotations.
Open Scope R_scope.
Theorem population_run_spike_attr : forall (c : cls) (p : params RN),
  ctor_ok RN c p = true ->
  0 < refrac_t RN p ->
  forall (evs : list pev) (cs : list (column RN)),
  all_cells (fun ce : cell RN => snd ce <= refrac_t RN p) cs ->
  Forall
    (fun r : pres =>
     spike_attr RN p (snd r) = fst r /\
     all_cells (fun ce : cell RN => 0 <= snd ce <= refrac_t RN p) (snd r))
    (fwd_run c p cs evs).
Proof. exact (@Inferno.C03.NeuronProofs.population_run_spike_attr). Qed.
Print Assumptions population_run_spike_attr.
