(* Obligation C03/run_forward_ops.  Statement as printed by Coq from Inferno.C03.RunProofs; proof by reference.
   This file contains nothing else, so the statement cannot be weakened quietly. *)
From Coq Require Import List ZArith Bool Reals.
From Flocq Require Import Core.Raux.
From Inferno Require Import Base.Num Base.NumR Gen.NeuronDynamics Gen.NeuronAdaptation C03.Neuron C03.NeuronSpec C03.RunProofs.
Import ListNotations.
Open Scope R_scope.
Theorem run_forward_ops : forall (c : cls) (p : params RN) (evs : list (option bool * bool * list (list R)))
    (s : nstate RN),
  map (fun r : option (list (list bool)) * nstate RN => (fst r, cols RN (snd r)))
    (run RN c p s
       (map
          (fun e : option bool * bool * list (list (T RN)) =>
           OpForward (fst (fst e)) (snd (fst e)) (snd e)) evs)) =
  map (fun r : pres => (Some (fst r), snd r))
    (fwd_run c p (cols RN s)
       (map
          (fun e : option bool * bool * list (list R) =>
           (eff_adapt (fst (fst e)) (training RN s), snd (fst e), snd e)) evs)).
Proof. exact (@Inferno.C03.RunProofs.run_forward_ops). Qed.
Print Assumptions run_forward_ops.
