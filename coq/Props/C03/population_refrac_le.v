(* Obligation C03/population_refrac_le.  Statement as printed by Coq from Inferno.C03.NeuronProofs; proof by reference.
   This file contains nothing else, so the statement cannot be weakened quietly. *)
From Coq Require Import List ZArith Bool Reals.
From Flocq Require Import Core.Raux.
From Inferno Require Import Base.Num Base.NumR Gen.NeuronDynamics Gen.NeuronAdaptation C03.Neuron C03.NeuronSpec C03.NeuronProofs.
Import ListNotations.
Open Scope R_scope.
Theorem population_refrac_le : forall (c : cls) (p : params RN),
  ctor_ok RN c p = true ->
  forall (adapt lock : bool) (cs : list (column RN)) (xs : list (list (T RN))),
  all_cells (fun ce : cell RN => snd ce <= refrac_t RN p) cs ->
  all_cells (fun ce : cell RN => snd ce <= refrac_t RN p)
    (snd (forward RN c p adapt lock cs xs)).
Proof. exact (@Inferno.C03.NeuronProofs.population_refrac_le). Qed.
Print Assumptions population_refrac_le.
