(* Obligation C03/tie_AdEx_forward_adapts.  Statement as printed by Coq from Inferno.C03.GenTieAdEx; proof by reference.
   This file contains nothing else, so the statement cannot be weakened quietly. *)
From Coq Require Import List ZArith Bool.
From Inferno Require Import Base.Num Gen.NeuronDynamics Gen.NeuronAdaptation Gen.NeuronApply Gen.NeuronClasses C03.Neuron C03.GenTieAdEx.
Import ListNotations.
Theorem tie_AdEx_forward_adapts : forall (adapt : option bool) (training : bool),
  eff_adapt adapt training = AdEx_forward_adapts adapt training.
Proof. exact (@Inferno.C03.GenTieAdEx.tie_AdEx_forward_adapts). Qed.
Print Assumptions tie_AdEx_forward_adapts.
