(* Obligation C03/population_cell_simulation.  Statement as printed by Coq from Inferno.C03.NeuronProofs; proof by reference.
   This file contains nothing else, so the statement cannot be weakened quietly. *)
From Coq Require Import List ZArith Bool Reals.
From Flocq Require Import Core.Raux.
From Inferno Require Import Base.Num Base.NumR Gen.NeuronDynamics Gen.NeuronAdaptation C03.Neuron C03.NeuronSpec C03.NeuronProofs.
Import ListNotations.
Open Scope R_scope.
Theorem population_cell_simulation : forall (c : cls) (p : params RN) (evs : list pev) (cs : list (column RN)) 
    (i b : nat) (ce : cell RN),
  cell_at cs i b = Some ce ->
  shaped evs i b ->
  map (fun r : pres => obs_at r i b) (fwd_run c p cs evs) =
  map Some (cell_run c p ce (cell_events c p cs evs i b)) /\
  map ev_lock (cell_events c p cs evs i b) = map pev_lock evs.
Proof. exact (@Inferno.C03.NeuronProofs.population_cell_simulation). Qed.
Print Assumptions population_cell_simulation.
