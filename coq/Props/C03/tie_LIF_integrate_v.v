(* Obligation C03/tie_LIF_integrate_v.  Statement as printed by Coq from Inferno.C03.GenTieLIF; proof by reference.
   This file contains nothing else, so the statement cannot be weakened quietly. *)
From Coq Require Import List ZArith Bool.
From Inferno Require Import Base.Num Gen.NeuronDynamics Gen.NeuronAdaptation Gen.NeuronApply Gen.NeuronClasses C03.Neuron C03.GenTieLIF.
Import ListNotations.
Theorem tie_LIF_integrate_v : forall (N : Num) (p : params N) (v masked_inputs : T N),
  cls_integ N LIF p v masked_inputs =
  LIF_integrate_v N (resistance N p) (rest_v N p) (step_time N p) 
    (time_constant N p) v masked_inputs.
Proof. exact (@Inferno.C03.GenTieLIF.tie_LIF_integrate_v). Qed.
Print Assumptions tie_LIF_integrate_v.
