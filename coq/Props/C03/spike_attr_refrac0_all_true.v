(* Obligation C03/spike_attr_refrac0_all_true.  Statement as printed by Coq from Inferno.C03.RefutedProofs; proof by reference.
   This file contains nothing else, so the statement cannot be weakened quietly. *)
From Coq Require Import List ZArith Bool Reals.
From Flocq Require Import Core.Raux.
From Inferno Require Import Base.Num Base.NumR Gen.NeuronDynamics Gen.NeuronAdaptation C03.Neuron C03.NeuronSpec C03.RefutedProofs.
Import ListNotations.
Open Scope R_scope.
Theorem spike_attr_refrac0_all_true : forall (c : cls) (p : params RN),
  ctor_ok RN c p = true ->
  refrac_t RN p = 0 ->
  forall (adapt lock : bool) (cs : list (column RN)) (xs : list (list (T RN))),
  all_cells (fun ce : cell RN => snd ce <= 0) cs ->
  Forall (Forall (fun a : bool => a = true))
    (spike_attr RN p (snd (forward RN c p adapt lock cs xs))).
Proof. exact (@Inferno.C03.RefutedProofs.spike_attr_refrac0_all_true). Qed.
Print Assumptions spike_attr_refrac0_all_true.
