(* Obligation C03/tie_GLIF1_spike.  Statement as printed by Coq from Inferno.C03.GenTieGLIF1; proof by reference.
   This file contains nothing else, so the statement cannot be weakened quietly. *)
From Coq Require Import List ZArith Bool.
From Inferno Require Import Base.Num Gen.NeuronDynamics Gen.NeuronAdaptation Gen.NeuronApply Gen.NeuronClasses C03.Neuron C03.GenTieGLIF1.
Import ListNotations.
Theorem tie_GLIF1_spike : forall (N : Num) (p : params N) (cs : list (column N)),
  spike_attr N p cs =
  map
    (fun col : column N =>
     map (fun ce : cell N => GLIF1_spike N (snd ce) (refrac_t N p)) (cells N col)) cs.
Proof. exact (@Inferno.C03.GenTieGLIF1.tie_GLIF1_spike). Qed.
Print Assumptions tie_GLIF1_spike.
