(* Obligation C03/tie_LIF_forward_cell.  Statement as printed by Coq from Inferno.C03.GenTieLIF; proof by reference.
   This file contains nothing else, so the statement cannot be weakened quietly. *)
From Coq Require Import List ZArith Bool.
From Inferno Require Import Base.Num Gen.NeuronDynamics Gen.NeuronAdaptation Gen.NeuronApply Gen.NeuronClasses C03.Neuron C03.GenTieLIF.
Import ListNotations.
Theorem tie_LIF_forward_cell : forall (N : Num) (p : params N) (a : list (T N)) (lock : bool) (x v r : T N),
  cls_cell N LIF p lock (cls_thresh N LIF p a) (cls_input N LIF a x) (v, r) =
  LIF_forward_cell N r (refrac_t N p) (reset_v N p) (resistance N p) 
    (rest_v N p) (step_time N p) (thresh_v N p) (time_constant N p) v x lock.
Proof. exact (@Inferno.C03.GenTieLIF.tie_LIF_forward_cell). Qed.
Print Assumptions tie_LIF_forward_cell.
