(* Obligation C03/tie_ALIF_clear.  Statement as printed by Coq from Inferno.C03.GenTieALIF; proof by reference.
   This file contains nothing else, so the statement cannot be weakened quietly. *)
From Coq Require Import List ZArith Bool.
From Inferno Require Import Base.Num Gen.NeuronDynamics Gen.NeuronAdaptation Gen.NeuronApply Gen.NeuronClasses C03.Neuron C03.GenTieALIF.
Import ListNotations.
Theorem tie_ALIF_clear : forall (N : Num) (p : params N) (keep : bool) (cs : list (column N)),
  clear N ALIF p keep cs =
  map
    (fun col : column N =>
     {|
       ad := map (fun a_k : T N => ALIF_clear_adapt N a_k keep) (ad N col);
       cells := map (fun _ : cell N => ALIF_clear_cell N (rest_v N p)) (cells N col)
     |}) cs.
Proof. exact (@Inferno.C03.GenTieALIF.tie_ALIF_clear). Qed.
Print Assumptions tie_ALIF_clear.
