(* Obligation C03/integration_linear_solves_ode.  Statement as printed by Coq from Inferno.C03.OdeProofs; proof by reference.
   This file contains nothing else, so the statement cannot be weakened quietly. *)
From Coq Require Import List ZArith Bool Reals.
From Flocq Require Import Core.Raux.
From Inferno Require Import Base.Num Base.NumR Gen.NeuronDynamics Gen.NeuronAdaptation C03.Neuron C03.NeuronSpec C03.OdeProofs.
Import ListNotations.
Open Scope R_scope.
Theorem integration_linear_solves_ode : forall I v tau rest Rm : R,
  tau <> 0 ->
  let u := fun s : R => voltage_integration_linear RN I v s tau rest Rm in
  u 0 = v /\ (forall s : R, derivable_pt_lim u s ((- (u s - rest) + Rm * I) / tau)).
Proof. exact (@Inferno.C03.OdeProofs.integration_linear_solves_ode). Qed.
Print Assumptions integration_linear_solves_ode.
