(* Obligation C03/tie_LIF_spike.  Statement as printed by Coq from Inferno.C03.GenTieLIF; proof by reference.
   This file contains nothing else, so the statement cannot be weakened quietly. *)
From Coq Require Import List ZArith Bool.
From Inferno Require Import Base.Num Gen.NeuronDynamics Gen.NeuronAdaptation Gen.NeuronApply Gen.NeuronClasses C03.Neuron C03.GenTieLIF.
Import ListNotations.
Theorem tie_LIF_spike : forall (N : Num) (p : params N) (cs : list (column N)),
  spike_attr N p cs =
  map
    (fun col : column N =>
     map (fun ce : cell N => LIF_spike N (snd ce) (refrac_t N p)) (cells N col)) cs.
Proof. exact (@Inferno.C03.GenTieLIF.tie_LIF_spike). Qed.
Print Assumptions tie_LIF_spike.
