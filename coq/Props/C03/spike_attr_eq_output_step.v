(* Obligation C03/spike_attr_eq_output_step.  Statement as printed by Coq from Inferno.C03.ThresholdProofs; proof by reference.
   This file contains nothing else, so the statement cannot be weakened quietly. *)
From Coq Require Import List ZArith Bool Reals.
From Flocq Require Import Core.Raux.
From Inferno Require Import Base.Num Base.NumR Gen.NeuronDynamics Gen.NeuronAdaptation C03.Neuron C03.NeuronSpec C03.ThresholdProofs.
Import ListNotations.
Open Scope R_scope.
Theorem spike_attr_eq_output_step : forall (x : T RN) (r : R) (dyn : T RN -> T RN) (held : option (T RN)) 
    (dt : R) (th : T RN) (Rt : R),
  0 < dt ->
  0 < Rt ->
  r <= Rt ->
  (forall reset : T RN,
   let o := voltage_thresholding_constant RN x r dyn held dt reset th Rt in
   eqb RN (snd o) Rt = fst (fst o)) /\
  (forall rest slope icpt : T RN,
   let o := voltage_thresholding_linear RN x r dyn held dt rest slope icpt th Rt in
   eqb RN (snd o) Rt = fst (fst o)).
Proof. exact (@Inferno.C03.ThresholdProofs.spike_attr_eq_output_step). Qed.
Print Assumptions spike_attr_eq_output_step.
