(* Obligation C03/threshold_adaptation_closed_form.  Statement as printed by Coq from Inferno.C03.AdaptationProofs; proof by reference.
   This file contains nothing else, so the statement cannot be weakened quietly. *)
From Coq Require Import List ZArith Bool Reals.
From Flocq Require Import Core.Raux.
From Inferno Require Import Base.Num Base.NumR Gen.NeuronDynamics Gen.NeuronAdaptation C03.Neuron C03.NeuronSpec C03.AdaptationProofs.
Import ListNotations.
Open Scope R_scope.
Theorem threshold_adaptation_closed_form : forall (dt tc inc : R) (ss : list bool) (a : R),
  let lam := Rtrigo_def.exp (- dt / tc) in
  ats_run a ss dt tc inc = a * lam ^ length ss + event_sum lam inc ss.
Proof. exact (@Inferno.C03.AdaptationProofs.threshold_adaptation_closed_form). Qed.
Print Assumptions threshold_adaptation_closed_form.
