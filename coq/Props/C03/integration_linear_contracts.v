(* Obligation C03/integration_linear_contracts.  Statement as printed by Coq from Inferno.C03.IntegrationProofs; proof by reference.
   This file contains nothing else, so the statement cannot be weakened quietly. *)
From Coq Require Import List ZArith Bool Reals.
From Flocq Require Import Core.Raux.
From Inferno Require Import Base.Num Base.NumR Gen.NeuronDynamics Gen.NeuronAdaptation C03.Neuron C03.NeuronSpec C03.IntegrationProofs.
Import ListNotations.
Open Scope R_scope.
Theorem integration_linear_contracts : forall I v dt tau rest Rm : R,
  voltage_integration_linear RN I v dt tau rest Rm - (rest + Rm * I) =
  (v - (rest + Rm * I)) * Rtrigo_def.exp (- dt / tau).
Proof. exact (@Inferno.C03.IntegrationProofs.integration_linear_contracts). Qed.
Print Assumptions integration_linear_contracts.
