(* Obligation C03/nospike_update.  Statement as printed by Coq from Inferno.C03.ThresholdProofs; proof by reference.
   This file contains nothing else, so the statement cannot be weakened quietly. *)
From Coq Require Import List ZArith Bool Reals.
From Flocq Require Import Core.Raux.
From Inferno Require Import Base.Num Base.NumR Gen.NeuronDynamics Gen.NeuronAdaptation C03.Neuron C03.NeuronSpec C03.ThresholdProofs.
Import ListNotations.
Open Scope R_scope.
Theorem nospike_update : forall (x r : R) (dyn : R -> T RN) (held : option (T RN)) (dt : R) (th Rt : T RN),
  let upd :=
    if Rle_dec (r - dt) 0 then dyn x else match held with
                                          | Some v => v
                                          | None => dyn 0
                                          end in
  (forall reset : T RN,
   let o := voltage_thresholding_constant RN x r dyn held dt reset th Rt in
   fst (fst o) = false -> snd o = Rmax (r - dt) 0 /\ snd (fst o) = upd) /\
  (forall rest slope icpt : T RN,
   let o := voltage_thresholding_linear RN x r dyn held dt rest slope icpt th Rt in
   fst (fst o) = false -> snd o = Rmax (r - dt) 0 /\ snd (fst o) = upd).
Proof. exact (@Inferno.C03.ThresholdProofs.nospike_update). Qed.
Print Assumptions nospike_update.
