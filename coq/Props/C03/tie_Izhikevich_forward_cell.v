(* Obligation C03/tie_Izhikevich_forward_cell.  Statement as printed by Coq from Inferno.C03.GenTieIzhikevich; proof by reference.
   This file contains nothing else, so the statement cannot be weakened quietly. *)
From Coq Require Import List ZArith Bool.
From Inferno Require Import Base.Num Gen.NeuronDynamics Gen.NeuronAdaptation Gen.NeuronApply Gen.NeuronClasses C03.Neuron C03.GenTieIzhikevich.
Import ListNotations.
Theorem tie_Izhikevich_forward_cell : forall (N : Num) (p : params N) (a : list (T N)) (lock : bool) (x v r : T N),
  cls_cell N Izhikevich p lock (cls_thresh N Izhikevich p a) (cls_input N Izhikevich a x)
    (v, r) =
  Izhikevich_forward_cell N (affinity N p) (crit_v N p) a r (refrac_t N p) 
    (reset_v N p) (resistance N p) (rest_v N p) (step_time N p) (time_constant N p)
    (thresh_v N p) v x lock.
Proof. exact (@Inferno.C03.GenTieIzhikevich.tie_Izhikevich_forward_cell). Qed.
Print Assumptions tie_Izhikevich_forward_cell.
