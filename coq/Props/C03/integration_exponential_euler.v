(* Obligation C03/integration_exponential_euler.  Statement as printed by Coq from Inferno.C03.EulerProofs; proof by reference.
   This file contains nothing else, so the statement cannot be weakened quietly. *)
From Coq Require Import List ZArith Bool Reals.
From Flocq Require Import Core.Raux.
From Inferno Require Import Base.Num Base.NumR Gen.NeuronDynamics Gen.NeuronAdaptation C03.Neuron C03.NeuronSpec C03.EulerProofs.
Import ListNotations.
Open Scope R_scope.
Theorem integration_exponential_euler : forall I v dt rest rheo D tau Rm : R,
  voltage_integration_exponential RN I v dt rest rheo D tau Rm =
  v + dt * ((- (v - rest) + D * Rtrigo_def.exp ((v - rheo) / D) + Rm * I) / tau).
Proof. exact (@Inferno.C03.EulerProofs.integration_exponential_euler). Qed.
Print Assumptions integration_exponential_euler.
