(* Obligation C03/tie_Izhikevich_forward_adapts.  Statement as printed by Coq from Inferno.C03.GenTieIzhikevich; proof by reference.
   This file contains nothing else, so the statement cannot be weakened quietly. *)
From Coq Require Import List ZArith Bool.
From Inferno Require Import Base.Num Gen.NeuronDynamics Gen.NeuronAdaptation Gen.NeuronApply Gen.NeuronClasses C03.Neuron C03.GenTieIzhikevich.
Import ListNotations.
Theorem tie_Izhikevich_forward_adapts : forall (adapt : option bool) (training : bool),
  eff_adapt adapt training = Izhikevich_forward_adapts adapt training.
Proof. exact (@Inferno.C03.GenTieIzhikevich.tie_Izhikevich_forward_adapts). Qed.
Print Assumptions tie_Izhikevich_forward_adapts.
