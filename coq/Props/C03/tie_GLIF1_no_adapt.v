(* Obligation C03/tie_GLIF1_no_adapt.  Statement as printed by Coq from Inferno.C03.GenTieGLIF1; proof by reference.
   This file contains nothing else, so the statement cannot be weakened quietly. *)
From Coq Require Import List ZArith Bool.
From Inferno Require Import Base.Num Gen.NeuronDynamics Gen.NeuronAdaptation Gen.NeuronApply Gen.NeuronClasses C03.Neuron C03.GenTieGLIF1.
Import ListNotations.
Theorem tie_GLIF1_no_adapt : forall (N : Num) (p : params N) (lock : bool) (a : list (T N)) (outs : list (cellout N)),
  cls_adapt N GLIF1 p lock a outs = a.
Proof. exact (@Inferno.C03.GenTieGLIF1.tie_GLIF1_no_adapt). Qed.
Print Assumptions tie_GLIF1_no_adapt.
