(* Obligation C03/clear_spec.  Statement as printed by Coq from Inferno.C03.RunProofs; proof by reference.
   This file contains nothing else, so the statement cannot be weakened quietly. *)
From Coq Require Import List ZArith Bool Reals.
From Flocq Require Import Core.Raux.
From Inferno Require Import Base.Num Base.NumR Gen.NeuronDynamics Gen.NeuronAdaptation C03.Neuron C03.NeuronSpec C03.RunProofs.
Import ListNotations.
Open Scope R_scope.
Theorem clear_spec : forall (c : cls) (p : params RN) (keep : bool) (cs : list (column RN)),
  all_cells (fun ce : cell RN => ce = (rest_v RN p, 0)) (clear RN c p keep cs) /\
  (has_adaptation c = true ->
   keep = false ->
   Forall (fun col : column RN => Forall (fun a : R => a = 0) (ad RN col))
     (clear RN c p keep cs)) /\
  (keep = true -> map (ad RN) (clear RN c p keep cs) = map (ad RN) cs) /\
  map (fun col : column RN => length (cells RN col)) (clear RN c p keep cs) =
  map (fun col : column RN => length (cells RN col)) cs.
Proof. exact (@Inferno.C03.RunProofs.clear_spec). Qed.
Print Assumptions clear_spec.
