(* Obligation C03/population_refractory_window_tight.  Statement as printed by Coq from Inferno.C03.NeuronProofs; proof by reference.
   This file contains nothing else, so the statement cannot be weakened quietly. *)
From Coq Require Import List ZArith Bool Reals.
From Flocq Require Import Core.Raux.
From Inferno Require Import Base.Num Base.NumR Gen.NeuronDynamics Gen.NeuronAdaptation C03.Neuron C03.NeuronSpec C03.NeuronProofs.
Import ListNotations.
Open Scope R_scope.
Theorem population_refractory_window_tight : forall (c : cls) (p : params RN),
  ctor_ok RN c p = true ->
  forall (cs : list (column RN)) (evs : list pev) (i b : nat),
  cell_at cs i b <> None ->
  shaped evs i b ->
  forall (t : nat) (rt : pres) (v r : T RN) (rprev : pres) (oprev : cellout RN) 
    (rn : pres) (o' : cellout RN) (adapt lock : bool) (xs : list (list R)) 
    (col : column RN) (x : R),
  nth_error (fwd_run c p cs evs) t = Some rt ->
  obs_at rt i b = Some (true, v, r) ->
  nth_error (fwd_run c p cs evs) (t + window p - 1) = Some rprev ->
  obs_at rprev i b = Some oprev ->
  nth_error (fwd_run c p cs evs) (t + window p) = Some rn ->
  obs_at rn i b = Some o' ->
  nth_error evs (t + window p) = Some (adapt, lock, xs) ->
  nth_error (snd rprev) i = Some col ->
  at2 xs i b = Some x ->
  o_spike RN o' = true <->
  cls_thresh RN c p (ad RN col) <=
  cls_integ RN c p (o_v RN oprev) (cls_input RN c (ad RN col) x).
Proof. exact (@Inferno.C03.NeuronProofs.population_refractory_window_tight). Qed.
Print Assumptions population_refractory_window_tight.
