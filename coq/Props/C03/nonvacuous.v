(* Obligation C03/nonvacuous: the hypotheses of the C03 theorems (constructor domain, a cell that exists, inputs of
   the population's shape, a spike at some step, a refractory window longer than one step, refrac <= refrac_t) are
   met by a concrete population: a freshly constructed QIF group (1 neuron, batch 2, dt = 1, refrac_t = 2.5, so the
   window is 3 steps) driven by a strong current spikes in its first step. *)
From Coq Require Import List ZArith Bool Reals Lra Lia.
From Flocq Require Import Core.Raux.
From Inferno Require Import Base.Num Base.NumR Gen.NeuronDynamics Gen.NeuronAdaptation C03.Neuron C03.NeuronSpec
  C03.ThresholdProofs C03.EulerProofs C03.NeuronProofs.
Import ListNotations.
Open Scope R_scope.

Definition pq : params RN :=
  mkParams (N := RN) 1 (-4) (-6) 0 0 2 (5 / 2) 2 1 (-2) (1 / 2) 0 0 [] [] [].
Definition cs0 := cols RN (init RN QIF pq 1 2).
Definition evs0 : list pev := [(false, true, [[0; 100]]); (false, true, [[0; 100]]); (false, true, [[0; 100]]); (false, true, [[0; 100]])].

Theorem nonvacuous :
  ctor_ok RN QIF pq = true /\ window pq = 3%nat /\ 0 < refrac_t RN pq /\
  cell_at cs0 0 1 <> None /\ shaped evs0 0 1 /\ all_cells (fun ce => snd ce <= refrac_t RN pq) cs0 /\
  exists rt, nth_error (fwd_run QIF pq cs0 evs0) 0 = Some rt /\ obs_at rt 0 1 = Some (true, -6, 5 / 2).
Proof.
  assert (Hok : ctor_ok RN QIF pq = true).
  { unfold ctor_ok, ctor_common, pq. rn_unfold. cbn.
    repeat match goal with
    | |- context [Rltb' ?a ?b] => destruct (Rltb'_spec a b); [|lra]
    | |- context [Rleb' ?a ?b] => destruct (Rleb'_spec a b); [|lra]
    | |- context [Reqb' ?a ?b] => destruct (Reqb'_spec a b); [lra|]
    end. reflexivity. }
  split; [exact Hok|]. split.
  { unfold window, pq. cbn [refrac_t step_time]. replace (Zceil (5 / 2 / 1)) with 3%Z; [reflexivity|].
    symmetry. apply Zceil_imp. cbn. lra. }
  split; [unfold pq; cbn; lra|]. split; [cbv; discriminate|]. split.
  { unfold shaped, evs0. repeat constructor; cbv; discriminate. }
  split; [apply (init_refrac_le QIF pq Hok)|].
  eexists. split; [reflexivity|].
  unfold obs_at, at2, cell_at, cs0, init, forward. cbn [cols repeat map2 map fst snd has_adaptation nth_error].
  unfold col_forward, col_outs. cbn [cells ad map2 map fst snd nth_error].
  rewrite !cls_cell_spec. unfold thr_spec, cls_thresh, cls_integ, cls_input, integrate_quadratic, reset_of, pq.
  cbn [thresh_v step_time time_constant rest_v resistance refrac_t crit_v affinity reset_v].
  rewrite !integration_quadratic_euler. rn_simpl.
  destruct (Rle_dec (0 - 1) 0) as [_|H]; [|lra].
  destruct (Rle_dec 2 _) as [_|H]; [|lra].
  unfold o_spike, o_cell, o_v, o_r. cbn [fst snd]. reflexivity.
Qed.
Print Assumptions nonvacuous.
