(* Obligation C03/tie_ALIF_integrate_v.  Statement as printed by Coq from Inferno.C03.GenTieALIF; proof by reference.
   This file contains nothing else, so the statement cannot be weakened quietly. *)
From Coq Require Import List ZArith Bool.
From Inferno Require Import Base.Num Gen.NeuronDynamics Gen.NeuronAdaptation Gen.NeuronApply Gen.NeuronClasses C03.Neuron C03.GenTieALIF.
Import ListNotations.
Theorem tie_ALIF_integrate_v : forall (N : Num) (p : params N) (v masked_inputs : T N),
  cls_integ N ALIF p v masked_inputs =
  ALIF_integrate_v N (resistance N p) (rest_v N p) (step_time N p) 
    (time_constant N p) v masked_inputs.
Proof. exact (@Inferno.C03.GenTieALIF.tie_ALIF_integrate_v). Qed.
Print Assumptions tie_ALIF_integrate_v.
