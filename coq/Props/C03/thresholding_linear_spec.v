(* Obligation C03/thresholding_linear_spec.  Statement as printed by Coq from Inferno.C03.ThresholdProofs; proof by reference.
   This file contains nothing else, so the statement cannot be weakened quietly. *)
From Coq Require Import List ZArith Bool Reals.
From Flocq Require Import Core.Raux.
From Inferno Require Import Base.Num Base.NumR Gen.NeuronDynamics Gen.NeuronAdaptation C03.Neuron C03.NeuronSpec C03.ThresholdProofs.
Import ListNotations.
Open Scope R_scope.
Theorem thresholding_linear_spec : forall (x r : T RN) (dyn : T RN -> T RN) (held : option (T RN))
    (dt rest slope intercept th Rt : T RN),
  voltage_thresholding_linear RN x r dyn held dt rest slope intercept th Rt =
  thr_spec (fun v : R => rest + slope * (v - rest) - intercept) x r dyn held dt th Rt.
Proof. exact (@Inferno.C03.ThresholdProofs.thresholding_linear_spec). Qed.
Print Assumptions thresholding_linear_spec.
