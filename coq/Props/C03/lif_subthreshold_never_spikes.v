(* Obligation C03/lif_subthreshold_never_spikes.  Statement as printed by Coq from Inferno.C03.RunProofs; proof by reference.
   This file contains nothing else, so the statement cannot be weakened quietly. *)
From Coq Require Import List ZArith Bool Reals.
From Flocq Require Import Core.Raux.
From Inferno Require Import Base.Num Base.NumR Gen.NeuronDynamics Gen.NeuronAdaptation C03.Neuron C03.NeuronSpec C03.RunProofs.
Import ListNotations.
Open Scope R_scope.
Theorem lif_subthreshold_never_spikes : forall (c : cls) (p : params RN),
  c = LIF \/ c = GLIF1 ->
  ctor_ok RN c p = true ->
  forall (evs : list cev) (ce : R * T RN),
  fst ce < thresh_v RN p ->
  Forall
    (fun e : cev =>
     snd (fst e) = thresh_v RN p /\ rest_v RN p + resistance RN p * snd e < thresh_v RN p) evs ->
  Forall (fun o : cellout RN => o_spike RN o = false /\ o_v RN o < thresh_v RN p)
    (cell_run c p ce evs).
Proof. exact (@Inferno.C03.RunProofs.lif_subthreshold_never_spikes). Qed.
Print Assumptions lif_subthreshold_never_spikes.
