(* Obligation C03/cell_spike_resets.  Statement as printed by Coq from Inferno.C03.NeuronProofs; proof by reference.
   This file contains nothing else, so the statement cannot be weakened quietly. *)
From Coq Require Import List ZArith Bool Reals.
From Flocq Require Import Core.Raux.
From Inferno Require Import Base.Num Base.NumR Gen.NeuronDynamics Gen.NeuronAdaptation C03.Neuron C03.NeuronSpec C03.NeuronProofs.
Import ListNotations.
Open Scope R_scope.
Theorem cell_spike_resets : forall (c : cls) (p : params RN) (lock : bool) (th x v r : T RN),
  let o := cls_cell RN c p lock th x (v, r) in
  o_spike RN o = true ->
  o_v RN o = reset_of c p (cls_integ RN c p v x) /\ o_r RN o = refrac_t RN p.
Proof. exact (@Inferno.C03.NeuronProofs.cell_spike_resets). Qed.
Print Assumptions cell_spike_resets.
