(* Obligation C03/integration_quadratic_euler.  Statement as printed by Coq from Inferno.C03.EulerProofs; proof by reference.
   This file contains nothing else, so the statement cannot be weakened quietly. *)
From Coq Require Import List ZArith Bool Reals.
From Flocq Require Import Core.Raux.
From Inferno Require Import Base.Num Base.NumR Gen.NeuronDynamics Gen.NeuronAdaptation C03.Neuron C03.NeuronSpec C03.EulerProofs.
Import ListNotations.
Open Scope R_scope.
Theorem integration_quadratic_euler : forall I v dt rest crit a tau Rm : R,
  voltage_integration_quadratic RN I v dt rest crit a tau Rm =
  v + dt * ((a * (v - rest) * (v - crit) + Rm * I) / tau).
Proof. exact (@Inferno.C03.EulerProofs.integration_quadratic_euler). Qed.
Print Assumptions integration_quadratic_euler.
