(* Obligation C03/clear_refrac_le.  Statement as printed by Coq from Inferno.C03.NeuronProofs; proof by reference.
   This file contains nothing else, so the statement cannot be weakened quietly. *)
From Coq Require Import List ZArith Bool Reals.
From Flocq Require Import Core.Raux.
From Inferno Require Import Base.Num Base.NumR Gen.NeuronDynamics Gen.NeuronAdaptation C03.Neuron C03.NeuronSpec C03.NeuronProofs.
Import ListNotations.
Open Scope R_scope.
Theorem clear_refrac_le : forall (c : cls) (p : params RN),
  ctor_ok RN c p = true ->
  forall (keep : bool) (cs : list (column RN)),
  all_cells (fun ce : cell RN => snd ce <= refrac_t RN p) (clear RN c p keep cs).
Proof. exact (@Inferno.C03.NeuronProofs.clear_refrac_le). Qed.
Print Assumptions clear_refrac_le.
