(* Obligation C03/tie_ALIF_forward_cell.  Statement as printed by Coq from Inferno.C03.GenTieALIF; proof by reference.
   This file contains nothing else, so the statement cannot be weakened quietly. *)
From Coq Require Import List ZArith Bool.
From Inferno Require Import Base.Num Gen.NeuronDynamics Gen.NeuronAdaptation Gen.NeuronApply Gen.NeuronClasses C03.Neuron C03.GenTieALIF.
Import ListNotations.
Theorem tie_ALIF_forward_cell : forall (N : Num) (p : params N) (a : list (T N)) (lock : bool) (x v r : T N),
  cls_cell N ALIF p lock (cls_thresh N ALIF p a) (cls_input N ALIF a x) (v, r) =
  ALIF_forward_cell N r (refrac_t N p) (reset_v N p) (resistance N p) 
    (rest_v N p) (step_time N p) (time_constant N p) (thresh_v N p) a v x lock.
Proof. exact (@Inferno.C03.GenTieALIF.tie_ALIF_forward_cell). Qed.
Print Assumptions tie_ALIF_forward_cell.
