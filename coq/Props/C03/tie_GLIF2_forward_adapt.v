(* Obligation C03/tie_GLIF2_forward_adapt.  Statement as printed by Coq from Inferno.C03.GenTieGLIF2; proof by reference.
   This file contains nothing else, so the statement cannot be weakened quietly. *)
From Coq Require Import List ZArith Bool.
From Inferno Require Import Base.Num Gen.NeuronDynamics Gen.NeuronAdaptation Gen.NeuronApply Gen.NeuronClasses C03.Neuron C03.GenTieGLIF2.
Import ListNotations.
Theorem tie_GLIF2_forward_adapt : forall (N : Num) (p : params N) (lock : bool) (a : list (T N)) (outs : list (cellout N)),
  cls_adapt N GLIF2 p lock a outs =
  map3
    (fun a_k rc_k inc_k : T N =>
     batch_mean N
       (map
          (fun o : cellout N =>
           GLIF2_forward_adapt N inc_k rc_k (step_time N p) a_k (o_spike N o) 
             (o_v N o) (o_r N o) lock) outs)) a (tc_adaptation N p) 
    (adapt_increment N p).
Proof. exact (@Inferno.C03.GenTieGLIF2.tie_GLIF2_forward_adapt). Qed.
Print Assumptions tie_GLIF2_forward_adapt.
