(* Obligation C03/tie_QIF_clear.  Statement as printed by Coq from Inferno.C03.GenTieQIF; proof by reference.
   This file contains nothing else, so the statement cannot be weakened quietly. *)
From Coq Require Import List ZArith Bool.
From Inferno Require Import Base.Num Gen.NeuronDynamics Gen.NeuronAdaptation Gen.NeuronApply Gen.NeuronClasses C03.Neuron C03.GenTieQIF.
Import ListNotations.
Theorem tie_QIF_clear : forall (N : Num) (p : params N) (keep : bool) (cs : list (column N)),
  clear N QIF p keep cs =
  map
    (fun col : column N =>
     {|
       ad := ad N col;
       cells := map (fun _ : cell N => QIF_clear_cell N (rest_v N p)) (cells N col)
     |}) cs.
Proof. exact (@Inferno.C03.GenTieQIF.tie_QIF_clear). Qed.
Print Assumptions tie_QIF_clear.
