(* Obligation C03/run_from_init_refrac_bounds.  Statement as printed by Coq from Inferno.C03.RunProofs; proof by reference.
   This file contains nothing else, so the statement cannot be weakened quietly. *)
From Coq Require Import List ZArith Bool Reals.
From Flocq Require Import Core.Raux.
From Inferno Require Import Base.Num Base.NumR Gen.NeuronDynamics Gen.NeuronAdaptation C03.Neuron C03.NeuronSpec C03.RunProofs.
Import ListNotations.
Open Scope R_scope.
Theorem run_from_init_refrac_bounds : forall (c : cls) (p : params RN),
  ctor_ok RN c p = true ->
  forall (n b : nat) (ops : list (op RN)),
  Forall (op_bounded p) ops ->
  Forall (fun r : option (list (list bool)) * nstate RN => bounded p (cols RN (snd r)))
    (run RN c p (init RN c p n b) ops).
Proof. exact (@Inferno.C03.RunProofs.run_from_init_refrac_bounds). Qed.
Print Assumptions run_from_init_refrac_bounds.
