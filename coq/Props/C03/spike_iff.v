(* Obligation C03/spike_iff.  Statement as printed by Coq from Inferno.C03.ThresholdProofs; proof by reference.
   This file contains nothing else, so the statement cannot be weakened quietly. *)
From Coq Require Import List ZArith Bool Reals.
From Flocq Require Import Core.Raux.
From Inferno Require Import Base.Num Base.NumR Gen.NeuronDynamics Gen.NeuronAdaptation C03.Neuron C03.NeuronSpec C03.ThresholdProofs.
Import ListNotations.
Open Scope R_scope.
Theorem spike_iff : forall (x r : T RN) (dyn : T RN -> T RN) (held : option (T RN)) (dt th Rt : T RN),
  (forall reset : T RN,
   fst (fst (voltage_thresholding_constant RN x r dyn held dt reset th Rt)) = true <->
   Rmax (r - dt) 0 = 0 /\ th <= dyn x) /\
  (forall rest slope icpt : T RN,
   fst (fst (voltage_thresholding_linear RN x r dyn held dt rest slope icpt th Rt)) = true <->
   Rmax (r - dt) 0 = 0 /\ th <= dyn x).
Proof. exact (@Inferno.C03.ThresholdProofs.spike_iff). Qed.
Print Assumptions spike_iff.
