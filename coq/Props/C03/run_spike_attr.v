(* Obligation C03/run_spike_attr.  Statement as printed by Coq from Inferno.C03.RunProofs; proof by reference.
   This file contains nothing else, so the statement cannot be weakened quietly. *)
From Coq Require Import List ZArith Bool Reals.
From Flocq Require Import Core.Raux.
From Inferno Require Import Base.Num Base.NumR Gen.NeuronDynamics Gen.NeuronAdaptation C03.Neuron C03.NeuronSpec C03.RunProofs.
Import ListNotations.
Open Scope R_scope.
Theorem run_spike_attr : forall (c : cls) (p : params RN),
  ctor_ok RN c p = true ->
  0 < refrac_t RN p ->
  forall (ops : list (op RN)) (s : nstate RN),
  Forall (op_bounded p) ops ->
  bounded p (cols RN s) ->
  Forall
    (fun r : option (list (list bool)) * nstate RN =>
     match fst r with
     | Some returned => spike_attr RN p (cols RN (snd r)) = returned
     | None => True
     end) (run RN c p s ops).
Proof. exact (@Inferno.C03.RunProofs.run_spike_attr). Qed.
Print Assumptions run_spike_attr.
