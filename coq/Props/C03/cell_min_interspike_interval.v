(* Obligation C03/cell_min_interspike_interval.  Statement as printed by Coq from Inferno.C03.RunProofs; proof by reference.
   This file contains nothing else, so the statement cannot be weakened quietly. *)
From Coq Require Import List ZArith Bool Reals.
From Flocq Require Import Core.Raux.
From Inferno Require Import Base.Num Base.NumR Gen.NeuronDynamics Gen.NeuronAdaptation C03.Neuron C03.NeuronSpec C03.RunProofs.
Import ListNotations.
Open Scope R_scope.
Theorem cell_min_interspike_interval : forall (c : cls) (p : params RN),
  ctor_ok RN c p = true ->
  forall (ce : cell RN) (evs : list cev) (t1 t2 : nat) (o1 o2 : cellout RN),
  (t1 < t2)%nat ->
  nth_error (cell_run c p ce evs) t1 = Some o1 ->
  o_spike RN o1 = true ->
  nth_error (cell_run c p ce evs) t2 = Some o2 ->
  o_spike RN o2 = true -> (t1 + window p <= t2)%nat.
Proof. exact (@Inferno.C03.RunProofs.cell_min_interspike_interval). Qed.
Print Assumptions cell_min_interspike_interval.
