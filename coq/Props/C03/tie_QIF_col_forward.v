(* Obligation C03/tie_QIF_col_forward.  Statement as printed by Coq from Inferno.C03.GenTieQIF; proof by reference.
   This file contains nothing else, so the statement cannot be weakened quietly. *)
From Coq Require Import List ZArith Bool.
From Inferno Require Import Base.Num Gen.NeuronDynamics Gen.NeuronAdaptation Gen.NeuronApply Gen.NeuronClasses C03.Neuron C03.GenTieQIF.
Import ListNotations.
Theorem tie_QIF_col_forward : forall (N : Num) (p : params N) (adapt lock : bool) (col : column N) (xs : list (T N)),
  col_forward N QIF p adapt lock col xs =
  (let outs :=
     map2
       (fun (x : T N) (ce : cell N) =>
        QIF_forward_cell N (affinity N p) (crit_v N p) (snd ce) (refrac_t N p) 
          (reset_v N p) (resistance N p) (rest_v N p) (step_time N p) 
          (thresh_v N p) (time_constant N p) (fst ce) x lock) xs (cells N col) in
   (map (o_spike N) outs, {| ad := ad N col; cells := map (o_cell N) outs |})).
Proof. exact (@Inferno.C03.GenTieQIF.tie_QIF_col_forward). Qed.
Print Assumptions tie_QIF_col_forward.
